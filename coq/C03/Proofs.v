(* C03 — lemmas about the unzip model (GU.C03.Model).  Everything is by induction over the (nested) archive structure:
   per-entry invariants of [entry_eff] are lifted through the loop [run] and through [open_archive] to nested archives of
   any depth and fan-out. *)
From Coq Require Import List ZArith Bool Lia.
Import ListNotations.
From GU Require Import C03.Model C03.Concrete.
Local Open Scope Z_scope.

(* ---- induction principle for the nested inductive [entry] ---- *)
Fixpoint entry_ind' (P : entry -> Prop)
  (Hd : forall d, P (EDir d))
  (Hf : forall d zn decl act crc op b rmok nested, Forall P nested -> P (EFile d zn decl act crc op b rmok nested))
  (e : entry) {struct e} : P e :=
  match e with
  | EDir d => Hd d
  | EFile d zn decl act crc op b rmok nested =>
      Hf d zn decl act crc op b rmok nested
         ((fix go (l : list entry) : Forall P l :=
             match l with
             | [] => Forall_nil P
             | x :: xs => Forall_cons x (entry_ind' P Hd Hf x) (go xs)
             end) nested)
  end.

Lemma Forall_map_intro {A B} (Q : B -> Prop) (f : A -> B) (l : list A) :
  Forall (fun x => Q (f x)) l -> Forall Q (map f l).
Proof. induction 1; simpl; constructor; auto. Qed.

Lemma Forall_map_elim {A B} (Q : B -> Prop) (f : A -> B) (l : list A) :
  Forall Q (map f l) -> Forall (fun x => Q (f x)) l.
Proof. induction l; simpl; intros H; inversion H; subst; constructor; auto. Qed.

Lemma Forall_impl2 {A} (P Q R : A -> Prop) (l : list A) :
  (forall x, P x -> Q x -> R x) -> Forall P l -> Forall Q l -> Forall R l.
Proof. intros H HP; induction HP; intros HQ; inversion HQ; subst; constructor; auto. Qed.

Lemma files_total_app a b : files_total (a ++ b) = files_total a + files_total b.
Proof. induction a as [|[d|d s] a IH]; simpl; rewrite ?IH; lia. Qed.

Lemma nfiles_app a b : nfiles (a ++ b) = nfiles a + nfiles b.
Proof.
  induction a as [|n a IH]; [reflexivity|].
  change ((n :: a) ++ b) with (n :: (a ++ b)).
  destruct n; [change (nfiles (a ++ b) = nfiles a + nfiles b); exact IH|].
  change (1 + nfiles (a ++ b) = 1 + nfiles a + nfiles b). lia.
Qed.

Lemma nfiles_nonneg a : 0 <= nfiles a.
Proof.
  induction a as [|n a IH]; [simpl; lia|].
  destruct n; [exact IH|]. change (0 <= 1 + nfiles a). lia.
Qed.

Lemma files_total_parent base d : files_total (parent_dir base d) = 0.
Proof. unfold parent_dir; destruct (0 <? d); reflexivity. Qed.

Lemma nfiles_parent base d : nfiles (parent_dir base d) = 0.
Proof. unfold parent_dir; destruct (0 <? d); reflexivity. Qed.

Lemma count0_nonneg lim zn : 0 <= count0 lim zn.
Proof. unfold count0; destruct (recursive lim && zn); lia. Qed.

Lemma count01 lim zn : count0 lim zn + count1 lim zn = 1.
Proof. unfold count0, count1; destruct (recursive lim && zn); lia. Qed.

Lemma wfb_file d zn decl act crc op b rmok nested :
  wfb (EFile d zn decl act crc op b rmok nested) = true ->
  0 <= d /\ 0 <= decl < 2 ^ 64 /\ 0 <= act /\ Forall (fun e => wfb e = true) nested.
Proof.
  simpl. rewrite !andb_true_iff. intros [[[[H1 H2] H3] H4] H5].
  rewrite forallb_forall in H5. rewrite Forall_forall.
  apply Z.leb_le in H1, H2, H4. apply Z.ltb_lt in H3. repeat split; assumption.
Qed.

Lemma i64_cases u : 0 <= u < 2 ^ 64 -> (i64 u = u /\ u < 2 ^ 63) \/ (i64 u < 0 /\ 2 ^ 63 <= u).
Proof. intros H. unfold i64. destruct (Z.ltb_spec u (2 ^ 63)); [left|right]; lia. Qed.

(* case analysis of one loop iteration *)
Ltac break_eff :=
  repeat match goal with
  | |- context [if ?c then _ else _] => let E := fresh "E" in destruct c eqn:E
  | |- context [match r_kind ?r with _ => _ end] => let E := fresh "K" in destruct (r_kind r) eqn:E
  end.

(* ======================================================================================================== *)
(* The loop                                                                                                 *)
(* ======================================================================================================== *)

Section Loop.
  Variable lim : limits.

  (* nodes / writes accumulate: what holds of every piece holds of the result, whatever the result kind *)
  Lemma run_nodes_Forall (Q : node -> Prop) effs : forall cnt tot ns ws,
    Forall (fun f => Forall Q (f_nodes f)) effs -> Forall Q ns ->
    Forall Q (r_nodes (run lim effs cnt tot ns ws)).
  Proof.
    induction effs as [|f fs IH]; intros cnt tot ns ws Hall Hns; simpl; [exact Hns|].
    inversion Hall as [|? ? Hf Hfs]; subst.
    assert (Hn' : Forall Q (ns ++ f_nodes f)) by (apply Forall_app; split; assumption).
    destruct (f_stop f); simpl; [exact Hn'|].
    destruct (f_check f && (tot + f_tot f >? max_total lim)); simpl; [exact Hn'|].
    destruct (f_check f && (cnt + f_cnt f >? max_count lim)); simpl; [exact Hn'|].
    apply IH; assumption.
  Qed.

  Lemma run_writes_Forall (Q : wr -> Prop) effs : forall cnt tot ns ws,
    Forall (fun f => Forall Q (f_writes f)) effs -> Forall Q ws ->
    Forall Q (r_writes (run lim effs cnt tot ns ws)).
  Proof.
    induction effs as [|f fs IH]; intros cnt tot ns ws Hall Hws; simpl; [exact Hws|].
    inversion Hall as [|? ? Hf Hfs]; subst.
    assert (Hw' : Forall Q (ws ++ f_writes f)) by (apply Forall_app; split; assumption).
    destruct (f_stop f); simpl; [exact Hw'|].
    destruct (f_check f && (tot + f_tot f >? max_total lim)); simpl; [exact Hw'|].
    destruct (f_check f && (cnt + f_cnt f >? max_count lim)); simpl; [exact Hw'|].
    apply IH; assumption.
  Qed.

  (* the only errors the loop itself raises are 'too large' *)
  Lemma run_kind (Q : option ek -> Prop) effs : forall cnt tot ns ws,
    Q None -> Q (Some TooLarge) -> Forall (fun f => Q (f_stop f)) effs ->
    Q (r_kind (run lim effs cnt tot ns ws)).
  Proof.
    induction effs as [|f fs IH]; intros cnt tot ns ws Hok Htl Hall; simpl; [exact Hok|].
    inversion Hall as [|? ? Hf Hfs]; subst.
    destruct (f_stop f) eqn:Es; simpl; [exact Hf|].
    destruct (f_check f && (tot + f_tot f >? max_total lim)); simpl; [exact Htl|].
    destruct (f_check f && (cnt + f_cnt f >? max_count lim)); simpl; [exact Htl|].
    apply IH; assumption.
  Qed.

  (* success: no entry stopped the loop, and everything every entry left is in the result *)
  Lemma run_ok_all effs : forall cnt tot ns ws,
    r_kind (run lim effs cnt tot ns ws) = None ->
    Forall (fun f => f_stop f = None) effs
    /\ r_nodes (run lim effs cnt tot ns ws) = ns ++ flat_map f_nodes effs.
  Proof.
    induction effs as [|f fs IH]; intros cnt tot ns ws H; simpl in *.
    - split; [constructor | now rewrite app_nil_r].
    - destruct (f_stop f) eqn:Es; simpl in H; [discriminate|].
      destruct (f_check f && (tot + f_tot f >? max_total lim)); simpl in H; [discriminate|].
      destruct (f_check f && (cnt + f_cnt f >? max_count lim)); simpl in H; [discriminate|].
      destruct (IH _ _ _ _ H) as [IH1 IH2]. split; [constructor; assumption|].
      rewrite IH2, <- app_assoc. reflexivity.
  Qed.

  (* total size accounting: on success the bytes on disk are exactly the counted total, and the total passed the
     check after the last regular file *)
  Definition tot_ok (f : eff) : Prop :=
    f_stop f = None -> files_total (f_nodes f) = f_tot f /\ (f_check f = false -> f_tot f = 0).

  Lemma run_tot effs : forall cnt tot ns ws,
    Forall tot_ok effs ->
    r_kind (run lim effs cnt tot ns ws) = None ->
    files_total (r_nodes (run lim effs cnt tot ns ws)) = files_total ns + (r_tot (run lim effs cnt tot ns ws) - tot)
    /\ (r_tot (run lim effs cnt tot ns ws) = tot \/ r_tot (run lim effs cnt tot ns ws) <= max_total lim).
  Proof.
    induction effs as [|f fs IH]; intros cnt tot ns ws Hall H; simpl in *.
    - split; [lia | left; reflexivity].
    - inversion Hall as [|? ? Hf Hfs]; subst.
      destruct (f_stop f) eqn:Es; simpl in H; [discriminate|].
      destruct (Hf Es) as [Hf1 Hf2].
      destruct (f_check f && (tot + f_tot f >? max_total lim)) eqn:C1; simpl in H; [discriminate|].
      destruct (f_check f && (cnt + f_cnt f >? max_count lim)) eqn:C2; simpl in H; [discriminate|].
      destruct (IH (cnt + f_cnt f) (tot + f_tot f) (ns ++ f_nodes f) (ws ++ f_writes f) Hfs H) as [IH1 IH2].
      rewrite IH1, files_total_app. split; [lia|].
      destruct IH2 as [IH2|IH2]; [|right; exact IH2].
      destruct (f_check f) eqn:Ck.
      + simpl in C1. right. rewrite IH2. lia.
      + left. rewrite IH2, (Hf2 eq_refl). lia.
  Qed.

  (* file count accounting: regular files on disk never exceed the counter, and the counter passed the check
     after the last regular file *)
  Definition cnt_ok (f : eff) : Prop :=
    f_stop f = None -> nfiles (f_nodes f) <= f_cnt f /\ (f_check f = false -> nfiles (f_nodes f) = 0).

  Lemma run_cnt effs : forall cnt tot ns ws,
    Forall cnt_ok effs ->
    nfiles ns <= cnt -> (nfiles ns = 0 \/ nfiles ns <= max_count lim) ->
    r_kind (run lim effs cnt tot ns ws) = None ->
    nfiles (r_nodes (run lim effs cnt tot ns ws)) <= r_cnt (run lim effs cnt tot ns ws)
    /\ (nfiles (r_nodes (run lim effs cnt tot ns ws)) = 0 \/ nfiles (r_nodes (run lim effs cnt tot ns ws)) <= max_count lim).
  Proof.
    induction effs as [|f fs IH]; intros cnt tot ns ws Hall Hle Hinv H; simpl in *.
    - split; assumption.
    - inversion Hall as [|? ? Hf Hfs]; subst.
      destruct (f_stop f) eqn:Es; simpl in H; [discriminate|].
      destruct (Hf Es) as [Hf1 Hf2].
      destruct (f_check f && (tot + f_tot f >? max_total lim)) eqn:C1; simpl in H; [discriminate|].
      destruct (f_check f && (cnt + f_cnt f >? max_count lim)) eqn:C2; simpl in H; [discriminate|].
      apply IH; try assumption.
      + rewrite nfiles_app. lia.
      + rewrite nfiles_app. destruct (f_check f) eqn:Ck.
        * simpl in C2. right. lia.
        * rewrite (Hf2 eq_refl). destruct Hinv; [left|right]; lia.
  Qed.
End Loop.

(* ======================================================================================================== *)
(* open_archive: either refused before anything happens, or the loop                                        *)
(* ======================================================================================================== *)

Lemma open_archive_cases lim cur asize rd dd effs :
  (open_archive lim cur asize rd dd effs = mkRes (Some TooLarge) 0 0 [] [] /\ (too_deep lim cur = true \/ asize > max_file lim))
  \/ (open_archive lim cur asize rd dd effs = mkRes (Some Other) 0 0 [] [] /\ rd = false)
  \/ (open_archive lim cur asize rd dd effs = run lim effs 0 0 dd [] /\ asize <= max_file lim /\ rd = true /\ too_deep lim cur = false).
Proof.
  unfold open_archive, too_deep.
  destruct ((0 <=? max_depth lim) && (cur >? max_depth lim)) eqn:E1; [left; auto|].
  destruct (Z.gtb_spec asize (max_file lim)); [left; split; auto; right; lia|].
  destruct rd; simpl; [right; right; repeat split; auto; lia | right; left; auto].
Qed.

(* ======================================================================================================== *)
(* Per-entry invariants, by induction over the nesting                                                      *)
(* ======================================================================================================== *)

Section Entries.
  Variable lim : limits.

  (* ---- total size and file count ---- *)
  Lemma file_eff_tot_cnt cur base d zn decl act crc op b rmok sub :
    (forall c b', Forall (tot_ok) (sub c b') /\ Forall (cnt_ok) (sub c b')) ->
    tot_ok (file_eff lim cur base d zn decl act crc op b rmok sub) /\ cnt_ok (file_eff lim cur base d zn decl act crc op b rmok sub).
  Proof.
    intros Hsub. unfold tot_ok, cnt_ok, file_eff. cbv zeta.
    destruct (too_deep lim (entry_depth lim cur d)); [split; simpl; discriminate|].
    destruct ((max_depth lim >? 0) && (entry_depth lim cur d >? max_depth lim)); [split; simpl; discriminate|].
    destruct (negb op); [split; simpl; discriminate|].
    destruct (i64 decl >? max_file lim); [split; simpl; discriminate|].
    destruct (negb ((i64 decl =? act) && crc)) eqn:Ht; [split; simpl; discriminate|].
    apply negb_false_iff, andb_true_iff in Ht. destruct Ht as [Ht _]. apply Z.eqb_eq in Ht.
    assert (Hw : copied (i64 decl) act = to_u64 (i64 decl)).
    { unfold copied, to_u64. destruct (i64 decl <? 0); [reflexivity|lia]. }
    destruct (recursive lim && zn && negb (is_plain b)).
    - set (r := open_archive lim _ _ _ _ _).
      destruct (r_kind r) eqn:K; [split; simpl; discriminate|].
      destruct rmok; [|split; simpl; discriminate].
      destruct (open_archive_cases lim (entry_depth lim cur d + 1) (copied (i64 decl) act) (is_good b) [NDir (base + d)]
                  (sub (entry_depth lim cur d + 1) (base + d + 1))) as [[E _]|[[E _]|[E _]]];
        fold r in E; try (rewrite E in K; discriminate).
      destruct (Hsub (entry_depth lim cur d + 1) (base + d + 1)) as [Ht1 Hc1].
      rewrite E in K.
      pose proof (run_tot lim _ 0 0 [NDir (base + d)] [] Ht1 K) as [T1 _].
      pose proof (run_cnt lim _ 0 0 [NDir (base + d)] [] Hc1 ltac:(simpl; lia) ltac:(left; reflexivity) K) as [C1 _].
      rewrite <- E in T1, C1. simpl in T1.
      pose proof (count0_nonneg lim zn).
      split; simpl; intros _; (split; [|discriminate]).
      + rewrite files_total_app, files_total_parent. lia.
      + rewrite nfiles_app, nfiles_parent. lia.
    - pose proof (count01 lim zn).
      replace (if recursive lim then to_u64 (i64 decl) else to_u64 (i64 decl)) with (to_u64 (i64 decl)) by (destruct (recursive lim); reflexivity).
      split; simpl; intros _; (split; [|discriminate]).
      + rewrite files_total_app, files_total_parent. simpl. lia.
      + rewrite nfiles_app, nfiles_parent. simpl. lia.
  Qed.

  Lemma dir_eff_tot_cnt cur base d : tot_ok (dir_eff lim cur base d) /\ cnt_ok (dir_eff lim cur base d).
  Proof.
    unfold tot_ok, cnt_ok, dir_eff. destruct (too_deep lim (entry_depth lim cur d)); simpl; split; try discriminate;
      intros _; split; auto; lia.
  Qed.

  Lemma entry_tot_cnt e : forall cur base, tot_ok (entry_eff lim cur base e) /\ cnt_ok (entry_eff lim cur base e).
  Proof.
    induction e as [d|d zn decl act crc op b rmok nested IH] using entry_ind'; intros cur base; simpl.
    - apply dir_eff_tot_cnt.
    - apply file_eff_tot_cnt. intros c b'. split; apply Forall_map_intro;
        (eapply Forall_impl; [|exact IH]); intros e He; apply He.
  Qed.

  (* ---- sizes: every file created, at every moment, is within the per-file limit and its declared size ---- *)
  Definition wr_ok (w : wr) : Prop := 0 <= w_written w <= max_file lim /\ w_written w <= w_declared w.
  Definition node_size_ok (n : node) : Prop := match n with NFile _ s => 0 <= s <= max_file lim | NDir _ => True end.
  Definition size_ok (f : eff) : Prop := Forall wr_ok (f_writes f) /\ Forall node_size_ok (f_nodes f).

  Lemma parent_size_ok base d : Forall node_size_ok (parent_dir base d).
  Proof. unfold parent_dir; destruct (0 <? d); repeat constructor. Qed.

  Lemma open_archive_size_ok cur asize rd dd effs :
    Forall size_ok effs -> Forall node_size_ok dd ->
    Forall wr_ok (r_writes (open_archive lim cur asize rd dd effs)) /\
    Forall node_size_ok (r_nodes (open_archive lim cur asize rd dd effs)).
  Proof.
    intros He Hd.
    destruct (open_archive_cases lim cur asize rd dd effs) as [[E _]|[[E _]|[E _]]]; rewrite E; simpl; auto.
    split.
    - apply run_writes_Forall; [|constructor]. eapply Forall_impl; [|exact He]. intros f [H _]; exact H.
    - apply run_nodes_Forall; [|exact Hd]. eapply Forall_impl; [|exact He]. intros f [_ H]; exact H.
  Qed.

  Lemma file_eff_size cur base d zn decl act crc op b rmok sub :
    0 <= max_file lim -> 0 <= decl < 2 ^ 64 -> 0 <= act ->
    (forall c b', Forall size_ok (sub c b')) ->
    size_ok (file_eff lim cur base d zn decl act crc op b rmok sub).
  Proof.
    intros Hm Hdecl Hact Hsub. unfold size_ok, file_eff. cbv zeta.
    assert (Hz : wr_ok (mkWr decl 0)) by (unfold wr_ok; simpl; lia).
    assert (Hnz : node_size_ok (NFile (base + d) 0)) by (simpl; lia).
    pose proof (parent_size_ok base d) as Hp.
    destruct (too_deep lim (entry_depth lim cur d)); [simpl; auto|].
    destruct ((max_depth lim >? 0) && (entry_depth lim cur d >? max_depth lim)); [simpl; auto|].
    destruct (negb op); [simpl; split; [auto|apply Forall_app; auto]|].
    destruct (Z.gtb_spec (i64 decl) (max_file lim)) as [Hgt|Hle]; [simpl; split; [auto|apply Forall_app; auto]|].
    assert (Hc : 0 <= copied (i64 decl) act <= max_file lim /\ copied (i64 decl) act <= decl).
    { unfold copied. destruct (i64_cases decl Hdecl) as [[E L]|[E L]].
      - rewrite E in *. destruct (Z.ltb_spec decl 0); lia.
      - destruct (Z.ltb_spec (i64 decl) 0); lia. }
    assert (Hw : wr_ok (mkWr decl (copied (i64 decl) act))) by (unfold wr_ok; simpl; lia).
    assert (Hn : node_size_ok (NFile (base + d) (copied (i64 decl) act))) by (simpl; lia).
    destruct (negb ((i64 decl =? act) && crc)); [simpl; split; [auto|apply Forall_app; auto]|].
    destruct (recursive lim && zn && negb (is_plain b)).
    - destruct (open_archive_size_ok (entry_depth lim cur d + 1) (copied (i64 decl) act) (is_good b) [NDir (base + d)]
                  (sub (entry_depth lim cur d + 1) (base + d + 1)) (Hsub _ _) ltac:(repeat constructor)) as [W N].
      destruct (r_kind _); [|destruct rmok]; simpl; (split; [constructor; assumption|]); apply Forall_app; split; auto.
    - simpl. split; [auto|apply Forall_app; auto].
  Qed.

  Lemma entry_size e : 0 <= max_file lim -> wfb e = true -> forall cur base, size_ok (entry_eff lim cur base e).
  Proof.
    intros Hm. induction e as [d|d zn decl act crc op b rmok nested IH] using entry_ind'; intros Hwf cur base; simpl.
    - unfold size_ok, dir_eff. destruct (too_deep lim _); simpl; repeat constructor.
    - apply wfb_file in Hwf. destruct Hwf as (Hd & Hdecl & Hact & Hn).
      apply file_eff_size; auto. intros c b'. apply Forall_map_intro.
      eapply Forall_impl2; [|exact IH|exact Hn]. intros e H1 H2; apply H1; exact H2.
  Qed.

  (* ---- depth ---- *)
  Definition depth_ok (f : eff) : Prop := Forall (fun n => node_depth n <= max_depth lim) (f_nodes f).

  Lemma too_deep_false fd : 0 <= max_depth lim -> too_deep lim fd = false -> fd <= max_depth lim.
  Proof. unfold too_deep. intros H. apply Z.leb_le in H. rewrite H. simpl. intros G. destruct (Z.gtb_spec fd (max_depth lim)); [discriminate|lia]. Qed.

  Lemma entry_depth_enabled cur d : 0 <= max_depth lim -> entry_depth lim cur d = d + cur.
  Proof. unfold entry_depth. intros H. apply Z.leb_le in H. now rewrite H. Qed.

  Lemma file_eff_depth cur d zn decl act crc op b rmok sub :
    0 <= max_depth lim ->
    (forall c, Forall depth_ok (sub c c)) ->
    depth_ok (file_eff lim cur cur d zn decl act crc op b rmok sub).
  Proof.
    intros Hm Hsub. unfold depth_ok, file_eff. cbv zeta. rewrite (entry_depth_enabled cur d Hm).
    destruct (too_deep lim (d + cur)) eqn:Td; [simpl; constructor|].
    apply too_deep_false in Td; [|assumption].
    assert (Hp : Forall (fun n => node_depth n <= max_depth lim) (parent_dir cur d)).
    { unfold parent_dir; destruct (0 <? d); repeat constructor. simpl. lia. }
    assert (Hf : forall s, node_depth (NFile (cur + d) s) <= max_depth lim) by (intros; simpl; lia).
    destruct ((max_depth lim >? 0) && (d + cur >? max_depth lim)); [simpl; auto|].
    destruct (negb op); [simpl; apply Forall_app; auto|].
    destruct (i64 decl >? max_file lim); [simpl; apply Forall_app; auto|].
    destruct (negb ((i64 decl =? act) && crc)); [simpl; apply Forall_app; auto|].
    destruct (recursive lim && zn && negb (is_plain b)); [|simpl; apply Forall_app; auto].
    assert (N : Forall (fun n => node_depth n <= max_depth lim)
                  (r_nodes (open_archive lim (d + cur + 1) (copied (i64 decl) act) (is_good b) [NDir (cur + d)] (sub (d + cur + 1) (cur + d + 1))))).
    { destruct (open_archive_cases lim (d + cur + 1) (copied (i64 decl) act) (is_good b) [NDir (cur + d)] (sub (d + cur + 1) (cur + d + 1)))
        as [[E _]|[[E _]|[E _]]]; rewrite E; simpl; auto.
      apply run_nodes_Forall; [|repeat constructor; simpl; lia].
      replace (cur + d + 1) with (d + cur + 1) by lia. apply Hsub. }
    destruct (r_kind _); [|destruct rmok]; simpl; apply Forall_app; split; auto.
  Qed.

  Lemma entry_depth_ok e : 0 <= max_depth lim -> forall cur, depth_ok (entry_eff lim cur cur e).
  Proof.
    intros Hm. induction e as [d|d zn decl act crc op b rmok nested IH] using entry_ind'; intros cur; simpl.
    - unfold depth_ok, dir_eff. rewrite (entry_depth_enabled cur d Hm).
      destruct (too_deep lim (d + cur)) eqn:Td; simpl; [constructor|].
      apply too_deep_false in Td; [|assumption]. repeat constructor. simpl. lia.
    - apply file_eff_depth; auto. intros c. apply Forall_map_intro.
      eapply Forall_impl; [|exact IH]. intros e He; apply He.
  Qed.

  (* ---- lying headers: an entry that does not stop the extraction tells the truth, and so does everything below it ---- *)
  Fixpoint truthful (e : entry) : bool :=
    match e with
    | EDir _ => true
    | EFile d zn decl act crc op b rmok nested =>
        (decl =? act) && crc && op &&
        (if recursive lim && zn && negb (is_plain b) then is_good b && forallb truthful nested else true)
    end.

  Lemma file_eff_truthful cur base d zn decl act crc op b rmok sub :
    0 <= decl < 2 ^ 64 -> 0 <= act ->
    f_stop (file_eff lim cur base d zn decl act crc op b rmok sub) = None ->
    (decl =? act) && crc && op = true /\
    (recursive lim && zn && negb (is_plain b) = true ->
       is_good b = true /\ rmok = true /\ Forall (fun f => f_stop f = None) (sub (entry_depth lim cur d + 1) (base + d + 1))).
  Proof.
    intros Hdecl Hact. unfold file_eff. cbv zeta.
    destruct (too_deep lim (entry_depth lim cur d)); [simpl; discriminate|].
    destruct ((max_depth lim >? 0) && (entry_depth lim cur d >? max_depth lim)); [simpl; discriminate|].
    destruct op; [|simpl; discriminate]. simpl negb. cbv iota.
    destruct (i64 decl >? max_file lim); [simpl; discriminate|].
    destruct (negb ((i64 decl =? act) && crc)) eqn:Ht; [simpl; discriminate|].
    apply negb_false_iff, andb_true_iff in Ht. destruct Ht as [Ht Hcrc]. apply Z.eqb_eq in Ht.
    assert (Hda : decl = act) by (destruct (i64_cases decl Hdecl) as [[E L]|[E L]]; lia).
    assert (H1 : (decl =? act) && crc && true = true) by (rewrite Hcrc, Hda, Z.eqb_refl; reflexivity).
    destruct (recursive lim && zn && negb (is_plain b)); [|intros _; split; [exact H1|discriminate]].
    set (r := open_archive lim _ _ _ _ _).
    destruct (r_kind r) eqn:K; [simpl; discriminate|]. destruct rmok; [|simpl; discriminate]. intros _. split; [exact H1|]. intros _.
    destruct (open_archive_cases lim (entry_depth lim cur d + 1) (copied (i64 decl) act) (is_good b) [NDir (base + d)]
                (sub (entry_depth lim cur d + 1) (base + d + 1))) as [[E _]|[[E _]|[E (_ & Hg & _)]]];
      fold r in E; try (rewrite E in K; discriminate).
    split; [exact Hg|]. split; [reflexivity|]. rewrite E in K. apply (run_ok_all lim _ _ _ _ _ K).
  Qed.

  Lemma entry_truthful e : wfb e = true -> forall cur base, f_stop (entry_eff lim cur base e) = None -> truthful e = true.
  Proof.
    induction e as [d|d zn decl act crc op b rmok nested IH] using entry_ind'; intros Hwf cur base H; simpl in H |- *; [reflexivity|].
    apply wfb_file in Hwf. destruct Hwf as (Hd & Hdecl & Hact & Hn).
    destruct (file_eff_truthful _ _ _ _ _ _ _ _ _ _ _ Hdecl Hact H) as [H1 H2]. rewrite H1. simpl.
    destruct (recursive lim && zn && negb (is_plain b)); [|reflexivity].
    destruct (H2 eq_refl) as [Hg [Hrm Hs]]. rewrite Hg. simpl. apply forallb_forall. apply Forall_forall.
    apply Forall_map_elim in Hs.
    eapply Forall_impl2; [|exact IH|]. 2:{ eapply Forall_impl2; [|exact Hn|exact Hs]. intros e A B. exact (conj A B). }
    intros e He [A B]. eapply He; eauto.
  Qed.

  (* ---- the removal of every nested archive that was unzipped succeeded ---- *)
  Fixpoint removed (e : entry) : bool :=
    match e with
    | EDir _ => true
    | EFile d zn decl act crc op b rmok nested =>
        if recursive lim && zn && negb (is_plain b) then rmok && forallb removed nested else true
    end.

  Lemma entry_removed e : wfb e = true -> forall cur base, f_stop (entry_eff lim cur base e) = None -> removed e = true.
  Proof.
    induction e as [d|d zn decl act crc op b rmok nested IH] using entry_ind'; intros Hwf cur base H; simpl in H |- *; [reflexivity|].
    apply wfb_file in Hwf. destruct Hwf as (Hd & Hdecl & Hact & Hn).
    destruct (file_eff_truthful _ _ _ _ _ _ _ _ _ _ _ Hdecl Hact H) as [H1 H2].
    destruct (recursive lim && zn && negb (is_plain b)); [|reflexivity].
    destruct (H2 eq_refl) as [Hg [Hrm Hs]]. rewrite Hrm. simpl. apply forallb_forall. apply Forall_forall.
    apply Forall_map_elim in Hs.
    eapply Forall_impl2; [|exact IH|]. 2:{ eapply Forall_impl2; [|exact Hn|exact Hs]. intros e A B. exact (conj A B). }
    intros e He [A B]. eapply He; eauto.
  Qed.

  (* ---- refusal kind: an archive that tells the truth everywhere can only be refused as 'too large' ---- *)
  Definition stop_tl (f : eff) : Prop := f_stop f = None \/ f_stop f = Some TooLarge.

  (* an archive that tells the truth everywhere it is looked at (sizes are those of real files: below 2^63) *)
  Fixpoint clean (e : entry) : bool :=
    match e with
    | EDir _ => true
    | EFile d zn decl act crc op b rmok nested =>
        (decl =? act) && (act <? 2 ^ 63) && crc && op &&
        (if recursive lim && zn && negb (is_plain b) then is_good b && rmok && forallb clean nested else true)
    end.

  Lemma file_eff_refusal cur base d zn decl act crc op b rmok sub :
    (decl =? act) && (act <? 2 ^ 63) && crc && op = true ->
    (recursive lim && zn && negb (is_plain b) = true -> is_good b = true /\ rmok = true /\ forall c b', Forall stop_tl (sub c b')) ->
    0 <= decl < 2 ^ 64 -> 0 <= act ->
    stop_tl (file_eff lim cur base d zn decl act crc op b rmok sub).
  Proof.
    intros Ht Hsub Hdecl Hact. apply andb_true_iff in Ht. destruct Ht as [Ht Hop]. apply andb_true_iff in Ht.
    destruct Ht as [Ht Hcrc]. apply andb_true_iff in Ht. destruct Ht as [Ht Hsmall].
    apply Z.eqb_eq in Ht. apply Z.ltb_lt in Hsmall. subst op crc act.
    unfold stop_tl, file_eff. cbv zeta.
    destruct (too_deep lim (entry_depth lim cur d)); [simpl; auto|].
    destruct ((max_depth lim >? 0) && (entry_depth lim cur d >? max_depth lim)); [simpl; auto|].
    simpl negb. cbv iota.
    destruct (Z.gtb_spec (i64 decl) (max_file lim)); [simpl; auto|].
    destruct (i64_cases decl Hdecl) as [[E L]|[E L]]; [|lia].
    rewrite E, Z.eqb_refl. simpl negb. cbv iota.
    destruct (recursive lim && zn && negb (is_plain b)); [|simpl; auto].
    destruct (Hsub eq_refl) as [Hg [Hrm Hs]].
    set (r := open_archive lim _ _ _ _ _).
    assert (K : r_kind r = None \/ r_kind r = Some TooLarge).
    { subst r.
      destruct (open_archive_cases lim (entry_depth lim cur d + 1) (copied decl decl) (is_good b) [NDir (base + d)]
                  (sub (entry_depth lim cur d + 1) (base + d + 1))) as [[E1 _]|[[E1 F]|[E1 _]]]; rewrite E1; simpl; auto.
      - congruence.
      - apply (run_kind lim (fun k => k = None \/ k = Some TooLarge)); auto. }
    destruct K as [K|K]; rewrite K; [rewrite Hrm|]; simpl; auto.
  Qed.

  Lemma entry_refusal e : wfb e = true -> clean e = true -> forall cur base, stop_tl (entry_eff lim cur base e).
  Proof.
    induction e as [d|d zn decl act crc op b rmok nested IH] using entry_ind'; intros Hwf Ht cur base; simpl in Ht |- *.
    - unfold stop_tl, dir_eff. destruct (too_deep lim _); simpl; auto.
    - apply wfb_file in Hwf. destruct Hwf as (Hd & Hdecl & Hact & Hn).
      apply andb_true_iff in Ht. destruct Ht as [Ht1 Ht2].
      apply file_eff_refusal; auto.
      intros Hr. rewrite Hr in Ht2. apply andb_true_iff in Ht2. destruct Ht2 as [Hg Hf]. apply andb_true_iff in Hg. destruct Hg as [Hg Hrm]. split; [exact Hg|]. split; [exact Hrm|].
      intros c b'. apply Forall_map_intro. rewrite forallb_forall in Hf. apply Forall_forall in Hf.
      eapply Forall_impl2; [|exact IH|]. 2:{ eapply Forall_impl2; [|exact Hn|exact Hf]. intros e A B. exact (conj A B). }
      intros e He [A B]. apply He; auto.
  Qed.

  (* ---- completeness: an entry that does not stop leaves exactly what its honest extraction is ---- *)
  Fixpoint spec_nodes (base : Z) (e : entry) : list node :=
    match e with
    | EDir d => [NDir (base + d)]
    | EFile d zn decl act crc op b rmok nested =>
        parent_dir base d ++
        (if recursive lim && zn && negb (is_plain b)
         then NDir (base + d) :: flat_map (spec_nodes (base + d + 1)) nested
         else [NFile (base + d) act])
    end.

  Lemma flat_map_map {A B C} (f : A -> B) (g : B -> list C) l : flat_map g (map f l) = flat_map (fun x => g (f x)) l.
  Proof. induction l; simpl; congruence. Qed.

  Lemma flat_map_ext_Forall {A B} (f g : A -> list B) l : Forall (fun x => f x = g x) l -> flat_map f l = flat_map g l.
  Proof. induction 1; simpl; congruence. Qed.

  Lemma entry_complete e : wfb e = true -> forall cur base,
    f_stop (entry_eff lim cur base e) = None -> f_nodes (entry_eff lim cur base e) = spec_nodes base e.
  Proof.
    induction e as [d|d zn decl act crc op b rmok nested IH] using entry_ind'; intros Hwf cur base H; simpl in H |- *.
    - unfold dir_eff in *. destruct (too_deep lim _); simpl in *; [discriminate|reflexivity].
    - apply wfb_file in Hwf. destruct Hwf as (Hd & Hdecl & Hact & Hn).
      destruct (file_eff_truthful _ _ _ _ _ _ _ _ _ _ _ Hdecl Hact H) as [H1 H2].
      apply andb_true_iff in H1. destruct H1 as [H1 Hop]. apply andb_true_iff in H1. destruct H1 as [H1 Hcrc].
      apply Z.eqb_eq in H1. subst act.
      revert H. unfold file_eff. cbv zeta.
      destruct (too_deep lim (entry_depth lim cur d)); [simpl; discriminate|].
      destruct ((max_depth lim >? 0) && (entry_depth lim cur d >? max_depth lim)); [simpl; discriminate|].
      destruct (negb op); [simpl; discriminate|].
      destruct (i64 decl >? max_file lim); [simpl; discriminate|].
      destruct (negb ((i64 decl =? decl) && crc)) eqn:Ht; [simpl; discriminate|].
      apply negb_false_iff, andb_true_iff in Ht. destruct Ht as [Ht _]. apply Z.eqb_eq in Ht.
      assert (Hc : copied (i64 decl) decl = decl).
      { unfold copied. rewrite Ht. destruct (Z.ltb_spec decl 0); lia. }
      destruct (recursive lim && zn && negb (is_plain b)) eqn:Hr.
      + destruct (H2 eq_refl) as [Hg [Hrm Hs]].
        set (r := open_archive lim _ _ _ _ _).
        destruct (r_kind r) eqn:K; [simpl; discriminate|]. destruct rmok; [|simpl; discriminate]. intros _. simpl. f_equal.
        destruct (open_archive_cases lim (entry_depth lim cur d + 1) (copied (i64 decl) decl) (is_good b) [NDir (base + d)]
                    (map (entry_eff lim (entry_depth lim cur d + 1) (base + d + 1)) nested)) as [[E _]|[[E _]|[E _]]];
          fold r in E; try (rewrite E in K; discriminate).
        rewrite E in K. destruct (run_ok_all lim _ _ _ _ _ K) as [_ Hnodes]. rewrite E, Hnodes. simpl. f_equal.
        rewrite flat_map_map. apply flat_map_ext_Forall.
        apply Forall_map_elim in Hs.
        eapply Forall_impl2; [|exact IH|]. 2:{ eapply Forall_impl2; [|exact Hn|exact Hs]. intros e A B. exact (conj A B). }
        intros e He [A B]. apply He; auto.
      + intros _. simpl. rewrite Hc. reflexivity.
  Qed.
End Entries.

(* ======================================================================================================== *)
(* Top level                                                                                                *)
(* ======================================================================================================== *)

Section Top.
  Variables (lim : limits) (asize : Z) (rd : bool) (es : list entry).
  Let r := unzip_top lim asize rd es.

  Lemma top_ok_is_run : r_kind r = None ->
    r = run lim (map (entry_eff lim 0 0) es) 0 0 [] [] /\ asize <= max_file lim /\ rd = true.
  Proof.
    subst r. unfold unzip_top. intros K.
    destruct (open_archive_cases lim 0 asize rd [] (map (entry_eff lim 0 0) es)) as [[E _]|[[E _]|[E (A & B & _)]]];
      try (rewrite E in K; discriminate). auto.
  Qed.

  Lemma effs_tot : Forall (tot_ok) (map (entry_eff lim 0 0) es).
  Proof. apply Forall_map_intro. apply Forall_forall. intros e _. apply entry_tot_cnt. Qed.
  Lemma effs_cnt : Forall (cnt_ok) (map (entry_eff lim 0 0) es).
  Proof. apply Forall_map_intro. apply Forall_forall. intros e _. apply entry_tot_cnt. Qed.

  Lemma top_total_size : 0 <= max_total lim -> r_kind r = None ->
    files_total (r_nodes r) = r_tot r /\ files_total (r_nodes r) <= max_total lim.
  Proof.
    intros Hm K. destruct (top_ok_is_run K) as [E _]. rewrite E in *.
    destruct (run_tot lim _ 0 0 [] [] effs_tot K) as [T1 T2]. simpl in T1. split; [lia|]. destruct T2; lia.
  Qed.

  Lemma top_file_count : r_kind r = None ->
    nfiles (r_nodes r) <= r_cnt r /\ nfiles (r_nodes r) <= Z.max 0 (max_count lim).
  Proof.
    intros K. destruct (top_ok_is_run K) as [E _]. rewrite E in *.
    destruct (run_cnt lim _ 0 0 [] [] effs_cnt ltac:(simpl; lia) ltac:(left; reflexivity) K) as [C1 C2].
    split; [exact C1|]. destruct C2; lia.
  Qed.

  Lemma top_sizes : 0 <= asize -> forallb wfb es = true ->
    Forall (fun w => 0 <= w_written w <= max_file lim /\ w_written w <= w_declared w) (r_writes r) /\
    Forall (fun n => match n with NFile _ s => 0 <= s <= max_file lim | NDir _ => True end) (r_nodes r).
  Proof.
    intros Ha Hwf. subst r. unfold unzip_top.
    destruct (open_archive_cases lim 0 asize rd [] (map (entry_eff lim 0 0) es)) as [[E _]|[[E _]|[E (A & _)]]];
      try (rewrite E; simpl; split; constructor).
    assert (Hm : 0 <= max_file lim) by lia.
    apply (open_archive_size_ok lim); [|constructor].
    apply Forall_map_intro. rewrite forallb_forall in Hwf. apply Forall_forall. intros e He. apply entry_size; auto.
  Qed.

  Lemma top_depth : 0 <= max_depth lim -> Forall (fun n => node_depth n <= max_depth lim) (r_nodes r).
  Proof.
    intros Hm. subst r. unfold unzip_top.
    destruct (open_archive_cases lim 0 asize rd [] (map (entry_eff lim 0 0) es)) as [[E _]|[[E _]|[E _]]];
      rewrite E; simpl; try constructor.
    apply run_nodes_Forall; [|constructor]. apply Forall_map_intro. apply Forall_forall. intros e _.
    apply (entry_depth_ok lim e Hm 0).
  Qed.

  Lemma top_truthful : forallb wfb es = true -> r_kind r = None -> forallb (truthful lim) es = true.
  Proof.
    intros Hwf K. destruct (top_ok_is_run K) as [E _]. rewrite E in K.
    destruct (run_ok_all lim _ _ _ _ _ K) as [Hs _]. apply Forall_map_elim in Hs.
    rewrite forallb_forall in *. intros e He. rewrite Forall_forall in Hs.
    eapply entry_truthful; eauto.
  Qed.

  Lemma top_removed : forallb wfb es = true -> r_kind r = None -> forallb (removed lim) es = true.
  Proof.
    intros Hwf K. destruct (top_ok_is_run K) as [E _]. rewrite E in K.
    destruct (run_ok_all lim _ _ _ _ _ K) as [Hs _]. apply Forall_map_elim in Hs.
    rewrite forallb_forall in *. intros e He. rewrite Forall_forall in Hs.
    eapply entry_removed; eauto.
  Qed.

  Lemma top_complete : forallb wfb es = true -> r_kind r = None -> r_nodes r = flat_map (spec_nodes lim 0) es.
  Proof.
    intros Hwf K. destruct (top_ok_is_run K) as [E _]. rewrite E in *.
    destruct (run_ok_all lim _ _ _ _ _ K) as [Hs Hn]. rewrite Hn. simpl.
    rewrite flat_map_map. apply flat_map_ext_Forall. apply Forall_map_elim in Hs.
    rewrite forallb_forall in Hwf. apply Forall_forall. intros e He. rewrite Forall_forall in Hs.
    apply entry_complete; auto.
  Qed.

  Lemma top_refusal_kind : rd = true -> forallb wfb es = true -> forallb (clean lim) es = true ->
    r_kind r = None \/ r_kind r = Some TooLarge.
  Proof.
    intros Hrd Hwf Ht. subst r. unfold unzip_top.
    destruct (open_archive_cases lim 0 asize rd [] (map (entry_eff lim 0 0) es)) as [[E _]|[[E F]|[E _]]];
      rewrite E; simpl; auto; [congruence|].
    apply (run_kind lim (fun k => k = None \/ k = Some TooLarge)); auto.
    apply Forall_map_intro. rewrite forallb_forall in *. apply Forall_forall. intros e He.
    apply (entry_refusal lim e); auto.
  Qed.
  (* what a complete extraction of the archive leaves on disk, independently of the limits *)
  Definition footprint : list node := flat_map (spec_nodes lim 0) es.

  Definition exceeds : Prop :=
    files_total footprint > max_total lim
    \/ nfiles footprint > Z.max 0 (max_count lim)
    \/ Exists (fun n => match n with NFile _ s => s > max_file lim | NDir _ => False end) footprint
    \/ (0 <= max_depth lim /\ Exists (fun n => node_depth n > max_depth lim) footprint).

  Lemma top_exceeding_refused :
    rd = true -> 0 <= asize -> 0 <= max_total lim -> forallb wfb es = true -> forallb (clean lim) es = true ->
    exceeds -> r_kind r = Some TooLarge.
  Proof.
    intros Hrd Ha Hmt Hwf Hc Hex.
    destruct (top_refusal_kind Hrd Hwf Hc) as [K|K]; [exfalso|exact K].
    pose proof (top_complete Hwf K) as Hn. fold footprint in Hn.
    destruct Hex as [H|[H|[H|[Hd H]]]].
    - destruct (top_total_size Hmt K) as [_ T]. rewrite Hn in T. lia.
    - destruct (top_file_count K) as [_ T]. rewrite Hn in T. lia.
    - destruct (top_sizes Ha Hwf) as [_ T]. rewrite Hn in T.
      apply Exists_exists in H. destruct H as [n [Hin Hbad]]. rewrite Forall_forall in T. specialize (T n Hin).
      destruct n; [contradiction|lia].
    - pose proof (top_depth Hd) as T. rewrite Hn in T.
      apply Exists_exists in H. destruct H as [n [Hin Hbad]]. rewrite Forall_forall in T. specialize (T n Hin). lia.
  Qed.
End Top.

(* ---- the stronger reading "entries, directories included" is not enforced ---- *)
Definition ten_dirs : list entry := map (fun _ => EDir 0) (seq 0 10).
Lemma dirs_not_checked :
  let r := unzip_top (mkLim 1000 1000 3 (-1) false) 22 true ten_dirs in
  r_kind r = None /\ r_cnt r = 10 /\ nfiles (r_nodes r) = 0.
Proof. vm_compute. repeat split; reflexivity. Qed.

(* ---- the code before the repair (no end-of-stream check after the bounded copy) accepted lying headers ---- *)
Definition lying_entry : entry := EFile 0 false 5 20 true true Plain true [].

