(* C03 — Unzip resource limits hold (zip bombs, nested bombs, lying headers).
   Property theorems only: each is closed by a lemma of Proofs.v and followed by Print Assumptions.
   Model: GU.C03.Model: [unzip_topF F] mirrors UnzipWithContextAndLimits of utils/filesystem/zip.go and is parameterised
   by the facts F that translator-c03 extracts from the Go source on every run ([generated], coq/C03/Gen.v: operators and
   operands of every limit check, depth switches, what is added to which counter and where, bounded copy + end-of-stream
   probe, depth of nested calls, getters of Limits, statement order).  EVERY THEOREM BELOW IS ABOUT THE MODEL INSTANTIATED
   WITH THE GENERATED FACTS; [generated_is_expected] is the obligation that breaks when the source moves.  The model is
   additionally tied to the code by the correspondence runs of harness/cmd/c03 (also with the generated facts).
   All theorems quantify over EVERY limits configuration (Apply() = true) and EVERY archive: any number of entries, any
   sizes, any lies in the headers, archives nested to ANY depth with any fan-out ([entry] is a nested inductive type),
   recursive mode or not.  [wfb] only says that sizes are numbers the zip format can express (0 <= declared < 2^64,
   0 <= stream length, 0 <= depth). *)
From Coq Require Import List ZArith Bool Lia String.
Import ListNotations.
From GU Require Import C03.Model C03.Concrete C03.Proofs C03.Bridge C03.Gen.
Local Open Scope Z_scope.

(* The facts extracted from the current source are the ones the proofs were made for. *)
Theorem generated_is_expected : generated = expected.
Proof. reflexivity. Qed.
Print Assumptions generated_is_expected.

(* Every package-level convenience function forwards ALL its parameters (the limits among them) to the same-named method
   of the global file system, and the limits travel unchanged down to unzip / newZipReader: so what is proved of
   [unzip_topF generated] (the method UnzipWithContextAndLimits) holds of every entry point that takes limits.  The
   harness drives each entry point of [ep_entry_points generated] on the OS back end (unknown one: entry-point-not-driven). *)
Theorem wrappers_forward_everything :
  forallb snd (ep_wrappers generated) = true
  /\ ep_entry_points generated = ep_entry_points expected
  /\ ep_edges generated = ep_edges expected.
Proof. rewrite generated_is_expected. repeat split; reflexivity. Qed.
Print Assumptions wrappers_forward_everything.

Lemma unzip_top_generated lim asize rd es : unzip_topF generated lim asize rd es = unzip_top lim asize rd es.
Proof. rewrite generated_is_expected. apply unzip_topF_expected. Qed.

(* On success the bytes of regular files on disk are exactly the counted total, which is within MaxTotalSize
   (a uint64, hence the premise 0 <= max_total). *)
Theorem unzip_success_total_size : forall lim asize rd es,
  0 <= max_total lim ->
  r_kind (unzip_topF generated lim asize rd es) = None ->
  files_total (r_nodes (unzip_topF generated lim asize rd es)) <= max_total lim.
Proof. intros lim asize rd es Hm. rewrite unzip_top_generated. intros K. exact (proj2 (top_total_size lim asize rd es Hm K)). Qed.
Print Assumptions unzip_success_total_size.

(* On success the number of REGULAR FILES on disk is within MaxFileCount (and never above the length of the returned list). *)
Theorem unzip_success_file_count : forall lim asize rd es,
  r_kind (unzip_topF generated lim asize rd es) = None ->
  nfiles (r_nodes (unzip_topF generated lim asize rd es)) <= Z.max 0 (max_count lim)
  /\ nfiles (r_nodes (unzip_topF generated lim asize rd es)) <= r_cnt (unzip_topF generated lim asize rd es).
Proof. intros lim asize rd es. rewrite unzip_top_generated. intros K. destruct (top_file_count lim asize rd es K); split; assumption. Qed.
Print Assumptions unzip_success_file_count.

(* The stronger reading "entries, directories included" is NOT enforced: ten directory entries pass a limit of 3
   (directories `continue` before the check).  The property speaks of files; this is recorded as an observation. *)
Theorem unzip_success_entry_count_refuted : exists lim asize es,
  r_kind (unzip_topF generated lim asize true es) = None /\ r_cnt (unzip_topF generated lim asize true es) > max_count lim
  /\ nfiles (r_nodes (unzip_topF generated lim asize true es)) = 0.
Proof.
  exists (mkLim 1000 1000 3 (-1) false), 22, ten_dirs. rewrite unzip_top_generated. destruct dirs_not_checked as (A & B & C).
  split; [exact A|split; [rewrite B; reflexivity|exact C]].
Qed.
Print Assumptions unzip_success_entry_count_refuted.

(* Whatever the result (success or any error), no file on disk is larger than MaxFileSize ... *)
Theorem unzip_success_file_size : forall lim asize rd es,
  0 <= asize -> forallb wfb es = true ->
  Forall (fun n => match n with NFile _ s => 0 <= s <= max_file lim | NDir _ => True end)
         (r_nodes (unzip_topF generated lim asize rd es)).
Proof. intros lim asize rd es Ha Hwf. rewrite unzip_top_generated. exact (proj2 (top_sizes lim asize rd es Ha Hwf)). Qed.
Print Assumptions unzip_success_file_size.

(* ... and at no moment was any file written beyond MaxFileSize or beyond the (unsigned) size its header declares:
   [r_writes] has one record per file created, with the high-water mark of the bytes written to it. *)
Theorem unzip_never_overwrites_limit : forall lim asize rd es,
  0 <= asize -> forallb wfb es = true ->
  Forall (fun w => 0 <= w_written w <= max_file lim /\ w_written w <= w_declared w)
         (r_writes (unzip_topF generated lim asize rd es)).
Proof. intros lim asize rd es Ha Hwf. rewrite unzip_top_generated. exact (proj1 (top_sizes lim asize rd es Ha Hwf)). Qed.
Print Assumptions unzip_never_overwrites_limit.

(* Whatever the result, with the depth limit enabled (>= 0) nothing on disk is deeper than MaxDepth, nested archives included. *)
Theorem unzip_success_depth : forall lim asize rd es,
  0 <= max_depth lim ->
  Forall (fun n => node_depth n <= max_depth lim) (r_nodes (unzip_topF generated lim asize rd es)).
Proof. intros lim asize rd es. rewrite unzip_top_generated. apply top_depth. Qed.
Print Assumptions unzip_success_depth.

(* An archive whose headers contradict its data — anywhere the extraction looks: at top level or in a nested archive
   that the recursive mode opens — is refused with an error.  [truthful]: declared = stream length, checksum accepted,
   entry can be opened, and recursively so for the entries of every nested archive that is unzipped. *)
Theorem unzip_lying_header_error : forall lim asize rd es,
  forallb wfb es = true ->
  forallb (truthful lim) es = false ->
  r_kind (unzip_topF generated lim asize rd es) <> None.
Proof.
  intros lim asize rd es Hwf Hl. rewrite unzip_top_generated. intros K. rewrite (top_truthful lim asize rd es Hwf K) in Hl. discriminate.
Qed.
Print Assumptions unzip_lying_header_error.

(* A nested archive that was unzipped is not accounted for (neither in the total nor in the count) because it is removed;
   when its removal fails — anywhere in the nesting — the extraction reports an error instead of success. *)
Theorem unzip_removal_failure_error : forall lim asize rd es,
  forallb wfb es = true ->
  forallb (removed lim) es = false ->
  r_kind (unzip_topF generated lim asize rd es) <> None.
Proof.
  intros lim asize rd es Hwf Hl. rewrite unzip_top_generated. intros K. rewrite (top_removed lim asize rd es Hwf K) in Hl. discriminate.
Qed.
Print Assumptions unzip_removal_failure_error.

(* Success means that everything was extracted: the disk holds exactly the archive's footprint. *)
Theorem unzip_success_complete : forall lim asize rd es,
  forallb wfb es = true ->
  r_kind (unzip_topF generated lim asize rd es) = None ->
  r_nodes (unzip_topF generated lim asize rd es) = footprint lim es.
Proof. intros lim asize rd es. rewrite unzip_top_generated. apply top_complete. Qed.
Print Assumptions unzip_success_complete.

(* An honest archive is either extracted or refused as 'too large' — never with another kind ... *)
Theorem unzip_refusal_only_too_large : forall lim asize es,
  forallb wfb es = true -> forallb (clean lim) es = true ->
  r_kind (unzip_topF generated lim asize true es) = None \/ r_kind (unzip_topF generated lim asize true es) = Some TooLarge.
Proof. intros lim asize es. rewrite unzip_top_generated. exact (top_refusal_kind lim asize true es eq_refl). Qed.
Print Assumptions unzip_refusal_only_too_large.

(* ... and if its footprint would exceed ANY of the limits it is refused with the 'too large' kind. *)
Theorem unzip_refusal_kind : forall lim asize es,
  0 <= asize -> 0 <= max_total lim ->
  forallb wfb es = true -> forallb (clean lim) es = true ->
  exceeds lim es ->
  r_kind (unzip_topF generated lim asize true es) = Some TooLarge.
Proof. intros lim asize es. rewrite unzip_top_generated. exact (top_exceeding_refused lim asize true es eq_refl). Qed.
Print Assumptions unzip_refusal_kind.

(* ---- non-vacuity: the premises are satisfiable and the bounds are tight ---- *)
Definition inner : list entry := [EFile 0 false 7 7 true true Plain true []; EDir 1; EFile 2 false 5 5 true true Plain true []].
Definition outer : list entry :=
  [EFile 0 false 3 3 true true Plain true []; EFile 1 true 300 300 true true GoodZip true inner; EFile 0 true 4 4 true true Plain true []].

(* exact limits: 19 bytes, 4 files (plus one directory entry counted), depth 1+1+2 = 4, largest file = the nested archive *)
Example c03_exact_limits_pass :
  let r := unzip_topF generated (mkLim 300 19 5 4 true) 300 true outer in
  r_kind r = None /\ files_total (r_nodes r) = 19 /\ nfiles (r_nodes r) = 4 /\ r_cnt r = 5
  /\ forallb wfb outer = true /\ forallb (clean (mkLim 300 19 5 4 true)) outer = true.
Proof. vm_compute. repeat split; reflexivity. Qed.
Example c03_off_by_one_refused :
  r_kind (unzip_topF generated (mkLim 300 18 5 4 true) 300 true outer) = Some TooLarge
  /\ r_kind (unzip_topF generated (mkLim 300 19 4 4 true) 300 true outer) = Some TooLarge
  /\ r_kind (unzip_topF generated (mkLim 300 19 5 3 true) 300 true outer) = Some TooLarge
  /\ r_kind (unzip_topF generated (mkLim 299 19 5 4 true) 300 true outer) = Some TooLarge
  /\ r_kind (unzip_topF generated (mkLim 300 19 5 4 true) 301 true outer) = Some TooLarge.
Proof. vm_compute. repeat split; reflexivity. Qed.
(* the witness that was accepted (truncated to 5 bytes) before the repair is now an error, and nothing beyond 5 bytes is written *)
Example c03_lying_header_refused :
  let r := unzip_topF generated (mkLim 1000 1000 10 (-1) false) 100 true [lying_entry] in
  r_kind r = Some Other /\ r_writes r = [mkWr 5 5] /\ forallb (truthful (mkLim 1000 1000 10 (-1) false)) [lying_entry] = false.
Proof. vm_compute. repeat split; reflexivity. Qed.
(* a header declaring 2^63 bytes (negative as int64) slips under every per-file limit but writes nothing and is refused *)
Example c03_wrapped_size_refused :
  let r := unzip_topF generated (mkLim 10 10 10 (-1) false) 9 true [EFile 0 false (2 ^ 63) 9 true true Plain true []] in
  r_kind r = Some Other /\ r_writes r = [mkWr (2 ^ 63) 0].
Proof. vm_compute. repeat split; reflexivity. Qed.
(* the removal of the unzipped nested archive fails: an error, and the archive (300 B) is still on disk *)
Example c03_removal_failure_refused :
  let es := [EFile 0 true 300 300 true true GoodZip false inner] in
  let r := unzip_topF generated (mkLim 300 12 3 (-1) true) 300 true es in
  r_kind r = Some Other /\ files_total (r_nodes r) = 312 /\ forallb (removed (mkLim 300 12 3 (-1) true)) es = false.
Proof. vm_compute. repeat split; reflexivity. Qed.
