(* FROZEN SNAPSHOT (not regenerated): the output of translator/cmd/gocast2coq on utils/safecast as it was BEFORE the fix
   fixes/C10-named-float-guards.patch (repository commit bc1ce85a: type switch on any(value) in boundary.go:3-35).
   Kept only so that the defect D6 stays machine-checked: Proofs.v shows that this code reaches a platform-defined
   conversion for a named float type (prefix_named_float_refuted).  The theorems of the property are about GU.C10.Gen. *)
From Coq Require Import ZArith Bool List.
Import ListNotations.
From GU Require Import C10.GoNum.
Local Open Scope Z_scope.

(* type constraints (number.go): union terms as (kind, tilde) *)
Definition IConvertable : list (gkind * bool) :=
  [(Kint, true); (Kint8, true); (Kint16, true); (Kint32, true); (Kint64, true); (Kuint, true); (Kuint8, true); (Kuint16, true); (Kuint32, true); (Kuint64, true); (Kfloat32, true); (Kfloat64, true)].

(* boundary.go:3-19   func greaterThanUpperBoundary[C1, C2 IConvertable](value C1, upperBoundary C2) (greater bool) *)
Definition greaterThanUpperBoundary (C1 : gty) (C2 : gty) (value : val) (upperBoundary : val) : res bool :=
  greater <- (Ok false) ;;  (* named result, zero value *)
  (go_if (go_cmp Ole C1 (Ok value) (go_const C1 0))
    (fun _ => (Ok greater))
    (fun _ => (if go_dyn_is C1 Kfloat64 then
      (f <- (Ok value) ;;
      greater <- (go_cmp Oge Tfloat64 (Ok f) (go_conv C2 Tfloat64 (Ok upperBoundary))) ;;
      (Ok greater))
    else
    (if go_dyn_is C1 Kfloat32 then
      (f <- (Ok value) ;;
      greater <- (go_cmp Oge Tfloat64 (go_conv Tfloat32 Tfloat64 (Ok f)) (go_conv C2 Tfloat64 (Ok upperBoundary))) ;;
      (Ok greater))
    else
      (greater <- (go_cmp Ogt Tuint64 (go_conv C1 Tuint64 (Ok value)) (go_conv C2 Tuint64 (Ok upperBoundary))) ;;
      (Ok greater)))))).

(* boundary.go:21-35   func lessThanLowerBoundary[T, T2 IConvertable](value T, boundary T2) (lower bool) *)
Definition lessThanLowerBoundary (T : gty) (T2 : gty) (value : val) (boundary : val) : res bool :=
  lower <- (Ok false) ;;  (* named result, zero value *)
  (go_if (go_cmp Oge T (Ok value) (go_const T 0))
    (fun _ => (Ok lower))
    (fun _ => (if go_dyn_is T Kfloat64 then
      (f <- (Ok value) ;;
      lower <- (go_cmp Ole Tfloat64 (Ok f) (go_conv T2 Tfloat64 (Ok boundary))) ;;
      (Ok lower))
    else
    (if go_dyn_is T Kfloat32 then
      (f <- (Ok value) ;;
      lower <- (go_cmp Ole Tfloat64 (go_conv Tfloat32 Tfloat64 (Ok f)) (go_conv T2 Tfloat64 (Ok boundary))) ;;
      (Ok lower))
    else
      (lower <- (go_cmp Olt Tint64 (go_conv T Tint64 (Ok value)) (go_conv T2 Tint64 (Ok boundary))) ;;
      (Ok lower)))))).

(* cast.go:8-16   func ToInt[C IConvertable](i C) int *)
Definition ToInt (C : gty) (i : val) : res val :=
  (go_if (arg__1 <- (Ok i) ;; arg__2 <- (go_const Tint (-9223372036854775808)) ;; lessThanLowerBoundary C Tint arg__1 arg__2)
    (fun _ => (go_const Tint (-9223372036854775808)))
    (fun _ => (go_if (arg__3 <- (Ok i) ;; arg__4 <- (go_const Tint 9223372036854775807) ;; greaterThanUpperBoundary C Tint arg__3 arg__4)
      (fun _ => (go_const Tint 9223372036854775807))
      (fun _ => (go_conv C Tint (Ok i)))))).

(* cast.go:21-29   func ToUint[C IConvertable](i C) uint *)
Definition ToUint (C : gty) (i : val) : res val :=
  (go_if (arg__1 <- (Ok i) ;; arg__2 <- (go_const Tuint 0) ;; lessThanLowerBoundary C Tuint arg__1 arg__2)
    (fun _ => (go_const Tuint 0))
    (fun _ => (go_if (arg__3 <- (Ok i) ;; arg__4 <- (go_const Tuint 18446744073709551615) ;; greaterThanUpperBoundary C Tuint arg__3 arg__4)
      (fun _ => (go_const Tuint 18446744073709551615))
      (fun _ => (go_conv C Tuint (Ok i)))))).

(* cast.go:34-42   func ToInt8[C IConvertable](i C) int8 *)
Definition ToInt8 (C : gty) (i : val) : res val :=
  (go_if (arg__1 <- (Ok i) ;; arg__2 <- (go_const Tint (-128)) ;; lessThanLowerBoundary C Tint arg__1 arg__2)
    (fun _ => (go_const Tint8 (-128)))
    (fun _ => (go_if (arg__3 <- (Ok i) ;; arg__4 <- (go_const Tint 127) ;; greaterThanUpperBoundary C Tint arg__3 arg__4)
      (fun _ => (go_const Tint8 127))
      (fun _ => (go_conv C Tint8 (Ok i)))))).

(* cast.go:47-55   func ToUint8[C IConvertable](i C) uint8 *)
Definition ToUint8 (C : gty) (i : val) : res val :=
  (go_if (arg__1 <- (Ok i) ;; arg__2 <- (go_const Tint 0) ;; lessThanLowerBoundary C Tint arg__1 arg__2)
    (fun _ => (go_const Tuint8 0))
    (fun _ => (go_if (arg__3 <- (Ok i) ;; arg__4 <- (go_const Tint 255) ;; greaterThanUpperBoundary C Tint arg__3 arg__4)
      (fun _ => (go_const Tuint8 255))
      (fun _ => (go_conv C Tuint8 (Ok i)))))).

(* cast.go:60-68   func ToInt16[C IConvertable](i C) int16 *)
Definition ToInt16 (C : gty) (i : val) : res val :=
  (go_if (arg__1 <- (Ok i) ;; arg__2 <- (go_const Tint (-32768)) ;; lessThanLowerBoundary C Tint arg__1 arg__2)
    (fun _ => (go_const Tint16 (-32768)))
    (fun _ => (go_if (arg__3 <- (Ok i) ;; arg__4 <- (go_const Tint 32767) ;; greaterThanUpperBoundary C Tint arg__3 arg__4)
      (fun _ => (go_const Tint16 32767))
      (fun _ => (go_conv C Tint16 (Ok i)))))).

(* cast.go:73-81   func ToUint16[C IConvertable](i C) uint16 *)
Definition ToUint16 (C : gty) (i : val) : res val :=
  (go_if (arg__1 <- (Ok i) ;; arg__2 <- (go_const Tint 0) ;; lessThanLowerBoundary C Tint arg__1 arg__2)
    (fun _ => (go_const Tuint16 0))
    (fun _ => (go_if (arg__3 <- (Ok i) ;; arg__4 <- (go_const Tint 65535) ;; greaterThanUpperBoundary C Tint arg__3 arg__4)
      (fun _ => (go_const Tuint16 65535))
      (fun _ => (go_conv C Tuint16 (Ok i)))))).

(* cast.go:86-94   func ToInt32[C IConvertable](i C) int32 *)
Definition ToInt32 (C : gty) (i : val) : res val :=
  (go_if (arg__1 <- (Ok i) ;; arg__2 <- (go_const Tint (-2147483648)) ;; lessThanLowerBoundary C Tint arg__1 arg__2)
    (fun _ => (go_const Tint32 (-2147483648)))
    (fun _ => (go_if (arg__3 <- (Ok i) ;; arg__4 <- (go_const Tint 2147483647) ;; greaterThanUpperBoundary C Tint arg__3 arg__4)
      (fun _ => (go_const Tint32 2147483647))
      (fun _ => (go_conv C Tint32 (Ok i)))))).

(* cast.go:99-107   func ToUint32[C IConvertable](i C) uint32 *)
Definition ToUint32 (C : gty) (i : val) : res val :=
  (go_if (arg__1 <- (Ok i) ;; arg__2 <- (go_const Tint 0) ;; lessThanLowerBoundary C Tint arg__1 arg__2)
    (fun _ => (go_const Tuint32 0))
    (fun _ => (go_if (arg__3 <- (Ok i) ;; arg__4 <- (go_const Tint 4294967295) ;; greaterThanUpperBoundary C Tint arg__3 arg__4)
      (fun _ => (go_const Tuint32 4294967295))
      (fun _ => (go_conv C Tuint32 (Ok i)))))).

(* cast.go:112-120   func ToInt64[C IConvertable](i C) int64 *)
Definition ToInt64 (C : gty) (i : val) : res val :=
  (go_if (arg__1 <- (Ok i) ;; arg__2 <- (go_const Tint (-9223372036854775808)) ;; lessThanLowerBoundary C Tint arg__1 arg__2)
    (fun _ => (go_const Tint64 (-9223372036854775808)))
    (fun _ => (go_if (arg__3 <- (Ok i) ;; arg__4 <- (go_const Tint 9223372036854775807) ;; greaterThanUpperBoundary C Tint arg__3 arg__4)
      (fun _ => (go_const Tint64 9223372036854775807))
      (fun _ => (go_conv C Tint64 (Ok i)))))).

(* cast.go:125-133   func ToUint64[C IConvertable](i C) uint64 *)
Definition ToUint64 (C : gty) (i : val) : res val :=
  (go_if (arg__1 <- (Ok i) ;; arg__2 <- (go_const Tuint64 0) ;; lessThanLowerBoundary C Tuint64 arg__1 arg__2)
    (fun _ => (go_const Tuint64 0))
    (fun _ => (go_if (arg__3 <- (Ok i) ;; arg__4 <- (go_const Tuint64 18446744073709551615) ;; greaterThanUpperBoundary C Tuint64 arg__3 arg__4)
      (fun _ => (go_const Tuint64 18446744073709551615))
      (fun _ => (go_conv C Tuint64 (Ok i)))))).

(* constraint of the type parameter of each conversion function *)
Definition ToInt_constraint : list (gkind * bool) := IConvertable.
Definition ToUint_constraint : list (gkind * bool) := IConvertable.
Definition ToInt8_constraint : list (gkind * bool) := IConvertable.
Definition ToUint8_constraint : list (gkind * bool) := IConvertable.
Definition ToInt16_constraint : list (gkind * bool) := IConvertable.
Definition ToUint16_constraint : list (gkind * bool) := IConvertable.
Definition ToInt32_constraint : list (gkind * bool) := IConvertable.
Definition ToUint32_constraint : list (gkind * bool) := IConvertable.
Definition ToInt64_constraint : list (gkind * bool) := IConvertable.
Definition ToUint64_constraint : list (gkind * bool) := IConvertable.
