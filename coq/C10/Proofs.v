(* C10 — proofs about the GENERATED model GU.C10.Gen (through the index GU.C10.Model.cast).
   Plan: (1) specifications of the three generated helpers isFloat / lessThanLowerBoundary / greaterThanUpperBoundary
   for every source type; (2) ONE general saturation lemma for the shape "lower guard, upper guard, native conversion"
   (cast_shape), with side conditions on the constants that are closed computations; (3) each of the ten generated
   functions IS that shape (reflexivity) with constants that pass the side conditions. *)
From Coq Require Import ZArith Bool List Lia.
Import ListNotations.
From GU Require Import C10.Model.
From GU Require C10.GenPrefix.
Local Open Scope Z_scope.

(* ---------- comparisons ---------- *)
Lemma cmp_ge z w : cmp_holds Oge (Some (z ?= w)) = (w <=? z).
Proof. destruct (Z.compare_spec z w); cbn; symmetry; [apply Z.leb_le | apply Z.leb_gt | apply Z.leb_le]; lia. Qed.
Lemma cmp_le z w : cmp_holds Ole (Some (z ?= w)) = (z <=? w).
Proof. destruct (Z.compare_spec z w); cbn; symmetry; [apply Z.leb_le | apply Z.leb_le | apply Z.leb_gt]; lia. Qed.
Lemma cmp_lt z w : cmp_holds Olt (Some (z ?= w)) = (z <? w).
Proof. destruct (Z.compare_spec z w); cbn; symmetry; [apply Z.ltb_ge | apply Z.ltb_lt | apply Z.ltb_ge]; lia. Qed.
Lemma cmp_gt z w : cmp_holds Ogt (Some (z ?= w)) = (w <? z).
Proof. destruct (Z.compare_spec z w); cbn; symmetry; [apply Z.ltb_ge | apply Z.ltb_ge | apply Z.ltb_lt]; lia. Qed.

(* ---------- kinds ---------- *)
Lemma is_float_int k : is_float k = negb (is_int k).
Proof. destruct k; reflexivity. Qed.

Lemma krange_bounds k : is_int k = true ->
  -9223372036854775808 <= kmin k /\ kmin k <= 0 /\ 0 <= kmax k /\ kmax k <= 18446744073709551615.
Proof. destruct k; intro H; try discriminate H; cbn; lia. Qed.

Lemma in_range_iff k z : in_range k z = true <-> kmin k <= z <= kmax k.
Proof. unfold in_range. rewrite andb_true_iff, !Z.leb_le. tauto. Qed.

Lemma const_int T z : is_int (kind T) = true -> kmin (kind T) <= z <= kmax (kind T) -> go_const T z = Ok (VZ z).
Proof. intros H Hr. unfold go_const. rewrite H. apply in_range_iff in Hr. now rewrite Hr. Qed.

Lemma const_int0 T : is_int (kind T) = true -> go_const T 0 = Ok (VZ 0).
Proof. intro H. apply const_int; [exact H|]. destruct (krange_bounds _ H); lia. Qed.

Lemma const_float0 T : is_float (kind T) = true -> go_const T 0 = Ok (VF (Fin 0 0)).
Proof. destruct T as [k n]; destruct k; intro H; try discriminate H; reflexivity. Qed.

Lemma conv_int_int A B z : is_int (kind A) = true -> is_int (kind B) = true ->
  go_conv A B (Ok (VZ z)) = Ok (VZ (wrap (kind B) z)).
Proof. intros HA HB. unfold go_conv. cbn [go_bind]. now rewrite HA, HB. Qed.

Lemma conv_int_f64 A z : is_int (kind A) = true -> go_conv A Tfloat64 (Ok (VZ z)) = Ok (VF (rne 53 z)).
Proof. intros HA. unfold go_conv. cbn [go_bind]. now rewrite HA. Qed.

Lemma conv_float_f64 A f : is_float (kind A) = true -> go_conv A Tfloat64 (Ok (VF f)) = Ok (VF f).
Proof. destruct A as [k n]; destruct k; intro H; try discriminate H; reflexivity. Qed.

Lemma cmp_int o T z w : is_int (kind T) = true -> go_cmp o T (Ok (VZ z)) (Ok (VZ w)) = Ok (cmp_holds o (Some (z ?= w))).
Proof. intro H. unfold go_cmp. cbn [go_bind]. now rewrite H. Qed.

Lemma cmp_float o T f g : is_float (kind T) = true -> go_cmp o T (Ok (VF f)) (Ok (VF g)) = Ok (cmp_holds o (fcmp f g)).
Proof. intro H. unfold go_cmp. cbn [go_bind]. now rewrite H. Qed.

(* ---------- boundary.go: isFloat — decided from the type parameter, named types included ---------- *)
Lemma isFloat_spec C : isFloat C = Ok (is_float (kind C)).
Proof. destruct C as [k n]; destruct k; vm_compute; reflexivity. Qed.

(* ---------- boundary.go: the two guards on an integer source ---------- *)
Lemma less_int C1 C2 z b :
  is_int (kind C1) = true -> is_int (kind C2) = true ->
  kmin (kind C1) <= z <= kmax (kind C1) -> kmin Kint64 <= b <= kmax Kint64 ->
  lessThanLowerBoundary C1 C2 (VZ z) (VZ b) = Ok ((z <? 0) && (z <? b)).
Proof.
  intros H1 H2 Hz Hb. unfold lessThanLowerBoundary. cbn [go_bind].
  rewrite (const_int0 _ H1), (cmp_int _ _ _ _ H1), cmp_ge. unfold go_if at 1. cbn [go_bind].
  destruct (Z.leb_spec 0 z) as [Hs|Hs].
  - replace (z <? 0) with false by (symmetry; apply Z.ltb_ge; lia). reflexivity.
  - replace (z <? 0) with true by (symmetry; apply Z.ltb_lt; lia).
    rewrite isFloat_spec, is_float_int, H1. cbn [negb go_if go_bind].
    rewrite (conv_int_int C1 Tint64 _ H1 eq_refl), (conv_int_int C2 Tint64 _ H2 eq_refl).
    cbn [kind Tint64].
    assert (Hw : wrap Kint64 z = z).
    { apply wrap_in_range; [reflexivity|]. destruct (krange_bounds _ H1) as (Ha & _). cbn. lia. }
    rewrite Hw, (wrap_in_range Kint64 b eq_refl Hb), (cmp_int Olt Tint64 _ _ eq_refl), cmp_lt. reflexivity.
Qed.

Lemma greater_int C1 C2 z b :
  is_int (kind C1) = true -> is_int (kind C2) = true ->
  kmin (kind C1) <= z <= kmax (kind C1) -> 0 <= b <= kmax Kuint64 ->
  greaterThanUpperBoundary C1 C2 (VZ z) (VZ b) = Ok ((0 <? z) && (b <? z)).
Proof.
  intros H1 H2 Hz Hb. unfold greaterThanUpperBoundary. cbn [go_bind].
  rewrite (const_int0 _ H1), (cmp_int _ _ _ _ H1), cmp_le. unfold go_if at 1. cbn [go_bind].
  destruct (Z.leb_spec z 0) as [Hs|Hs].
  - replace (0 <? z) with false by (symmetry; apply Z.ltb_ge; lia). reflexivity.
  - replace (0 <? z) with true by (symmetry; apply Z.ltb_lt; lia).
    rewrite isFloat_spec, is_float_int, H1. cbn [negb go_if go_bind].
    rewrite (conv_int_int C1 Tuint64 _ H1 eq_refl), (conv_int_int C2 Tuint64 _ H2 eq_refl).
    cbn [kind Tuint64].
    assert (Hw : wrap Kuint64 z = z).
    { apply wrap_in_range; [reflexivity|]. destruct (krange_bounds _ H1) as (_ & _ & _ & Ha). cbn. lia. }
    assert (Hw2 : wrap Kuint64 b = b) by (apply wrap_in_range; [reflexivity|]; cbn in *; lia).
    rewrite Hw, Hw2, (cmp_int Ogt Tuint64 _ _ eq_refl), cmp_gt. reflexivity.
Qed.

(* ---------- floats: exact comparison of a dyadic value with an integer-valued float ---------- *)
(* m * 2^e compared with the integer F, without leaving Z *)
Definition cmpQ (m e F : Z) : comparison := if 0 <=? e then (m * 2 ^ e ?= F) else (m ?= F * 2 ^ (- e)).

Lemma cmp_scale a b c : 0 < c -> (a * c ?= b * c) = (a ?= b).
Proof. intro Hc. symmetry. apply Zmult_compare_compat_r. lia. Qed.

Lemma fcmp_int m e M E : 0 <= E -> fcmp (Fin m e) (Fin M E) = Some (cmpQ m e (M * 2 ^ E)).
Proof.
  intro HE. unfold fcmp, cmpQ. f_equal. destruct (Z.leb_spec 0 e) as [He|He].
  - set (mn := Z.min e E). assert (0 <= mn <= e /\ mn <= E) as (H0 & H1) by (unfold mn; lia).
    replace (m * 2 ^ e) with (m * 2 ^ (e - mn) * 2 ^ mn).
    2:{ rewrite <- Z.mul_assoc, <- Z.pow_add_r by lia. do 2 f_equal. lia. }
    replace (M * 2 ^ E) with (M * 2 ^ (E - mn) * 2 ^ mn).
    2:{ rewrite <- Z.mul_assoc, <- Z.pow_add_r by lia. do 2 f_equal. lia. }
    symmetry. apply cmp_scale. apply Z.pow_pos_nonneg; lia.
  - replace (Z.min e E) with e by lia. rewrite Z.sub_diag, Z.pow_0_r, Z.mul_1_r.
    rewrite <- Z.mul_assoc, <- Z.pow_add_r by lia. replace (E + - e) with (E - e) by lia. reflexivity.
Qed.

Lemma cmpQ_sign m e : cmpQ m e 0 = (m ?= 0).
Proof.
  unfold cmpQ. destruct (Z.leb_spec 0 e) as [He|He]; [|reflexivity].
  rewrite <- (cmp_scale m 0 (2 ^ e)) by (apply Z.pow_pos_nonneg; lia). reflexivity.
Qed.

Lemma fcmp_zero m e : fcmp (Fin m e) (Fin 0 0) = Some (m ?= 0).
Proof. rewrite fcmp_int by lia. now rewrite Z.mul_0_l, cmpQ_sign. Qed.

(* THE arithmetic core (upper guard): for a positive value m*2^e and a float bound F that is hi or hi+1,
   "value >= F" holds exactly when the truncated value is out of range above. *)
Lemma upper_guard m e F hi : 0 < m -> 0 <= hi -> hi <= F <= hi + 1 ->
  if cmp_holds Oge (Some (cmpQ m e F)) then hi <= ftrunc m e else 0 <= ftrunc m e <= hi.
Proof.
  intros Hm Hhi HF. unfold cmpQ, ftrunc. destruct (Z.leb_spec 0 e) as [He|He].
  - rewrite cmp_ge. assert (0 < 2 ^ e) by (apply Z.pow_pos_nonneg; lia).
    destruct (Z.leb_spec F (m * 2 ^ e)); nia.
  - rewrite cmp_ge. set (d := 2 ^ (- e)). assert (Hd : 0 < d) by (apply Z.pow_pos_nonneg; lia).
    pose proof (Z.quot_rem' m d) as Hq. pose proof (Z.rem_bound_pos m d ltac:(lia) Hd) as Hr.
    set (q := Z.quot m d) in *. set (r := Z.rem m d) in *.
    destruct (Z.leb_spec (F * d) m); nia.
Qed.

(* lower guard: for a negative value and a float bound F that is lo or lo-1, "value <= F" holds exactly when the
   truncated value is out of range below. *)
Lemma lower_guard m e F lo : m < 0 -> lo <= 0 -> lo - 1 <= F <= lo ->
  if cmp_holds Ole (Some (cmpQ m e F)) then ftrunc m e <= lo else lo <= ftrunc m e <= 0.
Proof.
  intros Hm Hlo HF. unfold cmpQ, ftrunc. destruct (Z.leb_spec 0 e) as [He|He].
  - rewrite cmp_le. assert (0 < 2 ^ e) by (apply Z.pow_pos_nonneg; lia).
    destruct (Z.leb_spec (m * 2 ^ e) F); nia.
  - rewrite cmp_le. set (d := 2 ^ (- e)). assert (Hd : 0 < d) by (apply Z.pow_pos_nonneg; lia).
    pose proof (Z.quot_rem' m d) as Hq. pose proof (Z.rem_bound_pos_neg m d Hd ltac:(lia)) as Hr.
    set (q := Z.quot m d) in *. set (r := Z.rem m d) in *.
    destruct (Z.leb_spec m (F * d)); nia.
Qed.

(* ---------- boundary.go: the two guards on a float source (named or not) ---------- *)
Lemma less_float C1 C2 f b : is_float (kind C1) = true -> is_int (kind C2) = true ->
  lessThanLowerBoundary C1 C2 (VF f) (VZ b) =
  Ok (negb (cmp_holds Oge (fcmp f (Fin 0 0))) && cmp_holds Ole (fcmp f (rne 53 b))).
Proof.
  intros H1 H2. unfold lessThanLowerBoundary. cbn [go_bind].
  rewrite (const_float0 _ H1), (cmp_float _ _ _ _ H1). unfold go_if at 1. cbn [go_bind].
  destruct (cmp_holds Oge (fcmp f (Fin 0 0))); [reflexivity|].
  rewrite isFloat_spec, H1. cbn [negb go_if go_bind andb].
  rewrite (conv_float_f64 _ _ H1), (conv_int_f64 _ _ H2), (cmp_float Ole Tfloat64 _ _ eq_refl). reflexivity.
Qed.

Lemma greater_float C1 C2 f b : is_float (kind C1) = true -> is_int (kind C2) = true ->
  greaterThanUpperBoundary C1 C2 (VF f) (VZ b) =
  Ok (negb (cmp_holds Ole (fcmp f (Fin 0 0))) && cmp_holds Oge (fcmp f (rne 53 b))).
Proof.
  intros H1 H2. unfold greaterThanUpperBoundary. cbn [go_bind].
  rewrite (const_float0 _ H1), (cmp_float _ _ _ _ H1). unfold go_if at 1. cbn [go_bind].
  destruct (cmp_holds Ole (fcmp f (Fin 0 0))); [reflexivity|].
  rewrite isFloat_spec, H1. cbn [negb go_if go_bind andb].
  rewrite (conv_float_f64 _ _ H1), (conv_int_f64 _ _ H2), (cmp_float Oge Tfloat64 _ _ eq_refl). reflexivity.
Qed.

(* ---------- cast.go: the common shape of the ten functions, and the general saturation lemma ---------- *)
(* lower guard against the constant lo (passed with type Tlo), upper guard against hi (type Thi), then the native
   conversion to Tres — literally the text the translator emits for every To<T>. *)
Definition cast_shape (Tlo Thi Tres : gty) (lo hi : Z) (C : gty) (i : val) : res val :=
  (go_if (arg__1 <- (Ok i) ;; arg__2 <- (go_const Tlo lo) ;; lessThanLowerBoundary C Tlo arg__1 arg__2)
    (fun _ => (go_const Tres lo))
    (fun _ => (go_if (arg__3 <- (Ok i) ;; arg__4 <- (go_const Thi hi) ;; greaterThanUpperBoundary C Thi arg__3 arg__4)
      (fun _ => (go_const Tres hi))
      (fun _ => (go_conv C Tres (Ok i)))))).

Definition fl_intval (f : fl) : option Z :=
  match f with Fin m e => if 0 <=? e then Some (m * 2 ^ e) else None | _ => None end.

(* side conditions on the constants of one function: all closed, decided by computation for each instance *)
Definition shape_ok (Tlo Thi Tres : gty) (lo hi : Z) : bool :=
  is_int (kind Tlo) && is_int (kind Thi) && is_int (kind Tres)
  && (lo =? kmin (kind Tres)) && (hi =? kmax (kind Tres))           (* the constants ARE the range of the result type *)
  && in_range (kind Tlo) lo && in_range (kind Thi) hi               (* the constants fit the types they are passed with *)
  && in_range Kint64 lo && in_range Kuint64 hi                      (* int64(boundary) / uint64(upperBoundary) do not wrap *)
  && (lo <=? 0) && (0 <=? hi)
  && match fl_intval (rne 53 lo) with Some F => (lo - 1 <=? F) && (F <=? lo) | None => false end   (* float64(boundary) *)
  && match fl_intval (rne 53 hi) with Some F => (hi <=? F) && (F <=? hi + 1) | None => false end.  (* float64(upperBoundary) *)

Record shape_facts (Tlo Thi Tres : gty) (lo hi : Z) : Prop := {
  sf_ilo : is_int (kind Tlo) = true; sf_ihi : is_int (kind Thi) = true; sf_ires : is_int (kind Tres) = true;
  sf_lo : lo = kmin (kind Tres); sf_hi : hi = kmax (kind Tres);
  sf_rlo : kmin (kind Tlo) <= lo <= kmax (kind Tlo); sf_rhi : kmin (kind Thi) <= hi <= kmax (kind Thi);
  sf_lo64 : kmin Kint64 <= lo <= kmax Kint64; sf_hi64 : 0 <= hi <= kmax Kuint64;
  sf_lo0 : lo <= 0; sf_hi0 : 0 <= hi;
  sf_flo : exists M E, rne 53 lo = Fin M E /\ 0 <= E /\ lo - 1 <= M * 2 ^ E <= lo;
  sf_fhi : exists M E, rne 53 hi = Fin M E /\ 0 <= E /\ hi <= M * 2 ^ E <= hi + 1 }.

Lemma fl_intval_some f F : fl_intval f = Some F -> exists M E, f = Fin M E /\ 0 <= E /\ F = M * 2 ^ E.
Proof.
  destruct f as [M E| |]; cbn; try discriminate. destruct (Z.leb_spec 0 E); [|discriminate].
  intro HF; injection HF as <-. now exists M, E.
Qed.

Lemma shape_ok_facts Tlo Thi Tres lo hi : shape_ok Tlo Thi Tres lo hi = true -> shape_facts Tlo Thi Tres lo hi.
Proof.
  unfold shape_ok. rewrite !andb_true_iff, !in_range_iff, !Z.eqb_eq, !Z.leb_le.
  intros ((((((((((((H1 & H2) & H3) & H4) & H5) & H6) & H7) & H8) & H9) & H10) & H11) & H12) & H13).
  destruct (fl_intval (rne 53 lo)) as [F1|] eqn:E1; [|discriminate].
  destruct (fl_intval (rne 53 hi)) as [F2|] eqn:E2; [|discriminate].
  rewrite andb_true_iff, !Z.leb_le in H12, H13.
  apply fl_intval_some in E1 as (M1 & X1 & R1 & P1 & ->). apply fl_intval_some in E2 as (M2 & X2 & R2 & P2 & ->).
  constructor; try assumption; try (cbn in *; lia).
  - now exists M1, X1.
  - now exists M2, X2.
Qed.

Section Shape.
Variables (Tlo Thi Tres : gty) (lo hi : Z).
Hypothesis OK : shape_facts Tlo Thi Tres lo hi.

Ltac facts :=
  pose proof (sf_ilo _ _ _ _ _ OK) as Filo; pose proof (sf_ihi _ _ _ _ _ OK) as Fihi;
  pose proof (sf_ires _ _ _ _ _ OK) as Fires; pose proof (sf_lo _ _ _ _ _ OK) as Flo;
  pose proof (sf_hi _ _ _ _ _ OK) as Fhi; pose proof (sf_rlo _ _ _ _ _ OK) as Frlo;
  pose proof (sf_rhi _ _ _ _ _ OK) as Frhi; pose proof (sf_lo64 _ _ _ _ _ OK) as Flo64;
  pose proof (sf_hi64 _ _ _ _ _ OK) as Fhi64; pose proof (sf_lo0 _ _ _ _ _ OK) as Flo0;
  pose proof (sf_hi0 _ _ _ _ _ OK) as Fhi0;
  destruct (sf_flo _ _ _ _ _ OK) as (M1 & E1 & R1 & P1 & B1);
  destruct (sf_fhi _ _ _ _ _ OK) as (M2 & E2 & R2 & P2 & B2).

Lemma shape_int C z : is_int (kind C) = true -> kmin (kind C) <= z <= kmax (kind C) ->
  cast_shape Tlo Thi Tres lo hi C (VZ z) = Ok (VZ (clamp lo hi z)).
Proof.
  facts. intros HC Hz. unfold cast_shape. cbn [go_bind].
  rewrite (const_int Tlo lo), (const_int Thi hi), (const_int Tres lo), (const_int Tres hi) by (assumption || lia).
  cbn [go_bind]. rewrite less_int, greater_int by assumption.
  unfold go_if, clamp. cbn [go_bind].
  destruct (Z.ltb_spec z 0), (Z.ltb_spec z lo), (Z.ltb_spec 0 z), (Z.ltb_spec hi z); cbn [andb];
    try (f_equal; f_equal; lia);
    (rewrite (conv_int_int _ _ _ HC Fires), wrap_in_range by (assumption || lia); f_equal; f_equal; lia).
Qed.

Lemma shape_fin C m e : is_float (kind C) = true ->
  cast_shape Tlo Thi Tres lo hi C (VF (Fin m e)) = Ok (VZ (clamp lo hi (ftrunc m e))).
Proof.
  facts. intros HC. unfold cast_shape. cbn [go_bind].
  rewrite (const_int Tlo lo), (const_int Thi hi), (const_int Tres lo), (const_int Tres hi) by (assumption || lia).
  cbn [go_bind]. rewrite less_float, greater_float by assumption.
  rewrite R1, R2, fcmp_zero, !fcmp_int, cmp_ge, cmp_le by assumption.
  assert (Hconv : lo <= ftrunc m e <= hi ->
          go_conv C Tres (Ok (VF (Fin m e))) = Ok (VZ (clamp lo hi (ftrunc m e)))).
  { intro Hr. unfold go_conv. cbn [go_bind]. rewrite HC, Fires.
    replace (in_range (kind Tres) (ftrunc m e)) with true by (symmetry; apply in_range_iff; lia).
    unfold clamp. f_equal. f_equal. lia. }
  unfold go_if. cbn [go_bind].
  destruct (Z.leb_spec 0 m) as [H0|H0]; cbn [negb andb].
  - (* value >= 0: lower guard false *)
    destruct (Z.leb_spec m 0) as [H1|H1]; cbn [negb andb].
    + (* zero *) assert (m = 0) as -> by lia. apply Hconv. unfold ftrunc. destruct (Z.leb_spec 0 e); [lia|]. rewrite Z.quot_0_l; [lia|].
      apply Z.pow_nonzero; lia.
    + pose proof (upper_guard m e (M2 * 2 ^ E2) hi H1 Fhi0 B2) as G.
      destruct (cmp_holds Oge (Some (cmpQ m e (M2 * 2 ^ E2)))).
      * unfold clamp. f_equal. f_equal. lia.
      * apply Hconv. lia.
  - (* value < 0 *)
    pose proof (lower_guard m e (M1 * 2 ^ E1) lo H0 Flo0 B1) as G.
    destruct (cmp_holds Ole (Some (cmpQ m e (M1 * 2 ^ E1)))).
    + unfold clamp. f_equal. f_equal. lia.
    + replace (m <=? 0) with true by (symmetry; apply Z.leb_le; lia). cbn [negb andb]. apply Hconv. lia.
Qed.

Lemma shape_inf C s : is_float (kind C) = true ->
  cast_shape Tlo Thi Tres lo hi C (VF (Inf s)) = Ok (VZ (if s then lo else hi)).
Proof.
  facts. intros HC. unfold cast_shape. cbn [go_bind].
  rewrite (const_int Tlo lo), (const_int Thi hi), (const_int Tres lo), (const_int Tres hi) by (assumption || lia).
  cbn [go_bind]. rewrite less_float, greater_float by assumption.
  rewrite R1, R2. destruct s; reflexivity.
Qed.

(* NaN: both guards are false (every comparison with NaN is), the native conversion is reached: platform-defined
   result, no panic. *)
Lemma shape_nan C : is_float (kind C) = true ->
  cast_shape Tlo Thi Tres lo hi C (VF NaN) = ImplDefined.
Proof.
  facts. intros HC. unfold cast_shape. cbn [go_bind].
  rewrite (const_int Tlo lo), (const_int Thi hi) by (assumption || lia).
  cbn [go_bind]. rewrite less_float, greater_float by assumption.
  cbn. unfold go_conv. cbn [go_bind]. now rewrite HC, Fires.
Qed.
End Shape.

(* ---------- the ten generated functions are instances of the shape ---------- *)
(* constants and constant types of each function, as they appear in the generated text (cast.go) *)
Definition shape_of (t : gkind) : option (gty * gty * gty * Z * Z) :=
  match t with
  | Kint => Some (Tint, Tint, Tint, -9223372036854775808, 9223372036854775807)
  | Kuint => Some (Tuint, Tuint, Tuint, 0, 18446744073709551615)
  | Kint8 => Some (Tint, Tint, Tint8, -128, 127)
  | Kuint8 => Some (Tint, Tint, Tuint8, 0, 255)
  | Kint16 => Some (Tint, Tint, Tint16, -32768, 32767)
  | Kuint16 => Some (Tint, Tint, Tuint16, 0, 65535)
  | Kint32 => Some (Tint, Tint, Tint32, -2147483648, 2147483647)
  | Kuint32 => Some (Tint, Tint, Tuint32, 0, 4294967295)
  | Kint64 => Some (Tint, Tint, Tint64, -9223372036854775808, 9223372036854775807)
  | Kuint64 => Some (Tuint64, Tuint64, Tuint64, 0, 18446744073709551615)
  | Kfloat32 | Kfloat64 => None
  end.

(* This is where an edit of cast.go is noticed: the regenerated function must still be the shape (reflexivity on the
   generated text) with constants passing the side conditions (closed computation). *)
Lemma cast_is_shape t : is_int t = true ->
  exists Tlo Thi lo hi, cast t = cast_shape Tlo Thi (mkTy t false) lo hi /\ shape_ok Tlo Thi (mkTy t false) lo hi = true.
Proof.
  intro Ht. destruct (shape_of t) as [[[[[Tlo Thi] Tres] lo] hi]|] eqn:E; [|destruct t; discriminate].
  exists Tlo, Thi, lo, hi.
  destruct t; try discriminate Ht; injection E as <- <- <- <- <-; (split; [reflexivity | vm_compute; reflexivity]).
Qed.

Lemma cast_facts t : is_int t = true ->
  exists Tlo Thi, cast t = cast_shape Tlo Thi (mkTy t false) (kmin t) (kmax t) /\
                  shape_facts Tlo Thi (mkTy t false) (kmin t) (kmax t).
Proof.
  intro Ht. destruct (cast_is_shape t Ht) as (Tlo & Thi & lo & hi & E & OK).
  apply shape_ok_facts in OK. pose proof (sf_lo _ _ _ _ _ OK) as H1. pose proof (sf_hi _ _ _ _ _ OK) as H2.
  cbn [kind] in H1, H2. subst lo hi. now exists Tlo, Thi.
Qed.

(* ---------- the property, on the generated model ---------- *)
Lemma cast_saturates_l t s v : is_int t = true -> has_type s v -> is_nan v = false ->
  exists z, cast t s v = Ok (VZ z) /\ saturate t v = Some z.
Proof.
  intros Ht Hty Hn. destruct (cast_facts t Ht) as (Tlo & Thi & -> & OK).
  destruct v as [z|[m e|sg|]]; cbn in Hty; destruct Hty as [Hk Hv].
  - eexists; split; [apply (shape_int _ _ _ _ _ OK); assumption | reflexivity].
  - eexists; split; [apply (shape_fin _ _ _ _ _ OK); assumption | reflexivity].
  - eexists; split; [apply (shape_inf _ _ _ _ _ OK); assumption | destruct sg; reflexivity].
  - discriminate Hn.
Qed.

Lemma cast_nan_l t s : is_int t = true -> is_float (kind s) = true -> cast t s (VF NaN) = ImplDefined.
Proof.
  intros Ht Hs. destruct (cast_facts t Ht) as (Tlo & Thi & -> & OK). now apply (shape_nan _ _ _ _ _ OK).
Qed.

Lemma constraint_all t s : is_int t = true -> satisfies (cast_constraint t) s = true.
Proof. destruct s as [k n]; destruct t; intro H; try discriminate H; destruct k, n; reflexivity. Qed.

(* ---------- monotonicity ---------- *)
Lemma clamp_mono lo hi a b : a <= b -> clamp lo hi a <= clamp lo hi b.
Proof. unfold clamp. lia. Qed.
Lemma clamp_range lo hi a : lo <= hi -> lo <= clamp lo hi a <= hi.
Proof. unfold clamp. lia. Qed.

(* rescaling the mantissa does not change the truncated value *)
Lemma ftrunc_scale m e k : 0 <= k -> ftrunc (m * 2 ^ k) (e - k) = ftrunc m e.
Proof.
  intro Hk. unfold ftrunc. destruct (Z.leb_spec 0 (e - k)) as [H1|H1], (Z.leb_spec 0 e) as [H2|H2]; try lia.
  - rewrite <- Z.mul_assoc, <- Z.pow_add_r by lia. do 2 f_equal. lia.
  - replace (2 ^ k) with (2 ^ e * 2 ^ (- (e - k))) by (rewrite <- Z.pow_add_r by lia; f_equal; lia).
    rewrite Z.mul_assoc, Z.quot_mul; [reflexivity|]. apply Z.pow_nonzero; lia.
  - replace (2 ^ (- (e - k))) with (2 ^ (- e) * 2 ^ k) by (rewrite <- Z.pow_add_r by lia; f_equal; lia).
    apply Z.quot_mul_cancel_r; apply Z.pow_nonzero; lia.
Qed.

Lemma ftrunc_mono_same m1 m2 e : m1 <= m2 -> ftrunc m1 e <= ftrunc m2 e.
Proof.
  intro H. unfold ftrunc. destruct (Z.leb_spec 0 e).
  - apply Z.mul_le_mono_nonneg_r; [apply Z.pow_nonneg; lia | exact H].
  - apply Z.quot_le_mono; [apply Z.pow_pos_nonneg; lia | exact H].
Qed.

Lemma ftrunc_mono m1 e1 m2 e2 :
  fcmp (Fin m1 e1) (Fin m2 e2) = Some Lt \/ fcmp (Fin m1 e1) (Fin m2 e2) = Some Eq ->
  ftrunc m1 e1 <= ftrunc m2 e2.
Proof.
  cbn [fcmp]. set (mn := Z.min e1 e2). intro H.
  rewrite <- (ftrunc_scale m1 e1 (e1 - mn)), <- (ftrunc_scale m2 e2 (e2 - mn)) by lia.
  replace (e1 - (e1 - mn)) with mn by lia. replace (e2 - (e2 - mn)) with mn by lia.
  apply ftrunc_mono_same.
  set (a := m1 * 2 ^ (e1 - mn)) in *. set (b := m2 * 2 ^ (e2 - mn)) in *. clearbody a b.
  destruct (Z.compare_spec a b) as [Hc|Hc|Hc]; try lia. destruct H; discriminate.
Qed.

Lemma saturate_mono t v1 v2 z1 z2 : kmin t <= kmax t ->
  val_le v1 v2 -> saturate t v1 = Some z1 -> saturate t v2 = Some z2 -> z1 <= z2.
Proof.
  intros Hr Hle H1 H2.
  destruct v1 as [a|[m1 e1|s1|]], v2 as [b|[m2 e2|s2|]]; cbn in Hle, H1, H2; try contradiction; try discriminate.
  - injection H1 as <-; injection H2 as <-. now apply clamp_mono.
  - injection H1 as <-; injection H2 as <-. apply clamp_mono. now apply ftrunc_mono.
  - injection H1 as <-. destruct s2; injection H2 as <-; [destruct Hle; discriminate|].
    apply clamp_range; exact Hr.
  - injection H2 as <-. destruct s1; injection H1 as <-; [|destruct Hle; discriminate].
    apply clamp_range; exact Hr.
  - destruct s1, s2; injection H1 as <-; injection H2 as <-; try lia. destruct Hle; discriminate.
Qed.

Lemma krange_ne t : is_int t = true -> kmin t <= kmax t.
Proof. intro H. destruct (krange_bounds t H). lia. Qed.

Lemma val_le_not_nan v1 v2 : val_le v1 v2 -> is_nan v1 = false /\ is_nan v2 = false.
Proof.
  destruct v1 as [a|[m1 e1|s1|]], v2 as [b|[m2 e2|s2|]]; cbn; intro H; try contradiction; try (split; reflexivity);
    destruct H; discriminate.
Qed.

Lemma cast_monotone_l t s v1 v2 : is_int t = true -> has_type s v1 -> has_type s v2 -> val_le v1 v2 ->
  res_le (cast t s v1) (cast t s v2).
Proof.
  intros Ht T1 T2 Hle. destruct (val_le_not_nan _ _ Hle) as [N1 N2].
  destruct (cast_saturates_l t s v1 Ht T1 N1) as (z1 & -> & S1).
  destruct (cast_saturates_l t s v2 Ht T2 N2) as (z2 & -> & S2).
  cbn. eapply saturate_mono; eauto. now apply krange_ne.
Qed.

(* ---------- D6: the code BEFORE the fix (frozen snapshot GenPrefix) ---------- *)
(* type MyFloat float64; 1e30 and 2e19 as binary64 bit patterns *)
Definition MyFloat64 : gty := mkTy Kfloat64 true.
Definition f64_1e30 : val := VF (decode64 5055640609639927018).
Definition f64_2e19 : val := VF (decode64 4895792007824358656).

(* The type switch does not recognise the named type, the integer branch converts the float to uint64 BEFORE
   comparing: a platform-defined conversion is reached (on amd64 it yields 2^63, and 2^63 is what came back). *)
Lemma prefix_named_float_refuted_l :
  exists v, has_type MyFloat64 v /\ is_nan v = false /\
            GenPrefix.ToUint64 MyFloat64 v = ImplDefined /\ saturate Kuint64 v = Some 18446744073709551615.
Proof. exists f64_2e19. vm_compute. repeat split; try reflexivity; intro H; discriminate H. Qed.

(* the same calls on the regenerated (fixed) code *)
Example fixed_named_float_1e30 : ToUint64 MyFloat64 f64_1e30 = Ok (VZ 18446744073709551615).
Proof. vm_compute. reflexivity. Qed.
Example fixed_named_float_2e19 : ToUint64 MyFloat64 f64_2e19 = Ok (VZ 18446744073709551615).
Proof. vm_compute. reflexivity. Qed.
(* the unnamed float64 was right before the fix as well *)
Example prefix_plain_float_ok : GenPrefix.ToUint64 Tfloat64 f64_2e19 = Ok (VZ 18446744073709551615).
Proof. vm_compute. reflexivity. Qed.

(* ---------- every bit pattern is a value of its float type (so "has_type" leaves no float out) ---------- *)
Lemma decode_valid32 b : fl_valid Kfloat32 (decode32 b).
Proof.
  unfold decode32, decode_gen; cbv zeta.
  change (2 ^ 23) with 8388608. change (2 ^ 8) with 256. change (23 + 8) with 31. change (1 - 127 - 23) with (-149).
  pose proof (Z.mod_pos_bound b 8388608 eq_refl) as Hf.
  pose proof (Z.mod_pos_bound (b / 8388608) 256 eq_refl) as He.
  generalize dependent (b mod 8388608). generalize dependent ((b / 8388608) mod 256). generalize (Z.odd (b / 2 ^ 31)).
  intros sg ex He frac Hf.
  destruct (Z.eqb_spec ex (256 - 1)); [destruct (frac =? 0); exact I|].
  destruct (Z.eqb_spec ex 0); destruct sg; unfold fl_valid, mant_bound, emin, emax; lia.
Qed.

Lemma decode_valid64 b : fl_valid Kfloat64 (decode64 b).
Proof.
  unfold decode64, decode_gen; cbv zeta.
  change (2 ^ 52) with 4503599627370496. change (2 ^ 11) with 2048. change (52 + 11) with 63.
  change (1 - 1023 - 52) with (-1074).
  pose proof (Z.mod_pos_bound b 4503599627370496 eq_refl) as Hf.
  pose proof (Z.mod_pos_bound (b / 4503599627370496) 2048 eq_refl) as He.
  generalize dependent (b mod 4503599627370496). generalize dependent ((b / 4503599627370496) mod 2048).
  generalize (Z.odd (b / 2 ^ 63)).
  intros sg ex He frac Hf.
  destruct (Z.eqb_spec ex (2048 - 1)); [destruct (frac =? 0); exact I|].
  destruct (Z.eqb_spec ex 0); destruct sg; unfold fl_valid, mant_bound, emin, emax; lia.
Qed.

Lemma decode_has_type k n b : is_float k = true -> has_type (mkTy k n) (VF (decode k b)).
Proof.
  intro H. split; [exact H|]. destruct k; try discriminate H; [apply decode_valid32 | apply decode_valid64].
Qed.
