(* C10 — model of utils/safecast.  Definitions only.
   The model proper is NOT written here: it is GU.C10.Gen, regenerated from cast.go / boundary.go / number.go by
   translator/cmd/gocast2coq on every run, over the hand-written semantic base GU.C10.GoNum.  This file only
   (1) indexes the ten generated conversion functions by their target kind, (2) states the specification
   "truncate, then clamp" they are compared with, and (3) defines the correspondence cases. *)
From Coq Require Import ZArith NArith Bool List.
Import ListNotations.
From GU Require Export C10.GoNum C10.Gen.
Local Open Scope Z_scope.

(* cast.go: ToInt :8, ToUint :21, ToInt8 :34, ToUint8 :47, ToInt16 :60, ToUint16 :73, ToInt32 :86, ToUint32 :99,
   ToInt64 :112, ToUint64 :125 — the generated definitions, indexed by the kind of the result type. *)
Definition cast (t : gkind) : gty -> val -> res val :=
  match t with
  | Kint => ToInt | Kint8 => ToInt8 | Kint16 => ToInt16 | Kint32 => ToInt32 | Kint64 => ToInt64
  | Kuint => ToUint | Kuint8 => ToUint8 | Kuint16 => ToUint16 | Kuint32 => ToUint32 | Kuint64 => ToUint64
  | Kfloat32 | Kfloat64 => fun _ _ => Stuck     (* there is no ToFloat *)
  end.

(* the constraint on the source type parameter of each conversion function (number.go), as extracted *)
Definition cast_constraint (t : gkind) : list (gkind * bool) :=
  match t with
  | Kint => ToInt_constraint | Kint8 => ToInt8_constraint | Kint16 => ToInt16_constraint
  | Kint32 => ToInt32_constraint | Kint64 => ToInt64_constraint
  | Kuint => ToUint_constraint | Kuint8 => ToUint8_constraint | Kuint16 => ToUint16_constraint
  | Kuint32 => ToUint32_constraint | Kuint64 => ToUint64_constraint
  | Kfloat32 | Kfloat64 => []
  end.

(* ---------- specification (property text): drop the fraction; if out of range take the nearer bound ---------- *)
Definition clamp (lo hi z : Z) : Z := Z.max lo (Z.min hi z).

Definition saturate (t : gkind) (v : val) : option Z :=
  match v with
  | VZ z => Some (clamp (kmin t) (kmax t) z)
  | VF (Fin m e) => Some (clamp (kmin t) (kmax t) (ftrunc m e))
  | VF (Inf true) => Some (kmin t)
  | VF (Inf false) => Some (kmax t)
  | VF NaN => None                     (* NaN is not ordered: no demand beyond "no panic" *)
  end.

(* order of the source values (unordered when a NaN is involved) *)
Definition val_le (a b : val) : Prop :=
  match a, b with
  | VZ x, VZ y => x <= y
  | VF f, VF g => fcmp f g = Some Lt \/ fcmp f g = Some Eq
  | _, _ => False
  end.

Definition res_le (a b : res val) : Prop :=
  match a, b with Ok (VZ x), Ok (VZ y) => x <= y | _, _ => False end.

Definition is_nan (v : val) : bool := match v with VF NaN => true | _ => false end.

(* ---------- correspondence cases: observed calls of the real generic functions ---------- *)
(* An input is given as a Z: integer sources: the value; float sources: the IEEE-754 bit pattern (binary32/binary64). *)
Definition input_value (src : gkind) (i : Z) : val :=
  if is_float src then VF (decode src i) else VZ i.

(* The model must predict the observed output exactly; a platform-defined model result is acceptable only for NaN
   (for every other input the theorems say it cannot occur, so it counts as a disagreement). *)
Definition check_one (src : gkind) (nm : bool) (tgt : gkind) (i o : Z) : bool :=
  let s := mkTy src nm in
  let v := input_value src i in
  has_typeb s v &&
  match cast tgt s v with
  | Ok (VZ z) => z =? o
  | ImplDefined => is_nan v
  | _ => false
  end.

(* how the outputs of a run of consecutive integer inputs were observed to behave *)
Inductive runmode := RConst (c : Z) | RIdent.

Inductive case :=
  (* calls  To<tgt>(<src>(i)) = o  for each (i, o) of the list; named = the source is `type My<src> <src>` *)
  | CPairs (src : gkind) (nm : bool) (tgt : gkind) (io : list (Z * Z))
  (* integer sources: EVERY input lo, lo+1, …, lo+n-1 gave the constant c / gave back the input itself *)
  | CRun (src : gkind) (nm : bool) (tgt : gkind) (lo : Z) (n : N) (m : runmode).

Definition check_case (c : case) : bool :=
  match c with
  | CPairs src nm tgt io =>
      satisfies (cast_constraint tgt) (mkTy src nm) &&
      forallb (fun p => check_one src nm tgt (fst p) (snd p)) io
  | CRun src nm tgt lo n m =>
      satisfies (cast_constraint tgt) (mkTy src nm) && is_int src &&
      snd (N.iter n (fun st => (fst st + 1,
                                snd st && check_one src nm tgt (fst st) (match m with RConst c => c | RIdent => fst st end)))
                  (lo, true))
  end.
