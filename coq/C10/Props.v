(* C10 — Numeric conversions saturate: never wrap, never panic.
   Every theorem is about GU.C10.Gen, the Coq text REGENERATED from utils/safecast/{cast,boundary,number}.go on every
   run (through the index [cast] of GU.C10.Model), over the semantic base GU.C10.GoNum (64-bit int/uint).
   t ranges over the ten target kinds (is_int t), s over every source type (12 kinds, named or not), v over every
   value of s: all integers of the kind's range, all dyadic values m*2^e of the float format, both infinities. *)
From Coq Require Import ZArith Bool List Lia.
Import ListNotations.
From GU Require Import C10.Model C10.Proofs.
From GU Require C10.GenPrefix.
Local Open Scope Z_scope.

(* To<t>(v) = the value with its fraction dropped, clamped to the range of t (the nearer bound when out of range;
   -Inf -> min, +Inf -> max).  NaN is the only value excluded (it is not ordered; see cast_nan_no_guard). *)
Theorem cast_saturates : forall (t : gkind) (s : gty) (v : val),
  is_int t = true -> has_type s v -> is_nan v = false ->
  exists z, cast t s v = Ok (VZ z) /\ saturate t v = Some z.
Proof. exact cast_saturates_l. Qed.
Print Assumptions cast_saturates.

(* The native conversion that ends each function is only reached with an operand whose truncation is in range: the
   model's platform-defined outcome (and Panic, and Stuck) is unreachable, and the result is a value of the target
   type.  Go conversions cannot panic, so this is the content of "never wrap, never panic". *)
Theorem cast_never_impl_defined : forall (t : gkind) (s : gty) (v : val),
  is_int t = true -> has_type s v -> is_nan v = false ->
  cast t s v <> ImplDefined /\ cast t s v <> Panic /\ cast t s v <> Stuck /\
  exists z, cast t s v = Ok (VZ z) /\ kmin t <= z <= kmax t.
Proof.
  intros t s v Ht Hs Hn. destruct (cast_saturates_l t s v Ht Hs Hn) as (z & E & S). rewrite E.
  repeat split; try discriminate. exists z. split; [reflexivity|].
  pose proof (krange_ne t Ht) as Hr.
  destruct v as [a|[m e|[|]|]]; cbn in S; try discriminate; injection S as <-;
    try (apply clamp_range; exact Hr); lia.
Qed.
Print Assumptions cast_never_impl_defined.

(* a larger input never yields a smaller output *)
Theorem cast_monotone : forall (t : gkind) (s : gty) (v1 v2 : val),
  is_int t = true -> has_type s v1 -> has_type s v2 -> val_le v1 v2 ->
  res_le (cast t s v1) (cast t s v2).
Proof. exact cast_monotone_l. Qed.
Print Assumptions cast_monotone.

(* What the code does with NaN, made visible: both guards are false, the native conversion is reached — a
   platform-defined value, never a panic. *)
Theorem cast_nan_no_guard : forall (t : gkind) (s : gty),
  is_int t = true -> is_float (kind s) = true -> cast t s (VF NaN) = ImplDefined.
Proof. exact cast_nan_l. Qed.
Print Assumptions cast_nan_no_guard.

(* "every source numeric type": the extracted constraint of every To<t> admits all 12 kinds, named or not, and every
   IEEE bit pattern of a float kind is a value covered by the theorems above. *)
Theorem cast_accepts_every_numeric_type : forall (t : gkind) (s : gty),
  is_int t = true -> satisfies (cast_constraint t) s = true.
Proof. exact constraint_all. Qed.
Print Assumptions cast_accepts_every_numeric_type.

Theorem every_float_pattern_is_covered : forall (k : gkind) (n : bool) (bits : Z),
  is_float k = true -> has_type (mkTy k n) (VF (decode k bits)).
Proof. exact decode_has_type. Qed.
Print Assumptions every_float_pattern_is_covered.

(* D6 — the code BEFORE fixes/C10-named-float-guards.patch (frozen translator output GU.C10.GenPrefix) violated the
   property for named float types: there is a finite value of `type MyFloat float64` on which ToUint64 reaches a
   platform-defined conversion where the property demands MaxUint64.  The harness replays this witness on every run
   (on the repaired code it must give MaxUint64). *)
Theorem prefix_named_float_refuted :
  exists v, has_type MyFloat64 v /\ is_nan v = false /\
            GenPrefix.ToUint64 MyFloat64 v = ImplDefined /\ saturate Kuint64 v = Some 18446744073709551615.
Proof. exact prefix_named_float_refuted_l. Qed.
Print Assumptions prefix_named_float_refuted.

(* ---------- non-vacuity: the hypotheses are satisfiable, the statements say something ---------- *)
Example c10_nonvacuous_named_f32 :      (* type MyFloat32 float32; -3.5 -> ToUint8 = 0, ToInt8 = -3 *)
  let v := VF (decode32 3227516928) in
  has_type (mkTy Kfloat32 true) v /\ is_nan v = false /\
  cast Kuint8 (mkTy Kfloat32 true) v = Ok (VZ 0) /\ cast Kint8 (mkTy Kfloat32 true) v = Ok (VZ (-3)).
Proof. vm_compute. repeat split; try reflexivity; intro H; discriminate H. Qed.

Example c10_nonvacuous_u64_to_i8 :
  has_type Tuint64 (VZ 18446744073709551615) /\ cast Kint8 Tuint64 (VZ 18446744073709551615) = Ok (VZ 127).
Proof. vm_compute. repeat split; try reflexivity; intro H; discriminate H. Qed.

Example c10_nonvacuous_f64_2p63 :       (* 2^63 as float64 -> ToInt64 = MaxInt64; the value just below stays *)
  cast Kint64 Tfloat64 (VF (decode64 4890909195324358656)) = Ok (VZ 9223372036854775807) /\
  cast Kint64 Tfloat64 (VF (decode64 4890909195324358655)) = Ok (VZ 9223372036854774784).
Proof. vm_compute. split; reflexivity. Qed.

Example c10_nonvacuous_monotone : val_le (VF (decode64 4890909195324358655)) (VF (Inf false)).
Proof. vm_compute. left. reflexivity. Qed.
