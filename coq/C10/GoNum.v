(* GoNum — the hand-written semantic base of the C10 translator (translator/cmd/gocast2coq).
   Typed Go numerics in a shallow embedding:
   - sized integers are [Z] with the range of their kind; conversions wrap around ([wrap], the mod written out);
     int/uint are 64 bit (linux/amd64 — the only platform of the sandbox; stated in every theorem through [kmin]/[kmax]);
   - float32/float64 are a Z-only dyadic model  [Fin m e] (value m * 2^e) | [Inf sign] | [NaN];  -0 is identified
     with 0 (comparisons and conversions to integers cannot tell them apart);
   - a float -> integer conversion of NaN, an infinity or an out-of-range value is [ImplDefined] (the Go spec leaves
     the result to the platform), integer division by zero is [Panic], anything ill-typed or outside what is modelled
     exactly is [Stuck]; all three are absorbing, so no totalised default can make a theorem true for the wrong reason;
   - the dynamic type of [any(v)] for v of a (possibly named) type t is the basic type k only when t is not named.
   Definitions and a few closed sanity lemmas only. *)
From Coq Require Import ZArith Bool List Lia.
Import ListNotations.
Local Open Scope Z_scope.

(* ---------- types ---------- *)
Inductive gkind :=
  Kint | Kint8 | Kint16 | Kint32 | Kint64 | Kuint | Kuint8 | Kuint16 | Kuint32 | Kuint64 | Kfloat32 | Kfloat64.

(* A Go numeric type: its underlying basic kind, and whether it is a named (defined) type such as
   `type MyFloat float64` — a named type has the same values and operations but a different dynamic type. *)
Record gty := mkTy { kind : gkind; named : bool }.

Definition Tint := mkTy Kint false.     Definition Tint8 := mkTy Kint8 false.
Definition Tint16 := mkTy Kint16 false. Definition Tint32 := mkTy Kint32 false.
Definition Tint64 := mkTy Kint64 false. Definition Tuint := mkTy Kuint false.
Definition Tuint8 := mkTy Kuint8 false. Definition Tuint16 := mkTy Kuint16 false.
Definition Tuint32 := mkTy Kuint32 false. Definition Tuint64 := mkTy Kuint64 false.
Definition Tfloat32 := mkTy Kfloat32 false. Definition Tfloat64 := mkTy Kfloat64 false.

Definition all_kinds : list gkind :=
  [Kint; Kint8; Kint16; Kint32; Kint64; Kuint; Kuint8; Kuint16; Kuint32; Kuint64; Kfloat32; Kfloat64].

Definition kind_eqb (a b : gkind) : bool :=
  match a, b with
  | Kint, Kint | Kint8, Kint8 | Kint16, Kint16 | Kint32, Kint32 | Kint64, Kint64
  | Kuint, Kuint | Kuint8, Kuint8 | Kuint16, Kuint16 | Kuint32, Kuint32 | Kuint64, Kuint64
  | Kfloat32, Kfloat32 | Kfloat64, Kfloat64 => true
  | _, _ => false
  end.

Definition is_float (k : gkind) : bool := match k with Kfloat32 | Kfloat64 => true | _ => false end.
Definition is_int (k : gkind) : bool := negb (is_float k).
Definition is_signed (k : gkind) : bool :=
  match k with Kint | Kint8 | Kint16 | Kint32 | Kint64 => true | _ => false end.
Definition bits (k : gkind) : Z :=
  match k with
  | Kint8 | Kuint8 => 8 | Kint16 | Kuint16 => 16 | Kint32 | Kuint32 | Kfloat32 => 32
  | Kint | Kuint | Kint64 | Kuint64 | Kfloat64 => 64   (* int, uint: 64 bit *)
  end.

(* Ranges, as literals (so that proofs never have to normalise powers); [krange_pow] ties them to 2^bits. *)
Definition kmin (k : gkind) : Z :=
  match k with
  | Kint8 => -128 | Kint16 => -32768 | Kint32 => -2147483648
  | Kint | Kint64 => -9223372036854775808
  | _ => 0
  end.
Definition kmax (k : gkind) : Z :=
  match k with
  | Kint8 => 127 | Kint16 => 32767 | Kint32 => 2147483647
  | Kint | Kint64 => 9223372036854775807
  | Kuint8 => 255 | Kuint16 => 65535 | Kuint32 => 4294967295
  | Kuint | Kuint64 => 18446744073709551615
  | Kfloat32 | Kfloat64 => 0
  end.
Definition modulus (k : gkind) : Z := kmax k - kmin k + 1.

Lemma krange_pow : forall k, is_int k = true ->
  (if is_signed k then kmin k = - 2 ^ (bits k - 1) /\ kmax k = 2 ^ (bits k - 1) - 1
   else kmin k = 0 /\ kmax k = 2 ^ bits k - 1) /\ modulus k = 2 ^ bits k.
Proof. intros k H; destruct k; try discriminate H; vm_compute; repeat split; reflexivity. Qed.

Definition in_range (k : gkind) (z : Z) : bool := (kmin k <=? z) && (z <=? kmax k).

(* Integer conversion / arithmetic overflow: wrap around modulo 2^bits into [kmin, kmax]
   (two's complement for the signed kinds):   ((z - min) mod 2^bits) + min.
   [wrap] tests the range first only to evaluate fast inside Coq (the division by 2^64 is slow in binary Z);
   [wrap_is_mod] shows that it IS the modular formula. *)
Definition wrap_mod (k : gkind) (z : Z) : Z := (z - kmin k) mod (modulus k) + kmin k.
Definition wrap (k : gkind) (z : Z) : Z := if in_range k z then z else wrap_mod k z.

Lemma wrap_mod_in_range : forall k z, is_int k = true -> kmin k <= z <= kmax k -> wrap_mod k z = z.
Proof.
  intros k z Hk H. unfold wrap_mod, modulus. rewrite Z.mod_small; [ring|].
  destruct k; try discriminate Hk; cbn in *; lia.
Qed.

Lemma wrap_is_mod : forall k z, is_int k = true -> wrap k z = wrap_mod k z.
Proof.
  intros k z Hk. unfold wrap. destruct (in_range k z) eqn:E; [|reflexivity].
  symmetry. apply wrap_mod_in_range; [exact Hk|]. unfold in_range in E.
  apply andb_prop in E as [E1 E2]. apply Z.leb_le in E1, E2. lia.
Qed.

Lemma wrap_in_range : forall k z, is_int k = true -> kmin k <= z <= kmax k -> wrap k z = z.
Proof. intros k z Hk H. rewrite wrap_is_mod by exact Hk. now apply wrap_mod_in_range. Qed.

Lemma wrap_range : forall k z, is_int k = true -> kmin k <= wrap k z <= kmax k.
Proof.
  intros k z Hk. rewrite wrap_is_mod by exact Hk. unfold wrap_mod, modulus.
  assert (0 <= (z - kmin k) mod (kmax k - kmin k + 1) < kmax k - kmin k + 1)
    by (apply Z.mod_pos_bound; destruct k; try discriminate Hk; cbn; lia).
  lia.
Qed.

(* ---------- floats: dyadic model ---------- *)
Inductive fl := Fin (m e : Z) | Inf (neg : bool) | NaN.

Definition prec (k : gkind) : Z := match k with Kfloat32 => 24 | _ => 53 end.
Definition emin (k : gkind) : Z := match k with Kfloat32 => -149 | _ => -1074 end.
Definition emax (k : gkind) : Z := match k with Kfloat32 => 104 | _ => 971 end.
Definition mant_bound (k : gkind) : Z :=
  match k with Kfloat32 => 16777216 (* 2^24 *) | _ => 9007199254740992 (* 2^53 *) end.

Lemma mant_bound_pow : forall k, mant_bound k = 2 ^ prec k.
Proof. destruct k; reflexivity. Qed.

(* The values of the format k: |m| < 2^prec, emin <= e <= emax  (representations need not be normalised). *)
Definition fl_valid (k : gkind) (f : fl) : Prop :=
  match f with Fin m e => - mant_bound k < m < mant_bound k /\ emin k <= e <= emax k | _ => True end.
Definition fl_validb (k : gkind) (f : fl) : bool :=
  match f with
  | Fin m e => (- mant_bound k <? m) && (m <? mant_bound k) && (emin k <=? e) && (e <=? emax k)
  | _ => true
  end.

(* IEEE-754 bit patterns (binary32 / binary64) -> dyadic value. *)
Definition decode_gen (ebits fbits bias : Z) (b : Z) : fl :=
  let frac := b mod 2 ^ fbits in
  let ex := (b / 2 ^ fbits) mod 2 ^ ebits in
  let neg := Z.odd (b / 2 ^ (fbits + ebits)) in
  let sg (m : Z) := if neg then - m else m in
  if ex =? 2 ^ ebits - 1 then (if frac =? 0 then Inf neg else NaN)
  else if ex =? 0 then Fin (sg frac) (1 - bias - fbits)
  else Fin (sg (2 ^ fbits + frac)) (ex - bias - fbits).
Definition decode32 : Z -> fl := decode_gen 8 23 127.
Definition decode64 : Z -> fl := decode_gen 11 52 1023.
Definition decode (k : gkind) (b : Z) : fl := match k with Kfloat32 => decode32 b | _ => decode64 b end.

(* Comparison of two floats: None when unordered (a NaN is involved). Finite values are compared exactly by
   scaling both mantissas to the smaller exponent. *)
Definition fcmp (a b : fl) : option comparison :=
  match a, b with
  | NaN, _ | _, NaN => None
  | Inf sa, Inf sb => Some (if sa then (if sb then Eq else Lt) else (if sb then Gt else Eq))
  | Inf sa, Fin _ _ => Some (if sa then Lt else Gt)
  | Fin _ _, Inf sb => Some (if sb then Gt else Lt)
  | Fin m1 e1, Fin m2 e2 =>
      let mn := Z.min e1 e2 in Some ((m1 * 2 ^ (e1 - mn)) ?= (m2 * 2 ^ (e2 - mn)))
  end.

(* Truncation toward zero of m * 2^e (exact). *)
Definition ftrunc (m e : Z) : Z := if 0 <=? e then m * 2 ^ e else Z.quot m (2 ^ (- e)).

(* Integer -> float with p significant bits: round to nearest, ties to even (no overflow possible from 64 bits). *)
Definition rne (p z : Z) : fl :=
  let a := Z.abs z in
  if a <? 2 ^ p then Fin z 0
  else
    let k := Z.log2 a + 1 - p in
    let q := a / 2 ^ k in
    let r := a mod 2 ^ k in
    let h := 2 ^ (k - 1) in
    let q' := if r <? h then q else if h <? r then q + 1 else if Z.even q then q else q + 1 in
    Fin (Z.sgn z * q') k.

(* ---------- values and results ---------- *)
Inductive val := VZ (z : Z) | VF (f : fl).

Inductive res (A : Type) :=
  | Ok (a : A)
  | ImplDefined   (* float -> integer conversion of NaN / infinity / out-of-range value: platform-defined *)
  | Panic         (* run-time panic (integer division by zero) *)
  | Stuck.        (* ill-typed, or outside the exactly-modelled fragment *)
Arguments Ok {A} a. Arguments ImplDefined {A}. Arguments Panic {A}. Arguments Stuck {A}.

Definition go_bind {A B} (a : res A) (f : A -> res B) : res B :=
  match a with Ok x => f x | ImplDefined => ImplDefined | Panic => Panic | Stuck => Stuck end.
Notation "x <- a ;; b" := (go_bind a (fun x => b)) (at level 61, a at next level, right associativity).

(* if / && / || / ! on conditions that may themselves fail; only the taken branch is evaluated: the branches are
   thunks, so this also holds operationally inside Coq's call-by-value VM (correspondence evaluation) *)
Definition go_if {A} (c : res bool) (a b : unit -> res A) : res A := go_bind c (fun x => if x then a tt else b tt).
Definition go_and (a : res bool) (b : unit -> res bool) : res bool := go_if a b (fun _ => Ok false).
Definition go_or (a : res bool) (b : unit -> res bool) : res bool := go_if a (fun _ => Ok true) b.
Definition go_not (a : res bool) : res bool := go_bind a (fun x => Ok (negb x)).

(* has_type: the values of a type *)
Definition has_type (t : gty) (v : val) : Prop :=
  match v with
  | VZ z => is_int (kind t) = true /\ kmin (kind t) <= z <= kmax (kind t)
  | VF f => is_float (kind t) = true /\ fl_valid (kind t) f
  end.
Definition has_typeb (t : gty) (v : val) : bool :=
  match v with
  | VZ z => is_int (kind t) && in_range (kind t) z
  | VF f => is_float (kind t) && fl_validb (kind t) f
  end.

(* An untyped integer constant z converted to type t (must be representable: the compiler checks it). *)
Definition go_const (t : gty) (z : Z) : res val :=
  if is_int (kind t) then (if in_range (kind t) z then Ok (VZ z) else Stuck)
  else if (- mant_bound (kind t) <? z) && (z <? mant_bound (kind t)) then Ok (VF (Fin z 0)) else Stuck.

(* A floating-point constant m * 2^e of a float type (the translator emits the value already rounded to the type). *)
Definition go_fconst (t : gty) (m e : Z) : res val :=
  if is_float (kind t) && fl_validb (kind t) (Fin m e) then Ok (VF (Fin m e)) else Stuck.

(* Comparisons.  t is the (common) static type of the operands. *)
Inductive cop := Oeq | One | Olt | Ole | Ogt | Oge.
Definition cmp_holds (o : cop) (c : option comparison) : bool :=
  match c with
  | None => match o with One => true | _ => false end     (* unordered: everything false except != *)
  | Some Eq => match o with Oeq | Ole | Oge => true | _ => false end
  | Some Lt => match o with One | Olt | Ole => true | _ => false end
  | Some Gt => match o with One | Ogt | Oge => true | _ => false end
  end.
Definition go_cmp (o : cop) (t : gty) (a b : res val) : res bool :=
  x <- a ;; y <- b ;;
  match x, y with
  | VZ u, VZ w => if is_int (kind t) then Ok (cmp_holds o (Some (u ?= w))) else Stuck
  | VF f, VF g => if is_float (kind t) then Ok (cmp_holds o (fcmp f g)) else Stuck
  | _, _ => Stuck
  end.

(* Conversions T(e).  int -> int wraps; int -> float rounds (RNE); float -> int truncates when the truncated value
   is in range and is ImplDefined otherwise; float32 -> float64 (and the identities) are exact;
   float64 -> float32 is not modelled (Stuck; the translator rejects it when it is statically visible). *)
Definition go_conv (from to : gty) (a : res val) : res val :=
  x <- a ;;
  match x with
  | VZ z =>
      if is_int (kind from) then
        if is_int (kind to) then Ok (VZ (wrap (kind to) z)) else Ok (VF (rne (prec (kind to)) z))
      else Stuck
  | VF f =>
      if is_float (kind from) then
        if is_int (kind to) then
          match f with
          | Fin m e => let t := ftrunc m e in if in_range (kind to) t then Ok (VZ t) else ImplDefined
          | _ => ImplDefined
          end
        else match kind from, kind to with
             | Kfloat32, _ => Ok (VF f)
             | Kfloat64, Kfloat64 => Ok (VF f)
             | _, _ => Stuck
             end
      else Stuck
  end.

(* Arithmetic on same-typed operands.  Integers wrap; / truncates toward zero and panics on a zero divisor.
   Floats: only a division by (plus or minus) a power of two without leaving the exponent range is exact in the
   dyadic model and therefore modelled; every other float operation is Stuck. *)
Inductive aop := Oadd | Osub | Omul | Oquo.
Definition go_arith (o : aop) (t : gty) (a b : res val) : res val :=
  x <- a ;; y <- b ;;
  match x, y with
  | VZ u, VZ w =>
      if is_int (kind t) then
        match o with
        | Oadd => Ok (VZ (wrap (kind t) (u + w)))
        | Osub => Ok (VZ (wrap (kind t) (u - w)))
        | Omul => Ok (VZ (wrap (kind t) (u * w)))
        | Oquo => if w =? 0 then Panic else Ok (VZ (wrap (kind t) (Z.quot u w)))
        end
      else Stuck
  | VF (Fin m1 e1), VF (Fin m2 e2) =>
      if is_float (kind t) then
        match o with
        | Oquo =>
            let k := Z.log2 (Z.abs m2) in
            if (0 <? Z.abs m2) && (Z.abs m2 =? 2 ^ k) then
              let r := Fin (Z.sgn m2 * m1) (e1 - e2 - k) in
              if fl_validb (kind t) r then Ok (VF r) else Stuck
            else Stuck
        | _ => Stuck
        end
      else Stuck
  | _, _ => Stuck
  end.

Definition go_neg (t : gty) (a : res val) : res val :=
  x <- a ;;
  match x with
  | VZ z => if is_int (kind t) then Ok (VZ (wrap (kind t) (- z))) else Stuck
  | VF (Fin m e) => if is_float (kind t) then Ok (VF (Fin (- m) e)) else Stuck
  | VF (Inf s) => if is_float (kind t) then Ok (VF (Inf (negb s))) else Stuck
  | VF NaN => if is_float (kind t) then Ok (VF NaN) else Stuck
  end.

(* Type switch  switch any(v).(type) { case K: }  for v of static type t: the dynamic type is t itself, which is
   identical to the predeclared type K only if t is not a named type. *)
Definition go_dyn_is (t : gty) (k : gkind) : bool := negb (named t) && kind_eqb (kind t) k.

(* Type constraints: a list of union terms (kind, tilde).  ~K admits every type whose underlying type is K. *)
Definition satisfies (c : list (gkind * bool)) (t : gty) : bool :=
  existsb (fun kt => kind_eqb (fst kt) (kind t) && (snd kt || negb (named t))) c.

(* ---------- closed sanity checks of the float model (kernel-evaluated) ---------- *)
Example decode64_one : decode64 4607182418800017408 = Fin 4503599627370496 (-52). Proof. reflexivity. Qed.
Example decode64_minf : decode64 18442240474082181120 = Inf true. Proof. reflexivity. Qed.
Example decode64_nan : decode64 9221120237041090561 = NaN. Proof. reflexivity. Qed.
Example decode64_subn : decode64 1 = Fin 1 (-1074). Proof. reflexivity. Qed.
Example decode32_max : decode32 2139095039 = Fin 16777215 104. Proof. reflexivity. Qed.
Example decode32_neg2 : decode32 3221225472 = Fin (-8388608) (-22). Proof. reflexivity. Qed.
Example rne_maxint64 : rne 53 9223372036854775807 = Fin 9007199254740992 10. Proof. vm_compute. reflexivity. Qed.
Example rne_maxuint64 : rne 53 18446744073709551615 = Fin 9007199254740992 11. Proof. vm_compute. reflexivity. Qed.
Example rne_tie_even : rne 53 9007199254740993 = Fin 4503599627370496 1. Proof. vm_compute. reflexivity. Qed.
Example rne_tie_up : rne 53 9007199254740995 = Fin 4503599627370498 1. Proof. vm_compute. reflexivity. Qed.
Example wrap_i8 : wrap Kint8 200 = -56. Proof. reflexivity. Qed.
Example wrap_u64 : wrap Kuint64 (-1) = 18446744073709551615. Proof. reflexivity. Qed.
