(* Correspondence runner: evaluates a model's [check_case] on the observations the Go harness
   recorded on the real implementation and returns the identifiers of the cases that disagree. *)
From Coq Require Import List NArith.
Import ListNotations.

Definition mismatches {C : Type} (check : C -> bool) (cases : list (N * C)) : list N :=
  map fst (filter (fun c => negb (check (snd c))) cases).

Lemma mismatches_nil_all {C} (check : C -> bool) cases :
  mismatches check cases = [] -> forall i c, In (i, c) cases -> check c = true.
Proof.
  unfold mismatches. induction cases as [|[j d] cs IH]; intros H i c Hin; [destruct Hin|].
  simpl in H. destruct (check d) eqn:E; simpl in H.
  - destruct Hin as [Heq|Hin]; [inversion Heq; subst; exact E | eapply IH; eauto].
  - discriminate H.
Qed.
