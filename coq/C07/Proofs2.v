(* C07 — lemmas, continued: closed resource (generated table), read-only wrapper, view refutations. *)
From Coq Require Import List ZArith Bool String Lia.
Import ListNotations.
From GU Require Import C07.GuardTypes C07.Gen C07.Model C07.Proofs.
Local Open Scope Z_scope.

(* ---------------------------------------------------------------- closed resource *)
Lemma all_methods_ok : forallb meth_ok methods = true.
Proof. vm_compute. reflexivity. Qed.

Lemma closed_serves_nothing_l : forall m, In m methods ->
  (m_exported m = true -> touches methods fuel0 (m_body m) = true ->
     fails (run_closed methods fuel0 (m_body m)) = true \/ in_list indirect_methods (m_name m) = true) /\
  (run_closed methods fuel0 (m_body m) = OBackend -> in_list unguarded_backend_mentions (m_name m) = true).
Proof.
  intros m Hin. pose proof all_methods_ok as H. rewrite forallb_forall in H. specialize (H m Hin).
  unfold meth_ok in H. apply andb_true_iff in H as [Ha Hb]. split.
  - intros He Ht. rewrite He, Ht in Ha. simpl in Ha. now apply orb_true_iff in Ha.
  - intros Ho. now rewrite Ho in Hb.
Qed.


(* ---------------------------------------------------------------- read-only wrapper *)
Lemma readonly_refuses_l : forall b, bop_mutating b = true -> ro_answer_is_error b = true /\ ro_forwarded b = false.
Proof. intros b H. unfold ro_answer_is_error, ro_forwarded. rewrite H. split; reflexivity. Qed.

Lemma readonly_serves_reads_l : forall b, bop_mutating b = false -> ro_forwarded b = true.
Proof. intros b H. unfold ro_forwarded. now rewrite H. Qed.

(* ---------------------------------------------------------------- views: witnesses of the three known findings *)
Definition w_tree : tree :=
  [ ([100], Dir 5000000000 [ ([102], File [104; 105] 1000000000) ]);      (* d/f = "hi" *)
    ([101], Dir 7000000000 []) ].                                         (* e/   empty directory *)

Lemma tar_empty_dir_invisible_l :
  view_run VTar (view_index VTar (zip_entries w_tree)) [] [(OpStat, [[101]]); (OpExists, [[101]]); (OpLs, [[101]])]
  = [VStat true 0; VBool false; VInvalid].
Proof. vm_compute. reflexivity. Qed.

Lemma zip_empty_dir_visible_l :
  view_run VZip (view_index VZip (zip_entries w_tree)) [] [(OpStat, [[101]]); (OpExists, [[101]]); (OpLs, [[101]])]
  = [VStat true 0; VBool true; VNames []].
Proof. vm_compute. reflexivity. Qed.

Lemma tar_reread_l :
  view_run VTar (view_index VTar (zip_entries w_tree)) [] [(OpRead, [[100]; [102]]); (OpRead, [[100]; [102]])]
  = [VData [104; 105]; VEmptyErr].
Proof. vm_compute. reflexivity. Qed.

Lemma zip_reread_l :
  view_run VZip (view_index VZip (zip_entries w_tree)) [] [(OpRead, [[100]; [102]]); (OpRead, [[100]; [102]])]
  = [VData [104; 105]; VData [104; 105]].
Proof. vm_compute. reflexivity. Qed.

Lemma rm_empty_dir_zip_l :
  v_exists VZip (view_index VZip (zip_entries w_tree)) [[101]] = true /\
  rm_refused 10 VZip (view_index VZip (zip_entries w_tree)) [[101]] = false.
Proof. vm_compute. split; reflexivity. Qed.

Lemma rm_file_and_parent_refused_l :
  rm_refused 10 VZip (view_index VZip (zip_entries w_tree)) [[100]; [102]] = true /\
  rm_refused 10 VZip (view_index VZip (zip_entries w_tree)) [[100]] = true /\
  rm_refused 10 VTar (view_index VTar (zip_entries w_tree)) [[100]] = true.
Proof. vm_compute. repeat split; reflexivity. Qed.
