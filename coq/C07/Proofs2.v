(* C07 — lemmas, continued: closed resource (generated table), read-only wrapper, view refutations. *)
From Coq Require Import List ZArith Bool String Lia.
Import ListNotations.
From GU Require Import C07.GuardTypes C07.Gen C07.Model C07.Proofs.
Local Open Scope Z_scope.

(* ---------------------------------------------------------------- closed resource *)
Lemma all_methods_ok : forallb meth_ok methods = true.
Proof. vm_compute. reflexivity. Qed.

Lemma closed_serves_nothing_l : forall m, In m methods ->
  (m_exported m = true -> touches methods fuel0 (m_body m) = true ->
     fails (run_closed methods fuel0 (m_body m)) = true \/ in_list indirect_methods (m_name m) = true) /\
  (run_closed methods fuel0 (m_body m) = OBackend -> in_list unguarded_backend_mentions (m_name m) = true).
Proof.
  intros m Hin. pose proof all_methods_ok as H. rewrite forallb_forall in H. specialize (H m Hin).
  unfold meth_ok in H. apply andb_true_iff in H as [Ha Hb]. split.
  - intros He Ht. rewrite He, Ht in Ha. change (negb true) with false in Ha. rewrite !orb_false_l in Ha.
    apply orb_true_iff in Ha. exact Ha.
  - intros Ho. rewrite Ho in Hb. exact Hb.
Qed.


(* ---------------------------------------------------------------- read-only wrapper *)
Lemma readonly_refuses_l : forall b, bop_mutating b = true -> ro_answer_is_error b = true /\ ro_forwarded b = false.
Proof. intros b H. unfold ro_answer_is_error, ro_forwarded. rewrite H. split; reflexivity. Qed.

Lemma readonly_serves_reads_l : forall b, bop_mutating b = false -> ro_forwarded b = true.
Proof. intros b H. unfold ro_forwarded. now rewrite H. Qed.

(* ---------------------------------------------------------------- views: witnesses of the three known findings *)
Definition w_tree : tree :=
  [ ([100], Dir 5000000000 [ ([102], File [104; 105] 1000000000) ]);      (* d/f = "hi" *)
    ([101], Dir 7000000000 []) ].                                         (* e/   empty directory *)

Lemma tar_empty_dir_invisible_l :
  view_run VTar (view_index VTar (zip_entries w_tree)) [] [(OpStat, [[101]]); (OpExists, [[101]]); (OpLs, [[101]])]
  = [VStat true 0; VBool false; VInvalid].
Proof. vm_compute. reflexivity. Qed.

Lemma zip_empty_dir_visible_l :
  view_run VZip (view_index VZip (zip_entries w_tree)) [] [(OpStat, [[101]]); (OpExists, [[101]]); (OpLs, [[101]])]
  = [VStat true 0; VBool true; VNames []].
Proof. vm_compute. reflexivity. Qed.

(* a file of the tar view can be read again (tarfs.go rewindingTarFs), like on the zip view *)
Lemma reread_l : forall k,
  view_run k (view_index k (zip_entries w_tree)) [] [(OpRead, [[100]; [102]]); (OpRead, [[100]; [102]]); (OpRead, [[100]; [102]])]
  = [VData [104; 105]; VData [104; 105]; VData [104; 105]].
Proof. intros [|]; vm_compute; reflexivity. Qed.

Lemma rm_empty_dir_zip_l :
  v_exists VZip (view_index VZip (zip_entries w_tree)) [[101]] = true /\
  rm_refused 10 VZip (view_index VZip (zip_entries w_tree)) [[101]] = false.
Proof. vm_compute. split; reflexivity. Qed.

Lemma rm_file_and_parent_refused_l :
  rm_refused 10 VZip (view_index VZip (zip_entries w_tree)) [[100]; [102]] = true /\
  rm_refused 10 VZip (view_index VZip (zip_entries w_tree)) [[100]] = true /\
  rm_refused 10 VTar (view_index VTar (zip_entries w_tree)) [[100]] = true.
Proof. vm_compute. repeat split; reflexivity. Qed.

(* ---------------------------------------------------------------- the walker writes the entries of its item list *)
Fixpoint witems (rel : path) (n : node) : list item :=
  match n with
  | File c mt => [(rel, KFile c (sec mt))]
  | Dir mt kids => (rel, KDir (sec mt)) :: flat_map (fun k => witems (rel ++ [fst k]) (snd k)) kids
  end.
Definition tree_items (t : tree) : list item := flat_map (fun k => witems [fst k] (snd k)) t.

Fixpoint node_ind2 (P : node -> Prop) (Hf : forall c mt, P (File c mt))
  (Hd : forall mt kids, Forall (fun k => P (snd k)) kids -> P (Dir mt kids)) (n : node) : P n :=
  match n with
  | File c mt => Hf c mt
  | Dir mt kids => Hd mt kids ((fix go (l : list (name * node)) : Forall (fun k => P (snd k)) l :=
                                  match l with
                                  | [] => Forall_nil _
                                  | k :: r => Forall_cons k (node_ind2 P Hf Hd (snd k)) (go r)
                                  end) kids)
  end.

Lemma walk_items n : forall rel, walk rel n = map entry_of (witems rel n).
Proof.
  induction n as [c mt|mt kids IH] using node_ind2; intros rel; [reflexivity|].
  simpl. unfold entry_of at 1. simpl. f_equal.
  induction kids as [|k r IHr]; [reflexivity|]. inversion IH; subst. simpl. rewrite map_app. f_equal; [apply H1|now apply IHr].
Qed.

Lemma zip_entries_items t : zip_entries t = map entry_of (tree_items t).
Proof.
  unfold zip_entries, tree_items. induction t as [|k r IH]; [reflexivity|]. simpl. rewrite map_app, walk_items. now f_equal.
Qed.

(* a concrete tree whose items are well placed (non-vacuity of the premise of the round-trip theorem) *)
Definition w_tree2 : tree :=
  [ ([97; 46; 46; 98], File [1; 2; 3] 5500000000);
    ([100], Dir 7999999999 [ ([102], File [] 1000000000); ([46; 46; 46], Dir 3000000000 [ ([46; 46; 120], File [9] 2000000001) ]) ]) ].
Lemma w_tree2_wf : wf_seq [] (tree_items w_tree2).
Proof.
  assert (L : forall c, (c <> [] /\ ~ In slash c /\ c <> [dot] /\ c <> [dot; dot]) -> legal c) by (intros c H; exact H).
  simpl. unfold wf_item. simpl.
  repeat split; try discriminate;
    try (repeat constructor; apply L; repeat split; try discriminate; intros H; repeat (destruct H as [H|H]; [discriminate H|]); exact H);
    try (intros H; repeat (destruct H as [H|H]; [discriminate H|]); exact H);
    try (intros j Hj; simpl in Hj; destruct j as [|[|[|j]]]; try lia; simpl; eexists; eauto 10);
    try (match goal with Hx : (0 < _ < 1)%nat |- False => lia end).
Qed.

(* ---------------------------------------------------------------- Close: success is reported only with the flag set *)
Lemma close_nil_sets_flag_l : forall underlying_fails,
  fst (close_model underlying_fails) = true -> snd (close_model underlying_fails) = true.
Proof. intros [|]; vm_compute; intros H; congruence. Qed.
Lemma close_succeeds_when_underlying_does_l : close_model false = (true, true).
Proof. vm_compute. reflexivity. Qed.

(* ---------------------------------------------------------------- Zip reports success only for the announced size *)
Lemma zip_file_ok_sound_l : forall announced served, zip_file_ok announced served = true -> announced = served.
Proof.
  intros a sv. unfold zip_file_ok.
  assert (E : zip_walker_checks_copied_size = true) by (vm_compute; reflexivity).
  rewrite E. apply Z.eqb_eq.
Qed.
