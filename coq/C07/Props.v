(* C07 — Archives are faithful: zip -> unzip round trip and zip/tar file-system views.
   Property theorems only; each is closed by a lemma of Proofs*.v and followed by Print Assumptions.
   Model: GU.C07.Model (hand-written, mirrors zip.go / files.go / afero zipfs+tarfs) and GU.C07.Gen (guard table
   GENERATED from utils/filesystem/*.go on every run), tied to the code by the correspondence runs of harness/cmd/c07. *)
From Coq Require Import List ZArith Bool String.
Import ListNotations.
From GU Require Import C07.GuardTypes C07.Gen C07.Model C07.Proofs C07.Proofs2 C07.Proofs3 C07.Proofs4 C07.Proofs5.
Local Open Scope Z_scope.

(* The repaired sanitiser accepts every name the walker can write for a legal relative path (components non-empty,
   without '/', not "." and not ".." — doubled, leading and trailing dots included) and maps it under the destination. *)
Theorem sanitise_accepts_walker_names : forall D p, Forall legal D -> D <> [] -> Forall legal p -> p <> [] ->
  sanitise D (join_slash p) = Some (D ++ p) /\ sanitise D (join_slash p ++ [slash]) = Some (D ++ p).
Proof. intros. split; [now apply sanitise_walker_file | now apply sanitise_walker_dir]. Qed.
Print Assumptions sanitise_accepts_walker_names.

(* Unzip of ANY archive whose entries are well placed (legal relative paths, pairwise distinct, every proper ancestor
   sent earlier as a directory entry — any number, order, nesting, contents, times) into an existing empty destination:
   succeeds; the returned list is exactly the created entries, in archive order; every file has its content and its
   archived second; every directory has its archived second although entries were created inside it afterwards (restored
   last); nothing else appears under the destination. *)
Theorem unzip_wellformed_archive_faithful : forall D m0 its,
  Forall legal D -> D <> [] -> dest_ready m0 D -> wf_seq [] its ->
  exists s, unzip None D m0 (map entry_of its) = (s, UOk) /\
    u_list s = map (fun it => D ++ fst it) its /\
    (forall p c t, In (p, KFile c t) its -> lookup (u_fs s) (D ++ p) = Some (FFile c (Some (t * ns)))) /\
    (forall p t, In (p, KDir t) its -> lookup (u_fs s) (D ++ p) = Some (FDir (Some (t * ns)))) /\
    (forall q, q <> [] -> ~ In q (map fst its) -> lookup (u_fs s) (D ++ q) = None).
Proof. exact unzip_items_faithful. Qed.
Print Assumptions unzip_wellformed_archive_faithful.

(* Round trip.  For EVERY tree t whose names are legal (non-empty, no '/', not "." / ".."; doubled, leading and trailing dots
   allowed) and pairwise distinct among siblings — any depth, empty directories, empty files, any contents and times — and
   every clean absolute destination D that exists and is empty: unzip D (zip t) succeeds; under D there is, at every
   relative path, exactly what t has there (kind, content, mtime truncated to the second — directories included, although
   their children were created after them) and nothing where t has nothing; the returned list is D/p for exactly the
   paths p of t, each once, in archive (pre-order) order. *)
Theorem zip_unzip_roundtrip : forall D m0 t,
  Forall legal D -> D <> [] -> dest_ready m0 D -> legal_tree t ->
  exists s, unzip None D m0 (zip_entries t) = (s, UOk) /\
    (forall p, p <> [] -> info_of_fnode (lookup (u_fs s) (D ++ p)) = tree_at t p) /\
    u_list s = map (app D) (map fst (tree_items t)) /\
    NoDup (u_list s) /\
    (forall p, In p (map fst (tree_items t)) <-> tree_at t p <> None).
Proof. exact roundtrip_l. Qed.
Print Assumptions zip_unzip_roundtrip.

(* Zip view.  For every legal tree t, the file system built by afero's zipfs.New over the walker's archive, seen through
   the VFS accessors Stat / Exists / IsDir / Ls / ReadFile, in any state and any number of times: a file of t is a file
   with its size and its content; a directory of t (empty ones included) exists, is a directory and lists exactly the
   names of its children; a path that t does not have is not found.  (The tar view deviates for empty directories: see the refuted theorem below.) *)
Theorem archive_view_faithful_zip : forall t, legal_tree t ->
  let idx := view_index VZip (zip_entries t) in
  forall p st, p <> [] ->
  match tree_at t p with
  | Some (IFile c _) =>
      view_step VZip idx st OpStat p = (VStat false (Z.of_nat (List.length c)), st) /\
      view_step VZip idx st OpExists p = (VBool true, st) /\
      view_step VZip idx st OpIsDir p = (VBool false, st) /\
      view_step VZip idx st OpRead p = (match c with [] => VEmptyErr | _ => VData c end, st)
  | Some (IDir _) =>
      view_step VZip idx st OpStat p = (VStat true 0, st) /\
      view_step VZip idx st OpExists p = (VBool true, st) /\
      view_step VZip idx st OpIsDir p = (VBool true, st) /\
      exists names, view_step VZip idx st OpLs p = (VNames names, st) /\ forall f, In f names <-> tree_at t (p ++ [f]) <> None
  | None =>
      view_step VZip idx st OpStat p = (VNotFound, st) /\
      view_step VZip idx st OpExists p = (VBool false, st) /\
      view_step VZip idx st OpRead p = (VNotFound, st)
  end.
Proof. exact zip_view_ops_l. Qed.
Print Assumptions archive_view_faithful_zip.

(* Read-only wrapper: every mutating back-end call is answered with an error and is not forwarded; reads are forwarded. *)
Theorem readonly_refuses_mutation : forall b,
  (bop_mutating b = true -> ro_answer_is_error b = true /\ ro_forwarded b = false) /\
  (bop_mutating b = false -> ro_forwarded b = true).
Proof. intros b. split; [apply readonly_refuses_l | apply readonly_serves_reads_l]. Qed.
Print Assumptions readonly_refuses_mutation.

(* Closed resource, over the GENERATED method list [methods] (the bound of this finite check): once Close() has set the
   flag, every exported method that can reach the archive fails (or is in the audited list [indirect_methods], whose
   members are exercised on closed file systems on every run), and no mention of the backend field is reached except in
   the audited list [unguarded_backend_mentions]. *)
Theorem closed_serves_nothing : forall m, In m methods ->
  (m_exported m = true -> touches methods fuel0 (m_body m) = true ->
     fails (run_closed methods fuel0 (m_body m)) = true \/ in_list indirect_methods (m_name m) = true) /\
  (run_closed methods fuel0 (m_body m) = OBackend -> in_list unguarded_backend_mentions (m_name m) = true).
Proof. exact closed_serves_nothing_l. Qed.
Print Assumptions closed_serves_nothing.

(* Zip side: archiving a file succeeds only if the back end served exactly the number of bytes it had announced (the
   walker's comparison of the copied count with info.Size() is a GENERATED fact): a source that is cut short, or grows,
   between the walk and the copy makes Zip fail instead of handing over an archive that does not reproduce the tree. *)
Theorem zip_success_means_announced_size_copied : forall announced served,
  zip_file_ok announced served = true -> announced = served.
Proof. exact zip_file_ok_sound_l. Qed.
Print Assumptions zip_success_means_announced_size_copied.

(* Close, over the GENERATED shapes of VFS.Close (files.go) and closeableResource.Close (resource.go): whenever Close()
   returns nil the closed flag is set (so the guard of every method fires), and it does return nil when closing the
   underlying archive file succeeds.  When the underlying close fails (archive file already closed by the caller on the
   OS back end) Close() returns that error and the file system stays open: success is never reported without the flag. *)
Theorem close_nil_sets_flag :
  (forall underlying_fails, fst (close_model underlying_fails) = true -> snd (close_model underlying_fails) = true) /\
  close_model false = (true, true).
Proof. split; [exact close_nil_sets_flag_l | exact close_succeeds_when_underlying_does_l]. Qed.
Print Assumptions close_nil_sets_flag.

(* The abstract run used by closed_serves_nothing is sound for EVERY table and every resolution of the non-determinism
   of the execution semantics [exec] (Proofs5.v): if it does not end in OBackend no backend mention is reached, and if it
   ends in OFailCond / OFailOther the call returns an error without reaching the backend. *)
Theorem run_closed_sound : forall tbl oracle fuel body st,
  (run_closed tbl fuel body <> OBackend -> fst (exec tbl oracle fuel st body) = false) /\
  (fails (run_closed tbl fuel body) = true -> exec tbl oracle fuel st body = (false, true)).
Proof. exact run_closed_sound_l. Qed.
Print Assumptions run_closed_sound.

(* Known findings (the full statement "the view exposes the tree" is FALSE of the faithful model of afero's tarfs). *)
Theorem tar_empty_dir_invisible_refuted : exists t p,
  tree_at t p = Some (IDir 7) /\
  view_run VTar (view_index VTar (zip_entries t)) [] [(OpStat, p); (OpExists, p); (OpLs, p)] = [VStat true 0; VBool false; VInvalid] /\
  view_run VZip (view_index VZip (zip_entries t)) [] [(OpStat, p); (OpExists, p); (OpLs, p)] = [VStat true 0; VBool true; VNames []].
Proof. exists w_tree, [[101]]. split; [reflexivity|]. split; [exact tar_empty_dir_invisible_l | exact zip_empty_dir_visible_l]. Qed.
Print Assumptions tar_empty_dir_invisible_refuted.

(* Reading is repeatable on both views (the former finding view-reread-empty:tar is repaired in the repository by
   tarfs.go rewindingTarFs; the model follows the repaired code): for EVERY entry list, view kind, path and state, a read
   returns the same answer whatever was read before, and leaves the state alone. *)
Theorem view_read_repeatable : forall k es st st' p,
  view_step k (view_index k es) st OpRead p = (fst (view_step k (view_index k es) st' OpRead p), st).
Proof.
  intros k es st st' p. unfold view_step. destruct (b_stat k (view_index k es) p) as [v|]; [|reflexivity].
  destruct (v_isdir v); reflexivity.
Qed.
Print Assumptions view_read_repeatable.

Theorem readonly_rm_empty_dir_refuted : exists t p,
  tree_at t p = Some (IDir 7) /\
  v_exists VZip (view_index VZip (zip_entries t)) p = true /\
  rm_refused 10 VZip (view_index VZip (zip_entries t)) p = false.
Proof. exists w_tree, [[101]]. split; [reflexivity|]. exact rm_empty_dir_zip_l. Qed.
Print Assumptions readonly_rm_empty_dir_refuted.

(* Non-vacuity *)
Example legal_names_with_dots :
  legal [97; 46; 46; 98] /\ legal [46; 46; 46] /\ legal [46; 46; 97] /\ legal [97; 46; 46].     (* a..b  ...  ..a  a.. *)
Proof. repeat split; try discriminate; intros H; repeat (destruct H as [H|H]; [discriminate H|]); exact H. Qed.
Example dest_ready_satisfiable : exists m0, mkdir_all [] [[116]; [111]] = Some m0 /\ dest_ready m0 [[116]; [111]].
Proof.
  eexists. split; [reflexivity|]. split.
  - intros k Hk. simpl in Hk. destruct k as [|[|[|k]]]; try (exfalso; Lia.lia); eexists; reflexivity.
  - intros q Hq. destruct q; [contradiction|]. reflexivity.
Qed.
Example legal_tree_satisfiable : legal_tree w_tree2 /\ wf_seq [] (tree_items w_tree2).
Proof.
  split; [|exact w_tree2_wf].
  assert (L : forall c, (c <> [] /\ ~ In slash c /\ c <> [dot] /\ c <> [dot; dot]) -> legal c) by (intros c H; exact H).
  assert (Lg : forall c, c <> [] -> (forallb (fun b => negb (b =? slash)) c = true) -> c <> [dot] -> c <> [dot; dot] -> legal c).
  { intros c H1 H2 H3 H4. apply L. repeat split; auto. intros Hin. rewrite forallb_forall in H2. specialize (H2 _ Hin). now rewrite Z.eqb_refl in H2. }
  unfold legal_tree, w_tree2. repeat split.
  - repeat constructor; simpl; intros H; repeat (destruct H as [H|H]; [discriminate H|]); exact H.
  - repeat constructor; apply Lg; try discriminate; reflexivity.
  - repeat constructor; simpl; try (intros H; repeat (destruct H as [H|H]; [discriminate H|]); exact H);
      try (apply Lg; try discriminate; reflexivity).
Qed.
Example roundtrip_concrete :
  let t := [([97; 46; 46; 98], File [1; 2; 3] 5500000000); ([100], Dir 7999999999 [([102], File [] 1000000000); ([101], Dir 3000000000 [])])] in
  exists s, unzip None [[116]; [111]] [] (zip_entries t) = (s, UOk) /\
            info_of_fnode (lookup (u_fs s) [[116]; [111]; [97; 46; 46; 98]]) = tree_at t [[97; 46; 46; 98]] /\
            info_of_fnode (lookup (u_fs s) [[116]; [111]; [100]]) = tree_at t [[100]] /\
            info_of_fnode (lookup (u_fs s) [[116]; [111]; [100]; [101]]) = tree_at t [[100]; [101]].
Proof. eexists. split; [vm_compute; reflexivity|]. repeat split; vm_compute; reflexivity. Qed.
