(* C07 — Archives are faithful: zip -> unzip round trip and zip/tar file-system views.
   Property theorems only; each is closed by a lemma of Proofs*.v and followed by Print Assumptions.
   Model: GU.C07.Model (hand-written, mirrors zip.go / files.go / afero zipfs+tarfs) and GU.C07.Gen (guard table
   GENERATED from utils/filesystem/*.go on every run), tied to the code by the correspondence runs of harness/cmd/c07. *)
From Coq Require Import List ZArith Bool String.
Import ListNotations.
From GU Require Import C07.GuardTypes C07.Gen C07.Model C07.Proofs C07.Proofs2.
Local Open Scope Z_scope.

(* The repaired sanitiser accepts every name the walker can write for a legal relative path (components non-empty,
   without '/', not "." and not ".." — doubled, leading and trailing dots included) and maps it under the destination. *)
Theorem sanitise_accepts_walker_names : forall D p, Forall legal D -> D <> [] -> Forall legal p -> p <> [] ->
  sanitise D (join_slash p) = Some (D ++ p) /\ sanitise D (join_slash p ++ [slash]) = Some (D ++ p).
Proof. intros. split; [now apply sanitise_walker_file | now apply sanitise_walker_dir]. Qed.
Print Assumptions sanitise_accepts_walker_names.

(* Unzip of ANY archive whose entries are well placed (legal relative paths, pairwise distinct, every proper ancestor
   sent earlier as a directory entry — any number, order, nesting, contents, times) into an existing empty destination:
   succeeds; the returned list is exactly the created entries, in archive order; every file has its content and its
   archived second; every directory has its archived second although entries were created inside it afterwards (restored
   last); nothing else appears under the destination. *)
Theorem unzip_wellformed_archive_faithful : forall D m0 its,
  Forall legal D -> D <> [] -> dest_ready m0 D -> wf_seq [] its ->
  exists s, unzip None D m0 (map entry_of its) = (s, UOk) /\
    u_list s = map (fun it => D ++ fst it) its /\
    (forall p c t, In (p, KFile c t) its -> lookup (u_fs s) (D ++ p) = Some (FFile c (Some (t * ns)))) /\
    (forall p t, In (p, KDir t) its -> lookup (u_fs s) (D ++ p) = Some (FDir (Some (t * ns)))) /\
    (forall q, q <> [] -> ~ In q (map fst its) -> lookup (u_fs s) (D ++ q) = None).
Proof. exact unzip_items_faithful. Qed.
Print Assumptions unzip_wellformed_archive_faithful.

(* FULL STATEMENT (zip_unzip_roundtrip): for every tree t whose names are legal and pairwise distinct among siblings,
   unzip D (zip_entries t) succeeds and leaves under D exactly [tree_at t] (paths, kinds, contents, seconds), the list
   being the created entries.
   PROVED HERE (partial): the walker's archive is the entry list of its item list (zip_entries_items, all trees), and the
   conclusion for every tree whose item list is well placed (premise [wf_seq [] (tree_items t)]).  MISSING: the lemma
   "legal names + distinct siblings => the pre-order item list of the walker is well placed" (and the restatement of the
   conclusion through [tree_at]); the premise is shown satisfiable on a tree with doubled/leading dots (w_tree2_wf) and is
   exercised by every CRound correspondence case. *)
Theorem zip_unzip_roundtrip_partial : forall D m0 t,
  Forall legal D -> D <> [] -> dest_ready m0 D -> wf_seq [] (tree_items t) ->
  exists s, unzip None D m0 (zip_entries t) = (s, UOk) /\
    u_list s = map (fun it => D ++ fst it) (tree_items t) /\
    (forall p c t', In (p, KFile c t') (tree_items t) -> lookup (u_fs s) (D ++ p) = Some (FFile c (Some (t' * ns)))) /\
    (forall p t', In (p, KDir t') (tree_items t) -> lookup (u_fs s) (D ++ p) = Some (FDir (Some (t' * ns)))) /\
    (forall q, q <> [] -> ~ In q (map fst (tree_items t)) -> lookup (u_fs s) (D ++ q) = None).
Proof. intros D m0 t HD HDne HR HW. rewrite zip_entries_items. now apply unzip_items_faithful. Qed.
Print Assumptions zip_unzip_roundtrip_partial.

(* Read-only wrapper: every mutating back-end call is answered with an error and is not forwarded; reads are forwarded. *)
Theorem readonly_refuses_mutation : forall b,
  (bop_mutating b = true -> ro_answer_is_error b = true /\ ro_forwarded b = false) /\
  (bop_mutating b = false -> ro_forwarded b = true).
Proof. intros b. split; [apply readonly_refuses_l | apply readonly_serves_reads_l]. Qed.
Print Assumptions readonly_refuses_mutation.

(* Closed resource, over the GENERATED method list [methods] (the bound of this finite check): once Close() has set the
   flag, every exported method that can reach the archive fails (or is in the audited list [indirect_methods], whose
   members are exercised on closed file systems on every run), and no mention of the backend field is reached except in
   the audited list [unguarded_backend_mentions]. *)
Theorem closed_serves_nothing : forall m, In m methods ->
  (m_exported m = true -> touches methods fuel0 (m_body m) = true ->
     fails (run_closed methods fuel0 (m_body m)) = true \/ in_list indirect_methods (m_name m) = true) /\
  (run_closed methods fuel0 (m_body m) = OBackend -> in_list unguarded_backend_mentions (m_name m) = true).
Proof. exact closed_serves_nothing_l. Qed.
Print Assumptions closed_serves_nothing.

(* Known findings (the full statement "the view exposes the tree" is FALSE of the faithful model of afero's tarfs). *)
Theorem tar_empty_dir_invisible_refuted : exists t p,
  tree_at t p = Some (IDir 7) /\
  view_run VTar (view_index VTar (zip_entries t)) [] [(OpStat, p); (OpExists, p); (OpLs, p)] = [VStat true 0; VBool false; VInvalid] /\
  view_run VZip (view_index VZip (zip_entries t)) [] [(OpStat, p); (OpExists, p); (OpLs, p)] = [VStat true 0; VBool true; VNames []].
Proof. exists w_tree, [[101]]. split; [reflexivity|]. split; [exact tar_empty_dir_invisible_l | exact zip_empty_dir_visible_l]. Qed.
Print Assumptions tar_empty_dir_invisible_refuted.

Theorem tar_reread_refuted : exists t p c,
  tree_at t p = Some (IFile c 1) /\ c <> [] /\
  view_run VTar (view_index VTar (zip_entries t)) [] [(OpRead, p); (OpRead, p)] = [VData c; VEmptyErr] /\
  view_run VZip (view_index VZip (zip_entries t)) [] [(OpRead, p); (OpRead, p)] = [VData c; VData c].
Proof. exists w_tree, [[100]; [102]], [104; 105]. split; [reflexivity|]. split; [discriminate|]. split; [exact tar_reread_l | exact zip_reread_l]. Qed.
Print Assumptions tar_reread_refuted.

Theorem readonly_rm_empty_dir_refuted : exists t p,
  tree_at t p = Some (IDir 7) /\
  v_exists VZip (view_index VZip (zip_entries t)) p = true /\
  rm_refused 10 VZip (view_index VZip (zip_entries t)) p = false.
Proof. exists w_tree, [[101]]. split; [reflexivity|]. exact rm_empty_dir_zip_l. Qed.
Print Assumptions readonly_rm_empty_dir_refuted.

(* Non-vacuity *)
Example legal_names_with_dots :
  legal [97; 46; 46; 98] /\ legal [46; 46; 46] /\ legal [46; 46; 97] /\ legal [97; 46; 46].     (* a..b  ...  ..a  a.. *)
Proof. repeat split; try discriminate; intros H; repeat (destruct H as [H|H]; [discriminate H|]); exact H. Qed.
Example dest_ready_satisfiable : exists m0, mkdir_all [] [[116]; [111]] = Some m0 /\ dest_ready m0 [[116]; [111]].
Proof.
  eexists. split; [reflexivity|]. split.
  - intros k Hk. simpl in Hk. destruct k as [|[|[|k]]]; try (exfalso; Lia.lia); eexists; reflexivity.
  - intros q Hq. destruct q; [contradiction|]. reflexivity.
Qed.
Example roundtrip_premise_satisfiable : wf_seq [] (tree_items w_tree2).
Proof. exact w_tree2_wf. Qed.
Example roundtrip_concrete :
  let t := [([97; 46; 46; 98], File [1; 2; 3] 5500000000); ([100], Dir 7999999999 [([102], File [] 1000000000); ([101], Dir 3000000000 [])])] in
  exists s, unzip None [[116]; [111]] [] (zip_entries t) = (s, UOk) /\
            info_of_fnode (lookup (u_fs s) [[116]; [111]; [97; 46; 46; 98]]) = tree_at t [[97; 46; 46; 98]] /\
            info_of_fnode (lookup (u_fs s) [[116]; [111]; [100]]) = tree_at t [[100]] /\
            info_of_fnode (lookup (u_fs s) [[116]; [111]; [100]; [101]]) = tree_at t [[100]; [101]].
Proof. eexists. split; [vm_compute; reflexivity|]. repeat split; vm_compute; reflexivity. Qed.
