(* C07 — lemmas, part 4: the zip view (afero zipfs.New + Stat/Open/Readdirnames + the VFS accessors) of the walker's
   archive exposes exactly the tree. *)
From Coq Require Import List ZArith Bool Lia.
Import ListNotations.
From GU Require Import C07.GuardTypes C07.Gen C07.Model C07.Proofs C07.Proofs2 C07.Proofs3.
Local Open Scope Z_scope.

(* ---------------------------------------------------------------- association lists of the index *)
Lemma ifind_app {A} (a b : list (path * A)) q :
  ifind (a ++ b) q = match ifind a q with Some x => Some x | None => ifind b q end.
Proof. induction a as [|[q0 x] a IH]; simpl; [reflexivity|]. destruct (path_eqb q0 q); [reflexivity|exact IH]. Qed.

Lemma dfind_app a b f : dfind (a ++ b) f = match dfind a f with Some x => Some x | None => dfind b f end.
Proof. induction a as [|[n v] a IH]; simpl; [reflexivity|]. destruct (bytes_eqb n f); [reflexivity|exact IH]. Qed.

Lemma ifind_ensure idx d q :
  ifind (ensure idx d) q = match ifind idx q with Some x => Some x | None => if path_eqb d q then Some [] else None end.
Proof.
  unfold ensure. destruct (ifind idx d) as [x|] eqn:E.
  - destruct (ifind idx q) eqn:Eq; [reflexivity|]. destruct (path_eqb d q) eqn:Edq; [|reflexivity].
    apply path_eqb_eq in Edq. subst. congruence.
  - rewrite ifind_app. simpl. reflexivity.
Qed.

Lemma ifind_iupdate idx d g q :
  ifind (iupdate idx d g) q = if path_eqb d q then option_map g (ifind idx d) else ifind idx q.
Proof.
  induction idx as [|[q0 dm] r IH]; simpl.
  - now destruct (path_eqb d q).
  - destruct (path_eqb q0 d) eqn:E0.
    + apply path_eqb_eq in E0. subst q0. simpl. destruct (path_eqb d q); reflexivity.
    + simpl. rewrite IH. destruct (path_eqb d q) eqn:Edq; [|reflexivity].
      apply path_eqb_eq in Edq. subst q. now rewrite E0.
Qed.

Lemma dfind_add_first f v dm g :
  dfind (dm_add_first f v dm) g =
  match dfind dm g with Some x => Some x | None => if bytes_eqb f g then Some v else None end.
Proof.
  unfold dm_add_first. destruct (dfind dm f) as [w|] eqn:E.
  - destruct (dfind dm g) eqn:Eg; [reflexivity|]. destruct (bytes_eqb f g) eqn:Efg; [|reflexivity].
    apply bytes_eqb_eq in Efg. subst. congruence.
  - rewrite dfind_app. simpl. reflexivity.
Qed.

Lemma dfind_in dm f : In f (map fst dm) <-> dfind dm f <> None.
Proof.
  induction dm as [|[n v] r IH]; simpl; [split; [intros []|congruence]|].
  destruct (bytes_eqb n f) eqn:E.
  - apply bytes_eqb_eq in E. split; [discriminate|intros _; now left].
  - rewrite <- IH. split; [intros [->|H]; [now rewrite bytes_eqb_refl in E|exact H]|intros H; now right].
Qed.

(* files[d][f] *)
Definition vlook (idx : vindex) (d : path) (f : name) : option vent :=
  match ifind idx d with Some dm => dfind dm f | None => None end.

Lemma vlook_ensure idx q d f : vlook (ensure idx q) d f = vlook idx d f.
Proof. unfold vlook. rewrite ifind_ensure. destruct (ifind idx d); [reflexivity|]. now destruct (path_eqb q d). Qed.

Lemma vlook_add idx d f v d' f' : vlook idx d f = None ->
  vlook (iupdate (ensure idx d) d (dm_add_first f v)) d' f' =
  if path_eqb d d' && bytes_eqb f f' then Some v else vlook idx d' f'.
Proof.
  intros Hn. unfold vlook in *. rewrite ifind_iupdate, !ifind_ensure. rewrite path_eqb_refl.
  destruct (path_eqb d d') eqn:Ed.
  - apply path_eqb_eq in Ed. subst d'. simpl andb.
    destruct (ifind idx d) as [dm|]; cbn [option_map]; rewrite dfind_add_first.
    + destruct (bytes_eqb f f') eqn:Ef.
      * apply bytes_eqb_eq in Ef. subst f'. now rewrite Hn.
      * now destruct (dfind dm f').
    + simpl. now destruct (bytes_eqb f f').
  - simpl. destruct (ifind idx d'); reflexivity.
Qed.

(* ---------------------------------------------------------------- zipfs.New as a fold *)
Definition zstep (idx : vindex) (e : entry) : vindex :=
  let '(d, f) := splitpath (e_name e) in
  let idx := iupdate (ensure idx d) d (dm_add_first f (mkV (e_isdir e) (e_data e))) in
  if e_isdir e then ensure idx (if is_empty f then d else d ++ [f]) else idx.
Lemma zip_index_fold es : zip_index es = fold_left zstep es [].
Proof. reflexivity. Qed.

Definition vent_of (k : ikind) : vent := match k with KFile c _ => mkV false c | KDir _ => mkV true [] end.

Lemma last_legal p : Forall legal p -> p <> [] -> legal (last p []).
Proof.
  intros HF Hne. rewrite (app_removelast_last [] Hne) in HF. apply Forall_app in HF as [_ HF]. now inversion HF.
Qed.

Lemma zstep_item idx p k : Forall legal p -> p <> [] ->
  zstep idx (entry_of (p, k)) =
  let idx1 := iupdate (ensure idx (removelast p)) (removelast p) (dm_add_first (last p []) (vent_of k)) in
  match k with KDir _ => ensure idx1 p | KFile _ _ => idx1 end.
Proof.
  intros HF Hne. unfold zstep, entry_of. simpl fst; simpl snd. destruct k as [c s|s]; simpl e_name.
  - unfold splitpath. rewrite split_join_file, clean_abs_legal by assumption.
    unfold e_isdir. simpl e_name. rewrite last_join_noslash by assumption. reflexivity.
  - unfold splitpath. rewrite split_join_dir, clean_abs_legal_trailing by assumption.
    unfold e_isdir. simpl e_name. rewrite ends_with_slash_dir. simpl e_data.
    destruct (legal_flags _ (last_legal p HF Hne)) as (E & _). rewrite E.
    simpl vent_of. f_equal. symmetry. now apply app_removelast_last.
Qed.

Record vinv (done : list item) (idx : vindex) : Prop := mkVinv {
  v_a1 : forall p k, In (p, k) done -> vlook idx (removelast p) (last p []) = Some (vent_of k);
  v_a2 : forall d f v, vlook idx d f = Some v -> exists k, In (d ++ [f], k) done /\ v = vent_of k;
  v_b1 : forall p s, In (p, KDir s) done -> ifind idx p <> None;
  v_lg : forall p k, In (p, k) done -> Forall legal p /\ p <> []
}.

Lemma ifind_keep_ensure idx d q : ifind idx q <> None -> ifind (ensure idx d) q <> None.
Proof. intros H. rewrite ifind_ensure. destruct (ifind idx q); [discriminate|contradiction]. Qed.
Lemma ifind_keep_iupdate idx d g q : ifind idx q <> None -> ifind (iupdate idx d g) q <> None.
Proof.
  intros H. rewrite ifind_iupdate. destruct (path_eqb d q) eqn:E; [|exact H].
  apply path_eqb_eq in E. subst. destruct (ifind idx q); [discriminate|contradiction].
Qed.

Lemma split_last_inj (p q : path) : p <> [] -> q <> [] -> removelast p = removelast q -> last p [] = last q [] -> p = q.
Proof.
  intros Hp Hq H1 H2. transitivity (removelast p ++ [last p []]); [now apply app_removelast_last|].
  rewrite H1, H2. symmetry. now apply app_removelast_last.
Qed.

Lemma vstep_ok done idx it : vinv done idx -> wf_item done it -> vinv (done ++ [it]) (zstep idx (entry_of it)).
Proof.
  intros V (Hleg & Hne & Hnew & _). destruct it as [p k]. simpl in Hleg, Hne, Hnew.
  rewrite zstep_item by assumption. set (d := removelast p). set (f := last p []).
  assert (Hdf : d ++ [f] = p) by (symmetry; now apply app_removelast_last).
  assert (Hfree : vlook idx d f = None).
  { destruct (vlook idx d f) as [v|] eqn:E; [|reflexivity]. exfalso. destruct (v_a2 _ _ V _ _ _ E) as (k' & Hin & _).
    apply Hnew. rewrite Hdf in Hin. eapply in_fst; eauto. }
  set (idx1 := iupdate (ensure idx d) d (dm_add_first f (vent_of k))).
  assert (Hl1 : forall d' f', vlook idx1 d' f' = if path_eqb d d' && bytes_eqb f f' then Some (vent_of k) else vlook idx d' f')
    by (intros; now apply vlook_add).
  assert (Hl2 : forall d' f', vlook (match k with KDir _ => ensure idx1 p | KFile _ _ => idx1 end) d' f'
                              = if path_eqb d d' && bytes_eqb f f' then Some (vent_of k) else vlook idx d' f').
  { intros d' f'. destruct k; [apply Hl1|]. rewrite vlook_ensure. apply Hl1. }
  cbv zeta. constructor.
  - intros p' k' Hin. rewrite Hl2. apply in_app_or in Hin as [Hin|[Heq|[]]].
    + destruct (v_lg _ _ V _ _ Hin) as [_ Hne'].
      destruct (path_eqb d (removelast p') && bytes_eqb f (last p' [])) eqn:E.
      * exfalso. apply andb_true_iff in E as [E1 E2]. apply path_eqb_eq in E1. apply bytes_eqb_eq in E2.
        apply Hnew. replace p with p' by (apply split_last_inj; auto). eapply in_fst; eauto.
      * now apply (v_a1 _ _ V).
    + inversion Heq; subst p' k'. fold d f. now rewrite path_eqb_refl, bytes_eqb_refl.
  - intros d' f' v Hv. rewrite Hl2 in Hv. destruct (path_eqb d d' && bytes_eqb f f') eqn:E.
    + apply andb_true_iff in E as [E1 E2]. apply path_eqb_eq in E1. apply bytes_eqb_eq in E2. rewrite <- E1, <- E2. inversion Hv; subst v.
      exists k. split; [|reflexivity]. apply in_or_app. right. left. now rewrite Hdf.
    + destruct (v_a2 _ _ V _ _ _ Hv) as (k' & Hin & Hk'). exists k'. split; [apply in_or_app; now left|exact Hk'].
  - intros p' s Hin. apply in_app_or in Hin as [Hin|[Heq|[]]].
    + pose proof (v_b1 _ _ V _ _ Hin) as H. assert (H1 : ifind idx1 p' <> None) by (apply ifind_keep_iupdate, ifind_keep_ensure, H).
      destruct k; [exact H1|now apply ifind_keep_ensure].
    + inversion Heq; subst p' k. rewrite ifind_ensure. destruct (ifind idx1 p); [discriminate|]. rewrite path_eqb_refl. discriminate.
  - intros p' k' Hin. apply in_app_or in Hin as [Hin|[Heq|[]]]; [now apply (v_lg _ _ V _ k')|]. inversion Heq; subst p' k'. now split.
Qed.

Lemma vfold_ok its : forall done idx, vinv done idx -> wf_seq done its ->
  vinv (done ++ its) (fold_left zstep (map entry_of its) idx).
Proof.
  induction its as [|it r IH]; intros done idx V W; [now rewrite app_nil_r|].
  destruct W as [W1 W2]. simpl. replace (done ++ it :: r) with ((done ++ [it]) ++ r) by (now rewrite <- app_assoc).
  apply IH; [now apply vstep_ok|exact W2].
Qed.

Lemma vinv_nil : vinv [] [].
Proof. constructor; try (intros; contradiction). intros d f v H. discriminate H. Qed.

(* ---------------------------------------------------------------- the zip view of a legal tree *)
Definition expected_vent (i : info) : vent := match i with IFile c _ => mkV false c | IDir _ => mkV true [] end.

Lemma zip_view_l t : legal_tree t ->
  let idx := view_index VZip (zip_entries t) in
  (forall p, p <> [] -> b_stat VZip idx p = option_map expected_vent (tree_at t p)) /\
  (forall p s, tree_at t p = Some (IDir s) ->
     exists names, b_readdir VZip idx p = Some names /\ forall f, In f names <-> tree_at t (p ++ [f]) <> None) /\
  (t <> [] -> exists names, b_readdir VZip idx [] = Some names /\ forall f, In f names <-> tree_at t [f] <> None).
Proof.
  intros HL idx. pose proof (tree_items_wf t HL) as HW.
  pose proof (vfold_ok (tree_items t) [] [] vinv_nil HW) as V. simpl app in V.
  assert (Eidx : idx = fold_left zstep (map entry_of (tree_items t)) []).
  { unfold idx, view_index. now rewrite zip_entries_items, zip_index_fold. }
  rewrite <- Eidx in V. clearbody idx.
  assert (Hstat : forall p, p <> [] -> b_stat VZip idx p = option_map expected_vent (tree_at t p)).
  { intros p Hp. assert (Hb : b_stat VZip idx p = vlook idx (removelast p) (last p [])) by (destruct p; [contradiction|reflexivity]).
    rewrite Hb. destruct (tree_at t p) as [i|] eqn:Ei.
    - apply tree_node_is_item in Ei. rewrite (v_a1 _ _ V _ _ Ei). now destruct i.
    - simpl. destruct (vlook idx (removelast p) (last p [])) as [v|] eqn:Ev; [|reflexivity]. exfalso.
      destruct (v_a2 _ _ V _ _ _ Ev) as (k & Hin & _).
      replace (removelast p ++ [last p []]) with p in Hin by (now apply app_removelast_last).
      apply (tree_item_is_node t p k HL) in Hin. congruence. }
  assert (Hnames : forall p dm, ifind idx p = Some dm -> forall f,
            In f (filter (fun n => negb (is_empty n)) (map fst dm)) <-> tree_at t (p ++ [f]) <> None).
  { intros p dm Hdm f. rewrite filter_In, dfind_in. split.
    - intros [Hd _]. destruct (dfind dm f) as [v|] eqn:Ev; [|contradiction].
      assert (Hv : vlook idx p f = Some v) by (unfold vlook; now rewrite Hdm).
      destruct (v_a2 _ _ V _ _ _ Hv) as (k & Hin & _). rewrite (tree_item_is_node t _ k HL Hin). discriminate.
    - intros Hne. destruct (tree_at t (p ++ [f])) as [i|] eqn:Ei; [|contradiction]. apply tree_node_is_item in Ei.
      pose proof (v_a1 _ _ V _ _ Ei) as Hv. rewrite removelast_last, last_last in Hv. unfold vlook in Hv. rewrite Hdm in Hv.
      split; [rewrite Hv; discriminate|].
      destruct (v_lg _ _ V _ _ Ei) as [Hlg _]. apply Forall_app in Hlg as [_ Hlg]. inversion Hlg; subst.
      destruct (legal_flags f H1) as (E & _). now rewrite E. }
  split; [exact Hstat|]. split.
  - intros p s Hp. apply tree_node_is_item in Hp. simpl in Hp. pose proof (v_b1 _ _ V _ _ Hp) as Hb.
    unfold b_readdir. destruct (ifind idx p) as [dm|] eqn:Edm; [|contradiction]. eexists. split; [reflexivity|]. now apply Hnames.
  - intros Hne. destruct t as [|[c n] r]; [contradiction|].
    assert (Hit : In ([c], kind_of_info (node_info n)) (tree_items ((c, n) :: r))).
    { unfold tree_items. simpl. apply in_or_app. left. apply witems_head. }
    pose proof (v_a1 _ _ V _ _ Hit) as Hv. simpl in Hv. unfold vlook in Hv.
    unfold b_readdir. destruct (ifind idx []) as [dm|] eqn:Edm; [|discriminate Hv]. eexists. split; [reflexivity|].
    intros f. now apply (Hnames [] dm Edm f).
Qed.

(* the accessors of the VFS (Stat, Exists, IsDir, Ls, ReadFile) on the zip view, in any state, any number of times *)
Lemma zip_view_ops_l t : legal_tree t ->
  let idx := view_index VZip (zip_entries t) in
  forall p st, p <> [] ->
  match tree_at t p with
  | Some (IFile c _) =>
      view_step VZip idx st OpStat p = (VStat false (Z.of_nat (length c)), st) /\
      view_step VZip idx st OpExists p = (VBool true, st) /\
      view_step VZip idx st OpIsDir p = (VBool false, st) /\
      view_step VZip idx st OpRead p = (match c with [] => VEmptyErr | _ => VData c end, st)
  | Some (IDir _) =>
      view_step VZip idx st OpStat p = (VStat true 0, st) /\
      view_step VZip idx st OpExists p = (VBool true, st) /\
      view_step VZip idx st OpIsDir p = (VBool true, st) /\
      exists names, view_step VZip idx st OpLs p = (VNames names, st) /\ forall f, In f names <-> tree_at t (p ++ [f]) <> None
  | None =>
      view_step VZip idx st OpStat p = (VNotFound, st) /\
      view_step VZip idx st OpExists p = (VBool false, st) /\
      view_step VZip idx st OpRead p = (VNotFound, st)
  end.
Proof.
  intros HL idx p st Hp. destruct (zip_view_l t HL) as (Hstat & Hdir & _). fold idx in Hstat, Hdir.
  specialize (Hstat p Hp). destruct (tree_at t p) as [[c s|s]|] eqn:Et; cbn [option_map expected_vent] in Hstat.
  - unfold view_step, v_exists. rewrite Hstat. simpl. repeat split; try reflexivity. now destruct c.
  - destruct (Hdir p s Et) as (names & Hn & Hnames).
    unfold view_step, v_exists. rewrite Hstat, Hn. simpl. repeat split; try reflexivity. exists names. split; [reflexivity|exact Hnames].
  - unfold view_step, v_exists. rewrite Hstat. repeat split; reflexivity.
Qed.
