(* C07 — types of the generated closed-resource guard table (Gen.v is written by translator-c07/cmd/guards2coq
   from utils/filesystem/*.go on every run).  One abstract statement per top-level statement of a *VFS method. *)
From Coq Require Import List String.
Import ListNotations.

Inductive gkind := GCond    (* the guard's own error (kind ErrCondition) is returned as it is *)
                 | GOther.  (* the guard fires but another error value is returned *)

Inductive astmt :=
| AGuard (k : gkind)      (* err = fs.checkWhetherUnderlyingResourceIsClosed(); if err != nil { return ... } *)
| ACallProp (m : string)  (* ..., err = fs.m(...); if err != nil { return }  — the callee's error is propagated *)
| ARetCall (m : string)   (* return fs.m(...)   (or  err = fs.m(...); return) *)
| ACall (m : string)      (* fs.m(...) occurs in the statement; what happens to its result is not analysed *)
| ABackend                (* the statement mentions the backend field fs.vfs *)
| AEscape                 (* the receiver itself is passed as an argument: the callee may call any exported method *)
| ARet.                   (* unconditional return at top level *)

Record meth := mkM { m_name : string; m_exported : bool; m_body : list astmt }.

(* shapes of the two Close methods (files.go VFS.Close, resource.go closeableResource.Close) *)
Inductive vshape := VPropagate | VUnknown.
Inductive rshape := RCloseThenFlag | RUnknown.
