(* C07 — lemmas, part 3: the walker's pre-order item list of a legal tree is well placed; items <-> tree_at. *)
From Coq Require Import List ZArith Bool Lia FinFun.
Import ListNotations.
From GU Require Import C07.GuardTypes C07.Gen C07.Model C07.Proofs C07.Proofs2.
Local Open Scope Z_scope.

Inductive legal_node : node -> Prop :=
| LF c mt : legal_node (File c mt)
| LD mt kids : NoDup (map fst kids) -> Forall (fun k => legal (fst k)) kids ->
               Forall (fun k => legal_node (snd k)) kids -> legal_node (Dir mt kids).
(* legal names (non-empty, no '/', not "." / ".."), pairwise distinct among siblings, at every level *)
Definition legal_tree (t : tree) : Prop :=
  NoDup (map fst t) /\ Forall (fun k => legal (fst k)) t /\ Forall (fun k => legal_node (snd k)) t.

(* ---------------------------------------------------------------- prefixes *)
Lemma is_prefix_refl a : is_prefix a a = true.
Proof. rewrite <- (app_nil_r a) at 2. apply is_prefix_app. Qed.

Lemma is_prefix_app_l a b q : is_prefix (a ++ b) q = true -> is_prefix a q = true.
Proof. intros H. apply is_prefix_spec in H as [r Hr]. apply is_prefix_spec. exists (b ++ r). now rewrite app_assoc. Qed.

Lemma is_prefix_false_ext a b q : is_prefix a q = false -> is_prefix (a ++ b) q = false.
Proof. intros H. destruct (is_prefix (a ++ b) q) eqn:E; [|reflexivity]. apply is_prefix_app_l in E. congruence. Qed.

Lemma prefix_sibling rel c c' q : is_prefix (rel ++ [c]) q = true -> c <> c' -> is_prefix (rel ++ [c']) q = false.
Proof.
  intros H Hne. destruct (is_prefix (rel ++ [c']) q) eqn:E; [|reflexivity].
  apply is_prefix_spec in H as [r1 H1]. apply is_prefix_spec in E as [r2 H2].
  rewrite H1 in H2. rewrite <- !app_assoc in H2. apply app_inv_head in H2. simpl in H2. inversion H2. contradiction.
Qed.

Lemma longer_not_prefix (rel : path) c : is_prefix (rel ++ [c]) rel = false.
Proof.
  destruct (is_prefix (rel ++ [c]) rel) eqn:E; [|reflexivity]. apply is_prefix_spec in E as [r Hr].
  apply (f_equal (@length _)) in Hr. rewrite !app_length in Hr. simpl in Hr. lia.
Qed.

Lemma witems_prefix n : forall rel q, In q (map fst (witems rel n)) -> is_prefix rel q = true.
Proof.
  induction n as [c mt|mt kids IH] using node_ind2; intros rel q Hin.
  - simpl in Hin. destruct Hin as [<-|[]]. apply is_prefix_refl.
  - simpl in Hin. destruct Hin as [<-|Hin]; [apply is_prefix_refl|].
    apply in_map_iff in Hin as (it & Hq & Hin). apply in_flat_map in Hin as (k & Hk & Hin).
    rewrite Forall_forall in IH. apply (is_prefix_app_l rel [fst k]). apply (IH k Hk). subst q. now apply in_map.
Qed.

(* ---------------------------------------------------------------- well-placedness *)
Lemma wf_seq_app a : forall done b, wf_seq done (a ++ b) <-> wf_seq done a /\ wf_seq (done ++ a) b.
Proof.
  induction a as [|x a IH]; intros done b; simpl.
  - rewrite app_nil_r. tauto.
  - rewrite IH. rewrite <- app_assoc. simpl. tauto.
Qed.

Definition anc_ok (done : list item) (rel : path) : Prop :=
  forall j, (0 < j < length rel)%nat -> exists s, In (firstn j rel, KDir s) done.
Definition fresh (done : list item) (rel : path) : Prop :=
  forall q, In q (map fst done) -> is_prefix rel q = false.
Definition wf_node_stmt (n : node) : Prop := forall rel done,
  legal_node n -> Forall legal rel -> rel <> [] -> anc_ok done rel -> fresh done rel -> wf_seq done (witems rel n).

Lemma wf_kids rel : Forall legal rel -> forall kids done,
  Forall (fun k => wf_node_stmt (snd k)) kids ->
  NoDup (map fst kids) -> Forall (fun k => legal (fst k)) kids -> Forall (fun k => legal_node (snd k)) kids ->
  (forall j, (0 < j <= length rel)%nat -> exists s, In (firstn j rel, KDir s) done) ->
  (forall k, In k kids -> fresh done (rel ++ [fst k])) ->
  wf_seq done (flat_map (fun k => witems (rel ++ [fst k]) (snd k)) kids).
Proof.
  intros Hrel. induction kids as [|k r IH]; intros done HP Hnd Hlg Hln Hanc Hfr; [exact I|].
  simpl. inversion HP; subst. inversion Hlg; subst. inversion Hln; subst. simpl in Hnd. inversion Hnd; subst.
  apply wf_seq_app. split.
  - apply H1; auto.
    + apply Forall_app. split; [assumption|]. constructor; [assumption|constructor].
    + intros E. apply app_eq_nil in E as [_ E]. discriminate.
    + intros j Hj. rewrite app_length in Hj. simpl in Hj. destruct (Hanc j) as [s Hs]; [lia|]. exists s.
      rewrite firstn_app. replace (j - length rel)%nat with 0%nat by lia. simpl. now rewrite app_nil_r.
    + apply Hfr. now left.
  - apply IH; auto.
    + intros j Hj. destruct (Hanc j Hj) as [s Hs]. exists s. apply in_or_app. now left.
    + intros k' Hk' q Hq. rewrite map_app in Hq. apply in_app_or in Hq as [Hq|Hq].
      * apply (Hfr k'); [now right|assumption].
      * apply (prefix_sibling rel (fst k)); [now apply (witems_prefix (snd k))|].
        intros E. apply H7. rewrite E. now apply in_map.
Qed.

Lemma wf_witems n : wf_node_stmt n.
Proof.
  induction n as [c mt|mt kids IH] using node_ind2; intros rel done Hl Hrel Hne Hanc Hfr.
  - simpl. split; [|exact I]. repeat split; simpl; auto.
    intros Hin. apply Hfr in Hin. rewrite is_prefix_refl in Hin. discriminate.
  - simpl. split.
    + repeat split; simpl; auto. intros Hin. apply Hfr in Hin. rewrite is_prefix_refl in Hin. discriminate.
    + inversion Hl; subst. apply wf_kids; auto.
      * intros j Hj. destruct (Nat.eq_dec j (length rel)) as [->|Hneq].
        -- rewrite firstn_all. exists (sec mt). apply in_or_app. right. now left.
        -- destruct (Hanc j) as [s Hs]; [lia|]. exists s. apply in_or_app. now left.
      * intros k Hk q Hq. rewrite map_app in Hq. apply in_app_or in Hq as [Hq|[<-|[]]].
        -- apply is_prefix_false_ext. now apply Hfr.
        -- apply longer_not_prefix.
Qed.

Lemma tree_items_wf t : legal_tree t -> wf_seq [] (tree_items t).
Proof.
  intros (Hnd & Hlg & Hln). unfold tree_items.
  change (wf_seq [] (flat_map (fun k => witems ([] ++ [fst k]) (snd k)) t)).
  apply wf_kids; auto.
  - apply Forall_forall. intros k _. apply wf_witems.
  - intros j Hj. simpl in Hj. lia.
  - intros k _ q [].
Qed.

Lemma wf_seq_nodup its : forall done, NoDup (map fst done) -> wf_seq done its -> NoDup (map fst (done ++ its)).
Proof.
  induction its as [|it r IH]; intros done Hn W; [now rewrite app_nil_r|].
  destruct W as [(_ & _ & Hnew & _) W]. replace (done ++ it :: r) with ((done ++ [it]) ++ r) by (now rewrite <- app_assoc).
  apply IH; [|exact W]. rewrite map_app. simpl. now apply nodup_snoc.
Qed.

(* ---------------------------------------------------------------- items <-> tree_at *)
Definition info_of_kind (k : ikind) : info := match k with KFile c s => IFile c s | KDir s => IDir s end.
Definition kind_of_info (i : info) : ikind := match i with IFile c s => KFile c s | IDir s => KDir s end.
Definition node_info (n : node) : info := match n with File c mt => IFile c (sec mt) | Dir mt _ => IDir (sec mt) end.
Definition node_at (n : node) (p : path) : option info :=
  match p with
  | [] => Some (node_info n)
  | _ => match n with Dir _ ks => tree_at ks p | File _ _ => None end
  end.

Lemma tree_at_node_at kids c r : tree_at kids (c :: r) = match find_kid kids c with None => None | Some n => node_at n r end.
Proof. simpl. destruct (find_kid kids c) as [[ct mt|mt ks]|]; destruct r; reflexivity. Qed.

Lemma find_kid_in kids c n : find_kid kids c = Some n -> In (c, n) kids.
Proof.
  induction kids as [|[c' n'] r IH]; simpl; [discriminate|]. destruct (bytes_eqb c' c) eqn:E.
  - intros H; inversion H; subst. apply bytes_eqb_eq in E. subst. now left.
  - intros H. right. now apply IH.
Qed.

Lemma find_kid_nodup kids c n : NoDup (map fst kids) -> In (c, n) kids -> find_kid kids c = Some n.
Proof.
  induction kids as [|[c' n'] r IH]; simpl; intros Hnd Hin; [destruct Hin|]. inversion Hnd; subst.
  destruct Hin as [Heq|Hin].
  - inversion Heq; subst. now rewrite bytes_eqb_refl.
  - rewrite bytes_eqb_neq; [now apply IH|]. intros ->. apply H1. change c with (fst (c, n)). now apply in_map.
Qed.

Lemma witems_head rel n : In (rel, kind_of_info (node_info n)) (witems rel n).
Proof. destruct n; simpl; now left. Qed.

(* every item is a node of the tree *)
Lemma item_is_node n : forall rel q k, legal_node n -> In (q, k) (witems rel n) ->
  exists p, q = rel ++ p /\ node_at n p = Some (info_of_kind k).
Proof.
  induction n as [c mt|mt kids IH] using node_ind2; intros rel q k Hl Hin.
  - simpl in Hin. destruct Hin as [Heq|[]]. inversion Heq; subst. exists []. now rewrite app_nil_r.
  - simpl in Hin. destruct Hin as [Heq|Hin].
    + inversion Heq; subst. exists []. now rewrite app_nil_r.
    + apply in_flat_map in Hin as ([c n'] & Hk & Hin). inversion Hl; subst.
      rewrite Forall_forall in IH, H3. destruct (IH _ Hk (rel ++ [c]) q k (H3 _ Hk) Hin) as (p' & -> & Hp').
      exists (c :: p'). split; [now rewrite <- app_assoc|].
      unfold node_at. rewrite tree_at_node_at. simpl fst in *. simpl snd in *.
      now rewrite (find_kid_nodup kids c n' H1 Hk).
Qed.

(* every node of the tree is an item *)
Lemma node_is_item p : forall n rel i, node_at n p = Some i -> In (rel ++ p, kind_of_info i) (witems rel n).
Proof.
  induction p as [|c r IH]; intros n rel i H.
  - simpl in H. inversion H; subst. rewrite app_nil_r. apply witems_head.
  - destruct n as [ct mt|mt ks]; [discriminate H|]. unfold node_at in H. rewrite tree_at_node_at in H.
    destruct (find_kid ks c) as [n'|] eqn:E; [|discriminate H]. apply find_kid_in in E.
    simpl. right. apply in_flat_map. exists (c, n'). split; [exact E|]. simpl.
    replace (rel ++ c :: r) with ((rel ++ [c]) ++ r) by (now rewrite <- app_assoc). now apply IH.
Qed.

Lemma tree_item_is_node t q k : legal_tree t -> In (q, k) (tree_items t) -> tree_at t q = Some (info_of_kind k).
Proof.
  intros (Hnd & _ & Hln) Hin. apply in_flat_map in Hin as ([c n] & Hk & Hin). rewrite Forall_forall in Hln.
  destruct (item_is_node n [c] q k (Hln _ Hk) Hin) as (p & -> & Hp). simpl.
  change (tree_at t (c :: p) = Some (info_of_kind k)). rewrite tree_at_node_at. now rewrite (find_kid_nodup t c n Hnd Hk).
Qed.

Lemma tree_node_is_item t p i : tree_at t p = Some i -> In (p, kind_of_info i) (tree_items t).
Proof.
  destruct p as [|c r]; [discriminate|]. rewrite tree_at_node_at. destruct (find_kid t c) as [n|] eqn:E; [|discriminate].
  intros H. apply find_kid_in in E. apply in_flat_map. exists (c, n). split; [exact E|]. simpl.
  change (c :: r) with ([c] ++ r). now apply node_is_item.
Qed.

(* ---------------------------------------------------------------- the round trip, for every legal tree *)
Lemma sec_of_restored s : sec (s * ns) = s.
Proof. unfold sec. apply Z.div_mul. unfold ns. lia. Qed.

Lemma info_kind_inv i : info_of_kind (kind_of_info i) = i.
Proof. destruct i; reflexivity. Qed.

Lemma roundtrip_l D m0 t : Forall legal D -> D <> [] -> dest_ready m0 D -> legal_tree t ->
  exists s, unzip None D m0 (zip_entries t) = (s, UOk) /\
    (forall p, p <> [] -> info_of_fnode (lookup (u_fs s) (D ++ p)) = tree_at t p) /\
    u_list s = map (app D) (map fst (tree_items t)) /\
    NoDup (u_list s) /\
    (forall p, In p (map fst (tree_items t)) <-> tree_at t p <> None).
Proof.
  intros HD HDne HR HL. pose proof (tree_items_wf t HL) as HW.
  destruct (unzip_items_faithful D m0 (tree_items t) HD HDne HR HW) as (s & E & Hlist & Hf & Hd & Hn).
  assert (Hdom : forall p, In p (map fst (tree_items t)) <-> tree_at t p <> None).
  { intros p. split.
    - intros Hin. apply in_map_iff in Hin as ([q k] & Hq & Hin). simpl in Hq. subst q.
      rewrite (tree_item_is_node t p k HL Hin). discriminate.
    - intros Hne. destruct (tree_at t p) as [i|] eqn:Ei; [|contradiction]. apply tree_node_is_item in Ei.
      change p with (fst (p, kind_of_info i)). now apply in_map. }
  exists s. rewrite <- zip_entries_items in E. split; [exact E|]. split; [|split; [|split]].
  - intros p Hp. destruct (tree_at t p) as [i|] eqn:Ei.
    + apply tree_node_is_item in Ei. destruct i as [c sc|sc]; simpl in Ei.
      * rewrite (Hf _ _ _ Ei). simpl. now rewrite sec_of_restored.
      * rewrite (Hd _ _ Ei). simpl. now rewrite sec_of_restored.
    + rewrite Hn; [reflexivity|exact Hp|]. intros Hin. apply Hdom in Hin. contradiction.
  - rewrite Hlist. now rewrite map_map.
  - rewrite Hlist. rewrite <- (map_map fst (app D)).
    apply FinFun.Injective_map_NoDup; [intros a b Hab; now apply app_inv_head in Hab|].
    apply (wf_seq_nodup (tree_items t) []); [constructor|exact HW].
  - exact Hdom.
Qed.
