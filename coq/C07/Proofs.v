(* C07 — lemmas.  Part 1: byte strings, Split/Join, Clean, the sanitiser.  Part 2: destination file system.
   Part 3: unzip of a well-formed item sequence.  (Walker, views and guards are in Proofs2.v.) *)
From Coq Require Import List ZArith Bool Lia.
Import ListNotations.
From GU Require Import C07.GuardTypes C07.Gen C07.Model.
Local Open Scope Z_scope.

(* ---------------------------------------------------------------- equality tests *)
Lemma bytes_eqb_eq a b : bytes_eqb a b = true <-> a = b.
Proof.
  revert b; induction a as [|x xs IH]; intros [|y ys]; simpl; split; intros H; try easy.
  - apply andb_true_iff in H as [H1 H2]. apply Z.eqb_eq in H1. apply IH in H2. congruence.
  - inversion H; subst. rewrite Z.eqb_refl. simpl. now apply IH.
Qed.
Lemma bytes_eqb_refl a : bytes_eqb a a = true. Proof. now apply bytes_eqb_eq. Qed.
Lemma bytes_eqb_neq a b : a <> b -> bytes_eqb a b = false.
Proof. intros H. destruct (bytes_eqb a b) eqn:E; [apply bytes_eqb_eq in E; contradiction|reflexivity]. Qed.
Lemma path_eqb_eq a b : path_eqb a b = true <-> a = b.
Proof.
  revert b; induction a as [|x xs IH]; intros [|y ys]; simpl; split; intros H; try easy.
  - apply andb_true_iff in H as [H1 H2]. apply bytes_eqb_eq in H1. apply IH in H2. congruence.
  - inversion H; subst. rewrite bytes_eqb_refl. simpl. now apply IH.
Qed.
Lemma path_eqb_refl a : path_eqb a a = true. Proof. now apply path_eqb_eq. Qed.
Lemma path_eqb_neq a b : a <> b -> path_eqb a b = false.
Proof. intros H. destruct (path_eqb a b) eqn:E; [apply path_eqb_eq in E; contradiction|reflexivity]. Qed.

(* ---------------------------------------------------------------- legal names *)
Definition legal (c : name) : Prop := c <> [] /\ ~ In slash c /\ c <> [dot] /\ c <> [dot; dot].

Lemma legal_flags c : legal c -> is_empty c = false /\ is_dot c = false /\ is_dotdot c = false.
Proof.
  intros (H1 & _ & H3 & H4). repeat split.
  - destruct c; [contradiction|reflexivity].
  - apply bytes_eqb_neq; exact H3.
  - apply bytes_eqb_neq; exact H4.
Qed.

(* ---------------------------------------------------------------- Split / Join *)
Lemma split_aux_noslash x : ~ In slash x -> forall s cur, split_aux (x ++ s) cur = split_aux s (rev x ++ cur).
Proof.
  induction x as [|b x IH]; intros Hn s cur; simpl; [reflexivity|].
  destruct (b =? slash) eqn:E.
  - apply Z.eqb_eq in E. exfalso. apply Hn. left. exact E.
  - rewrite IH by (intros Hin; apply Hn; right; exact Hin). now rewrite <- app_assoc.
Qed.

Lemma split_aux_slash r cur : split_aux (slash :: r) cur = rev cur :: split_aux r [].
Proof. reflexivity. Qed.

Lemma split_join p : Forall legal p -> p <> [] ->
  forall cur, split_aux (join_slash p) cur = (rev cur ++ hd [] p) :: tl p.
Proof.
  induction p as [|c cs IH]; intros HF Hne cur; [contradiction|].
  inversion HF as [|? ? Hc Hcs]; subst. destruct Hc as (_ & Hns & _).
  destruct cs as [|c' cs'].
  - simpl. rewrite <- (app_nil_r c) at 1. rewrite split_aux_noslash by exact Hns. simpl.
    now rewrite rev_app_distr, rev_involutive.
  - change (join_slash (c :: c' :: cs')) with (c ++ slash :: join_slash (c' :: cs')).
    rewrite split_aux_noslash by exact Hns. rewrite split_aux_slash.
    rewrite rev_app_distr, rev_involutive. rewrite IH by (auto; discriminate). simpl. reflexivity.
Qed.

Lemma split_join_file p : Forall legal p -> p <> [] -> split_slash (join_slash p) = p.
Proof. intros HF Hne. unfold split_slash. rewrite split_join by assumption. destruct p; [contradiction|reflexivity]. Qed.

Lemma split_aux_snoc_slash s : forall cur, split_aux (s ++ [slash]) cur = split_aux s cur ++ [[]].
Proof.
  induction s as [|b s IH]; intros cur.
  - reflexivity.
  - simpl. destruct (b =? slash); [simpl; now rewrite IH | apply IH].
Qed.

Lemma split_join_dir p : Forall legal p -> p <> [] -> split_slash (join_slash p ++ [slash]) = p ++ [[]].
Proof. intros HF Hne. unfold split_slash. rewrite split_aux_snoc_slash. fold (split_slash (join_slash p)). now rewrite split_join_file. Qed.

(* ---------------------------------------------------------------- Clean *)
Lemma clean_legal cs : Forall legal cs -> forall st, fold_left clean_step cs st = rev cs ++ st.
Proof.
  induction cs as [|c cs IH]; intros HF st; [reflexivity|].
  inversion HF; subst. simpl. unfold clean_step at 2.
  destruct (legal_flags c H1) as (E1 & E2 & E3). rewrite E1, E2, E3. simpl.
  rewrite IH by assumption. now rewrite <- app_assoc.
Qed.

Lemma clean_abs_legal cs : Forall legal cs -> clean_abs cs = cs.
Proof. intros H. unfold clean_abs. rewrite clean_legal by assumption. now rewrite app_nil_r, rev_involutive. Qed.

Lemma clean_abs_legal_trailing cs : Forall legal cs -> clean_abs (cs ++ [[]]) = cs.
Proof.
  intros H. unfold clean_abs. rewrite fold_left_app. rewrite (clean_legal cs H). simpl.
  unfold clean_step. simpl. now rewrite app_nil_r, rev_involutive.
Qed.

(* ---------------------------------------------------------------- prefixes *)
Lemma is_prefix_app D p : is_prefix D (D ++ p) = true.
Proof. induction D; simpl; [reflexivity|]. now rewrite bytes_eqb_refl. Qed.

Lemma is_prefix_spec a b : is_prefix a b = true <-> exists r, b = a ++ r.
Proof.
  revert b; induction a as [|x xs IH]; intros b; simpl.
  - split; [intros _; now exists b | reflexivity].
  - destruct b as [|y ys]; [split; [discriminate|intros [r Hr]; discriminate]|].
    split.
    + intros H. apply andb_true_iff in H as [H1 H2]. apply bytes_eqb_eq in H1. apply IH in H2 as [r Hr]. exists r. now subst.
    + intros [r Hr]. inversion Hr; subst. rewrite bytes_eqb_refl. simpl. apply IH. now exists r.
Qed.

Lemma has_dotdot_legal p : Forall legal p -> has_dotdot p = false.
Proof.
  induction 1 as [|c cs Hc _ IH]; [reflexivity|]. simpl. destruct (legal_flags c Hc) as (_ & _ & E). now rewrite E.
Qed.

Lemma app_neq_self {A} (D p : list A) : p <> [] -> D ++ p <> D.
Proof. intros Hp H. apply Hp. apply (app_inv_head D). now rewrite app_nil_r. Qed.

(* ---------------------------------------------------------------- the sanitiser on the names the walker writes *)
Lemma sanitise_walker_file D p : Forall legal D -> D <> [] -> Forall legal p -> p <> [] ->
  sanitise D (join_slash p) = Some (D ++ p).
Proof.
  intros HD HDne Hp Hpne. unfold sanitise. rewrite split_join_file by assumption.
  rewrite clean_abs_legal by (apply Forall_app; split; assumption).
  rewrite path_eqb_neq by (apply app_neq_self; assumption).
  rewrite has_dotdot_legal by (apply Forall_app; split; assumption).
  rewrite is_prefix_app. destruct D; [contradiction|reflexivity].
Qed.

Lemma sanitise_walker_dir D p : Forall legal D -> D <> [] -> Forall legal p -> p <> [] ->
  sanitise D (join_slash p ++ [slash]) = Some (D ++ p).
Proof.
  intros HD HDne Hp Hpne. unfold sanitise. rewrite split_join_dir by assumption.
  rewrite app_assoc. rewrite clean_abs_legal_trailing by (apply Forall_app; split; assumption).
  rewrite path_eqb_neq by (apply app_neq_self; assumption).
  rewrite has_dotdot_legal by (apply Forall_app; split; assumption).
  rewrite is_prefix_app. destruct D; [contradiction|reflexivity].
Qed.

(* trailing slash = directory, for the walker's names *)
Lemma ends_with_slash_dir s : ends_with_slash (s ++ [slash]) = true.
Proof. unfold ends_with_slash. rewrite rev_app_distr. reflexivity. Qed.

Lemma ews_app a b : b <> [] -> ends_with_slash (a ++ b) = ends_with_slash b.
Proof.
  intros Hb. unfold ends_with_slash. rewrite rev_app_distr. destruct (rev b) as [|x r] eqn:E; [|reflexivity].
  exfalso. apply Hb. rewrite <- (rev_involutive b), E. reflexivity.
Qed.

Lemma join_nonempty p : Forall legal p -> p <> [] -> join_slash p <> [].
Proof.
  intros HF Hne. destruct p as [|c cs]; [contradiction|]. inversion HF as [|? ? Hc _]; subst. destruct Hc as (Hc & _).
  destruct cs; simpl; [exact Hc|]. destruct c; [contradiction|discriminate].
Qed.

Lemma last_join_noslash p : Forall legal p -> p <> [] -> ends_with_slash (join_slash p) = false.
Proof.
  induction p as [|c cs IH]; intros HF Hne; [contradiction|]. inversion HF as [|? ? Hc Hcs]; subst.
  destruct cs as [|c' cs'].
  - simpl. destruct Hc as (Hc1 & Hc2 & _). unfold ends_with_slash.
    destruct (rev c) as [|b r] eqn:E.
    + exfalso. apply Hc1. rewrite <- (rev_involutive c), E. reflexivity.
    + destruct (b =? slash) eqn:Eb; [|reflexivity]. apply Z.eqb_eq in Eb. exfalso. apply Hc2.
      apply in_rev. rewrite E. left. exact Eb.
  - change (join_slash (c :: c' :: cs')) with (c ++ slash :: join_slash (c' :: cs')).
    rewrite ews_app by discriminate.
    change (slash :: join_slash (c' :: cs')) with ([slash] ++ join_slash (c' :: cs')).
    rewrite ews_app by (apply join_nonempty; [assumption|discriminate]).
    apply IH; [assumption|discriminate].
Qed.

(* ================================================================ Part 2: destination file system *)
Definition isdirP (m : fsmap) (q : path) : Prop := exists mt, lookup m q = Some (FDir mt).

Lemma lookup_cons m q n p : lookup ((q, n) :: m) p = if path_eqb q p then Some n else lookup m p.
Proof. reflexivity. Qed.

(* [m'] has the same entries as [m], files untouched, directories possibly with another mtime *)
Definition kind_pres (m m' : fsmap) : Prop := forall q,
  match lookup m q with
  | Some (FFile c t) => lookup m' q = Some (FFile c t)
  | Some (FDir _) => isdirP m' q
  | None => lookup m' q = None
  end.

Lemma kind_pres_refl m : kind_pres m m.
Proof. intros q. destruct (lookup m q) as [[c t|mt]|] eqn:E; try reflexivity. now exists mt. Qed.

Lemma touch_pres m par : kind_pres m (touch m par).
Proof.
  unfold touch. destruct par as [|x xs]; [apply kind_pres_refl|].
  destruct (lookup m (x :: xs)) as [[c t|mt]|] eqn:E; try apply kind_pres_refl.
  intros q. rewrite lookup_cons. destruct (path_eqb (x :: xs) q) eqn:Eq.
  - apply path_eqb_eq in Eq; subst q. rewrite E. exists None. now rewrite lookup_cons, path_eqb_refl.
  - destruct (lookup m q) as [[c t|mt']|] eqn:E'; try reflexivity. exists mt'. now rewrite lookup_cons, Eq.
Qed.

Lemma kp_file m m' q c t : kind_pres m m' -> lookup m q = Some (FFile c t) -> lookup m' q = Some (FFile c t).
Proof. intros H E. specialize (H q). now rewrite E in H. Qed.
Lemma kp_dir m m' q : kind_pres m m' -> isdirP m q -> isdirP m' q.
Proof. intros H [mt E]. specialize (H q). now rewrite E in H. Qed.
Lemma kp_none m m' q : kind_pres m m' -> lookup m q = None -> lookup m' q = None.
Proof. intros H E. specialize (H q). now rewrite E in H. Qed.

Lemma mkdirs_chain m : forall rest pre c,
  (forall k, (0 < k <= length rest)%nat -> isdirP m (pre ++ firstn k rest)) ->
  lookup m (pre ++ rest ++ [c]) = None ->
  mkdirs m pre (rest ++ [c]) = Some ((pre ++ rest ++ [c], FDir None) :: touch m (pre ++ rest)).
Proof.
  induction rest as [|x r IH]; intros pre c Hd Hn.
  - simpl in *. rewrite Hn. now rewrite app_nil_r.
  - simpl app. simpl mkdirs. destruct (Hd 1%nat) as [mt E]; [simpl; lia|]. simpl in E. rewrite E.
    replace (pre ++ x :: r ++ [c]) with ((pre ++ [x]) ++ r ++ [c]) by (now rewrite <- app_assoc).
    replace (pre ++ x :: r) with ((pre ++ [x]) ++ r) by (now rewrite <- app_assoc).
    apply IH.
    + intros k Hk. specialize (Hd (S k)). simpl in Hd. rewrite <- app_assoc. simpl. apply Hd. lia.
    + rewrite <- app_assoc. exact Hn.
Qed.

(* ================================================================ Part 3: unzip of a well-formed item sequence *)
Inductive ikind := KFile (c : list Z) (s : Z) | KDir (s : Z).
Definition item := (path * ikind)%type.
Definition entry_of (it : item) : entry :=
  match snd it with
  | KFile c s => mkE (join_slash (fst it)) c s
  | KDir s => mkE (join_slash (fst it) ++ [slash]) [] s
  end.

(* an item is well placed after [done]: legal relative path, new, every proper ancestor already sent as a directory *)
Definition wf_item (done : list item) (it : item) : Prop :=
  Forall legal (fst it) /\ fst it <> [] /\ ~ In (fst it) (map fst done) /\
  forall j, (0 < j < length (fst it))%nat -> exists s, In (firstn j (fst it), KDir s) done.
Fixpoint wf_seq (done its : list item) : Prop :=
  match its with [] => True | it :: r => wf_item done it /\ wf_seq (done ++ [it]) r end.

Record inv (D : path) (done : list item) (s : ustate) : Prop := mkInv {
  i_list : u_list s = map (fun it => D ++ fst it) done;
  i_file : forall p c t, In (p, KFile c t) done -> lookup (u_fs s) (D ++ p) = Some (FFile c (Some (t * ns)));
  i_dir : forall p t, In (p, KDir t) done -> isdirP (u_fs s) (D ++ p) /\ In (D ++ p, t) (u_dirs s);
  i_D : forall k, (0 < k <= length D)%nat -> isdirP (u_fs s) (firstn k D);
  i_none : forall q, q <> [] -> ~ In q (map fst done) -> lookup (u_fs s) (D ++ q) = None;
  i_dirs : forall q t, In (q, t) (u_dirs s) -> exists p, q = D ++ p /\ In (p, KDir t) done;
  i_nodup : NoDup (map fst done)
}.

Lemma firstn_neq_app (D p : path) k : p <> [] -> firstn k D <> D ++ p.
Proof.
  intros Hp H. apply (f_equal (@length _)) in H. rewrite app_length, firstn_length in H.
  destruct p; [contradiction|]. simpl in H. lia.
Qed.

Lemma in_fst {A B} (a : A) (b : B) l : In (a, b) l -> In a (map fst l).
Proof. intros H. apply in_map_iff. now exists (a, b). Qed.

Lemma nodup_snoc {A} (l : list A) x : NoDup l -> ~ In x l -> NoDup (l ++ [x]).
Proof.
  intros Hn Hx. induction l as [|a l IH]; simpl; [constructor; [intros []|constructor]|].
  inversion Hn; subst. constructor.
  - intros Hin. apply in_app_or in Hin as [Hin|[Heq|[]]]; [contradiction|]. subst. apply Hx. now left.
  - apply IH; [assumption|]. intros Hin. apply Hx. now right.
Qed.

(* the chain of ancestors of a well-placed item consists of directories *)
Lemma ancestors_dirs D done s p : inv D done s ->
  (forall j, (0 < j < length p)%nat -> exists t, In (firstn j p, KDir t) done) ->
  forall k, (0 < k <= length (D ++ removelast p))%nat -> isdirP (u_fs s) (firstn k (D ++ removelast p)).
Proof.
  intros I Hw k Hk. rewrite firstn_app.
  destruct (Nat.le_gt_cases k (length D)) as [Hle|Hgt].
  - replace (k - length D)%nat with 0%nat by lia. simpl. rewrite app_nil_r. apply (i_D _ _ _ I). lia.
  - rewrite firstn_all2 by lia.
    rewrite app_length in Hk. rewrite removelast_firstn_len in *. rewrite firstn_length in Hk.
    rewrite firstn_firstn. set (j := (k - length D)%nat) in *.
    replace (Nat.min j (Nat.pred (length p))) with j by lia.
    destruct (Hw j) as [t Ht]; [lia|]. apply (i_dir _ _ _ I) in Ht. apply Ht.
Qed.

Lemma parent_isdir D done s p : D <> [] -> inv D done s -> p <> [] ->
  (forall j, (0 < j < length p)%nat -> exists t, In (firstn j p, KDir t) done) ->
  isdirP (u_fs s) (D ++ removelast p).
Proof.
  intros HD I Hp Hw.
  pose proof (ancestors_dirs D done s p I Hw (length (D ++ removelast p))) as H.
  rewrite firstn_all in H. apply H. rewrite app_length. destruct D; [contradiction|]. simpl. lia.
Qed.

Lemma step_ok D done s it : Forall legal D -> D <> [] -> inv D done s -> wf_item done it ->
  exists s', unzip_entry None D s (entry_of it) = (s', UOk) /\ inv D (done ++ [it]) s'.
Proof.
  intros HD HDne I (Hleg & Hne & Hnew & Hanc). destruct it as [p k]. simpl in Hleg, Hne, Hnew, Hanc.
  assert (Hpar : isdirP (u_fs s) (D ++ removelast p)) by (eapply parent_isdir; eauto).
  assert (HP : parent (D ++ p) = D ++ removelast p) by (unfold parent; now apply removelast_app).
  assert (Hnone : lookup (u_fs s) (D ++ p) = None) by (apply (i_none _ _ _ I); assumption).
  assert (HDp : exists x xs, D ++ p = x :: xs) by (destruct D; [contradiction|]; simpl; eauto).
  destruct HDp as (x0 & xs0 & HDp).
  assert (Hparne : exists y ys, D ++ removelast p = y :: ys) by (destruct D; [contradiction|]; simpl; eauto).
  destruct Hparne as (y0 & ys0 & Hparne).
  destruct k as [c t|t].
  - (* file *)
    unfold unzip_entry, entry_of. simpl fst; simpl snd. simpl e_name.
    rewrite sanitise_walker_file by assumption. simpl depth_exceeded. change (rec_applies None) with false. cbn [andb].
    unfold e_isdir. simpl e_name. rewrite last_join_noslash by assumption.
    simpl u_fs. rewrite HP. unfold mkdir_all, fexists. rewrite Hparne. destruct Hpar as [mt Hpar]. rewrite <- Hparne, Hpar.
    simpl file_too_large. cbv iota beta. unfold write_file. rewrite HDp. rewrite <- HDp. rewrite HP.
    unfold fis_dir. rewrite Hparne, <- Hparne, Hpar. rewrite Hnone.
    unfold chtimes. rewrite lookup_cons, path_eqb_refl. simpl e_sec. simpl totals_exceeded. cbv iota beta.
    eexists. split; [reflexivity|].
    set (m1 := touch (u_fs s) (D ++ removelast p)).
    assert (KP : kind_pres (u_fs s) m1) by apply touch_pres.
    assert (Hother : forall q, q <> D ++ p ->
              lookup ((D ++ p, FFile c (Some (t * ns))) :: (D ++ p, FFile c None) :: m1) q = lookup m1 q).
    { intros q Hq. rewrite !lookup_cons. now rewrite (path_eqb_neq _ _ (not_eq_sym Hq)). }
    constructor; cbn [u_fs u_list u_dirs u_count u_total fst snd].
    + rewrite (i_list _ _ _ I). now rewrite map_app.
    + intros p' c' t' Hin. apply in_app_or in Hin as [Hin|[Heq|[]]].
      * rewrite Hother. { eapply kp_file; [exact KP|]. now apply (i_file _ _ _ I). }
        intros Heq. apply app_inv_head in Heq. subst p'. apply Hnew. eapply in_fst; eauto.
      * inversion Heq; subst. now rewrite lookup_cons, path_eqb_refl.
    + intros p' t' Hin. apply in_app_or in Hin as [Hin|[Heq|[]]]; [|discriminate Heq].
      destruct (i_dir _ _ _ I _ _ Hin) as [Hd Hi]. split; [|exact Hi].
      unfold isdirP. rewrite Hother. { eapply kp_dir; eauto. }
      intros Heq. apply app_inv_head in Heq. subst p'. apply Hnew. eapply in_fst; eauto.
    + intros k0 Hk0. unfold isdirP. rewrite Hother by (now apply firstn_neq_app). eapply kp_dir; [exact KP|]. now apply (i_D _ _ _ I).
    + intros q Hq Hnin. rewrite map_app in Hnin. rewrite Hother.
      * eapply kp_none; [exact KP|]. apply (i_none _ _ _ I); [assumption|]. intros Hin. apply Hnin. apply in_or_app. now left.
      * intros Heq. apply app_inv_head in Heq. subst q. apply Hnin. apply in_or_app. right. now left.
    + intros q t' Hin. destruct (i_dirs _ _ _ I _ _ Hin) as (p' & -> & Hp'). exists p'. split; [reflexivity|]. apply in_or_app. now left.
    + rewrite map_app. simpl. apply nodup_snoc; [apply (i_nodup _ _ _ I)|assumption].
  - (* directory *)
    unfold unzip_entry, entry_of. simpl fst; simpl snd. simpl e_name.
    rewrite sanitise_walker_dir by assumption. simpl depth_exceeded. change (rec_applies None) with false. cbn [andb].
    unfold e_isdir. simpl e_name. rewrite ends_with_slash_dir.
    simpl u_fs. unfold mkdir_all, fexists. rewrite HDp, <- HDp, Hnone.
    assert (Hsplit : D ++ p = (D ++ removelast p) ++ [last p []]).
    { rewrite <- app_assoc. f_equal. now apply app_removelast_last. }
    pose proof (mkdirs_chain (u_fs s) (D ++ removelast p) [] (last p [])) as Hmk. simpl app in Hmk.
    rewrite <- Hsplit in Hmk. rewrite Hmk; [|eapply ancestors_dirs; eauto|exact Hnone].
    eexists. split; [reflexivity|].
    set (m1 := touch (u_fs s) (D ++ removelast p)).
    assert (KP : kind_pres (u_fs s) m1) by apply touch_pres.
    assert (Hother : forall q, q <> D ++ p -> lookup ((D ++ p, FDir None) :: m1) q = lookup m1 q).
    { intros q Hq. rewrite lookup_cons. now rewrite (path_eqb_neq _ _ (not_eq_sym Hq)). }
    constructor; cbn [u_fs u_list u_dirs u_count u_total fst snd].
    + rewrite (i_list _ _ _ I). now rewrite map_app.
    + intros p' c' t' Hin. apply in_app_or in Hin as [Hin|[Heq|[]]]; [|discriminate Heq].
      rewrite Hother. { eapply kp_file; [exact KP|]. now apply (i_file _ _ _ I). }
      intros Heq. apply app_inv_head in Heq. subst p'. apply Hnew. eapply in_fst; eauto.
    + intros p' t' Hin. apply in_app_or in Hin as [Hin|[Heq|[]]].
      * destruct (i_dir _ _ _ I _ _ Hin) as [Hd Hi].
        assert (Hneq : D ++ p' <> D ++ p).
        { intros Heq. apply app_inv_head in Heq. subst p'. apply Hnew. eapply in_fst; eauto. }
        split.
        -- unfold isdirP. rewrite Hother by exact Hneq. eapply kp_dir; eauto.
        -- unfold set_dir. right. apply filter_In. split; [exact Hi|]. simpl. now rewrite path_eqb_neq.
      * inversion Heq; subst. split; [exists None; now rewrite lookup_cons, path_eqb_refl|]. unfold set_dir. now left.
    + intros k0 Hk0. unfold isdirP. rewrite Hother by (now apply firstn_neq_app). eapply kp_dir; [exact KP|]. now apply (i_D _ _ _ I).
    + intros q Hq Hnin. rewrite map_app in Hnin. rewrite Hother.
      * eapply kp_none; [exact KP|]. apply (i_none _ _ _ I); [assumption|]. intros Hin. apply Hnin. apply in_or_app. now left.
      * intros Heq. apply app_inv_head in Heq. subst q. apply Hnin. apply in_or_app. right. now left.
    + intros q t' Hin. unfold set_dir in Hin. destruct Hin as [Heq|Hin].
      * inversion Heq; subst. exists p. split; [reflexivity|]. apply in_or_app. right. now left.
      * apply filter_In in Hin as [Hin _]. destruct (i_dirs _ _ _ I _ _ Hin) as (p' & -> & Hp'). exists p'. split; [reflexivity|]. apply in_or_app. now left.
    + rewrite map_app. simpl. apply nodup_snoc; [apply (i_nodup _ _ _ I)|assumption].
Qed.

Lemma loop_ok D : Forall legal D -> D <> [] -> forall its done s, inv D done s -> wf_seq done its ->
  exists s', unzip_loop None D s (map entry_of its) = (s', UOk) /\ inv D (done ++ its) s'.
Proof.
  intros HD HDne. induction its as [|it r IH]; intros done s I W.
  - exists s. rewrite app_nil_r. split; [reflexivity|exact I].
  - destruct W as [W1 W2]. destruct (step_ok D done s it HD HDne I W1) as (s1 & E1 & I1).
    destruct (IH _ _ I1 W2) as (s2 & E2 & I2). exists s2. split.
    + simpl. rewrite E1. exact E2.
    + now rewrite <- app_assoc in I2.
Qed.

(* the final pass over directoryInfo *)
Lemma restore_spec : forall ds m,
  (forall q t, In (q, t) ds -> isdirP m q) ->
  (forall q t t', In (q, t) ds -> In (q, t') ds -> t = t') ->
  exists m', restore_dirs m ds = Some m' /\
    (forall q t, In (q, t) ds -> lookup m' q = Some (FDir (Some (t * ns)))) /\
    (forall q, ~ In q (map fst ds) -> lookup m' q = lookup m q).
Proof.
  induction ds as [|[q0 t0] ds IH]; intros m Hd Hf.
  - exists m. split; [reflexivity|]. split; [intros ? ? []|reflexivity].
  - simpl. destruct (Hd q0 t0 (or_introl eq_refl)) as [mt E]. unfold chtimes. rewrite E.
    set (m1 := (q0, FDir (Some (t0 * ns))) :: m).
    destruct (IH m1) as (m' & Em & H1 & H2).
    + intros q t Hin. unfold isdirP, m1. rewrite lookup_cons. destruct (path_eqb q0 q); [eauto|]. apply (Hd q t). now right.
    + intros q t t' Ha Hb. apply (Hf q); now right.
    + exists m'. split; [exact Em|]. split.
      * intros q t [Heq|Hin].
        -- inversion Heq; subst q t.
           destruct (in_dec (list_eq_dec (list_eq_dec Z.eq_dec)) q0 (map fst ds)) as [Hi|Hn].
           ++ apply in_map_iff in Hi as ([q1 t1] & Hq1 & Hi). simpl in Hq1; subst q1.
              rewrite (H1 _ _ Hi). f_equal. f_equal. f_equal. f_equal. symmetry. apply (Hf q0); [now left|now right].
           ++ rewrite (H2 _ Hn). unfold m1. now rewrite lookup_cons, path_eqb_refl.
        -- now apply H1.
      * intros q Hn. simpl in Hn. rewrite H2 by (intros Hi; apply Hn; now right). unfold m1.
        rewrite lookup_cons, path_eqb_neq; [reflexivity|]. intros ->. apply Hn. now left.
Qed.

(* a destination that exists (with its ancestors) and is empty *)
Definition dest_ready (m0 : fsmap) (D : path) : Prop :=
  (forall k, (0 < k <= length D)%nat -> isdirP m0 (firstn k D)) /\ (forall q, q <> [] -> lookup m0 (D ++ q) = None).

Theorem unzip_items_faithful D m0 its : Forall legal D -> D <> [] -> dest_ready m0 D -> wf_seq [] its ->
  exists s, unzip None D m0 (map entry_of its) = (s, UOk) /\
    u_list s = map (fun it => D ++ fst it) its /\
    (forall p c t, In (p, KFile c t) its -> lookup (u_fs s) (D ++ p) = Some (FFile c (Some (t * ns)))) /\
    (forall p t, In (p, KDir t) its -> lookup (u_fs s) (D ++ p) = Some (FDir (Some (t * ns)))) /\
    (forall q, q <> [] -> ~ In q (map fst its) -> lookup (u_fs s) (D ++ q) = None).
Proof.
  intros HD HDne [R1 R2] W.
  assert (I0 : inv D [] (mkU m0 [] [] 0 0)).
  { constructor; simpl; try (intros; contradiction); auto. constructor. }
  destruct (loop_ok D HD HDne its [] _ I0 W) as (s1 & E1 & I1). simpl in I1.
  assert (Hex : mkdir_all m0 D = Some m0).
  { unfold mkdir_all, fexists. destruct D as [|d D']; [contradiction|].
    destruct (R1 (length (d :: D'))) as [mt E]; [simpl; lia|]. rewrite firstn_all in E. now rewrite E. }
  destruct (restore_spec (u_dirs s1) (u_fs s1)) as (m' & Em & H1 & H2).
  - intros q t Hin. destruct (i_dirs _ _ _ I1 _ _ Hin) as (p & -> & Hp). now apply (i_dir _ _ _ I1) in Hp.
  - intros q t t' Ha Hb. destruct (i_dirs _ _ _ I1 _ _ Ha) as (p & -> & Hp). destruct (i_dirs _ _ _ I1 _ _ Hb) as (p' & Heq & Hp').
    apply app_inv_head in Heq. subst p'.
    pose proof (i_nodup _ _ _ I1) as Hnd. clear - Hp Hp' Hnd.
    induction its as [|[a b] l IH]; [destruct Hp|]. simpl in Hnd. inversion Hnd; subst.
    destruct Hp as [Hp|Hp], Hp' as [Hp'|Hp'].
    + congruence.
    + inversion Hp; subst. exfalso. apply H1. eapply in_fst; eauto.
    + inversion Hp'; subst. exfalso. apply H1. eapply in_fst; eauto.
    + now apply IH.
  - exists (with_fs s1 m'). split; [|split; [|split; [|split]]].
    + unfold unzip. rewrite Hex, E1, Em. reflexivity.
    + simpl. apply (i_list _ _ _ I1).
    + intros p c t Hin. simpl. rewrite H2. { now apply (i_file _ _ _ I1). }
      intros Hi. apply in_map_iff in Hi as ([q t'] & Hq & Hi). simpl in Hq. subst q.
      destruct (i_dirs _ _ _ I1 _ _ Hi) as (p' & Heq & Hp'). apply app_inv_head in Heq. subst p'.
      pose proof (i_nodup _ _ _ I1) as Hnd. clear - Hin Hp' Hnd.
      induction its as [|[a b] l IH]; [destruct Hin|]. simpl in Hnd. inversion Hnd; subst.
      destruct Hin as [Hin|Hin], Hp' as [Hp'|Hp'].
      * congruence.
      * inversion Hin; subst. apply H1. eapply in_fst; eauto.
      * inversion Hp'; subst. apply H1. eapply in_fst; eauto.
      * now apply IH.
    + intros p t Hin. simpl. apply H1. now apply (i_dir _ _ _ I1) in Hin.
    + intros q Hq Hn. simpl. rewrite H2. { now apply (i_none _ _ _ I1). }
      intros Hi. apply in_map_iff in Hi as ([q' t'] & Hq' & Hi). simpl in Hq'. subst q'.
      destruct (i_dirs _ _ _ I1 _ _ Hi) as (p' & Heq & Hp'). apply app_inv_head in Heq. subst p'.
      apply Hn. eapply in_fst; eauto.
Qed.
