(* C07 — lemmas, part 5: the abstract closed-resource run is sound w.r.t. a non-deterministic execution semantics of
   the abstract statement lists, for EVERY table and every resolution of the non-determinism.
   Semantics on a CLOSED file system ([exec] returns (reached a backend mention, returned an error)):
     AGuard            the guard fires: the method returns an error, nothing else happens;
     ACallProp n       the callee runs; a backend hit or an error of the callee ends the caller (error propagated);
     ARetCall n        the callee's outcome is the caller's;
     ACall n           inert callee: the statement behaves as on an open file system and is skipped (the abstraction the
                       translator already applies to statements without receiver mention); otherwise the callee runs and
                       the caller MAY return early, with or without an error (oracle), or go on;
     AEscape           the receiver is handed to other code: the caller MAY return early (oracle) or go on;
                       ASSUMED: that code reaches the archive only through exported methods, which are covered themselves;
     ABackend          the backend is reached;
     ARet / end        the method returns; whether with an error is not known (oracle). *)
From Coq Require Import List ZArith Bool String Lia.
Import ListNotations.
From GU Require Import C07.GuardTypes C07.Gen C07.Model.

Section Sound.
  Variable tbl : list meth.
  Variable oracle : nat -> bool.

  Fixpoint exec (fuel : nat) (st : nat) (body : list astmt) {struct fuel} : bool * bool :=
    match fuel with
    | O => (false, true)
    | S f =>
      let call n s := match find_meth tbl n with Some m => exec f s (m_body m) | None => (false, oracle s) end in
      (fix go (b : list astmt) (s : nat) : bool * bool :=
         match b with
         | [] => (false, oracle s)
         | AGuard _ :: _ => (false, true)
         | ACallProp n :: r => let '(bk, fl) := call n (S s) in
                               if bk then (true, fl) else if fl then (false, true) else go r (S s)
         | ARetCall n :: _ => call n (S s)
         | ACall n :: r => if inert tbl f n then go r (S s)
                           else let '(bk, fl) := call n (S s) in
                                if bk then (true, fl) else if oracle s then (false, oracle (S s)) else go r (S s)
         | ABackend :: _ => (true, false)
         | AEscape :: r => if oracle s then (false, oracle (S s)) else go r (S s)
         | ARet :: _ => (false, oracle s)
         end) body st
    end.

  Lemma demote_not_backend o : demote o <> OBackend -> o <> OBackend.
  Proof. destruct o; simpl; congruence. Qed.
  Lemma demote_never_fails o : fails (demote o) = false.
  Proof. destruct o; reflexivity. Qed.

  Lemma run_closed_sound_l : forall fuel body st,
    (run_closed tbl fuel body <> OBackend -> fst (exec fuel st body) = false) /\
    (fails (run_closed tbl fuel body) = true -> exec fuel st body = (false, true)).
  Proof.
    induction fuel as [|f IH]; intros body st; [split; [reflexivity|discriminate]|].
    simpl. revert st. induction body as [|a r IHb]; intros st; [split; [reflexivity|discriminate]|].
    destruct a as [k|n|n|n| | |].
    - split; [reflexivity|reflexivity].
    - (* ACallProp *)
      destruct (find_meth tbl n) as [m|] eqn:E.
      + destruct (IH (m_body m) (S st)) as [I1 I2].
        destruct (run_closed tbl f (m_body m)) eqn:Er.
        * rewrite I2 by reflexivity. split; reflexivity.
        * rewrite I2 by reflexivity. split; reflexivity.
        * split; [congruence|discriminate].
        * destruct (exec f (S st) (m_body m)) as [bk fl]. simpl in I1. rewrite (I1 ltac:(discriminate)).
          destruct fl; [split; reflexivity|]. apply IHb.
      + destruct (oracle (S st)); [split; reflexivity|]. apply IHb.
    - (* ARetCall *)
      destruct (find_meth tbl n) as [m|] eqn:E; [apply IH|]. split; [reflexivity|discriminate].
    - (* ACall *)
      destruct (inert tbl f n); [apply IHb|].
      destruct (find_meth tbl n) as [m|] eqn:E.
      + destruct (IH (m_body m) (S st)) as [I1 _].
        destruct (run_closed tbl f (m_body m)) eqn:Er;
          try (destruct (exec f (S st) (m_body m)) as [bk fl]; simpl in I1; rewrite (I1 ltac:(discriminate));
               split; [intros Hd; apply demote_not_backend in Hd; destruct (oracle st); [reflexivity|now apply IHb]
                      |rewrite demote_never_fails; discriminate]).
        split; [congruence|discriminate].
      + split; [intros Hd; apply demote_not_backend in Hd; destruct (oracle st); [reflexivity|now apply IHb]
               |rewrite demote_never_fails; discriminate].
    - split; [congruence|discriminate].
    - (* AEscape *)
      split; [intros Hd; apply demote_not_backend in Hd; destruct (oracle st); [reflexivity|now apply IHb]
             |rewrite demote_never_fails; discriminate].
    - split; [reflexivity|discriminate].
  Qed.
End Sound.
