(* C07 — executable model of the archive code of utils/filesystem.
   Definitions only (proofs are in Proofs*.v).  Mirrors, AFTER the C07 repair of sanitiseZipExtractPath:
     zip.go   :72-166  ZipWithContextAndLimitsAndExclusionPatterns (the walker, no exclusion patterns)
     zip.go   :169-197 sanitiseZipExtractPath + hasParentDirectoryElement
     zip.go   :264-393 unzip (non-recursive limits), :409-422 preserveDirectoriesTimestamps, :425-479 unzipZippedFile
     files.go :897-914 MkDirAll, :1019-1026 Chtimes
     afero zipfs/fs.go + zipfs/file.go, afero tarfs/fs.go + tarfs/file.go (third party: MODELLED, validated by the runs)
     files.go :637-670 Exists/checkDirExists, :808-823 IsDir, :1245-1262 LsWithExclusionPatterns, :335-401 read
     files.go :122-127 the closed-resource guard, through the GENERATED table Gen.v (translator-c07)
   Paths are lists of components; a component (name) is a list of bytes (Z).  Destinations are absolute, cleaned. *)
From Coq Require Import List ZArith Bool String.
Import ListNotations.
From GU Require Import C07.GuardTypes C07.Gen.
Local Open Scope Z_scope.

Definition name := list Z.
Definition path := list name.
Definition slash : Z := 47.
Definition dot : Z := 46.

Fixpoint bytes_eqb (a b : list Z) : bool :=
  match a, b with
  | [], [] => true
  | x :: xs, y :: ys => (x =? y) && bytes_eqb xs ys
  | _, _ => false
  end.
Fixpoint path_eqb (a b : path) : bool :=
  match a, b with
  | [], [] => true
  | x :: xs, y :: ys => bytes_eqb x y && path_eqb xs ys
  | _, _ => false
  end.

(* ------------------------------------------------------------------ source trees *)
(* mtimes of the source tree are in nanoseconds; the archive keeps whole seconds (extended timestamp field). *)
Inductive node := File (content : list Z) (mtime : Z) | Dir (mtime : Z) (kids : list (name * node)).
Definition tree := list (name * node).           (* the children of the zipped root directory, in listing order *)

Definition ns : Z := 1000000000.
Definition sec (t : Z) : Z := t / ns.

(* filepath.Rel(source, path) for a descendant: the components joined by '/' *)
Fixpoint join_slash (p : path) : list Z :=
  match p with
  | [] => []
  | c :: cs => match cs with [] => c | _ => c ++ slash :: join_slash cs end
  end.

(* one file header of the archive: name, uncompressed data, Modified (seconds).
   archive/zip derives "is a directory" from the trailing '/' of the name (FileHeader.Mode). *)
Record entry := mkE { e_name : list Z; e_data : list Z; e_sec : Z }.

Definition ends_with_slash (s : list Z) : bool :=
  match rev s with c :: _ => c =? slash | [] => false end.
Definition e_isdir (e : entry) : bool := ends_with_slash (e_name e).

(* zip.go:93-152 the walker called by WalkWithContextAndExclusionPatterns (files.go:138-219): pre-order, a header
   [rel + "/"] for a directory (the root itself is skipped, :110), a header [rel] plus the content for a file. *)
Fixpoint walk (rel : path) (n : node) : list entry :=
  match n with
  | File c mt => [mkE (join_slash rel) c (sec mt)]
  | Dir mt kids => mkE (join_slash rel ++ [slash]) [] (sec mt)
                   :: flat_map (fun k => walk (rel ++ [fst k]) (snd k)) kids
  end.
Definition zip_entries (t : tree) : list entry := flat_map (fun k => walk [fst k] (snd k)) t.

(* ------------------------------------------------------------------ path cleaning, sanitiser *)
(* strings.Split(s, "/") *)
Fixpoint split_aux (s cur : list Z) : list (list Z) :=
  match s with
  | [] => [rev cur]
  | c :: r => if c =? slash then rev cur :: split_aux r [] else split_aux r (c :: cur)
  end.
Definition split_slash (s : list Z) : list (list Z) := split_aux s [].

Definition is_dot (c : name) : bool := bytes_eqb c [dot].
Definition is_dotdot (c : name) : bool := bytes_eqb c [dot; dot].
Definition is_empty (c : name) : bool := match c with [] => true | _ => false end.

(* filepath.Clean of a ROOTED path, on components; the stack is kept reversed.  "/.." = "/" *)
Definition clean_step (st : list name) (c : name) : list name :=
  if is_empty c || is_dot c then st
  else if is_dotdot c then tl st
  else c :: st.
Definition clean_abs (cs : list name) : path := rev (fold_left clean_step cs []).

Fixpoint is_prefix (a b : path) : bool :=
  match a, b with
  | [], _ => true
  | x :: xs, y :: ys => bytes_eqb x y && is_prefix xs ys
  | _, [] => false
  end.

(* zip.go hasParentDirectoryElement (the repaired test: a ".." ELEMENT, not the substring "..") *)
Definition has_dotdot (p : path) : bool := existsb is_dotdot p.
Definition is_root (D : path) : bool := match D with [] => true | _ => false end.

(* zip.go:169-185 sanitiseZipExtractPath(fs, filePath, destination) for an absolute cleaned destination [D]:
   destPath = filepath.Join(D, filePath) = Clean(D + "/" + filePath);
   accepted iff destPath == D, or: no ".." element and D + "/" is a string prefix (for D = "/" that prefix is "//",
   which no cleaned path has). *)
Definition sanitise (D : path) (nm : list Z) : option path :=
  let p := clean_abs (D ++ split_slash nm) in
  if path_eqb p D then Some p
  else if negb (has_dotdot p) && is_prefix D p && negb (is_root D) then Some p
  else None.

(* ------------------------------------------------------------------ destination file system *)
(* mtime None = "set by the clock at extraction time" (not determined by the archive) *)
Inductive fnode := FFile (c : list Z) (mt : option Z) | FDir (mt : option Z).
Definition fsmap := list (path * fnode).          (* latest binding first; the root [] is always a directory *)

Fixpoint lookup (m : fsmap) (p : path) : option fnode :=
  match m with
  | [] => None
  | (q, n) :: r => if path_eqb q p then Some n else lookup r p
  end.
Definition fexists (m : fsmap) (p : path) : bool :=
  match p with [] => true | _ => match lookup m p with Some _ => true | None => false end end.
Definition fis_dir (m : fsmap) (p : path) : bool :=
  match p with [] => true | _ => match lookup m p with Some (FDir _) => true | _ => false end end.
Definition parent (p : path) : path := removelast p.
(* creating an entry inside a directory sets that directory's mtime to the clock *)
Definition touch (m : fsmap) (p : path) : fsmap :=
  match p with [] => m | _ => match lookup m p with Some (FDir _) => (p, FDir None) :: m | _ => m end end.

(* afero MkdirAll: every missing prefix is created *)
Fixpoint mkdirs (m : fsmap) (pre rest : path) : option fsmap :=
  match rest with
  | [] => Some m
  | c :: r => let q := pre ++ [c] in
              match lookup m q with
              | Some (FDir _) => mkdirs m q r
              | Some (FFile _ _) => None
              | None => mkdirs ((q, FDir None) :: touch m pre) q r
              end
  end.
(* files.go:897-914 MkDirAll: nothing to do when the path exists (whatever it is) *)
Definition mkdir_all (m : fsmap) (p : path) : option fsmap :=
  if fexists m p then Some m else mkdirs m [] p.

(* OpenFile(O_WRONLY|O_CREATE|O_TRUNC) + copy + Close *)
Definition write_file (m : fsmap) (p : path) (c : list Z) : option fsmap :=
  match p with
  | [] => None
  | _ => if fis_dir m (parent p) then
           match lookup m p with
           | Some (FDir _) => None
           | Some (FFile _ _) => Some ((p, FFile c None) :: m)
           | None => Some ((p, FFile c None) :: touch m (parent p))
           end
         else None
  end.
Definition chtimes (m : fsmap) (p : path) (t : Z) : option fsmap :=
  match lookup m p with
  | Some (FFile c _) => Some ((p, FFile c (Some t)) :: m)
  | Some (FDir _) => Some ((p, FDir (Some t)) :: m)
  | None => None
  end.

(* ------------------------------------------------------------------ unzip *)
Record limits := mkLim { l_maxfile : Z; l_maxtotal : Z; l_maxcount : Z; l_maxdepth : Z; l_rec : bool }.

Record ustate := mkU {
  u_fs : fsmap;
  u_list : list path;            (* fileList *)
  u_dirs : list (path * Z);      (* directoryInfo: path -> archived seconds *)
  u_count : Z;                   (* fileCounter *)
  u_total : Z                    (* totalSizeOnDisk *)
}.
Inductive ures := UOk | UMalicious | UTooLarge | UErr.

(* filepath.go:101-116 FileTreeDepth(fs, destination, filePath) *)
Definition depth_of (D p : path) : Z :=
  let r := Z.of_nat (List.length p) - Z.of_nat (List.length D) in if r <=? 0 then 0 else r - 1.
Definition depth_exceeded (lim : option limits) (D p : path) : bool :=
  match lim with
  | Some l => (0 <=? l_maxdepth l) && (l_maxdepth l <? depth_of D p)
  | None => false
  end.
Definition file_too_large (lim : option limits) (size : Z) : bool :=
  match lim with Some l => l_maxfile l <? size | None => false end.
Definition totals_exceeded (lim : option limits) (total count : Z) : bool :=
  match lim with Some l => (l_maxtotal l <? total) || (l_maxcount l <? count) | None => false end.

(* zip.go:25-53 ZipFileExtensions and the name test of IsZipWithContext (:575-591) on an entry name that does not exist on
   the file system the archive is read from: strings.ToLower(filepath.Ext(name)) is one of the known extensions.
   filepath.Ext: the suffix starting at the last '.' of the LAST path element ("" when the name ends with '/'). *)
Definition lower (b : Z) : Z := if (65 <=? b) && (b <=? 90) then b + 32 else b.
Fixpoint ext_aux (s : list Z) (cur : option (list Z)) : list Z :=      (* cur: the suffix since the last '.' (reversed) *)
  match s with
  | [] => match cur with Some r => rev r | None => [] end
  | c :: r => if c =? slash then ext_aux r None
              else if c =? dot then ext_aux r (Some [c])
              else ext_aux r (match cur with Some x => Some (c :: x) | None => None end)
  end.
Definition ext_of (nm : list Z) : list Z := map lower (ext_aux nm None).
(* the extension list is GENERATED from zip.go (Gen.v, zip_extensions_gen) on every run *)
Definition zip_extensions : list (list Z) := zip_extensions_gen.
Definition zipext (nm : list Z) : bool := existsb (bytes_eqb (ext_of nm)) zip_extensions.
Definition rec_applies (lim : option limits) : bool := match lim with Some l => l_rec l | None => false end.

Definition set_dir (ds : list (path * Z)) (p : path) (t : Z) : list (path * Z) :=
  (p, t) :: filter (fun x => negb (path_eqb (fst x) p)) ds.

Definition with_fs (s : ustate) (m : fsmap) : ustate := mkU m (u_list s) (u_dirs s) (u_count s) (u_total s).

(* zip.go:295-384 one iteration of the loop over zipReader.File *)
Definition unzip_entry (lim : option limits) (D : path) (s : ustate) (e : entry) : ustate * ures :=
  match sanitise D (e_name e) with                        (* :302-312 (the CodeQL pre-check calls the same function) *)
  | None => (s, UMalicious)
  | Some p =>
    if depth_exceeded lim D p then (s, UTooLarge) else    (* :314-325 *)
    (* :343-347 "record unzipped files (except zip files if they get unzipped later)": the test is on the ENTRY NAME, so a
       directory entry "x.gz/" (extension "") is recorded at once; a FILE with an archive extension is recorded after its
       extraction when it turns out not to be an archive (:386-389).  Entries that ARE archives are not modelled. *)
    let deferred := rec_applies lim && zipext (e_name e) in
    let s1 := if deferred then s
              else mkU (u_fs s) (u_list s ++ [p]) (u_dirs s) (u_count s + 1) (u_total s) in
    if e_isdir e then                                     (* :333-343 *)
      match mkdir_all (u_fs s1) p with
      | None => (s1, UErr)
      | Some m => (mkU m (u_list s1) (set_dir (u_dirs s1) p (e_sec e)) (u_count s1) (u_total s1), UOk)
      end
    else
      match mkdir_all (u_fs s1) (parent p) with           (* :346-350 *)
      | None => (s1, UErr)
      | Some m =>
        let size := Z.of_nat (List.length (e_data e)) in
        if file_too_large lim size then                   (* unzipZippedFile: the file is created, then refused *)
          match write_file m p [] with
          | None => (with_fs s1 m, UErr)
          | Some m1 => (with_fs s1 m1, UTooLarge)
          end
        else
          match write_file m p (e_data e) with
          | None => (with_fs s1 m, UErr)
          | Some m1 =>
            match chtimes m1 p (e_sec e * ns) with         (* :476-478 *)
            | None => (with_fs s1 m1, UErr)
            | Some m2 =>
              let s2 := if deferred
                        then mkU m2 (u_list s1 ++ [p]) (u_dirs s1) (u_count s1 + 1) (u_total s1 + size)
                        else mkU m2 (u_list s1) (u_dirs s1) (u_count s1) (u_total s1 + size) in
              if totals_exceeded lim (u_total s2) (u_count s2) then (s2, UTooLarge) else (s2, UOk)   (* :378-383 *)
            end
          end
      end
  end.

Fixpoint unzip_loop (lim : option limits) (D : path) (s : ustate) (es : list entry) : ustate * ures :=
  match es with
  | [] => (s, UOk)
  | e :: r => let '(s', res) := unzip_entry lim D s e in
              match res with UOk => unzip_loop lim D s' r | _ => (s', res) end
  end.

(* zip.go:409-422 preserveDirectoriesTimestamps (map iteration: the keys are distinct, the order is immaterial) *)
Fixpoint restore_dirs (m : fsmap) (ds : list (path * Z)) : option fsmap :=
  match ds with
  | [] => Some m
  | (p, t) :: r => match chtimes m p (t * ns) with Some m' => restore_dirs m' r | None => None end
  end.

Definition unzip (lim : option limits) (D : path) (m0 : fsmap) (es : list entry) : ustate * ures :=
  match mkdir_all m0 D with                                 (* :287-291 *)
  | None => (mkU m0 [] [] 0 0, UErr)
  | Some m =>
    let '(s, res) := unzip_loop lim D (mkU m [] [] 0 0) es in
    match res with
    | UOk => match restore_dirs (u_fs s) (u_dirs s) with
             | Some m' => (with_fs s m', UOk)
             | None => (s, UErr)
             end
    | _ => (s, res)
    end
  end.

(* ------------------------------------------------------------------ what a tree looks like at a path (the specification side) *)
Inductive info := IFile (c : list Z) (sec_ : Z) | IDir (sec_ : Z).

Fixpoint find_kid (kids : list (name * node)) (c : name) : option node :=
  match kids with
  | [] => None
  | (n, k) :: r => if bytes_eqb n c then Some k else find_kid r c
  end.
Fixpoint tree_at (kids : list (name * node)) (p : path) : option info :=
  match p with
  | [] => None
  | c :: r => match find_kid kids c with
              | None => None
              | Some (File ct mt) => match r with [] => Some (IFile ct (sec mt)) | _ => None end
              | Some (Dir mt ks) => match r with [] => Some (IDir (sec mt)) | _ => tree_at ks r end
              end
  end.
Definition info_of_fnode (n : option fnode) : option info :=
  match n with
  | Some (FFile c (Some t)) => Some (IFile c (sec t))
  | Some (FDir (Some t)) => Some (IDir (sec t))
  | _ => None
  end.

(* ------------------------------------------------------------------ archive file-system views (afero zipfs / tarfs + VFS) *)
Inductive vkind := VZip | VTar.
Record vent := mkV { v_isdir : bool; v_data : list Z }.
Definition dirmap := list (name * vent).
Definition vindex := list (path * dirmap).     (* Fs.files : directory -> base name -> entry *)

(* zipfs/tarfs splitpath: "/"+name, Clean, Split *)
Definition splitpath (nm : list Z) : path * name :=
  let cs := clean_abs (split_slash nm) in (removelast cs, last cs []).

Fixpoint ifind {A} (idx : list (path * A)) (d : path) : option A :=
  match idx with [] => None | (q, x) :: r => if path_eqb q d then Some x else ifind r d end.
Fixpoint dfind (dm : dirmap) (f : name) : option vent :=
  match dm with [] => None | (n, v) :: r => if bytes_eqb n f then Some v else dfind r f end.
Definition ensure (idx : vindex) (d : path) : vindex :=
  match ifind idx d with Some _ => idx | None => idx ++ [(d, [])] end.
Fixpoint iupdate (idx : vindex) (d : path) (g : dirmap -> dirmap) : vindex :=
  match idx with
  | [] => []
  | (q, dm) :: r => if path_eqb q d then (q, g dm) :: r else (q, dm) :: iupdate r d g
  end.
Definition dm_add_first (f : name) (v : vent) (dm : dirmap) : dirmap :=
  match dfind dm f with Some _ => dm | None => dm ++ [(f, v)] end.
Definition dm_set (f : name) (v : vent) (dm : dirmap) : dirmap :=
  (f, v) :: filter (fun x => negb (bytes_eqb (fst x) f)) dm.

(* zipfs.New: first entry of a name wins; a directory entry also opens its own (possibly empty) listing *)
Definition zip_index (es : list entry) : vindex :=
  fold_left (fun idx e =>
    let '(d, f) := splitpath (e_name e) in
    let idx := iupdate (ensure idx d) d (dm_add_first f (mkV (e_isdir e) (e_data e))) in
    if e_isdir e then ensure idx (if is_empty f then d else d ++ [f]) else idx) es [].
(* tarfs.New: last entry of a name wins; ONLY parents of entries get a listing; pseudo-root "" in "/" *)
Definition tar_index (es : list entry) : vindex :=
  let idx := fold_left (fun idx e =>
    let '(d, f) := splitpath (e_name e) in
    iupdate (ensure idx d) d (dm_set f (mkV (e_isdir e) (e_data e)))) es [] in
  iupdate (ensure idx []) [] (dm_set [] (mkV true [])).

Definition view_index (k : vkind) (es : list entry) : vindex :=
  match k with VZip => zip_index es | VTar => tar_index es end.

(* Fs.Stat / Fs.Open on a cleaned absolute path *)
Definition b_stat (k : vkind) (idx : vindex) (p : path) : option vent :=
  match k, p with
  | VZip, [] => Some (mkV true [])                    (* zipfs pseudoRoot *)
  | _, _ => match ifind idx (removelast p) with
            | None => None
            | Some dm => dfind dm (last p [])
            end
  end.
(* File.Readdirnames: None = ENOENT ("no listing for that directory") *)
Definition b_readdir (k : vkind) (idx : vindex) (p : path) : option (list name) :=
  match ifind idx p with
  | None => None
  | Some dm => Some (filter (fun n => negb (is_empty n)) (map fst dm))
  end.

Inductive vop := OpStat | OpExists | OpIsDir | OpLs | OpRead.
Inductive vobs :=
| VNotFound | VInvalid | VEmptyErr | VOtherErr
| VBool (b : bool) | VStat (isdir : bool) (size : Z) | VNames (l : list name) | VData (d : list Z).

(* files.go:637-670 Exists + checkDirExists *)
Definition v_exists (k : vkind) (idx : vindex) (p : path) : bool :=
  match b_stat k idx p with
  | None => false
  | Some v => if v_isdir v then match b_readdir k idx p with None => false | Some _ => true end else true
  end.

(* view state: kept for the interface of view_step / view_run.  Since tarfs.go rewindingTarFs (Open / OpenFile hand out
   handles positioned at the start of the file) a read-to-the-end through a fresh handle no longer depends on earlier
   reads, on the tar view either: no accessor changes the state. *)
Definition vstate := list path.

Definition view_step (k : vkind) (idx : vindex) (st : vstate) (o : vop) (p : path) : vobs * vstate :=
  match o with
  | OpStat => (match b_stat k idx p with
               | None => VNotFound
               | Some v => VStat (v_isdir v) (if v_isdir v then 0 else Z.of_nat (List.length (v_data v)))
               end, st)
  | OpExists => (VBool (v_exists k idx p), st)
  | OpIsDir => (if v_exists k idx p
                then match b_stat k idx p with Some v => VBool (v_isdir v) | None => VNotFound end
                else VNotFound, st)                                         (* files.go:808-823 *)
  | OpLs => (if v_exists k idx p && match b_stat k idx p with Some v => v_isdir v | None => false end
             then match b_readdir k idx p with Some l => VNames l | None => VOtherErr end
             else VInvalid, st)                                             (* files.go:1245-1262 *)
  | OpRead => match b_stat k idx p with                                     (* files.go:335-401, safeio.ReadAtMost *)
              | None => (VNotFound, st)
              | Some v => if v_isdir v then (VOtherErr, st)
                          else (match v_data v with [] => VEmptyErr | d => VData d end, st)   (* zip and tar alike *)
              end
  end.

(* files.go:836-887 IsEmpty / isFileEmpty / isDirEmpty on a view: Readdirnames(1) of zipfs and tarfs never answers io.EOF,
   so a directory that has a listing is never reported empty *)
Definition v_is_empty (k : vkind) (idx : vindex) (p : path) : bool :=
  if negb (v_exists k idx p) then true
  else match b_stat k idx p with
       | Some v => if v_isdir v then match b_readdir k idx p with None => true | Some _ => false end
                   else match v_data v with [] => true | _ => false end
       | None => true
       end.

(* files.go:711-752 RemoveWithContextAndExclusionPatterns (no patterns) on the read-only view.
   true = an error comes back (the back end's EPERM); false = nil is returned *)
Fixpoint rm_refused (fuel : nat) (k : vkind) (idx : vindex) (p : path) : bool :=
  match fuel with
  | O => true
  | S f =>
    if negb (v_exists k idx p) then false                                   (* :719-721 *)
    else match b_stat k idx p with
         | None => false
         | Some v =>
           if v_isdir v && negb (v_is_empty k idx p) then                   (* :730-732 CleanDir... *)
             match b_readdir k idx p with
             | None => true
             | Some names => existsb (fun n => rm_refused f k idx (p ++ [n])) names
                             (* no child refused: the directory is "still not empty", :740-742 returns nil *)
             end
           else true                                                        (* :750 fs.vfs.Remove -> EPERM *)
         end
  end.

Fixpoint view_run (k : vkind) (idx : vindex) (st : vstate) (ops : list (vop * path)) : list vobs :=
  match ops with
  | [] => []
  | (o, p) :: r => let '(x, st') := view_step k idx st o p in x :: view_run k idx st' r
  end.

(* ------------------------------------------------------------------ read-only wrapper (afero.ReadOnlyFs over zipfs/tarfs) *)
Inductive bop :=                                   (* the backend calls a VFS method can make *)
| BStat | BOpen | BReaddir
| BCreate | BMkdir | BMkdirAll | BOpenFileWrite | BRemove | BRemoveAll | BRename | BChmod | BChown | BChtimes.
Definition bop_mutating (b : bop) : bool :=
  match b with BStat | BOpen | BReaddir => false | _ => true end.
(* afero/readonlyfs.go: every mutating call answers EPERM without calling the wrapped file system *)
Definition ro_forwarded (b : bop) : bool := negb (bop_mutating b).
Definition ro_answer_is_error (b : bop) : bool := bop_mutating b.

(* ------------------------------------------------------------------ closed resource: abstract run over the generated table *)
Inductive outcome := OFailCond | OFailOther | OBackend | OUnknown.

Fixpoint find_meth (tbl : list meth) (n : string) : option meth :=
  match tbl with
  | [] => None
  | m :: r => if String.eqb (m_name m) n then Some m else find_meth r n
  end.

(* after a statement whose effect on the control flow is not analysed (the caller may return early, with or without
   an error) a later guard no longer proves that the call fails; a later backend mention stays reachable *)
Definition demote (o : outcome) : outcome := match o with OBackend => OBackend | _ => OUnknown end.

(* A method is INERT when nothing in it depends on the closed flag or on the archive: no guard, no backend mention, no
   escape of the receiver, and only calls of inert methods (PathSeparator, GetType, ConvertFilePath, ...; a name that is
   not a method of the table is a function-valued field such as pathConverter).  A statement whose only receiver calls
   are inert behaves identically on an open and on a closed file system, exactly like the statements without any
   receiver mention, which the translator drops. *)
Fixpoint inert (tbl : list meth) (fuel : nat) (n : string) {struct fuel} : bool :=
  match fuel with
  | O => false
  | S f => match find_meth tbl n with
           | None => true
           | Some m => forallb (fun a => match a with
                                         | ARet => true
                                         | ACall k | ACallProp k | ARetCall k => inert tbl f k
                                         | _ => false
                                         end) (m_body m)
           end
  end.

(* what a call does once Close() has set the flag (resource.go:23-34): the guard (files.go:122-127) fires.
   OBackend = a statement mentioning fs.vfs is reached; OUnknown = the table cannot tell whether the call fails. *)
Fixpoint run_closed (tbl : list meth) (fuel : nat) (body : list astmt) {struct fuel} : outcome :=
  match fuel with
  | O => OUnknown
  | S f =>
    let call n := match find_meth tbl n with Some m => run_closed tbl f (m_body m) | None => OUnknown end in
    (fix go (b : list astmt) : outcome :=
       match b with
       | [] => OUnknown
       | AGuard GCond :: _ => OFailCond
       | AGuard GOther :: _ => OFailOther
       | ACallProp n :: r => match call n with OUnknown => go r | o => o end
       | ARetCall n :: _ => call n
       | ACall n :: r => if inert tbl f n then go r
                         else match call n with OBackend => OBackend | _ => demote (go r) end
       | ABackend :: _ => OBackend
       | AEscape :: r => demote (go r)
       | ARet :: _ => OUnknown
       end) body
  end.

(* may the method reach the backend at all (guards ignored)?  = "needs the archive" *)
Fixpoint touches (tbl : list meth) (fuel : nat) (body : list astmt) {struct fuel} : bool :=
  match fuel with
  | O => true
  | S f =>
    let call n := match find_meth tbl n with Some m => touches tbl f (m_body m) | None => false end in
    existsb (fun a => match a with
                      | ABackend | AEscape => true
                      | ACallProp n | ARetCall n | ACall n => call n
                      | _ => false
                      end) body
  end.

(* call-chain depth explored; the longest chain in the package is below 12 (exhaustion is conservative: OUnknown / "touches") *)
Definition fuel0 : nat := 24.
Definition closed_outcome (n : string) : outcome :=
  match find_meth methods n with Some m => run_closed methods fuel0 (m_body m) | None => OUnknown end.
Definition needs_archive (n : string) : bool :=
  match find_meth methods n with Some m => touches methods fuel0 (m_body m) | None => false end.
Definition fails (o : outcome) : bool := match o with OFailCond | OFailOther => true | _ => false end.

Local Open Scope string_scope.
(* Methods for which the table alone does not show a failing answer on a closed file system.  Each is exercised on
   closed zip and tar file systems by the harness on every run (class "err" / "false" / "free" of its method table):
   - bool answers (no error value to return): must answer false;
   - error replaced / first call's error inspected instead of propagated: must still fail;
   - methods that do not read the archive at all. *)
Definition indirect_methods : list string :=
  [ "Exists"; "IsZip"; "IsZipWithContext";                                   (* bool / name-based answers *)
    "StatTimes"; "TouchTempFile"; "TouchTempFileInTempDir"; "FetchFileOwner";
    "ChangeOwnershipRecursively"; "ChmodRecursively"; "ChownRecursively";    (* IsFile's error dropped, then Walk *)
    "RemoveWithPrivileges";                                                  (* error inspected with Any(...) *)
    "Copy"; "CopyWithContext"; "CopyWithContextAndExclusionPatterns";        (* receiver handed to CopyBetweenFS... *)
    "LsRecursive"; "LsRecursiveWithExclusionPatterns"; "LsRecursiveWithExclusionPatternsAndLimits";
                                   (* a closure handing the receiver to FileTreeDepth is DEFINED before the guarded Walk *)
    "Unzip"; "UnzipWithContext"; "UnzipWithContextAndLimits";                (* receiver handed to newZipReader *)
    "TempDirectory"; "CurrentDirectory"; "NewRemoteLockFile"; "ExcludeAll"; "ConvertFilePath"; "Close" ].
(* Methods in which a mention of fs.vfs is not dominated by the guard, with the reason it is harmless when closed:
   - checkDirExists: unexported, only called by Exists after a successful (guarded) Stat;
   - Exists: through checkDirExists only;
   - RemoveWithPrivileges: type assertion fs.vfs.(IForceRemover); afero.ReadOnlyFs does not implement it;
   - TempDirectory: afero.GetTempDir(fs.vfs, "") does not touch the file system for an empty sub-path. *)
Definition unguarded_backend_mentions : list string :=
  [ "checkDirExists"; "Exists"; "IsZip"; "IsZipWithContext"; "isZipWithContext"; "RemoveWithPrivileges"; "TempDirectory" ].
Local Close Scope string_scope.

Definition in_list (l : list string) (n : string) : bool := existsb (String.eqb n) l.

Definition meth_ok (m : meth) : bool :=
  let o := run_closed methods fuel0 (m_body m) in
  (* (a) an exported method that needs the archive fails when closed, or is in the audited list *)
  (negb (m_exported m) || negb (touches methods fuel0 (m_body m)) || fails o || in_list indirect_methods (m_name m))
  (* (b) no backend mention is reached when closed, except in the audited list *)
  && (match o with OBackend => in_list unguarded_backend_mentions (m_name m) | _ => true end).

(* zip.go newZipReader :241-244 / tar.go newTarReader :37-40: the archive itself is refused (kind too-large) when the limits
   apply and its size is STRICTLY above the maximum file size; an archive of exactly that size is served *)
Definition open_refused (lim : option limits) (archive_size : Z) : bool := file_too_large lim archive_size.

(* zip.go:141-150 the walker copies a file and compares the copied byte count with the size Lstat announced (a symbolic
   link is exempt; trees here have none): does archiving ONE file succeed, given the announced size and the bytes the
   back end actually serves?  The comparison is a GENERATED fact (Gen.v zip_walker_checks_copied_size). *)
Definition zip_file_ok (announced served : Z) : bool :=
  if zip_walker_checks_copied_size then announced =? served else true.

(* ------------------------------------------------------------------ Close (resource.go:23-34, files.go VFS.Close) *)
(* (returned nil, closed flag set) as a function of whether closing the underlying archive file fails; an unrecognised
   shape is given the worst behaviour (reports success without setting the flag). *)
Definition resource_close (sh : rshape) (underlying_fails : bool) : bool * bool :=
  match sh with
  | RCloseThenFlag => (negb underlying_fails, negb underlying_fails)
  | RUnknown => (true, false)
  end.
Definition vfs_close (vsh : vshape) (r : bool * bool) : bool * bool :=
  match vsh with VPropagate => r | VUnknown => (true, snd r) end.
Definition close_model (underlying_fails : bool) : bool * bool :=
  vfs_close vfs_close_shape (resource_close resource_close_shape underlying_fails).

(* ------------------------------------------------------------------ correspondence cases *)
Record onode := mkO { o_path : path; o_isdir : bool; o_data : list Z; o_mtime : Z (* ns *) }.

Inductive cobs := CCond | CErr | CNoErr | CFalse | CTrue.

Inductive case :=
| CRound (t : tree) (D : path) (lim : option limits)
         (obs_entries : list (list Z * Z * Z))        (* what archive/zip lists in the produced archive: name, size, seconds *)
         (res : ures) (flist : list path) (dump : list onode)
| CRaw (es : list entry) (D : path) (lim : option limits) (res : ures) (flist : list path) (dump : list onode)
| CView (k : vkind) (es : list entry) (ops : list (vop * path)) (obs : list vobs)
| CClosed (meth_name : string) (obs : cobs)
| COpen (lim : option limits) (archive_size : Z) (refused_too_large : bool)
| CZipSize (announced served : Z) (zip_succeeded : bool)
| CClose (underlying_fails : bool) (returned_nil : bool) (serves_nothing : bool).

Definition ures_eqb (a b : ures) : bool :=
  match a, b with UOk, UOk | UMalicious, UMalicious | UTooLarge, UTooLarge | UErr, UErr => true | _, _ => false end.
Fixpoint paths_eqb (a b : list path) : bool :=
  match a, b with
  | [], [] => true
  | x :: xs, y :: ys => path_eqb x y && paths_eqb xs ys
  | _, _ => false
  end.
Fixpoint entries_eqb (a : list entry) (b : list (list Z * Z * Z)) : bool :=
  match a, b with
  | [], [] => true
  | e :: xs, (n, sz, t) :: ys => bytes_eqb (e_name e) n && (Z.of_nat (List.length (e_data e)) =? sz) && (e_sec e =? t) && entries_eqb xs ys
  | _, _ => false
  end.

Definition node_matches (m : fsmap) (D : path) (o : onode) : bool :=
  match lookup m (D ++ o_path o) with
  | Some (FFile c mt) => negb (o_isdir o) && bytes_eqb c (o_data o)
                         && match mt with Some t => t =? o_mtime o | None => true end
  | Some (FDir mt) => o_isdir o && match mt with Some t => t =? o_mtime o | None => true end
  | None => false
  end.
Definition created_under (m : fsmap) (D : path) : list path :=
  filter (fun q => is_prefix D q && negb (path_eqb q D)) (map fst m).
Definition dump_agrees (m : fsmap) (D : path) (dump : list onode) : bool :=
  forallb (node_matches m D) dump
  && forallb (fun q => existsb (fun o => path_eqb (D ++ o_path o) q) dump) (created_under m D).

Definition check_unzip (lim : option limits) (D : path) (es : list entry) (res : ures) (flist : list path) (dump : list onode) : bool :=
  let '(s, r) := unzip lim D [] es in
  ures_eqb r res && paths_eqb (u_list s) flist
  && match r with UOk => dump_agrees (u_fs s) D dump | _ => true end.

Definition vobs_eqb (a b : vobs) : bool :=
  match a, b with
  | VNotFound, VNotFound | VInvalid, VInvalid | VEmptyErr, VEmptyErr | VOtherErr, VOtherErr => true
  | VBool x, VBool y => Bool.eqb x y
  | VStat d s, VStat d' s' => Bool.eqb d d' && (s =? s')
  | VNames l, VNames l' => (List.length l =? List.length l')%nat && forallb (fun n => existsb (bytes_eqb n) l') l
                           && forallb (fun n => existsb (bytes_eqb n) l) l'
  | VData d, VData d' => bytes_eqb d d'
  | _, _ => false
  end.
Fixpoint vobs_list_eqb (a b : list vobs) : bool :=
  match a, b with
  | [], [] => true
  | x :: xs, y :: ys => vobs_eqb x y && vobs_list_eqb xs ys
  | _, _ => false
  end.

Definition check_closed (n : string) (o : cobs) : bool :=
  match find_meth methods n with
  | None => false                                   (* a method the generated table does not know *)
  | Some _ => match closed_outcome n, o with
              | OFailCond, CCond => true
              | OFailCond, _ => false
              | OFailOther, (CErr | CCond) => true
              | OFailOther, _ => false
              | _, _ => true
              end
  end.

Definition check_case (c : case) : bool :=
  match c with
  | CRound t D lim oe res fl dump => entries_eqb (zip_entries t) oe && check_unzip lim D (zip_entries t) res fl dump
  | CRaw es D lim res fl dump => check_unzip lim D es res fl dump
  | CView k es ops obs => vobs_list_eqb (view_run k (view_index k es) [] ops) obs
  | CClosed n o => check_closed n o
  | COpen lim sz rf => Bool.eqb (open_refused lim sz) rf
  | CZipSize a sv ok => Bool.eqb (zip_file_ok a sv) ok
  | CClose u rn sn => let '(a, b) := close_model u in Bool.eqb a rn && Bool.eqb b sn
  end.
