(* C06 — the reference model R of the documented filesystem semantics (mkdir -p, touch, write/read, ls and the
   recursive listings, exists / is-file / is-dir / is-empty, size, hash, rm -rf, clean, cp -r with its
   destination-shape table, mv), over trees represented as prefix-closed finite maps  path -> File content | Dir.
   Definitions only; proofs are in Proofs.v.  The mechanised model M of the VFS code over back-end primitives is in
   Vfs.v.  Each definition names the Go function (utils/filesystem/files.go, tree with the C06 fixes) it specifies.

   A call whose arguments put a file where a directory is needed or the reverse (a "kind conflict"), or that lies
   outside the model (removing or moving the sandbox root itself), is [Unconstrained]: the first sentence of the property
   demands nothing of it. *)
From Coq Require Import List ZArith Bool Lia.
Import ListNotations.
Local Open Scope Z_scope.

Definition name := Z.
Definition path := list name.              (* relative to the sandbox root; [] is the root *)
Inductive entry := F (content : list Z) | D.
Definition tree := list (path * entry).    (* the root is implicit and always a directory *)

(* the harness alphabet: a b c d e.txt .h  (ids 0..5) *)
Definition has_txt (n : name) : bool := n =? 4.
Definition hidden (n : name) : bool := n =? 5.

(* A path argument as written by the caller: the empty string, or root/<components>[/] *)
Inductive parg := PEmpty | P (p : path) (trailing : bool).

Fixpoint path_eqb (p q : path) : bool :=
  match p, q with
  | [], [] => true
  | a :: p', b :: q' => (a =? b) && path_eqb p' q'
  | _, _ => false
  end.

Fixpoint is_prefix (p q : path) : bool :=      (* q is p or lies below p *)
  match p, q with
  | [], _ => true
  | a :: p', b :: q' => (a =? b) && is_prefix p' q'
  | _ :: _, [] => false
  end.

Definition below (p q : path) : bool := is_prefix p q && negb (path_eqb p q).   (* strictly below *)

Fixpoint find_entry (t : tree) (p : path) : option entry :=
  match t with
  | [] => None
  | (q, e) :: t' => if path_eqb q p then Some e else find_entry t' p
  end.

Definition lookup (t : tree) (p : path) : option entry :=
  match p with [] => Some D | _ => find_entry t p end.

Definition is_file t p := match lookup t p with Some (F _) => true | _ => false end.
Definition is_dir t p := match lookup t p with Some D => true | _ => false end.
Definition exists_ t p := match lookup t p with Some _ => true | None => false end.

(* all non-empty prefixes of p, shortest first, p itself last *)
Fixpoint prefixes (p : path) : list path :=
  match p with [] => [] | a :: p' => map (cons a) ([] :: prefixes p') end.
Definition parent (p : path) : path := removelast p.
Definition base (p : path) : name := last p 0.
Definition proper_prefixes (p : path) : list path := removelast (prefixes p).

(* kind conflicts of one argument *)
Definition through_file t p := existsb (is_file t) (proper_prefixes p).
Definition arg_conflict t (p : path) (trailing : bool) := through_file t p || (trailing && is_file t p).

Definition add_dir (t : tree) (q : path) : tree := if exists_ t q then t else t ++ [(q, D)].
Definition mkdirp (t : tree) (p : path) : tree := fold_left add_dir (prefixes p) t.        (* mkdir -p *)
Definition remove_sub (t : tree) (p : path) : tree := filter (fun e => negb (is_prefix p (fst e))) t.   (* rm -rf p *)
Definition remove_below (t : tree) (p : path) : tree := filter (fun e => negb (below p (fst e))) t.     (* rm -rf p/* *)
Definition set_file (t : tree) (p : path) (c : list Z) : tree :=
  filter (fun e => negb (path_eqb p (fst e))) t ++ [(p, F c)].
Definition sub (t : tree) (p : path) : tree := filter (fun e => is_prefix p (fst e)) t.      (* p and everything below *)
Definition descendants (t : tree) (p : path) : tree := filter (fun e => below p (fst e)) t.
Definition children (t : tree) (p : path) : list name :=
  flat_map (fun e => if is_prefix p (fst e) && (Nat.eqb (length (fst e)) (S (length p))) then [base (fst e)] else []) t.
Definition reroot (src dst q : path) : path := dst ++ skipn (length src) q.

(* cp -r src dst, merging into what is already at dst *)
Definition unroot (src dst x : path) : path := src ++ skipn (length dst) x.       (* the path whose image under reroot is x *)
Definition has_source (t : tree) (src dst x : path) : bool :=
  is_prefix dst x && match find_entry t (unroot src dst x) with Some _ => true | None => false end.
(* every entry at or below src is written at the corresponding place below dst (files overwrite, directories merge:
   kind clashes are excluded by graft_conflict); what has no counterpart below src stays *)
Definition graft (t : tree) (src dst : path) : tree :=
  filter (fun e => negb (has_source t src dst (fst e))) t ++ map (fun e => (reroot src dst (fst e), snd e)) (sub t src).
Definition graft_conflict (t : tree) (src dst : path) : bool :=
  existsb (fun e => match lookup t (reroot src dst (fst e)), snd e with
                    | Some (F _), D | Some D, F _ => true
                    | _, _ => false end) (sub t src).
(* mv src dst, dst absent *)
Definition rename_sub (t : tree) (src dst : path) : tree :=
  remove_sub t src ++ map (fun e => (reroot src dst (fst e), snd e)) (sub t src).

Inductive errk := ENotFound | EInvalid | EUndefined | EEmpty | EExists | EConflict | ECancelled | EOther.
Inductive res :=
  | ROk | RErr (e : errk) | RBool (b : bool) | RNames (l : list path) | RData (d : list Z) | RNum (n : Z).
Inductive outcome := Unconstrained | Out (r : res) (t : tree).

Inductive call :=
  | Mkdir (p : parg) | Touch (p : parg) | Write (p : parg) (c : list Z) | Read (p : parg)
  | Ls (p : parg) | LsRec (p : parg) (dirs : bool) | TreeL (p : parg) | SubDirs (p : parg) | FindAll (p : parg)
  | Exists (p : parg) | IsFile (p : parg) | IsDir (p : parg) | IsEmpty (p : parg) | Size (p : parg) | Hash (p : parg)
  | Rm (p : parg) | Clean (p : parg)
  | Copy (p q : parg) | CopyToFile (p q : parg) | CopyToDir (p q : parg) | Move (p q : parg)
  | RelPath (p : parg)
  | MoveBetween (p q : parg) | CreateFile (p : parg) | OpenCreate (p : parg).

Definition parg_eqb (a b : parg) : bool :=
  match a, b with
  | PEmpty, PEmpty => true
  | P p tp, P q tq => path_eqb p q && Bool.eqb tp tq
  | _, _ => false
  end.

(* MkDir / MkDirAll (files.go:893-914): mkdir -p; the empty name is 'undefined'. *)
Definition r_mkdir t a :=
  match a with
  | PEmpty => Out (RErr EUndefined) t
  | P p _ => if through_file t p || is_file t p then Unconstrained else Out ROk (mkdirp t p)
  end.

(* Touch (files.go:993-1017): existing path: only its times change (not projected); a missing name spelt with a trailing
   separator is created as a directory (mkdir -p), otherwise as an empty file — whose parent must exist (POSIX touch). *)
Definition r_touch t a :=
  match a with
  | PEmpty => Out (RErr EUndefined) t
  | P p tr =>
      if arg_conflict t p tr then Unconstrained
      else if exists_ t p then Out ROk t
      else if tr then Out ROk (mkdirp t p)
      else if is_dir t (parent p) then Out ROk (set_file t p [])
      else Out (RErr ENotFound) t
  end.

(* WriteFile (files.go:408-452): create or truncate, parent must exist; writing no bytes reports 'empty' (observed on both
   back ends, the documentation is silent) after having created / truncated the file. *)
Definition r_write t a c :=
  match a with
  | PEmpty => Out (RErr ENotFound) t
  | P p tr =>
      if through_file t p || tr || is_dir t p then Unconstrained
      else if is_dir t (parent p) then Out (match c with [] => RErr EEmpty | _ => ROk end) (set_file t p c)
      else Out (RErr ENotFound) t
  end.

(* ReadFile (files.go:315-401): reading an empty file reports 'empty' (observed on both back ends). *)
Definition r_read t a :=
  match a with
  | PEmpty => Out (RErr ENotFound) t
  | P p tr =>
      if through_file t p || is_dir t p || (tr && is_file t p) then Unconstrained
      else match lookup t p with
           | Some (F []) => Out (RErr EEmpty) t
           | Some (F c) => Out (RData c) t
           | _ => Out (RErr ENotFound) t
           end
  end.

Definition dir_arg_conflict t p := through_file t p || is_file t p.

(* Ls (files.go:1171-1262): names of the entries of a directory; a missing path is 'invalid' (observed on both). *)
Definition r_ls t a :=
  match a with
  | PEmpty => Out (RErr EInvalid) t
  | P p _ => if dir_arg_conflict t p then Unconstrained
             else if is_dir t p then Out (RNames (map (fun n => [n]) (children t p))) t else Out (RErr EInvalid) t
  end.

(* LsRecursive (files.go:1198-1243, Walk :138-219): the directory itself and everything below when directories are
   included, otherwise the files below. *)
Definition r_lsrec t a (dirs : bool) :=
  match a with
  | PEmpty => Out (RErr EOther) t                  (* filepath.Rel("", ...) fails: an unclassified error, observed on both *)
  | P p _ => if dir_arg_conflict t p then Unconstrained
             else if is_dir t p then
               Out (RNames ((if dirs then [p] else []) ++
                            map fst (filter (fun e => dirs || match snd e with F _ => true | D => false end) (descendants t p)))) t
             else Out (RErr ENotFound) t
  end.

(* ListDirTree (files.go:1817-1873): everything strictly below. *)
Definition r_tree t a :=
  match a with
  | PEmpty => Out (RErr EInvalid) t
  | P p _ => if dir_arg_conflict t p then Unconstrained
             else if is_dir t p then Out (RNames (map fst (descendants t p))) t else Out (RErr EInvalid) t
  end.

(* SubDirectories (files.go:1772-1810): the non-hidden child directories. *)
Definition r_subdirs t a :=
  match a with
  | PEmpty => Out (RErr ENotFound) t
  | P p _ => if dir_arg_conflict t p then Unconstrained
             else if is_dir t p then
               Out (RNames (map (fun n => [n]) (filter (fun n => negb (hidden n) && is_dir t (p ++ [n])) (children t p)))) t
             else Out (RErr ENotFound) t
  end.

(* FindAll(dir, "txt") (files.go:920-959): every entry strictly below whose name ends in .txt; nothing for a missing dir. *)
Definition r_findall t a :=
  match a with
  | PEmpty => Out (RNames []) t
  | P p _ => if dir_arg_conflict t p then Unconstrained
             else Out (RNames (map fst (filter (fun e => has_txt (base (fst e))) (descendants t p)))) t
  end.

Definition r_exists t a :=
  match a with
  | PEmpty => Out (RBool false) t
  | P p tr => if arg_conflict t p tr then Unconstrained else Out (RBool (exists_ t p)) t
  end.
Definition r_isfile t a :=
  match a with
  | PEmpty => Out (RBool false) t
  | P p tr => if arg_conflict t p tr then Unconstrained else Out (RBool (is_file t p)) t
  end.
Definition r_isdir t a :=
  match a with
  | PEmpty => Out (RErr ENotFound) t
  | P p tr => if arg_conflict t p tr then Unconstrained
              else if exists_ t p then Out (RBool (is_dir t p)) t else Out (RErr ENotFound) t
  end.
(* IsEmpty (files.go:836-887): a missing path is empty; a file is empty when it has no bytes; a directory when it has no entry. *)
Definition r_isempty t a :=
  match a with
  | PEmpty => Out (RBool true) t
  | P p tr => if arg_conflict t p tr then Unconstrained
              else match lookup t p with
                   | None => Out (RBool true) t
                   | Some (F c) => Out (RBool (match c with [] => true | _ => false end)) t
                   | Some D => Out (RBool (match children t p with [] => true | _ => false end)) t
                   end
  end.
Definition r_size t a :=
  match a with
  | PEmpty => Out (RErr ENotFound) t
  | P p tr => if through_file t p || is_dir t p || (tr && is_file t p) then Unconstrained
              else match lookup t p with Some (F c) => Out (RNum (Z.of_nat (length c))) t | _ => Out (RErr ENotFound) t end
  end.
(* FileHash (files.go:1470-1485): the digest of the content; projected to the content it is the digest of.
   A missing file is 'invalid' (observed on both back ends). *)
Definition r_hash t a :=
  match a with
  | PEmpty => Out (RErr EInvalid) t
  | P p tr => if through_file t p || is_dir t p || (tr && is_file t p) then Unconstrained
              else match lookup t p with Some (F c) => Out (RData c) t | _ => Out (RErr EInvalid) t end
  end.

(* Rm (files.go:676-752): rm -rf; a missing path is fine. *)
Definition r_rm t a :=
  match a with
  | PEmpty => Out ROk t
  | P [] _ => Unconstrained            (* removing the sandbox root itself is outside the model *)
  | P p tr => if arg_conflict t p tr then Unconstrained else Out ROk (remove_sub t p)
  end.
(* CleanDir (files.go:583-618): rm -rf dir/*; a missing path is fine. *)
Definition r_clean t a :=
  match a with
  | PEmpty => Out ROk t
  | P p _ => if dir_arg_conflict t p then Unconstrained else Out ROk (remove_below t p)
  end.

(* Copy (files.go:1608-1730): cp -r, with the documented exception for a missing destination.
   Destination-shape table:   file -> existing dir d : d/base(src)        file -> existing file : overwritten
                              file -> missing "n/"  : n/ created, n/base  file -> missing "n"   : parents created, n
                              dir  -> missing n     : n becomes a copy    dir  -> existing dir d : d/base(src), merged
   A directory is never copied into itself nor merged into one of its own parents ('invalid', fix D12); copying a file onto itself is a no-op (fix D26). *)
Definition r_copy t a b :=
  if parg_eqb a b then Out ROk t else
  match a, b with
  | _, PEmpty => Out (RErr EUndefined) t           (* "missing destination" *)
  | PEmpty, _ => Out (RErr ENotFound) t
  | P s str, P d dtr =>
      if arg_conflict t s str || arg_conflict t d dtr then Unconstrained
      else match lookup t s with
      | None => Out (RErr ENotFound) t
      | Some (F c) =>
          let dst := if is_dir t d then d ++ [base s] else if exists_ t d then d else if dtr then d ++ [base s] else d in
          let pre := if exists_ t d then t else if dtr then mkdirp t d else mkdirp t (parent d) in
          if path_eqb dst s then Out ROk pre
          else if is_dir pre dst then Unconstrained
          else Out ROk (set_file pre dst c)
      | Some D =>
          if is_file t d then Unconstrained
          else match s with
          | [] => Out (RErr EInvalid) t                (* the root can only be copied into itself *)
          | _ =>
            let dst := if is_dir t d then d ++ [base s] else d in
            if is_prefix s dst || is_prefix dst s then Out (RErr EInvalid) t   (* into itself / over one of its own parents *)
            else if through_file t dst || graft_conflict t s dst then Unconstrained
            else Out ROk (graft (mkdirp t dst) s dst)
          end
      end
  end.

(* CopyToFile (files.go:1499-1536) *)
Definition r_copytofile t a b :=
  match a with
  | PEmpty => Out (RErr EInvalid) t
  | P s str =>
      if arg_conflict t s str || is_dir t s then Unconstrained
      else if negb (is_file t s) then Out (RErr EInvalid) t
      else match b with
           | PEmpty => Out (RErr EInvalid) t
           | P d dtr =>
               if arg_conflict t d dtr || is_dir t d then Unconstrained
               else if negb (exists_ t d) && dtr then Out (RErr EInvalid) t
               else r_copy t a b
           end
  end.

(* CopyToDirectory (files.go:1543-1563): mkdir -p the destination, then copy into it. *)
Definition r_copytodir t a b :=
  match b with
  | PEmpty => Out (RErr EUndefined) t
  | P d dtr =>
      if through_file t d || is_file t d then Unconstrained
      else match a with
           | P s str => if arg_conflict t s str then Unconstrained else r_copy (mkdirp t d) a b
           | PEmpty => r_copy (mkdirp t d) a b
           end
  end.

(* Move (files.go, MoveWithContext with the C06 fixes D24/D25/D28): mv.
   Into an existing directory d: d/base(src); a missing destination spelt "n/" is created as a directory first (as Copy does);
   onto an existing file: overwritten; onto itself: no-op; a directory into itself: 'invalid';
   a directory onto an existing non-empty directory: 'exists', nothing changes (mv: "Directory not empty"). *)
Definition r_move t a b :=
  if parg_eqb a b then Out ROk t else
  match a, b with
  | _, PEmpty => Out (RErr EUndefined) t           (* "missing destination" *)
  | PEmpty, _ => Out (RErr ENotFound) t
  | P [] _, _ => Unconstrained                     (* moving the sandbox root itself is outside the model *)
  | P s str, P d dtr =>
      if arg_conflict t s str || arg_conflict t d dtr then Unconstrained
      else match lookup t s with
      | None => Out (RErr ENotFound) t
      | Some e =>
          let dst := if is_dir t d then d ++ [base s] else if negb (exists_ t d) && dtr then d ++ [base s] else d in
          if path_eqb dst s then Out ROk t
          else if (match e with D => true | _ => false end) && is_prefix s dst then Out (RErr EInvalid) t
          else
            let pre := mkdirp t (parent dst) in
            match lookup pre dst, e with
            | None, _ => Out ROk (rename_sub pre s dst)
            | Some (F _), F c => Out ROk (set_file (remove_sub pre s) dst c)
            | Some D, D => match children pre dst with
                           | [] => Out ROk (rename_sub (remove_sub pre dst) s dst)
                           | _ => Out (RErr EExists) pre
                           end
            | _, _ => Unconstrained
            end
      end
  end.

(* ConvertToRelativePath / ConvertToAbsolutePath (files.go:1320-1356): pure; the cleaned components. *)
Definition r_relpath (t : tree) a :=
  match a with PEmpty => Out (RErr EOther) t | P p _ => Out (RNames [p]) t end.

(* CreateFile (files.go:299-305): create or truncate; the parent must exist (POSIX creat) *)
Definition r_createfile t a :=
  match a with
  | PEmpty => Out (RErr ENotFound) t
  | P p tr =>
      if through_file t p || tr || is_dir t p then Unconstrained
      else if is_dir t (parent p) then Out ROk (set_file t p []) else Out (RErr ENotFound) t
  end.

(* OpenFile(O_WRONLY|O_CREATE): a missing file is created (the parent must exist), an existing one is left as it is *)
Definition r_opencreate t a :=
  match a with
  | PEmpty => Out (RErr ENotFound) t
  | P p tr =>
      if through_file t p || tr || is_dir t p then Unconstrained
      else if is_file t p then Out ROk t
      else if is_dir t (parent p) then Out ROk (set_file t p []) else Out (RErr ENotFound) t
  end.

(* MoveBetweenFS with the same file system on both sides (files.go): Copy, then removal of the source — except that what is
   moved into the directory that already contains it stays where it is (mv: "are the same file"). *)
Definition r_movebetween t a b :=
  if parg_eqb a b then Out ROk t else
  match a, b with
  | _, PEmpty => Out (RErr EUndefined) t
  | PEmpty, _ => Out (RErr ENotFound) t
  | P [] _, _ => Unconstrained
  | P s str, P d dtr =>
      if arg_conflict t s str || arg_conflict t d dtr then Unconstrained
      else if exists_ t s && is_dir t d && path_eqb (d ++ [base s]) s then Out ROk t
      else match r_copy t a b with
           | Out ROk t1 => Out ROk (remove_sub t1 s)
           | o => o
           end
  end.

Definition exec (t : tree) (c : call) : outcome :=
  match c with
  | Mkdir a => r_mkdir t a | Touch a => r_touch t a | Write a c => r_write t a c | Read a => r_read t a
  | Ls a => r_ls t a | LsRec a d => r_lsrec t a d | TreeL a => r_tree t a | SubDirs a => r_subdirs t a
  | FindAll a => r_findall t a
  | Exists a => r_exists t a | IsFile a => r_isfile t a | IsDir a => r_isdir t a | IsEmpty a => r_isempty t a
  | Size a => r_size t a | Hash a => r_hash t a | Rm a => r_rm t a | Clean a => r_clean t a
  | Copy a b => r_copy t a b | CopyToFile a b => r_copytofile t a b | CopyToDir a b => r_copytodir t a b
  | Move a b => r_move t a b | RelPath a => r_relpath t a
  | MoveBetween a b => r_movebetween t a b | CreateFile a => r_createfile t a | OpenCreate a => r_opencreate t a
  end.

(* ---------- well-formed trees: the ancestors of every entry are directories (as in the dump of a real file system) ---------- *)
Definition wf (t : tree) : Prop :=
  forall p e, find_entry t p = Some e -> forall q, In q (proper_prefixes p) -> is_dir t q = true.
(* boolean version, evaluated on every observed dump *)
Definition wf_b (t : tree) : bool := forallb (fun e => forallb (is_dir t) (proper_prefixes (fst e))) t.

(* ---------- the destination of a call (second sentence of the property) ---------- *)

Definition arg_path (a : parg) : list path := match a with PEmpty => [] | P p _ => [p] end.
(* what a call may touch: its destination and, for move / rm / clean, its source *)
Definition roots (c : call) : list path :=
  match c with
  | Mkdir a | Touch a | Write a _ | Rm a | Clean a | CreateFile a | OpenCreate a => arg_path a
  | Copy _ b | CopyToFile _ b | CopyToDir _ b => arg_path b
  | Move a b | MoveBetween a b => arg_path a ++ arg_path b
  | _ => []
  end.
Definition outside (rs : list path) (q : path) : bool := forallb (fun r => negb (is_prefix r q)) rs.  (* not at or below a root *)
Definition towards (rs : list path) (q : path) : bool := existsb (fun r => is_prefix q r) rs.        (* an ancestor of a root *)

(* a program: calls in sequence; [None] as soon as a call is unconstrained *)
Fixpoint run (t : tree) (cs : list call) : option tree :=
  match cs with
  | [] => Some t
  | c :: cs' => match exec t c with Out _ t' => run t' cs' | Unconstrained => None end
  end.

(* the same, collecting the results *)
Fixpoint run_res (t : tree) (cs : list call) : option (list res * tree) :=
  match cs with
  | [] => Some ([], t)
  | c :: cs' => match exec t c with
                | Out r t1 => match run_res t1 cs' with Some (rs, t') => Some (r :: rs, t') | None => None end
                | Unconstrained => None
                end
  end.

(* ---------- correspondence ---------- *)

Fixpoint zlist_eqb (a b : list Z) : bool :=
  match a, b with [], [] => true | x :: a', y :: b' => (x =? y) && zlist_eqb a' b' | _, _ => false end.
Definition entry_eqb (a b : entry) : bool :=
  match a, b with D, D => true | F c, F d => zlist_eqb c d | _, _ => false end.
Definition mem_entry (t : tree) (e : path * entry) : bool :=
  match find_entry t (fst e) with Some x => entry_eqb x (snd e) | None => false end.
(* equality of trees as finite maps (both sides list every path once) *)
Definition tree_eqb (a b : tree) : bool :=
  Nat.eqb (length a) (length b) && forallb (mem_entry b) a && forallb (mem_entry a) b.
Definition mem_path (l : list path) (p : path) : bool := existsb (path_eqb p) l.
Definition names_eqb (a b : list path) : bool :=
  Nat.eqb (length a) (length b) && forallb (mem_path b) a && forallb (mem_path a) b.
Definition errk_eqb (a b : errk) : bool :=
  match a, b with
  | ENotFound, ENotFound | EInvalid, EInvalid | EUndefined, EUndefined | EEmpty, EEmpty | EExists, EExists
  | EConflict, EConflict | ECancelled, ECancelled | EOther, EOther => true
  | _, _ => false
  end.
Definition res_eqb (a b : res) : bool :=
  match a, b with
  | ROk, ROk => true
  | RErr x, RErr y => errk_eqb x y
  | RBool x, RBool y => Bool.eqb x y
  | RNames x, RNames y => names_eqb x y
  | RData x, RData y => zlist_eqb x y
  | RNum x, RNum y => x =? y
  | _, _ => false
  end.

(* One observed call: the harness's own classification (kind conflict / outside the domain), the projected result
   (the same on both back ends) and the dump after the call ([None] = the dump did not change). *)
Record stepobs := mkStep { s_call : call; s_unconstrained : bool; s_res : res; s_after : option tree }.
Record case := mkCase { c_init : tree; c_steps : list stepobs }.

Fixpoint check_steps (t : tree) (l : list stepobs) : bool :=
  match l with
  | [] => true
  | s :: l' =>
      let t_obs := match s_after s with Some x => x | None => t end in
      match exec t (s_call s) with
      | Unconstrained => s_unconstrained s && check_steps t_obs l'
      | Out r t' => negb (s_unconstrained s) && res_eqb r (s_res s) && tree_eqb t' t_obs && check_steps t_obs l'
      end
  end.

Definition check_case (c : case) : bool := check_steps (c_init c) (c_steps c).

(* diagnostic aid (not used by any theorem): index of the first disagreeing step and what R says there *)
Fixpoint first_bad (n : nat) (t : tree) (l : list stepobs) : option (nat * outcome) :=
  match l with
  | [] => None
  | s :: l' =>
      let t_obs := match s_after s with Some x => x | None => t end in
      let ok := match exec t (s_call s) with
                | Unconstrained => s_unconstrained s
                | Out r t' => negb (s_unconstrained s) && res_eqb r (s_res s) && tree_eqb t' t_obs
                end in
      if ok then first_bad (S n) t_obs l' else Some (n, exec t (s_call s))
  end.
