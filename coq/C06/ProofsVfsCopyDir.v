(* C06 - M's recursive copy of a directory (copyFolder: MkDir(dst), IsEmpty(src), Ls(src), Copy(src/name, dst) for each name)
   refines R's cp -r (graft) as a finite map, with explicit fuel: more than the depth of the source suffices. *)
From Coq Require Import List ZArith Bool Lia Arith FinFun.
Import ListNotations.
From GU Require Import C06.Model C06.Facts C06.Proofs C06.ProofsWf C06.Vfs C06.ProofsVfsRm C06.ProofsVfsCopy.
Local Open Scope Z_scope.

Local Arguments m_exists : simpl never.
Local Arguments is_dir_b : simpl never.
Local Arguments m_mkdir3 : simpl never.
Local Arguments m_copy_file : simpl never.
Local Arguments m_empty_b : simpl never.
Local Arguments mkdirp : simpl never.
Local Arguments parent : simpl never.
Local Arguments is_prefix : simpl never.
Local Arguments path_eqb : simpl never.
Local Arguments copy_children : simpl never.

(* what "the subtree at x has been copied to T" means for the finite map: below T every entry that has a counterpart below x
   is that counterpart, everything else is as before *)
Definition copied (t t'' : tree) (x T : path) : Prop :=
  forall q, find_entry t'' q =
    if is_prefix T q then match find_entry t (x ++ skipn (length T) q) with Some e => Some e | None => find_entry t q end
    else find_entry t q.

(* no entry below x is f or more levels below x *)
Definition shallow (t : tree) (x : path) (f : nat) : Prop :=
  forall q, is_prefix x q = true -> find_entry t q <> None -> (length q < length x + f)%nat.

Definition clash_free (t : tree) (x T : path) : Prop :=
  forall r e, find_entry t (x ++ r) = Some e ->
    match find_entry t (T ++ r), e with Some (F _), D | Some D, F _ => False | _, _ => True end.

(* the body of copyFolder, as it appears inside m_copy (S f) *)
Definition cf_body (fa : facts) (f : nat) (t : tree) (x T : path) (h : hs) (hm : nat) : option (res * tree * hs) :=
  let '(r2, t2, hm2) := m_mkdir3 t T in
  match r2 with
  | ROk => if m_empty_b t2 x then Some (ROk, t2, h +h hb (hm + hm2 + 1))
           else copy_children (fun t0 c => m_copy fa f t0 c false T false) x (b_readdirnames t2 x) t2 (h +h hb (hm + hm2 + 2))
  | r => Some (r, t2, h +h hb (hm + hm2))
  end.

(* the specification of one inner call Copy(x, dst0) with dst0 an existing directory *)
Definition inner_ok (fa : facts) (f : nat) : Prop :=
  forall t x dst0,
    wf t -> x <> [] -> exists_ t x = true -> is_dir t dst0 = true ->
    let T := dst0 ++ [base x] in
    is_prefix x T = false -> is_prefix T x = false -> clash_free t x T -> shallow t x f ->
    exists t'' h, m_copy fa f t x false dst0 false = Some (ROk, t'', h) /\ wf t'' /\ copied t t'' x T.

Lemma incomparable_child x T n : is_prefix x T = false -> is_prefix T x = false ->
  is_prefix (x ++ [n]) (T ++ [n]) = false /\ is_prefix (T ++ [n]) (x ++ [n]) = false.
Proof.
  intros H1 H2. split.
  - destruct (is_prefix (x ++ [n]) (T ++ [n])) eqn:E; auto.
    destruct (prefix_of_app_singleton _ _ _ E) as [P|P].
    + rewrite (is_prefix_trans _ _ _ (is_prefix_app x [n]) P) in H1. discriminate.
    + apply app_inj_tail in P as [-> _]. rewrite is_prefix_refl in H1. discriminate.
  - destruct (is_prefix (T ++ [n]) (x ++ [n])) eqn:E; auto.
    destruct (prefix_of_app_singleton _ _ _ E) as [P|P].
    + rewrite (is_prefix_trans _ _ _ (is_prefix_app T [n]) P) in H2. discriminate.
    + apply app_inj_tail in P as [-> _]. rewrite is_prefix_refl in H2. discriminate.
Qed.

Lemma children_exists t p n : In n (children t p) -> exists_ t (p ++ [n]) = true.
Proof.
  unfold children. intros H. apply in_flat_map in H as [[k e] [Hin Hk]]. simpl in Hk.
  destruct (is_prefix p k && Nat.eqb (length k) (S (length p))) eqn:B; [|contradiction].
  apply andb_true_iff in B as [B1 B2]. apply Nat.eqb_eq in B2. destruct (prefix_len_singleton _ _ B1 B2) as [y ->].
  destruct Hk as [<-|[]]. unfold base. rewrite last_last.
  destruct (in_find_some _ _ _ Hin) as [e' F1]. unfold exists_. rewrite lookup_nonroot by apply snoc_nonnil. now rewrite F1.
Qed.

Lemma not_prefix_snoc T n q : is_prefix T q = false -> is_prefix (T ++ [n]) q = false.
Proof.
  intros H. destruct (is_prefix (T ++ [n]) q) eqn:E; auto. rewrite (is_prefix_child _ _ _ E) in H. discriminate.
Qed.

Lemma prefix_snoc_cons T n m r : is_prefix (T ++ [n]) (T ++ m :: r) = Z.eqb n m.
Proof.
  induction T as [|a T IH]; simpl.
  - unfold is_prefix. simpl. destruct (n =? m); reflexivity.
  - unfold is_prefix in *. simpl. rewrite Z.eqb_refl. simpl. exact IH.
Qed.

Lemma skipn_snoc_cons {A} (T : list A) n r : skipn (length (T ++ [n])) (T ++ n :: r) = r.
Proof. change (n :: r) with ([n] ++ r). rewrite app_assoc. apply skipn_app_exact. Qed.

(* ---------- the loop over the names of the source ---------- *)

Record loop_inv (t2 ti : tree) (x T : path) (done : list name) : Prop := {
  li_wf : wf ti;
  li_frame : forall q, is_prefix T q = false -> find_entry ti q = find_entry t2 q;
  li_done : forall n r, In n done ->
      find_entry ti (T ++ n :: r) = match find_entry t2 (x ++ n :: r) with Some e => Some e | None => find_entry t2 (T ++ n :: r) end;
  li_todo : forall n r, ~ In n done -> find_entry ti (T ++ n :: r) = find_entry t2 (T ++ n :: r);
  li_T : find_entry ti T = Some D
}.

Lemma loop_ok fa f x T t2 : inner_ok fa f ->
  wf t2 -> x <> [] -> T <> [] -> find_entry t2 T = Some D ->
  is_prefix x T = false -> is_prefix T x = false -> clash_free t2 x T -> shallow t2 x (S f) ->
  forall ns done ti h, loop_inv t2 ti x T done -> (forall n, In n ns -> exists_ t2 (x ++ [n]) = true) ->
  exists t'' h', copy_children (fun t0 c => m_copy fa f t0 c false T false) x ns ti h = Some (ROk, t'', h')
                 /\ loop_inv t2 t'' x T (rev ns ++ done).
Proof.
  intros IHf W2 Hx HT FT P1 P2 NC Sh. induction ns as [|n ns IH]; intros done ti h Inv Hns.
  - exists ti, h. split; [reflexivity|exact Inv].
  - unfold copy_children. fold copy_children.
    destruct Inv as [Wi Fr Dn Td Ti].
    destruct (incomparable_child x T n P1 P2) as [Q1 Q2].
    assert (SrcSame : forall r, find_entry ti (x ++ r) = find_entry t2 (x ++ r)).
    { intros r. apply Fr. destruct (is_prefix T (x ++ r)) eqn:E; auto.
      destruct (prefix_comparable _ _ _ E (is_prefix_app x r)); congruence. }
    assert (Bx : base (x ++ [n]) = n) by (unfold base; apply last_last).
    destruct (IHf ti (x ++ [n]) T) as [t1 [h1 [E1 [W1 C1]]]]; auto.
    + apply snoc_nonnil.
    + specialize (Hns n (or_introl eq_refl)). unfold exists_ in *. rewrite lookup_nonroot in * by apply snoc_nonnil.
      now rewrite SrcSame.
    + rewrite is_dir_nonroot by auto. now rewrite Ti.
    + now rewrite Bx.
    + now rewrite Bx.
    + rewrite Bx. intros r e He. rewrite <- app_assoc in *. simpl in *. rewrite SrcSame in He.
      destruct (in_dec Z.eq_dec n done) as [I|I].
      * rewrite (Dn n r I), He. destruct e; exact I0 || auto. 
      * rewrite (Td n r I). exact (NC (n :: r) e He).
    + intros q Pq Fq. apply is_prefix_spec in Pq as [r ->]. rewrite <- app_assoc in *. simpl in *.
      rewrite SrcSame in Fq. specialize (Sh (x ++ n :: r) (is_prefix_app x (n :: r)) Fq).
      rewrite !app_length in *. simpl in *. lia.
    + rewrite Bx in *. rewrite E1.
      destruct (IH (n :: done) t1 (h +h h1)) as [t'' [h' [E2 Inv2]]].
      * split; auto.
        -- intros q Pq. rewrite (C1 q), (not_prefix_snoc _ _ _ Pq). now apply Fr.
        -- intros m r Hm. rewrite (C1 (T ++ m :: r)), prefix_snoc_cons.
           destruct (n =? m) eqn:Enm.
           ++ apply Z.eqb_eq in Enm. subst m. rewrite skipn_snoc_cons, <- app_assoc. simpl. rewrite SrcSame.
              destruct (find_entry t2 (x ++ n :: r)) eqn:Fs; auto.
              destruct (in_dec Z.eq_dec n done) as [I|I]; [rewrite (Dn n r I), Fs; reflexivity|now rewrite (Td n r I)].
           ++ destruct Hm as [Hm|Hm]; [apply Z.eqb_neq in Enm; congruence|]. now apply Dn.
        -- intros m r Hm. rewrite (C1 (T ++ m :: r)), prefix_snoc_cons.
           destruct (n =? m) eqn:Enm; [apply Z.eqb_eq in Enm; subst; exfalso; apply Hm; now left|].
           apply Td. intros I. apply Hm. now right.
        -- rewrite (C1 T). destruct (is_prefix (T ++ [n]) T) eqn:E; auto.
           pose proof (is_prefix_antisym _ _ E (is_prefix_app T [n])) as X.
           rewrite <- (app_nil_r T) in X at 2. apply app_inv_head in X. discriminate.
      * intros m Hm. apply Hns. now right.
      * exists t'', h'. split; auto. simpl. rewrite <- app_assoc. exact Inv2.
Qed.

(* ---------- copyFolder ---------- *)

Lemma app_cons_neq {A} (T : list A) n r : T ++ n :: r <> T.
Proof. intros E. apply (f_equal (@length _)) in E. rewrite app_length in E. simpl in E. lia. Qed.


Lemma find_mkdirp_root t p : find_entry (mkdirp t p) [] = find_entry t [].
Proof.
  unfold mkdirp. apply find_fold_add_dir_other. intros d Hd. apply in_prefixes in Hd as [_ Hd].
  apply path_eqb_neq. exact Hd.
Qed.

(* when the parent exists, mkdir -p creates at most the path itself *)
Lemma mkdirp_only_last t T q : wf t -> is_dir t (parent T) = true -> q <> T -> find_entry (mkdirp t T) q = find_entry t q.
Proof.
  intros W Pd Hq. destruct q as [|a q]; [apply find_mkdirp_root|].
  destruct (is_prefix (a :: q) T) eqn:E; [|now apply find_mkdirp_other].
  assert (A : anc (a :: q) T) by (apply prefix_anc; auto; discriminate).
  assert (Dq : is_dir t (a :: q) = true).
  { destruct (anc_parent _ _ A) as [->|A']; auto. apply (wf_anc_dir t (parent T)); auto using is_dir_exists'. }
  assert (Ne : a :: q <> []) by discriminate.
  pose proof (is_dir_find _ _ Ne Dq) as Fq. rewrite Fq. now apply find_mkdirp_some.
Qed.

Lemma through_file_of_dir_parent t T : wf t -> is_dir t (parent T) = true -> through_file t T = false.
Proof.
  intros W Pd. apply through_file_intro. intros q A. apply is_dir_not_file.
  destruct (anc_parent _ _ A) as [->|A']; auto. apply (wf_anc_dir t (parent T)); auto using is_dir_exists'.
Qed.

Lemma cf_body_ok fa f t x T h0 hm0 : inner_ok fa f ->
  wf t -> x <> [] -> find_entry t x = Some D -> T <> [] -> is_dir t (parent T) = true ->
  is_prefix x T = false -> is_prefix T x = false -> clash_free t x T -> shallow t x (S f) ->
  exists t'' h, cf_body fa f t x T h0 hm0 = Some (ROk, t'', h) /\ wf t'' /\ copied t t'' x T.
Proof.
  intros IHf W Hx Fx HT Pd P1 P2 NC Sh.
  assert (Tf : through_file t T = false) by now apply through_file_of_dir_parent.
  assert (Nf : is_file t T = false).
  { specialize (NC [] D). rewrite !app_nil_r in NC. specialize (NC Fx). unfold is_file. rewrite lookup_nonroot by auto.
    destruct (find_entry t T) as [[|]|]; auto. contradiction. }
  unfold cf_body. destruct (m_mkdir3_ok t T W Tf Nf) as [hm ->].
  set (t2 := mkdirp t T).
  assert (W2 : wf t2) by now apply wf_mkdirp.
  assert (Same : forall q, q <> T -> find_entry t2 q = find_entry t q) by (intros; now apply mkdirp_only_last).
  assert (FT : find_entry t2 T = Some D) by (apply is_dir_find; auto; apply mkdirp_is_dir; auto using is_prefix_refl).
  assert (SrcSame : forall r, find_entry t2 (x ++ r) = find_entry t (x ++ r)).
  { intros r. apply Same. intros E. rewrite <- E, is_prefix_app in P1. discriminate. }
  assert (NC2 : clash_free t2 x T).
  { intros r e He. rewrite SrcSame in He. destruct r as [|y r].
    - rewrite app_nil_r in *. rewrite FT. rewrite Fx in He. inversion He. exact I.
    - rewrite Same; [exact (NC (y :: r) e He)|apply app_cons_neq]. }
  assert (Sh2 : shallow t2 x (S f)).
  { intros q Pq Fq. apply Sh; auto. apply is_prefix_spec in Pq as [r ->]. now rewrite <- SrcSame. }
  assert (Fx2 : find_entry t2 x = Some D) by (rewrite <- (app_nil_r x), SrcSame, app_nil_r; exact Fx).
  assert (Init : loop_inv t2 t2 x T []) by (split; auto; intros; contradiction).
  assert (Loop : exists t'' h, copy_children (fun t0 c => m_copy fa f t0 c false T false) x (children t2 x) t2 (h0 +h hb (hm0 + hm + 2))
                               = Some (ROk, t'', h) /\ loop_inv t2 t'' x T (rev (children t2 x) ++ [])).
  { apply (loop_ok fa f x T t2); auto. intros n Hn. now apply children_exists. }
  (* from the invariant at the end of the loop to the specification *)
  assert (Fin : forall t'', loop_inv t2 t'' x T (rev (children t2 x) ++ []) -> wf t'' /\ copied t t'' x T).
  { intros t'' [Wi Fr Dn Td Ti]. split; auto. intros q.
    destruct (is_prefix T q) eqn:Pq.
    - apply is_prefix_spec in Pq as [r ->]. rewrite skipn_app_exact. destruct r as [|n r].
      + rewrite !app_nil_r, Fx. exact Ti.
      + assert (QT : T ++ n :: r <> T) by apply app_cons_neq.
        destruct (in_dec Z.eq_dec n (children t2 x)) as [I|I].
        * rewrite (Dn n r) by (rewrite app_nil_r; now apply in_rev in I || (apply -> in_rev; exact I)).
          rewrite SrcSame, (Same _ QT). reflexivity.
        * rewrite (Td n r) by (rewrite app_nil_r; intros X; apply I; now apply in_rev).
          rewrite (Same _ QT). destruct (find_entry t (x ++ n :: r)) eqn:Fs; auto. exfalso. apply I.
          apply child_in.
          pose proof (wf_step_exists t x n r e W (find_entry_in _ _ _ Fs)) as Ex.
          unfold exists_ in *. rewrite lookup_nonroot in * by apply snoc_nonnil. rewrite (SrcSame [n]). exact Ex.
    - rewrite (Fr q Pq). apply Same. intros ->. rewrite is_prefix_refl in Pq. discriminate. }
  rewrite (m_empty_b_dir' t2 x) by (rewrite lookup_nonroot; auto). unfold b_readdirnames.
  destruct (children t2 x) as [|n ns] eqn:Ch.
  - exists t2, (h0 +h hb (hm0 + hm + 1)). split; [reflexivity|]. apply Fin. exact Init.
  - destruct Loop as [t'' [h [E Inv]]]. exists t'', h. split; [exact E|]. apply Fin. exact Inv.
Qed.

(* ---------- every inner call, by induction on the fuel ---------- *)

Lemma inner_all fa f : copy_ok fa = true -> inner_ok fa f.
Proof.
  intros OK. pose proof OK as OK'. facts_literal fa OK.
  induction f as [|f IHf]; intros t x dst0 W Hx Ex Dd T P1 P2 NC Sh.
  - exfalso. specialize (Sh x (is_prefix_refl x)). unfold exists_ in Ex. rewrite lookup_nonroot in Ex by auto.
    destruct (find_entry t x); [|discriminate]. specialize (Sh ltac:(discriminate)). lia.
  - assert (Nxd : path_eqb x dst0 = false).
    { apply path_eqb_neq. intros ->. unfold T in P1. rewrite is_prefix_app in P1. discriminate. }
    assert (NxT : path_eqb x T = false) by (apply path_eqb_neq; intros E; rewrite E, is_prefix_refl in P1; discriminate).
    assert (HT : T <> []) by (unfold T; apply snoc_nonnil).
    assert (PT : is_dir t (parent T) = true) by (unfold T; now rewrite parent_app_singleton).
    simpl. rewrite Nxd. simpl.
    destruct (m_exists_pair t x) as [h1 ->]. rewrite Ex. simpl.
    destruct (m_exists_pair t dst0) as [h2 ->]. rewrite (is_dir_exists' _ _ Dd).
    change (is_dir_b t dst0) with (is_dir t dst0). rewrite Dd. simpl. fold T. rewrite P1, P2. rewrite orb_false_r, andb_false_r.
    change (is_dir_b t x) with (is_dir t x).
    unfold exists_ in Ex. rewrite lookup_nonroot in Ex by auto.
    destruct (find_entry t x) as [[c|]|] eqn:Fx; try discriminate.
    + (* a file *)
      assert (Ndx : is_dir t x = false) by (rewrite is_dir_nonroot, Fx; auto). rewrite Ndx. cbn [negb andb]. rewrite NxT.
      destruct (m_exists_pair t T) as [h3 ->]. change (is_dir_b t T) with (is_dir t T).
      assert (NdT : is_dir t T = false).
      { specialize (NC [] (F c)). rewrite !app_nil_r in NC. specialize (NC Fx). rewrite is_dir_nonroot by auto.
        destruct (find_entry t T) as [[|]|]; auto. contradiction. }
      rewrite NdT, andb_false_r. unfold m_copy_file, b_stat, b_create. rewrite lookup_nonroot, Fx, NdT, PT, set_file_twice by auto.
      eexists _, _. split; [reflexivity|]. split; [now apply wf_set_file|].
      intros q. rewrite find_set_file. destruct (is_prefix T q) eqn:Pq.
      * apply is_prefix_spec in Pq as [r ->]. rewrite skipn_app_exact. destruct r as [|y r].
        -- now rewrite !app_nil_r, path_eqb_refl, Fx.
        -- rewrite (proj2 (path_eqb_neq _ _)) by (intros E; symmetry in E; revert E; apply app_cons_neq).
           destruct (find_entry t (x ++ y :: r)) eqn:Fs; auto. exfalso.
           assert (is_dir t x = true) by (eapply (proj1 (wf_iff _) W); [exact Fs|]; split; eauto).
           congruence.
      * now rewrite (is_prefix_false_neq _ _ Pq).
    + (* a directory *)
      assert (Dx : is_dir t x = true) by (rewrite is_dir_nonroot, Fx; auto). rewrite Dx.
      cbn [negb andb].
      apply (cf_body_ok _ f t x T (hb (h1 + h1 + h2 + h2)) O IHf); auto.
Qed.

(* ---------- fuel: the depth of a well-formed tree is at most its number of entries ---------- *)

Lemma prefixes_length p : length (prefixes p) = length p.
Proof.
  induction p as [|a p IH]; auto. rewrite prefixes_cons, map_length.
  change (length ([] :: prefixes p)) with (S (length (prefixes p))). rewrite IH. reflexivity.
Qed.

Lemma prefixes_nodup p : NoDup (prefixes p).
Proof.
  induction p as [|a p IH]; [constructor|]. rewrite prefixes_cons.
  apply FinFun.Injective_map_NoDup; [intros u v E; now inversion E|].
  constructor; auto. intros H. apply in_prefixes in H as [_ H]. now apply H.
Qed.

Lemma wf_key_length t q : wf t -> find_entry t q <> None -> (length q <= length t)%nat.
Proof.
  intros W Hq. rewrite <- (prefixes_length q), <- (map_length fst t).
  apply NoDup_incl_length; [apply prefixes_nodup|]. intros k Hk.
  assert (Ek : find_entry t k <> None).
  { pose proof Hk as Hk'. apply in_prefixes in Hk' as [Pk Nk]. apply is_prefix_spec in Pk as [r E]. destruct r as [|y r].
    - rewrite app_nil_r in E. now subst.
    - destruct (find_entry t q) as [e|] eqn:Fq; [|congruence].
      assert (Dk : is_dir t k = true) by (eapply (proj1 (wf_iff _) W); [exact Fq|]; split; eauto).
      rewrite (is_dir_find _ _ Nk Dk). discriminate. }
  destruct (find_entry t k) as [e|] eqn:Fk; [|congruence].
  apply find_entry_in in Fk. apply in_map_iff. exists (k, e). auto.
Qed.

Lemma shallow_any t x : wf t -> shallow t x (S (length t)).
Proof. intros W q _ Hq. pose proof (wf_key_length t q W Hq). lia. Qed.

(* ---------- the top-level call ---------- *)

Lemma clash_free_of_graft_conflict t s dst : dst <> [] -> graft_conflict t s dst = false -> clash_free t s dst.
Proof.
  intros Hd H r e He. pose proof (graft_conflict_false _ _ _ H r e He) as X.
  rewrite lookup_nonroot in X by (now apply app_nonnil_l). exact X.
Qed.

Lemma m_copy_dir_refines fa t s str d dtr r t' :
  copy_ok fa = true ->
  wf t -> is_dir t s = true -> r_copy t (P s str) (P d dtr) = Out r t' ->
  exists t'' h, m_copy fa (rm_fuel t) t s str d dtr = Some (r, t'', h) /\ (forall q, find_entry t'' q = find_entry t' q) /\ wf t''.
Proof.
  intros OK W Ds. pose proof OK as OK'. facts_literal fa OK. unfold r_copy, parg_eqb, rm_fuel. simpl.
  destruct (path_eqb s d && Bool.eqb str dtr); [intros H; inv_o H; eauto|].
  destruct (arg_conflict t s str) eqn:Ca; [discriminate|]. destruct (arg_conflict t d dtr) eqn:Cd; [discriminate|]. simpl.
  destruct (arg_conflict_false _ _ _ Cd) as [Tfd _].
  pose proof (is_dir_lookup _ _ Ds) as L. rewrite L.
  destruct (is_file t d) eqn:Nfd; [discriminate|].
  destruct s as [|n s]; [intros H; inversion H; subst r t'; clear H; rewrite (m_exists_dir _ _ L); simpl;
                         change (is_dir_b t []) with true; simpl; destruct (m_exists_pair t d) as [h2 ->];
                         destruct (exists_ t d && is_dir_b t d); simpl; eauto|].
  set (dst := if is_dir t d then d ++ [base (n :: s)] else d).
  destruct (is_prefix (n :: s) dst) eqn:P1; [simpl|].
  { intros H; inversion H; subst r t'; clear H. rewrite (m_exists_dir _ _ L). simpl. change (is_dir_b t (n :: s)) with (is_dir t (n :: s)). rewrite Ds.
    destruct (m_exists_pair t d) as [h2 ->]. change (is_dir_b t d) with (is_dir t d).
    assert (X : (if exists_ t d && is_dir t d then d ++ [base (n :: s)] else d) = dst).
    { unfold dst. destruct (is_dir t d) eqn:Id; [now rewrite (is_dir_exists' _ _ Id)|now rewrite andb_false_r]. }
    rewrite X, P1. simpl. eauto. }
  destruct (is_prefix dst (n :: s)) eqn:P2; [simpl|].
  { intros H; inversion H; subst r t'; clear H. rewrite (m_exists_dir _ _ L). simpl. change (is_dir_b t (n :: s)) with (is_dir t (n :: s)). rewrite Ds.
    destruct (m_exists_pair t d) as [h2 ->]. change (is_dir_b t d) with (is_dir t d).
    assert (X : (if exists_ t d && is_dir t d then d ++ [base (n :: s)] else d) = dst).
    { unfold dst. destruct (is_dir t d) eqn:Id; [now rewrite (is_dir_exists' _ _ Id)|now rewrite andb_false_r]. }
    rewrite X, P1, P2. simpl. eauto. }
  simpl. destruct (through_file t dst) eqn:Tf; [discriminate|]. destruct (graft_conflict t (n :: s) dst) eqn:Gc; [discriminate|].
  simpl. intros H; inv_o H.
  assert (Hd : dst <> []) by (intros E; rewrite E in P2; discriminate).
  assert (Fs : find_entry t (n :: s) = Some D) by exact L.
  pose proof (clash_free_of_graft_conflict t (n :: s) dst Hd Gc) as NC.
  rewrite (m_exists_dir _ _ L). simpl. change (is_dir_b t (n :: s)) with (is_dir t (n :: s)). rewrite Ds.
  destruct (m_exists_pair t d) as [h2 ->]. change (is_dir_b t d) with (is_dir t d).
  assert (X : (if exists_ t d && is_dir t d then d ++ [base (n :: s)] else d) = dst).
  { unfold dst. destruct (is_dir t d) eqn:Id; [now rewrite (is_dir_exists' _ _ Id)|now rewrite andb_false_r]. }
  rewrite X, P1, P2. simpl.
  destruct (is_dir t d) eqn:Id.
  - (* into an existing directory: d/base(src) *)
    rewrite (is_dir_exists' _ _ Id). simpl. fold dst. unfold dst at 1 2 3. 
    assert (PT : is_dir t (parent dst) = true) by (unfold dst; now rewrite parent_app_singleton).
    destruct (cf_body_ok _ (length t) t (n :: s) dst (hb (1 + 1 + h2 + h2)) O (inner_all _ _ OK') W ltac:(discriminate) Fs Hd PT P1 P2 NC (shallow_any _ _ W))
      as [t'' [h [E [W'' C]]]].
    unfold cf_body in E. exists t'', h. split; [exact E|]. split; auto.
    intros q. rewrite (C q), find_graft. unfold unroot.
    assert (SrcSame : forall r0, find_entry (mkdirp t dst) ((n :: s) ++ r0) = find_entry t ((n :: s) ++ r0)).
    { intros r0. apply mkdirp_only_last; auto. intros E0. rewrite <- E0, is_prefix_app in P1. discriminate. }
    destruct (is_prefix dst q) eqn:Pq.
    + apply is_prefix_spec in Pq as [r0 ->]. rewrite skipn_app_exact, SrcSame.
      destruct (find_entry t ((n :: s) ++ r0)) eqn:F0; auto.
      destruct r0 as [|y r0]; [rewrite app_nil_r in F0; congruence|]. symmetry. apply mkdirp_only_last; auto. apply app_cons_neq.
    + symmetry. apply mkdirp_only_last; auto. intros ->. rewrite is_prefix_refl in Pq. discriminate.
  - (* the destination is missing: it becomes the copy *)
    assert (Ex : exists_ t d = false).
    { unfold exists_, is_dir, is_file in *. destruct (lookup t d) as [[|]|]; auto; discriminate. }
    rewrite Ex. simpl.
    destruct (m_mkdir3_ok t d W Tfd Nfd) as [hm Emk]. unfold m_mkdir3 in Emk. inversion Emk as [[E1 E2 E3]]. rewrite E1, E2.
    unfold dst in *. clear dst X.
    set (t1 := mkdirp t d).
    assert (W1 : wf t1) by now apply wf_mkdirp.
    assert (F1 : find_entry t1 (n :: s) = Some D) by now apply find_mkdirp_some.
    assert (PT : is_dir t1 (parent d) = true) by (apply mkdirp_is_dir; auto using is_prefix_parent).
    assert (SrcSame : forall r0, find_entry t1 ((n :: s) ++ r0) = find_entry t ((n :: s) ++ r0)).
    { intros r0. apply find_mkdirp_other. destruct (is_prefix ((n :: s) ++ r0) d) eqn:E0; auto.
      rewrite (is_prefix_trans _ _ _ (is_prefix_app (n :: s) r0) E0) in P1. discriminate. }
    assert (NC1 : clash_free t1 (n :: s) d).
    { intros r0 e He. rewrite SrcSame in He. destruct r0 as [|y r0].
      - rewrite app_nil_r in *. rewrite Fs in He. inversion He.
        rewrite (is_dir_find t1 d Hd) by (apply mkdirp_is_dir; auto using is_prefix_refl). exact I.
      - unfold t1. rewrite find_mkdirp_other; [exact (NC (y :: r0) e He)|].
        destruct (is_prefix (d ++ y :: r0) d) eqn:E0; auto.
        pose proof (is_prefix_antisym _ _ E0 (is_prefix_app d (y :: r0))) as X. exfalso. revert X. apply app_cons_neq. }
    assert (Sh1 : shallow t1 (n :: s) (S (length t))).
    { intros q Pq Fq. apply is_prefix_spec in Pq as [r0 ->]. rewrite SrcSame in Fq. exact (shallow_any t (n :: s) W _ (is_prefix_app _ _) Fq). }
    destruct (cf_body_ok _ (length t) t1 (n :: s) d (hb (1 + 1 + h2 + h2)) (m_opened (m_mkdir t d)) (inner_all _ _ OK') W1 ltac:(discriminate) F1 Hd PT P1 P2 NC1 Sh1)
      as [t'' [h [E [W'' C]]]].
    unfold cf_body in E. exists t'', h. split; [exact E|]. split; auto.
    intros q. rewrite (C q), find_graft. reflexivity.
Qed.

Local Arguments m_copy : simpl never.
Local Arguments rm_fuel : simpl never.

(* CopyToDirectory of a directory: MkDir(dest), then the same copy *)
Lemma m_copytodir_dir_refines fa t s str d dtr r t' :
  copy_ok fa = true ->
  wf t -> is_dir (mkdirp t d) s = true -> r_copytodir t (P s str) (P d dtr) = Out r t' ->
  exists t'' h, m_copytodir fa (rm_fuel (mkdirp t d)) t (P s str) d dtr = Some (r, t'', h)
                /\ (forall q, find_entry t'' q = find_entry t' q) /\ wf t''.
Proof.
  intros OK W Ds. unfold r_copytodir, m_copytodir.
  destruct (through_file t d) eqn:Tf; [discriminate|]. destruct (is_file t d) eqn:Nf; [discriminate|]. simpl.
  destruct (arg_conflict t s str); [discriminate|].
  destruct (m_mkdir3_ok t d W Tf Nf) as [h1 E]. unfold m_mkdir3 in E. inversion E as [[E1 E2 E3]]. rewrite E1, E2.
  intros H. destruct (m_copy_dir_refines fa (mkdirp t d) s str d dtr r t' OK (wf_mkdirp _ _ W Tf Nf) Ds H) as [t'' [h [Em [Eq W'']]]].
  rewrite Em. eauto.
Qed.
