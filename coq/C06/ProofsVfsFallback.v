(* C06 - Move's fall-back, taken when the back end refuses the rename (as across devices): for a FILE (moveFile: copy, then
   remove) and for an EMPTY DIRECTORY (moveFolder: MkDir(dest), nothing to loop over, Remove(src)) moved to a missing destination,
   M gives the tree R's mv gives, as a finite map.  Needs the facts: IsDir(SRC) chooses the branch; moveFolder removes the
   source also when it was empty; and, for the file, the Copy facts.  (The recursive case, a non-empty directory, is not proved.) *)
From Coq Require Import List ZArith Bool Lia Arith.
Import ListNotations.
From GU Require Import C06.Model C06.Facts C06.Proofs C06.ProofsWf C06.Vfs C06.ProofsVfsRm C06.ProofsVfsCopy C06.ProofsVfsCopyDir.
Local Open Scope Z_scope.

Local Arguments m_exists : simpl never.
Local Arguments is_dir_b : simpl never.
Local Arguments m_mkdir3 : simpl never.
Local Arguments m_empty_b : simpl never.
Local Arguments m_copy : simpl never.
Local Arguments m_rm : simpl never.
Local Arguments rm_fuel : simpl never.
Local Arguments b_remove : simpl never.
Local Arguments path_eqb : simpl never.
Local Arguments is_prefix : simpl never.
Local Arguments mkdirp : simpl never.
Local Arguments parent : simpl never.

Lemma m_mkdir3_exists t p : exists_ t p = true -> exists h, m_mkdir3 t p = (ROk, t, h).
Proof.
  intros E. unfold m_mkdir3, m_mkdir. destruct (m_exists_pair t p) as [h ->]. rewrite E. simpl. eauto.
Qed.

Lemma children_nil_elim t s : children t s = [] ->
  forall e, In e t -> is_prefix s (fst e) && Nat.eqb (length (fst e)) (S (length s)) = false.
Proof.
  unfold children. induction t as [|x t IH]; intros H e Hin; [contradiction|]. simpl in H.
  destruct (is_prefix s (fst x) && Nat.eqb (length (fst x)) (S (length s))) eqn:B; [discriminate|].
  destruct Hin as [->|Hin]; auto.
Qed.

Lemma in_add_dir t q e : In e (add_dir t q) -> In e t \/ e = (q, D).
Proof. unfold add_dir. destruct (exists_ t q); auto. intros H. apply in_app_or in H as [H|[H|[]]]; auto. Qed.

Lemma in_mkdirp t p e : In e (mkdirp t p) -> In e t \/ exists q, In q (prefixes p) /\ e = (q, D).
Proof.
  unfold mkdirp. generalize (prefixes p) as ds. intros ds. revert t. induction ds as [|d ds IH]; intros t H; simpl in H; auto.
  apply IH in H as [H|[q [Hq ->]]].
  - apply in_add_dir in H as [H| ->]; auto. right. exists d. split; auto. now left.
  - right. exists q. split; auto. now right.
Qed.

Lemma incomparable_missing t s dst : wf t -> exists_ t s = true -> dst <> [] -> find_entry t dst = None -> is_prefix dst s = false.
Proof.
  intros W Es Hd Fd. destruct (is_prefix dst s) eqn:E; auto. exfalso. unfold exists_ in Es.
  destruct s as [|a s]; [destruct dst; [congruence|discriminate]|]. rewrite lookup_nonroot in Es by discriminate.
  rewrite (wf_free_below t dst (a :: s) W Hd Fd E) in Es. discriminate.
Qed.

(* ---------- a file ---------- *)

Lemma m_move_fallback_file fa t s dst c f :
  copy_ok fa = true -> f_move_fallback_isdir_src fa = true ->
  wf t -> s <> [] -> dst <> [] -> find_entry t s = Some (F c) -> find_entry t dst = None -> is_dir t (parent dst) = true ->
  is_prefix s dst = false ->
  exists t'' h, m_move_raw fa true (S f) t s dst = Some (ROk, t'', h) /\ (forall q, find_entry t'' q = find_entry (rename_sub t s dst) q).
Proof.
  intros OKc Fsrc W Hs Hd Fs Fd Pd P1.
  assert (Es : exists_ t s = true) by (unfold exists_; rewrite lookup_nonroot, Fs; auto).
  pose proof (incomparable_missing t s dst W Es Hd Fd) as P2.
  assert (Ne : path_eqb s dst = false) by (apply path_eqb_neq; intros ->; congruence).
  assert (Ep : exists_ t (parent dst) = true) by now apply is_dir_exists'.
  (* the copy, as R's cp of a file to a missing name whose parent exists *)
  assert (Rc : r_copy t (P s false) (P dst false) = Out ROk (set_file t dst c)).
  { unfold r_copy, parg_eqb. rewrite Ne. simpl. unfold arg_conflict. rewrite !andb_false_l, !orb_false_r.
    assert (T1 : through_file t s = false).
    { apply through_file_intro. intros q A. apply is_dir_not_file. apply (wf_anc_dir t s); auto. }
    rewrite T1, (through_file_of_dir_parent t dst W Pd). simpl. rewrite lookup_nonroot, Fs by auto.
    assert (Nd : is_dir t dst = false) by (rewrite is_dir_nonroot, Fd; auto).
    assert (Nx : exists_ t dst = false) by (unfold exists_; rewrite lookup_nonroot, Fd; auto).
    rewrite Nd, Nx, (mkdirp_exists_id t (parent dst) W Ep), (path_eqb_sym dst s), Ne, Nd. reflexivity. }
  assert (Nds : is_dir t s = false) by (rewrite is_dir_nonroot, Fs; auto).
  destruct (m_copy_file_refines fa t s false dst false ROk _ f OKc W Nds Rc) as [hc Ec].
  unfold m_move_raw; fold (m_move_raw fa true). rewrite Ne. destruct (m_mkdir3_exists t (parent dst) Ep) as [hm Emk]. rewrite Emk, Fsrc. cbv iota.
  destruct (m_exists_pair t s) as [h2 ->]. rewrite Es. simpl.
  change (is_dir_b t s) with (is_dir t s). rewrite Nds, Ec.
  (* the removal of the source *)
  assert (Ch : children (set_file t dst c) s = []).
  { apply children_nil_intro. intros e Hin. unfold set_file in Hin. apply in_app_or in Hin as [Hin|[<-|[]]].
    - apply filter_In in Hin as [Hin _]. exact (children_nil_elim t s (file_no_children t s c W Hs Fs) e Hin).
    - simpl. destruct (is_prefix s dst); [discriminate|reflexivity]. }
  unfold b_remove. rewrite Ch. eexists _, _. split; [reflexivity|].
  intros q. rewrite (find_entry_filter (fun k => negb (path_eqb s k))), find_set_file, find_rename.
  destruct (path_eqb s q) eqn:Eq; simpl.
  - apply path_eqb_eq in Eq. subst q. rewrite is_prefix_refl, P2. reflexivity.
  - destruct (path_eqb dst q) eqn:Ed.
    + apply path_eqb_eq in Ed. subst q. rewrite P1, Fd, is_prefix_refl. unfold unroot. rewrite skipn_all, app_nil_r by lia. now rewrite Fs.
    + destruct (is_prefix s q) eqn:Sq.
      * (* nothing lies below a file *)
        assert (Fq : find_entry t q = None).
        { destruct (find_entry t q) eqn:Fq; auto. exfalso. apply path_eqb_neq in Eq.
          assert (is_dir t s = true) by (eapply (proj1 (wf_iff _) W); [exact Fq|]; apply prefix_anc; auto).
          congruence. }
        rewrite Fq. destruct (is_prefix dst q) eqn:Dq; auto.
        destruct (prefix_comparable _ _ _ Sq Dq); congruence.
      * destruct (find_entry t q) eqn:Fq; auto. destruct (is_prefix dst q) eqn:Dq; auto.
        apply is_prefix_spec in Dq as [r ->]. rewrite unroot_app. destruct r as [|y r]; [rewrite app_nil_r, path_eqb_refl in Ed; discriminate|].
        destruct (find_entry t (s ++ y :: r)) eqn:Fb; auto. exfalso.
        assert (is_dir t s = true) by (eapply (proj1 (wf_iff _) W); [exact Fb|]; split; eauto). congruence.
Qed.

(* ---------- an empty directory ---------- *)

Lemma m_move_fallback_empty_dir fa t s dst f :
  f_move_fallback_isdir_src fa = true -> f_movefolder_always_removes_src fa = true ->
  wf t -> s <> [] -> dst <> [] -> find_entry t s = Some D -> children t s = [] -> find_entry t dst = None ->
  is_dir t (parent dst) = true -> is_prefix s dst = false ->
  exists t'' h, m_move_raw fa true (S f) t s dst = Some (ROk, t'', h) /\ (forall q, find_entry t'' q = find_entry (rename_sub t s dst) q).
Proof.
  intros Fsrc Frm W Hs Hd Fs Ch Fd Pd P1.
  assert (Es : exists_ t s = true) by (unfold exists_; rewrite lookup_nonroot, Fs; auto).
  pose proof (incomparable_missing t s dst W Es Hd Fd) as P2.
  assert (Ne : path_eqb s dst = false) by (apply path_eqb_neq; intros ->; congruence).
  assert (Ep : exists_ t (parent dst) = true) by now apply is_dir_exists'.
  assert (Tf : through_file t dst = false) by now apply through_file_of_dir_parent.
  assert (Nf : is_file t dst = false) by (unfold is_file; rewrite lookup_nonroot, Fd; auto).
  unfold m_move_raw; fold (m_move_raw fa true). rewrite Ne. destruct (m_mkdir3_exists t (parent dst) Ep) as [hm Emk]. rewrite Emk, Fsrc, Frm. cbv iota.
  destruct (m_exists_pair t s) as [h2 ->]. rewrite Es. cbn [negb]. cbv iota.
  change (is_dir_b t s) with (is_dir t s). rewrite (is_dir_nonroot t s Hs), Fs. cbv iota.
  destruct (m_mkdir3_ok t dst W Tf Nf) as [h3 Emk2]. rewrite Emk2. cbv iota.
  set (t2 := mkdirp t dst).
  assert (W2 : wf t2) by now apply wf_mkdirp.
  assert (Same : forall q, q <> dst -> find_entry t2 q = find_entry t q) by (intros; now apply mkdirp_only_last).
  assert (F2 : find_entry t2 s = Some D) by (rewrite Same; auto; intros ->; congruence).
  assert (Ch2 : children t2 s = []).
  { apply children_nil_intro. intros e Hin. apply in_mkdirp in Hin as [Hin|[q [Hq ->]]].
    - exact (children_nil_elim t s Ch e Hin).
    - simpl. destruct (is_prefix s q) eqn:Sq; auto. apply in_prefixes in Hq as [Hq _].
      rewrite (is_prefix_trans _ _ _ Sq Hq) in P1. discriminate. }
  rewrite (m_empty_b_dir' t2 s) by (rewrite lookup_nonroot; auto). rewrite Ch2. cbn [negb orb]. cbv iota.
  destruct (m_rm_refines t2 s W2 Hs) as [h5 ->]. eexists _, _. split; [reflexivity|].
  intros q. rewrite find_remove_sub, find_rename.
  destruct (is_prefix s q) eqn:Sq.
  - destruct (is_prefix dst q) eqn:Dq; auto. destruct (prefix_comparable _ _ _ Sq Dq); congruence.
  - destruct (path_eqb dst q) eqn:Ed.
    + apply path_eqb_eq in Ed. subst q. rewrite Fd, is_prefix_refl. unfold unroot. rewrite skipn_all, app_nil_r by lia. rewrite Fs.
      apply is_dir_find; auto. apply mkdirp_is_dir; auto using is_prefix_refl.
    + apply path_eqb_neq in Ed. rewrite Same by congruence. destruct (find_entry t q) eqn:Fq; auto.
      destruct (is_prefix dst q) eqn:Dq; auto. apply is_prefix_spec in Dq as [r ->]. rewrite unroot_app.
      destruct r as [|y r]; [rewrite app_nil_r in Ed; congruence|].
      destruct (find_entry t (s ++ y :: r)) eqn:Fb; auto. exfalso.
      pose proof (child_in t s y (wf_step_exists _ _ _ _ _ W (find_entry_in _ _ _ Fb))) as X. rewrite Ch in X. contradiction.
Qed.
