(* C06 — M refines R on every call free of kind conflicts, and balances its handles. *)
From Coq Require Import List ZArith Bool Lia.
Import ListNotations.
From GU Require Import C06.Model C06.Proofs C06.Vfs.
Local Open Scope Z_scope.

Lemma add_dir_id t q : exists_ t q = true -> add_dir t q = t.
Proof. unfold add_dir. now intros ->. Qed.

Lemma fold_add_dir_id ds : forall t, (forall q, In q ds -> exists_ t q = true) -> fold_left add_dir ds t = t.
Proof.
  induction ds as [|d ds IH]; intros t H; simpl; auto.
  rewrite add_dir_id by (apply H; now left). apply IH. intros q Hq. apply H. now right.
Qed.

(* mkdir -p of something that exists in a well-formed tree changes nothing *)
Lemma mkdirp_exists_id t p : wf t -> exists_ t p = true -> mkdirp t p = t.
Proof.
  intros W H. unfold mkdirp. apply fold_add_dir_id. intros q Hq.
  destruct p as [|a p]; [contradiction|].
  unfold exists_ in H. rewrite lookup_nonroot in H by discriminate.
  destruct (find_entry t (a :: p)) eqn:E; [|discriminate]. eapply W; eauto.
Qed.

Lemma filter_filter_same {A} (f : A -> bool) l : filter f (filter f l) = filter f l.
Proof. induction l as [|x l IH]; simpl; auto. destruct (f x) eqn:E; simpl; rewrite ?E, IH; auto. Qed.

Lemma set_file_twice t p c c' : set_file (set_file t p c) p c' = set_file t p c'.
Proof.
  unfold set_file. rewrite filter_app, filter_filter_same. simpl. rewrite path_eqb_refl. simpl. now rewrite app_nil_r.
Qed.

Ltac inv H := inversion H; subst; clear H.

Lemma m_refines_r_l t c m r t' :
  wf t -> m_exec t c = Some m -> exec t c = Out r t' -> m_r m = r /\ m_t m = t'.
Proof.
  intros W Hm Hr. destruct c; simpl in Hm; try discriminate; destruct p as [|p tr]; try discriminate; simpl in Hr.
  - (* mkdir *) inv Hm. unfold m_mkdir, m_exists, b_stat, b_mkdirall.
    destruct (through_file t p || is_file t p) eqn:C; [discriminate|]. inv Hr.
    apply orb_false_iff in C as [C1 C2]. unfold is_file in C2.
    destruct (lookup t p) as [[c|]|] eqn:L; try discriminate; simpl; try (split; auto).
    symmetry. apply mkdirp_exists_id; auto. unfold exists_. now rewrite L.
  - (* touch *) inv Hm. unfold m_touch, m_exists, b_stat.
    destruct (arg_conflict t p tr) eqn:C; [discriminate|].
    unfold exists_ in Hr. destruct (lookup t p) as [[c|]|] eqn:L; try (inv Hr; split; reflexivity).
    destruct tr.
    + inv Hr. unfold m_mkdir, m_exists, b_stat, b_mkdirall. rewrite L.
      unfold arg_conflict in C. simpl in C. rewrite C. simpl. split; reflexivity.
    + unfold b_create. assert (Dp : is_dir t p = false) by (unfold is_dir; now rewrite L). rewrite Dp.
      destruct (is_dir t (parent p)); inv Hr; split; reflexivity.
  - (* write *) inv Hm. unfold m_write, b_create.
    destruct (through_file t p || tr || is_dir t p) eqn:C; [discriminate|].
    apply orb_false_iff in C as [_ C]. rewrite C.
    destruct (is_dir t (parent p)); inv Hr; simpl; [|split; reflexivity].
    rewrite set_file_twice. split; reflexivity.
  - (* read *) inv Hm. unfold m_read, b_stat.
    destruct (through_file t p || is_dir t p || tr && is_file t p) eqn:C; [discriminate|].
    destruct (lookup t p) as [[[|x c]|]|] eqn:L; inv Hr; try (split; reflexivity).
    apply orb_false_iff in C as [C _]. apply orb_false_iff in C as [_ C]. unfold is_dir in C. rewrite L in C. discriminate.
  - (* ls *) inv Hm. unfold m_ls, m_isdir, m_exists, b_stat, b_readdirnames.
    destruct (dir_arg_conflict t p) eqn:C; [discriminate|]. unfold is_dir in Hr.
    unfold dir_arg_conflict, is_file in C.
    destruct (lookup t p) as [[c|]|] eqn:L; simpl; inv Hr; try (split; reflexivity).
  - (* exists *) unfold m_exists, b_stat in Hm. destruct (arg_conflict t p tr); [discriminate|]. inv Hr.
    unfold exists_. destruct (lookup t' p) as [[c|]|]; inv Hm; split; reflexivity.
  - (* isfile *) unfold m_isfile, m_exists, b_stat in Hm. destruct (arg_conflict t p tr); [discriminate|]. inv Hr.
    unfold is_file. destruct (lookup t' p) as [[c|]|]; inv Hm; split; reflexivity.
  - (* isdir *) inv Hm. unfold m_isdir, m_exists, b_stat. destruct (arg_conflict t p tr); [discriminate|].
    unfold exists_, is_dir in Hr. destruct (lookup t p) as [[c|]|]; inv Hr; split; reflexivity.
  - (* isempty *) inv Hm. unfold m_isempty, m_isfile, m_exists, b_stat, b_readdirnames. destruct (arg_conflict t p tr); [discriminate|].
    destruct (lookup t p) as [[[|x c]|]|]; inv Hr; simpl; split; reflexivity.
  - (* size *) inv Hm. unfold m_size, b_stat.
    destruct (through_file t p || is_dir t p || tr && is_file t p) eqn:C; [discriminate|].
    destruct (lookup t p) as [[c|]|] eqn:L; inv Hr; try (split; reflexivity).
    apply orb_false_iff in C as [C _]. apply orb_false_iff in C as [_ C]. unfold is_dir in C. rewrite L in C. discriminate.
Qed.

(* every path through the modelled code closes what it opened *)
Ltac crush_m :=
  unfold m_mkdir, m_touch, m_write, m_read, m_ls, m_isdir, m_isempty, m_isfile, m_size, m_exists, m_mkdir, b_create, b_mkdirall, b_stat;
  repeat (simpl; match goal with
          | |- context [match ?x with _ => _ end] => destruct x
          | |- context [if ?x then _ else _] => destruct x
          end); simpl; try reflexivity; try lia.

Lemma m_handles_balanced_l t c m : m_exec t c = Some m -> m_opened m = m_closed m.
Proof.
  destruct c; simpl; try discriminate; destruct p as [|p tr]; try discriminate; intros H.
  - inv H. crush_m.
  - inv H. crush_m.
  - inv H. crush_m.
  - inv H. crush_m.
  - inv H. crush_m.
  - destruct (m_exists t p) as [e h]. inv H. reflexivity.
  - destruct (m_isfile t p) as [e h]. inv H. reflexivity.
  - inv H. crush_m.
  - inv H. crush_m.
  - inv H. crush_m.
Qed.

Lemma find_entry_in t p e : find_entry t p = Some e -> In (p, e) t.
Proof.
  induction t as [|[q x] t IH]; simpl; [discriminate|].
  destruct (path_eqb q p) eqn:E.
  - intros H. inversion H; subst. apply path_eqb_eq in E. subst. now left.
  - intros H. right. auto.
Qed.

Lemma wf_b_sound t : wf_b t = true -> wf t.
Proof.
  unfold wf_b. rewrite forallb_forall. intros H p e Hf q Hq.
  apply find_entry_in in Hf. specialize (H _ Hf). simpl in H. rewrite forallb_forall in H. auto.
Qed.
