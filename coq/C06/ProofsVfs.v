(* C06 — M refines R on every call free of kind conflicts, and balances its handles. *)
From Coq Require Import List ZArith Bool Lia.
Import ListNotations.
From GU Require Import C06.Model C06.Proofs C06.ProofsWf C06.Vfs C06.ProofsVfsRm C06.ProofsVfsCopy.
Local Open Scope Z_scope.

Ltac inv H := inversion H; subst; clear H.

Local Arguments m_rm : simpl never.
Local Arguments m_clean : simpl never.
Local Arguments rm_fuel : simpl never.
Local Arguments r_copy : simpl never.
Local Arguments r_copytofile : simpl never.
Local Arguments r_copytodir : simpl never.
Local Arguments r_move : simpl never.
Local Arguments m_copy : simpl never.
Local Arguments m_copytofile : simpl never.
Local Arguments m_copytodir : simpl never.
Local Arguments m_move : simpl never.
Local Arguments m_mkdir : simpl never.

Lemma m_refines_r_l t c m r t' :
  wf t -> m_exec t c = Some m -> exec t c = Out r t' -> m_r m = r /\ m_t m = t'.
Proof.
  intros W Hm Hr. destruct c; simpl in Hm; try discriminate; destruct p as [|p tr]; try discriminate; simpl in Hr.
  - (* mkdir *) inv Hm. unfold m_mkdir, m_exists, b_stat, b_mkdirall.
    destruct (through_file t p || is_file t p) eqn:C; [discriminate|]. inv Hr.
    apply orb_false_iff in C as [C1 C2]. unfold is_file in C2.
    destruct (lookup t p) as [[c|]|] eqn:L; try discriminate; simpl; try (split; auto).
    symmetry. apply mkdirp_exists_id; auto. unfold exists_. now rewrite L.
  - (* touch *) inv Hm. unfold m_touch, m_exists, b_stat.
    destruct (arg_conflict t p tr) eqn:C; [discriminate|].
    unfold exists_ in Hr. destruct (lookup t p) as [[c|]|] eqn:L; try (inv Hr; split; reflexivity).
    destruct tr.
    + inv Hr. unfold m_mkdir, m_exists, b_stat, b_mkdirall. rewrite L.
      unfold arg_conflict in C. simpl in C. rewrite C. simpl. split; reflexivity.
    + unfold b_create. assert (Dp : is_dir t p = false) by (unfold is_dir; now rewrite L). rewrite Dp.
      destruct (is_dir t (parent p)); inv Hr; split; reflexivity.
  - (* write *) inv Hm. unfold m_write, b_create.
    destruct (through_file t p || tr || is_dir t p) eqn:C; [discriminate|].
    apply orb_false_iff in C as [_ C]. rewrite C.
    destruct (is_dir t (parent p)); inv Hr; simpl; [|split; reflexivity].
    rewrite set_file_twice. split; reflexivity.
  - (* read *) inv Hm. unfold m_read, b_stat.
    destruct (through_file t p || is_dir t p || tr && is_file t p) eqn:C; [discriminate|].
    destruct (lookup t p) as [[[|x c]|]|] eqn:L; inv Hr; try (split; reflexivity).
    apply orb_false_iff in C as [C _]. apply orb_false_iff in C as [_ C]. unfold is_dir in C. rewrite L in C. discriminate.
  - (* ls *) inv Hm. unfold m_ls, m_isdir, m_exists, b_stat, b_readdirnames.
    destruct (dir_arg_conflict t p) eqn:C; [discriminate|]. unfold is_dir in Hr.
    unfold dir_arg_conflict, is_file in C.
    destruct (lookup t p) as [[c|]|] eqn:L; simpl; inv Hr; try (split; reflexivity).
  - (* subdirs *) inv Hm. unfold m_subdirs, b_stat, b_readdirnames.
    destruct (dir_arg_conflict t p) eqn:C; [discriminate|]. unfold is_dir in Hr.
    unfold dir_arg_conflict, is_file in C.
    destruct (lookup t p) as [[c|]|] eqn:L; simpl; inv Hr; try (split; reflexivity).
    + rewrite orb_true_r in C. discriminate.
    + split; [|reflexivity]. f_equal. f_equal. apply filter_ext. intros n. apply andb_comm.
  - (* exists *) unfold m_exists, b_stat in Hm. destruct (arg_conflict t p tr); [discriminate|]. inv Hr.
    unfold exists_. destruct (lookup t' p) as [[c|]|]; inv Hm; split; reflexivity.
  - (* isfile *) unfold m_isfile, m_exists, b_stat in Hm. destruct (arg_conflict t p tr); [discriminate|]. inv Hr.
    unfold is_file. destruct (lookup t' p) as [[c|]|]; inv Hm; split; reflexivity.
  - (* isdir *) inv Hm. unfold m_isdir, m_exists, b_stat. destruct (arg_conflict t p tr); [discriminate|].
    unfold exists_, is_dir in Hr. destruct (lookup t p) as [[c|]|]; inv Hr; split; reflexivity.
  - (* isempty *) inv Hm. unfold m_isempty, m_isfile, m_exists, b_stat, b_readdirnames. destruct (arg_conflict t p tr); [discriminate|].
    destruct (lookup t p) as [[[|x c]|]|]; inv Hr; simpl; split; reflexivity.
  - (* size *) inv Hm. unfold m_size, b_stat.
    destruct (through_file t p || is_dir t p || tr && is_file t p) eqn:C; [discriminate|].
    destruct (lookup t p) as [[c|]|] eqn:L; inv Hr; try (split; reflexivity).
    apply orb_false_iff in C as [C _]. apply orb_false_iff in C as [_ C]. unfold is_dir in C. rewrite L in C. discriminate.
  - (* rm *) destruct p as [|a p]; [discriminate|].
    destruct (m_rm_refines t (a :: p) W ltac:(discriminate)) as [h E]. rewrite E in Hm. simpl in Hm. inv Hm.
    destruct (arg_conflict t (a :: p) tr); inv Hr. split; reflexivity.
  - (* clean *) destruct (dir_arg_conflict t p) eqn:C; [discriminate|]. inv Hr.
    destruct (m_clean_refines t p W C) as [h E]. rewrite E in Hm. simpl in Hm. inv Hm. split; reflexivity.
  - (* copy of a file *) destruct q as [|d dtr]; [discriminate|]. destruct (is_dir_b t p) eqn:Sd; [discriminate|].
    unfold rm_fuel in Hm. destruct (m_copy_file_refines t p tr d dtr r t' (length t) W Sd Hr) as [h E].
    rewrite E in Hm. simpl in Hm. inv Hm. split; reflexivity.
  - (* copytofile *) destruct q as [|d dtr]; [discriminate|].
    unfold rm_fuel in Hm. destruct (m_copytofile_refines t p tr d dtr r t' (length t) W Hr) as [h E].
    rewrite E in Hm. simpl in Hm. inv Hm. split; reflexivity.
  - (* copytodir of a file *) destruct q as [|d dtr]; [discriminate|].
    destruct (is_dir_b (m_t (m_mkdir t d)) p) eqn:Sd; [discriminate|].
    assert (T1 : m_t (m_mkdir t d) = mkdirp t d).
    { unfold r_copytodir in Hr. destruct (through_file t d) eqn:Tf; [discriminate|]. destruct (is_file t d) eqn:Nf; [discriminate|].
      destruct (m_mkdir3_ok t d W Tf Nf) as [h1 E]. unfold m_mkdir3 in E. now inversion E. }
    rewrite T1 in Sd. unfold rm_fuel in Hm.
    destruct (m_copytodir_file_refines t p tr d dtr r t' (length (m_t (m_mkdir t d))) W Sd Hr) as [h E].
    rewrite E in Hm. simpl in Hm. inv Hm. split; reflexivity.
  - (* move *) destruct p as [|n s]; [discriminate|]. destruct q as [|d dtr]; [discriminate|].
    unfold rm_fuel in Hm. destruct (m_move_refines t n s tr d dtr r t' (length t) W Hr) as [h E].
    rewrite E in Hm. simpl in Hm. inv Hm. split; reflexivity.
Qed.

(* every path through the modelled code closes what it opened *)
Ltac crush_m :=
  unfold m_mkdir, m_touch, m_write, m_read, m_ls, m_isdir, m_isempty, m_isfile, m_size, m_exists, m_mkdir, b_create, b_mkdirall, b_stat;
  repeat (simpl; match goal with
          | |- context [match ?x with _ => _ end] => destruct x
          | |- context [if ?x then _ else _] => destruct x
          end); simpl; try reflexivity; try lia.

Lemma m_handles_balanced_l t c m : m_exec t c = Some m -> m_opened m = m_closed m.
Proof.
  destruct c; simpl; try discriminate; destruct p as [|p tr]; try discriminate; intros H.
  - inv H. crush_m.
  - inv H. crush_m.
  - inv H. crush_m.
  - inv H. crush_m.
  - inv H. crush_m.
  - inv H. unfold m_subdirs. destruct (b_stat t p) as [[|]|]; reflexivity.
  - destruct (m_exists t p) as [e h]. inv H. reflexivity.
  - destruct (m_isfile t p) as [e h]. inv H. reflexivity.
  - inv H. crush_m.
  - inv H. crush_m.
  - inv H. crush_m.
  - destruct p as [|a p]; [discriminate|]. destruct (m_rm (rm_fuel t) t (a :: p)) as [[[r t'] h]|]; inv H. reflexivity.
  - destruct (m_clean (rm_fuel t) t p) as [[[r t'] h]|]; inv H. reflexivity.
  - destruct q as [|d dtr]; [discriminate|]. destruct (is_dir_b t p); [discriminate|].
    destruct (m_copy (rm_fuel t) t p tr d dtr) as [[[r t'] h]|]; inv H. reflexivity.
  - destruct q as [|d dtr]; [discriminate|]. destruct (m_copytofile (rm_fuel t) t p tr d dtr) as [[[r t'] h]|]; inv H. reflexivity.
  - destruct q as [|d dtr]; [discriminate|]. destruct (is_dir_b (m_t (m_mkdir t d)) p); [discriminate|].
    destruct (m_copytodir (rm_fuel (m_t (m_mkdir t d))) t (P p tr) d dtr) as [[[r t'] h]|]; inv H. reflexivity.
  - destruct p as [|n s]; [discriminate|]. destruct q as [|d dtr]; [discriminate|].
    destruct (m_move (rm_fuel t) t (n :: s) tr d dtr) as [[[r t'] h]|]; inv H. reflexivity.
Qed.

Lemma wf_b_sound t : wf_b t = true -> wf t.
Proof.
  unfold wf_b. rewrite forallb_forall. intros H p e Hf q Hq.
  apply find_entry_in in Hf. specialize (H _ Hf). simpl in H. rewrite forallb_forall in H. auto.
Qed.

(* ---------- programs: the refinement needs wf only of the INITIAL tree (R preserves it, ProofsWf.v) ---------- *)

Lemma m_program_refines_r_l cs : forall t rs t' x,
  wf t -> run_res t cs = Some (rs, t') -> m_run t cs = Some x ->
  exists o, x = (rs, t', o, o).
Proof.
  induction cs as [|c cs IH]; intros t rs t' x W Hr Hm; simpl in *.
  - inversion Hr; inversion Hm; subst. now exists O.
  - destruct (exec t c) as [|r t1] eqn:E; [discriminate|].
    destruct (run_res t1 cs) as [[rs1 t2]|] eqn:R1; [|discriminate]. inversion Hr; subst; clear Hr.
    destruct (m_exec t c) as [m|] eqn:M; [|discriminate].
    destruct (m_refines_r_l t c m r t1 W M E) as [Er Et].
    pose proof (m_handles_balanced_l t c m M) as Hb.
    destruct (m_run (m_t m) cs) as [[[[rs2 t3] o] cl]|] eqn:M1; [|discriminate]. inversion Hm; subst; clear Hm.
    destruct (IH (m_t m) rs1 t' _ (exec_preserves_wf_l _ _ _ _ W E) R1 M1) as [o' X]. inversion X; subst.
    rewrite Hb. now exists (m_closed m + o')%nat.
Qed.

(* ---------- everything M models, the recursive directory copy included: refinement as finite maps ---------- *)
From GU Require Import C06.ProofsVfsCopyDir.

Lemma m_all_refines_r_l t c m r t' :
  wf t -> m_exec_all t c = Some m -> exec t c = Out r t' ->
  m_r m = r /\ (forall q, find_entry (m_t m) q = find_entry t' q) /\ wf (m_t m) /\ m_opened m = m_closed m.
Proof.
  intros W Hm Hr.
  assert (Base : m_exec t c = Some m -> m_r m = r /\ (forall q, find_entry (m_t m) q = find_entry t' q) /\ wf (m_t m) /\ m_opened m = m_closed m).
  { intros H. destruct (m_refines_r_l t c m r t' W H Hr) as [E1 E2]. rewrite E2. repeat split; auto.
    - eapply exec_preserves_wf_l; eauto.
    - eapply m_handles_balanced_l; eauto. }
  destruct c; try (apply Base; exact Hm).
  - (* copy *) destruct p as [|s str]; [apply Base; exact Hm|]. destruct q as [|d dtr]; [apply Base; exact Hm|].
    destruct (is_dir_b t s) eqn:Sd.
    + simpl in Hm, Hr. destruct (m_copy_dir_refines t s str d dtr r t' W Sd Hr) as [t'' [h [E [Eq W'']]]].
      rewrite E in Hm. simpl in Hm. inv Hm. simpl. auto.
    + apply Base. simpl in *. now rewrite Sd.
  - (* copytodir *) destruct q as [|d dtr]; [apply Base; exact Hm|]. destruct p as [|s str].
    + (* the empty source: not found after the MkDir; compared with R directly *)
      simpl in Hm, Hr. unfold r_copytodir in Hr. unfold m_copytodir in Hm.
      destruct (through_file t d) eqn:Tf; [discriminate|]. destruct (is_file t d) eqn:Nf; [discriminate|]. simpl in Hr.
      destruct (m_mkdir3_ok t d W Tf Nf) as [h1 E]. unfold m_mkdir3 in E. inversion E as [[E1 E2 E3]].
      unfold m_mkdir3 in Hm. rewrite E1, E2 in Hm. simpl in Hm. inv Hm. simpl.
      unfold r_copy in Hr. simpl in Hr. inv Hr. repeat split; auto. now apply wf_mkdirp.
    + destruct (is_dir_b (m_t (m_mkdir t d)) s) eqn:Sd.
      * simpl in Hm, Hr.
        assert (T1 : m_t (m_mkdir t d) = mkdirp t d).
        { unfold r_copytodir in Hr. destruct (through_file t d) eqn:Tf; [discriminate|]. destruct (is_file t d) eqn:Nf; [discriminate|].
          destruct (m_mkdir3_ok t d W Tf Nf) as [h1 E]. unfold m_mkdir3 in E. now inversion E. }
        rewrite T1 in *.
        destruct (m_copytodir_dir_refines t s str d dtr r t' W Sd Hr) as [t'' [h [E [Eq W'']]]].
        rewrite E in Hm. simpl in Hm. inv Hm. simpl. auto.
      * apply Base. simpl in *. now rewrite Sd.
Qed.
