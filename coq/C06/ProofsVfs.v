(* C06 — M refines R on every call free of kind conflicts, and balances its handles. *)
From Coq Require Import List ZArith Bool Lia.
Import ListNotations.
From GU Require Import C06.Model C06.Facts C06.Proofs C06.ProofsWf C06.Vfs C06.ProofsVfsRm C06.ProofsVfsCopy C06.ProofsVfsHandles.
Local Open Scope Z_scope.

Ltac inv H := inversion H; subst; clear H.

Local Arguments m_rm : simpl never.
Local Arguments m_clean : simpl never.
Local Arguments rm_fuel : simpl never.
Local Arguments r_copy : simpl never.
Local Arguments r_copytofile : simpl never.
Local Arguments r_copytodir : simpl never.
Local Arguments r_move : simpl never.
Local Arguments m_copy : simpl never.
Local Arguments m_copytofile : simpl never.
Local Arguments m_copytodir : simpl never.
Local Arguments m_move : simpl never.
Local Arguments m_mkdir : simpl never.

(* ---------- calls on the empty name (needs: the checkPathIsNotEmpty guards) ---------- *)

Definition is_empty_call (c : call) : bool :=
  match c with
  | Exists PEmpty | IsFile PEmpty | IsDir PEmpty | IsEmpty PEmpty | Size PEmpty | Read PEmpty | Write PEmpty _ => true
  | _ => false
  end.

Lemma m_empty_refines fa t c m r t' :
  paths_ok fa = true -> is_empty_call c = true -> m_exec fa t c = Some m -> exec t c = Out r t' -> m_r m = r /\ m_t m = t'.
Proof.
  intros OK Ec Hm Hr. unfold paths_ok in OK. apply andb_true_iff in OK as [OK O3]. apply andb_true_iff in OK as [O1 O2].
  destruct c; try discriminate Ec; destruct p; try discriminate Ec; simpl in Hm, Hr; rewrite ?O1, ?O2, ?O3 in Hm;
    inversion Hm; subst m; inversion Hr; subst; split; reflexivity.
Qed.

(* ---------- WriteFile (needs: O_CREATE and O_TRUNC) ---------- *)

Lemma skipn_nil' {A} n : skipn n (@nil A) = [].
Proof. destruct n; reflexivity. Qed.

Lemma m_write_refines fa t p tr c r t' :
  write_ok fa = true -> r_write t (P p tr) c = Out r t' -> m_r (m_write fa t p c) = r /\ m_t (m_write fa t p c) = t'.
Proof.
  intros OK. unfold write_ok in OK. apply andb_true_iff in OK as [O1 O2]. unfold r_write, m_write. rewrite O1, O2.
  destruct (through_file t p || tr || is_dir t p) eqn:C; [discriminate|].
  apply orb_false_iff in C as [_ C]. rewrite C.
  destruct (is_dir t (parent p)); simpl; intros Hr; inversion Hr; subst r t'; clear Hr; [|split; reflexivity].
  destruct (lookup t p) as [[old|]|]; rewrite skipn_nil', app_nil_r, set_file_twice; destruct c; split; reflexivity.
Qed.

Lemma m_refines_r_l fa t c m r t' :
  move_ok fa = true -> copy_ok fa = true -> write_ok fa = true -> paths_ok fa = true ->
  wf t -> m_exec fa t c = Some m -> exec t c = Out r t' -> m_r m = r /\ m_t m = t'.
Proof.
  intros OKm OKc OKw OKp W Hm Hr.
  destruct (is_empty_call c) eqn:Ec; [eapply m_empty_refines; eauto|].
  destruct c; simpl in Hm; try discriminate; destruct p as [|p tr]; try (simpl in Ec; discriminate Ec); try discriminate; simpl in Hr.
  - (* mkdir *) inv Hm. unfold m_mkdir, m_exists, b_stat, b_mkdirall.
    destruct (through_file t p || is_file t p) eqn:C; [discriminate|]. inv Hr.
    apply orb_false_iff in C as [C1 C2]. unfold is_file in C2.
    destruct (lookup t p) as [[c|]|] eqn:L; try discriminate; simpl; try (split; auto).
    symmetry. apply mkdirp_exists_id; auto. unfold exists_. now rewrite L.
  - (* touch *) inv Hm. unfold m_touch, m_exists, b_stat.
    destruct (arg_conflict t p tr) eqn:C; [discriminate|].
    unfold exists_ in Hr. destruct (lookup t p) as [[c|]|] eqn:L; try (inv Hr; split; reflexivity).
    destruct tr.
    + inv Hr. unfold m_mkdir, m_exists, b_stat, b_mkdirall. rewrite L.
      unfold arg_conflict in C. simpl in C. rewrite C. simpl. split; reflexivity.
    + unfold b_create. assert (Dp : is_dir t p = false) by (unfold is_dir; now rewrite L). rewrite Dp.
      destruct (is_dir t (parent p)); inv Hr; split; reflexivity.
  - (* write *) inv Hm. eapply m_write_refines; eauto.
  - (* read *) inv Hm. unfold m_read, b_stat.
    destruct (through_file t p || is_dir t p || tr && is_file t p) eqn:C; [discriminate|].
    destruct (lookup t p) as [[[|x c]|]|] eqn:L; inv Hr; try (split; reflexivity).
    apply orb_false_iff in C as [C _]. apply orb_false_iff in C as [_ C]. unfold is_dir in C. rewrite L in C. discriminate.
  - (* ls *) inv Hm. unfold m_ls, m_isdir, m_exists, b_stat, b_readdirnames.
    destruct (dir_arg_conflict t p) eqn:C; [discriminate|]. unfold is_dir in Hr.
    unfold dir_arg_conflict, is_file in C.
    destruct (lookup t p) as [[c|]|] eqn:L; simpl; inv Hr; try (split; reflexivity).
  - (* subdirs *) inv Hm. unfold m_subdirs, b_stat, b_readdirnames.
    destruct (dir_arg_conflict t p) eqn:C; [discriminate|]. unfold is_dir in Hr.
    unfold dir_arg_conflict, is_file in C.
    destruct (lookup t p) as [[c|]|] eqn:L; simpl; inv Hr; try (split; reflexivity).
    + rewrite orb_true_r in C. discriminate.
    + split; [|reflexivity]. f_equal. f_equal. apply filter_ext. intros n. apply andb_comm.
  - (* exists *) unfold m_exists, b_stat in Hm. destruct (arg_conflict t p tr); [discriminate|]. inv Hr.
    unfold exists_. destruct (lookup t' p) as [[c|]|]; inv Hm; split; reflexivity.
  - (* isfile *) unfold m_isfile, m_exists, b_stat in Hm. destruct (arg_conflict t p tr); [discriminate|]. inv Hr.
    unfold is_file. destruct (lookup t' p) as [[c|]|]; inv Hm; split; reflexivity.
  - (* isdir *) inv Hm. unfold m_isdir, m_exists, b_stat. destruct (arg_conflict t p tr); [discriminate|].
    unfold exists_, is_dir in Hr. destruct (lookup t p) as [[c|]|]; inv Hr; split; reflexivity.
  - (* isempty *) inv Hm. unfold m_isempty, m_isfile, m_exists, b_stat, b_readdirnames. destruct (arg_conflict t p tr); [discriminate|].
    destruct (lookup t p) as [[[|x c]|]|]; inv Hr; simpl; split; reflexivity.
  - (* size *) inv Hm. unfold m_size, b_stat.
    destruct (through_file t p || is_dir t p || tr && is_file t p) eqn:C; [discriminate|].
    destruct (lookup t p) as [[c|]|] eqn:L; inv Hr; try (split; reflexivity).
    apply orb_false_iff in C as [C _]. apply orb_false_iff in C as [_ C]. unfold is_dir in C. rewrite L in C. discriminate.
  - (* rm *) destruct p as [|a p]; [discriminate|].
    destruct (m_rm_refines t (a :: p) W ltac:(discriminate)) as [h E]. rewrite E in Hm. simpl in Hm. inv Hm.
    destruct (arg_conflict t (a :: p) tr); inv Hr. split; reflexivity.
  - (* clean *) destruct (dir_arg_conflict t p) eqn:C; [discriminate|]. inv Hr.
    destruct (m_clean_refines t p W C) as [h E]. rewrite E in Hm. simpl in Hm. inv Hm. split; reflexivity.
  - (* copy of a file *) destruct q as [|d dtr]; [discriminate|]. destruct (is_dir_b t p) eqn:Sd; [discriminate|].
    unfold rm_fuel in Hm. destruct (m_copy_file_refines fa t p tr d dtr r t' (length t) OKc W Sd Hr) as [h E].
    rewrite E in Hm. simpl in Hm. inv Hm. split; reflexivity.
  - (* copytofile *) destruct q as [|d dtr]; [discriminate|].
    unfold rm_fuel in Hm. destruct (m_copytofile_refines fa t p tr d dtr r t' (length t) OKc W Hr) as [h E].
    rewrite E in Hm. simpl in Hm. inv Hm. split; reflexivity.
  - (* copytodir of a file *) destruct q as [|d dtr]; [discriminate|].
    destruct (is_dir_b (m_t (m_mkdir t d)) p) eqn:Sd; [discriminate|].
    assert (T1 : m_t (m_mkdir t d) = mkdirp t d).
    { unfold r_copytodir in Hr. destruct (through_file t d) eqn:Tf; [discriminate|]. destruct (is_file t d) eqn:Nf; [discriminate|].
      destruct (m_mkdir3_ok t d W Tf Nf) as [h1 E]. unfold m_mkdir3 in E. now inversion E. }
    rewrite T1 in Sd. unfold rm_fuel in Hm.
    destruct (m_copytodir_file_refines fa t p tr d dtr r t' (length (m_t (m_mkdir t d))) OKc W Sd Hr) as [h E].
    rewrite E in Hm. simpl in Hm. inv Hm. split; reflexivity.
  - (* move *) destruct p as [|n s]; [discriminate|]. destruct q as [|d dtr]; [discriminate|].
    unfold rm_fuel in Hm. destruct (m_move_refines fa t n s tr d dtr r t' (length t) OKm W Hr) as [h E].
    rewrite E in Hm. simpl in Hm. inv Hm. split; reflexivity.
Qed.

(* every path through the modelled code closes what it opened *)
Ltac crush_m :=
  unfold m_mkdir, m_touch, m_write, m_read, m_ls, m_isdir, m_isempty, m_isfile, m_size, m_exists, m_mkdir, b_create, b_mkdirall, b_stat;
  repeat (simpl; match goal with
          | |- context [match ?x with _ => _ end] => destruct x
          | |- context [if ?x then _ else _] => destruct x
          end); simpl; try reflexivity; try lia.

Lemma m_handles_balanced_l fa t c m : handles_ok fa = true -> m_exec fa t c = Some m -> m_opened m = m_closed m.
Proof.
  intros OK. unfold handles_ok in OK. apply andb_true_iff in OK as [OK Ow]. apply andb_true_iff in OK as [Os _].
  destruct (is_empty_call c) eqn:Ec.
  { destruct c; try discriminate Ec; destruct p; try discriminate Ec; simpl; intros H; inv H;
      repeat match goal with |- context [if ?x then _ else _] => destruct x end; reflexivity. }
  destruct c; simpl; try discriminate; destruct p as [|p tr]; try (simpl in Ec; discriminate Ec); try discriminate; intros H.
  - inv H. crush_m.
  - inv H. crush_m.
  - inv H. unfold m_write. rewrite Ow. crush_m.
  - inv H. crush_m.
  - inv H. crush_m.
  - inv H. unfold m_subdirs. destruct (b_stat t p) as [[|]|]; reflexivity.
  - destruct (m_exists t p) as [e h]. inv H. reflexivity.
  - destruct (m_isfile t p) as [e h]. inv H. reflexivity.
  - inv H. crush_m.
  - inv H. crush_m.
  - inv H. crush_m.
  - destruct p as [|a p]; [discriminate|]. destruct (m_rm (rm_fuel t) t (a :: p)) as [[[r t'] h]|]; inv H. reflexivity.
  - destruct (m_clean (rm_fuel t) t p) as [[[r t'] h]|]; inv H. reflexivity.
  - destruct q as [|d dtr]; [discriminate|]. destruct (is_dir_b t p); [discriminate|].
    destruct (m_copy fa (rm_fuel t) t p tr d dtr) as [[[r t'] h]|] eqn:E; inv H. simpl. eapply m_copy_balanced; eauto.
  - destruct q as [|d dtr]; [discriminate|]. destruct (m_copytofile fa (rm_fuel t) t p tr d dtr) as [[[r t'] h]|] eqn:E; inv H.
    simpl. eapply m_copytofile_balanced; eauto.
  - destruct q as [|d dtr]; [discriminate|]. destruct (is_dir_b (m_t (m_mkdir t d)) p); [discriminate|].
    destruct (m_copytodir fa (rm_fuel (m_t (m_mkdir t d))) t (P p tr) d dtr) as [[[r t'] h]|] eqn:E; inv H.
    simpl. eapply m_copytodir_balanced; eauto.
  - destruct p as [|n s]; [discriminate|]. destruct q as [|d dtr]; [discriminate|].
    destruct (m_move fa (rm_fuel t) t (n :: s) tr d dtr) as [[[r t'] h]|] eqn:E; inv H. simpl. eapply m_move_balanced; eauto.
Qed.

Lemma m_all_handles_balanced_l fa t c m : handles_ok fa = true -> m_exec_all fa t c = Some m -> m_opened m = m_closed m.
Proof.
  intros OK H. pose proof OK as OK'. unfold handles_ok in OK. apply andb_true_iff in OK as [OK Ow]. apply andb_true_iff in OK as [Os _].
  destruct c; try exact (m_handles_balanced_l fa t _ m OK' H).
  - destruct p as [|s str]; [exact (m_handles_balanced_l fa t _ m OK' H)|]. destruct q as [|d dtr]; [exact (m_handles_balanced_l fa t _ m OK' H)|].
    simpl in H. destruct (m_copy fa (rm_fuel t) t s str d dtr) as [[[r t'] h]|] eqn:E; inv H. simpl. eapply m_copy_balanced; eauto.
  - destruct q as [|d dtr]; [exact (m_handles_balanced_l fa t _ m OK' H)|].
    simpl in H. destruct (m_copytodir fa (rm_fuel (m_t (m_mkdir t d))) t p d dtr) as [[[r t'] h]|] eqn:E; inv H.
    simpl. eapply m_copytodir_balanced; eauto.
Qed.

Lemma wf_b_sound t : wf_b t = true -> wf t.
Proof.
  unfold wf_b. rewrite forallb_forall. intros H p e Hf q Hq.
  apply find_entry_in in Hf. specialize (H _ Hf). simpl in H. rewrite forallb_forall in H. auto.
Qed.

(* ---------- programs: the refinement needs wf only of the INITIAL tree (R preserves it, ProofsWf.v) ---------- *)

Lemma m_program_refines_r_l fa cs :
  move_ok fa = true -> copy_ok fa = true -> write_ok fa = true -> paths_ok fa = true ->
  forall t rs t' x,
  wf t -> run_res t cs = Some (rs, t') -> m_run fa t cs = Some x ->
  exists o cl, x = (rs, t', o, cl).
Proof.
  intros OKm OKc OKw OKp. induction cs as [|c cs IH]; intros t rs t' x W Hr Hm; simpl in *.
  - inversion Hr; inversion Hm; subst. now exists O, O.
  - destruct (exec t c) as [|r t1] eqn:E; [discriminate|].
    destruct (run_res t1 cs) as [[rs1 t2]|] eqn:R1; [|discriminate]. inversion Hr; subst; clear Hr.
    destruct (m_exec fa t c) as [m|] eqn:M; [|discriminate].
    destruct (m_refines_r_l fa t c m r t1 OKm OKc OKw OKp W M E) as [Er Et].
    destruct (m_run fa (m_t m) cs) as [[[[rs2 t3] o] cl]|] eqn:M1; [|discriminate]. inversion Hm; subst; clear Hm.
    destruct (IH (m_t m) rs1 t' _ (exec_preserves_wf_l _ _ _ _ W E) R1 M1) as [o' [cl' X]]. inversion X; subst.
    eauto.
Qed.

Lemma m_program_handles_balanced_l fa cs : handles_ok fa = true ->
  forall t rs t' o cl, m_run fa t cs = Some (rs, t', o, cl) -> o = cl.
Proof.
  intros OK. induction cs as [|c cs IH]; intros t rs t' o cl H; simpl in H.
  - now inversion H.
  - destruct (m_exec fa t c) as [m|] eqn:M; [|discriminate].
    destruct (m_run fa (m_t m) cs) as [[[[rs2 t3] o2] cl2]|] eqn:M1; [|discriminate]. inversion H; subst; clear H.
    rewrite (m_handles_balanced_l fa t c m OK M), (IH _ _ _ _ _ M1). reflexivity.
Qed.

(* ---------- everything M models, the recursive directory copy included: refinement as finite maps ---------- *)
From GU Require Import C06.ProofsVfsCopyDir.

Lemma m_all_refines_r_l fa t c m r t' :
  move_ok fa = true -> copy_ok fa = true -> write_ok fa = true -> paths_ok fa = true ->
  wf t -> m_exec_all fa t c = Some m -> exec t c = Out r t' ->
  m_r m = r /\ (forall q, find_entry (m_t m) q = find_entry t' q) /\ wf (m_t m).
Proof.
  intros OKm OKc OKw OKp W Hm Hr.
  assert (Base : m_exec fa t c = Some m -> m_r m = r /\ (forall q, find_entry (m_t m) q = find_entry t' q) /\ wf (m_t m)).
  { intros H. destruct (m_refines_r_l fa t c m r t' OKm OKc OKw OKp W H Hr) as [E1 E2]. rewrite E2. repeat split; auto.
    eapply exec_preserves_wf_l; eauto. }
  destruct c; try (apply Base; exact Hm).
  - (* copy *) destruct p as [|s str]; [apply Base; exact Hm|]. destruct q as [|d dtr]; [apply Base; exact Hm|].
    destruct (is_dir_b t s) eqn:Sd.
    + simpl in Hm, Hr. destruct (m_copy_dir_refines fa t s str d dtr r t' OKc W Sd Hr) as [t'' [h [E [Eq W'']]]].
      rewrite E in Hm. simpl in Hm. inv Hm. simpl. auto.
    + apply Base. simpl in *. now rewrite Sd.
  - (* copytodir *) destruct q as [|d dtr]; [apply Base; exact Hm|]. destruct p as [|s str].
    + (* the empty source: not found after the MkDir; compared with R directly *)
      simpl in Hm, Hr. unfold r_copytodir in Hr. unfold m_copytodir in Hm.
      destruct (through_file t d) eqn:Tf; [discriminate|]. destruct (is_file t d) eqn:Nf; [discriminate|]. simpl in Hr.
      destruct (m_mkdir3_ok t d W Tf Nf) as [h1 E]. unfold m_mkdir3 in E. inversion E as [[E1 E2 E3]].
      unfold m_mkdir3 in Hm. rewrite E1, E2 in Hm. simpl in Hm. inv Hm. simpl.
      unfold r_copy in Hr. simpl in Hr. inv Hr. repeat split; auto. now apply wf_mkdirp.
    + destruct (is_dir_b (m_t (m_mkdir t d)) s) eqn:Sd.
      * simpl in Hm, Hr.
        assert (T1 : m_t (m_mkdir t d) = mkdirp t d).
        { unfold r_copytodir in Hr. destruct (through_file t d) eqn:Tf; [discriminate|]. destruct (is_file t d) eqn:Nf; [discriminate|].
          destruct (m_mkdir3_ok t d W Tf Nf) as [h1 E]. unfold m_mkdir3 in E. now inversion E. }
        rewrite T1 in *.
        destruct (m_copytodir_dir_refines fa t s str d dtr r t' OKc W Sd Hr) as [t'' [h [E [Eq W'']]]].
        rewrite E in Hm. simpl in Hm. inv Hm. simpl. auto.
      * apply Base. simpl in *. now rewrite Sd.
Qed.

(* ---------- mkdir -p under a lost creation race (needs: MkDirAll's re-check of Exists after the back end's error) ---------- *)
Lemma m_mkdir_raced_refines fa t p tr r t' :
  mkdir_ok fa = true -> wf t -> r_mkdir t (P p tr) = Out r t' -> m_mkdir_raced fa t p = (r, t').
Proof.
  unfold mkdir_ok. intros OK W. unfold r_mkdir, m_mkdir_raced, b_mkdirall. rewrite OK.
  destruct (through_file t p || is_file t p) eqn:C; [discriminate|]. intros H; inversion H; subst r t'; clear H.
  destruct (m_exists_pair t p) as [h ->]. simpl. destruct (exists_ t p) eqn:E; auto.
  f_equal. symmetry. now apply mkdirp_exists_id.
Qed.
