(* C06 — M: mechanised model of the simpler VFS functions of utils/filesystem/files.go, written over back-end primitives
   (stat, mkdirall, create-truncate, open, readdirnames) the way the Go code calls them, with the number of handles each
   path of the code opens and closes.  Proofs.v/ProofsVfs.v show M = R on every call free of kind conflicts. *)
From Coq Require Import List ZArith Bool Lia.
Import ListNotations.
From GU Require Import C06.Model.
Local Open Scope Z_scope.

(* ---- back-end primitives (POSIX semantics, as afero.OsFs; no file on the way: kind conflicts are excluded) ---- *)
Definition b_stat (t : tree) (p : path) : option entry := lookup t p.                 (* None = ENOENT *)
Definition b_mkdirall (t : tree) (p : path) : option tree :=                          (* None = ENOTDIR / EEXIST *)
  if through_file t p || is_file t p then None else Some (mkdirp t p).
Inductive berr := BNotFound | BOther.
Definition b_create (t : tree) (p : path) : tree + berr :=                            (* O_CREATE|O_TRUNC *)
  if is_dir t p then inr BOther else if is_dir t (parent p) then inl (set_file t p []) else inr BNotFound.
Definition b_readdirnames (t : tree) (p : path) : list name := children t p.

(* a result, the tree, handles opened, handles closed *)
Record mres := mkM { m_r : res; m_t : tree; m_opened : nat; m_closed : nat }.

(* Exists (files.go:637-670): Stat; for a directory, checkDirExists opens it, reads one name, closes it (deferred + explicit:
   the second Close of the same handle is not counted). *)
Definition m_exists (t : tree) (p : path) : bool * nat :=
  match b_stat t p with
  | None => (false, O)
  | Some (F _) => (true, O)
  | Some D => (true, 1%nat)            (* one handle opened and closed *)
  end.

(* IsFile (:758-772) *)
Definition m_isfile t p : bool * nat :=
  let '(e, h) := m_exists t p in
  if e then (match b_stat t p with Some (F _) => true | _ => false end, h) else (false, h).

(* IsDir (:808-823) *)
Definition m_isdir t p : mres :=
  let '(e, h) := m_exists t p in
  if e then mkM (RBool (match b_stat t p with Some D => true | _ => false end)) t h h
  else mkM (RErr ENotFound) t h h.

(* IsEmpty (:836-887): missing -> true; file -> size 0; directory -> Open, Readdirnames(1) = EOF, Close *)
Definition m_isempty t p : mres :=
  let '(e, h) := m_exists t p in
  if negb e then mkM (RBool true) t h h
  else let '(f, h2) := m_isfile t p in
       if f then mkM (RBool (match b_stat t p with Some (F []) => true | _ => false end)) t (h + h2) (h + h2)
       else mkM (RBool (match b_readdirnames t p with [] => true | _ => false end)) t (h + h2 + 1) (h + h2 + 1).

(* MkDirAll (:897-914): empty -> undefined (not a P argument); Exists -> nil; backend MkdirAll; error tolerated if it exists now *)
Definition m_mkdir t p : mres :=
  let '(e, h) := m_exists t p in
  if e then mkM ROk t h h
  else match b_mkdirall t p with
       | Some t' => mkM ROk t' h h
       | None => let '(e2, h2) := m_exists t p in mkM (if e2 then ROk else RErr EOther) t (h + h2) (h + h2)
       end.

(* Touch (:993-1017): Exists -> Chtimes; trailing separator -> MkDir; else CreateFile + Close *)
Definition m_touch t p (tr : bool) : mres :=
  let '(e, h) := m_exists t p in
  if e then mkM ROk t h h
  else if tr then let m := m_mkdir t p in mkM (m_r m) (m_t m) (h + m_opened m) (h + m_closed m)
  else match b_create t p with
       | inl t' => mkM ROk t' (h + 1) (h + 1)
       | inr BNotFound => mkM (RErr ENotFound) t h h
       | inr BOther => mkM (RErr EOther) t h h
       end.

(* WriteFile / WriteToFile (:408-452): OpenFile(O_WRONLY|O_CREATE|O_TRUNC); defer Close; copy; 0 bytes -> 'empty'; Close *)
Definition m_write t p (c : list Z) : mres :=
  match b_create t p with
  | inr BNotFound => mkM (RErr ENotFound) t O O
  | inr BOther => mkM (RErr EOther) t O O
  | inl t1 => let t2 := set_file t1 p c in
              mkM (match c with [] => RErr EEmpty | _ => ROk end) t2 1 1
  end.

(* ReadFile (:315-401): GenericOpen; defer Close; ReadAtMost (no bytes -> 'empty') *)
Definition m_read t p : mres :=
  match b_stat t p with
  | None => mkM (RErr ENotFound) t O O
  | Some (F []) => mkM (RErr EEmpty) t 1 1
  | Some (F c) => mkM (RData c) t 1 1
  | Some D => mkM (RErr EOther) t 1 1
  end.

(* Ls (:1171-1262): IsDir (false or error -> 'invalid'); GenericOpen; Readdirnames(-1); Close *)
Definition m_ls t p : mres :=
  let m := m_isdir t p in
  match m_r m with
  | RBool true => mkM (RNames (map (fun n => [n]) (b_readdirnames t p))) t (m_opened m + 1) (m_closed m + 1)
  | _ => mkM (RErr EInvalid) t (m_opened m) (m_closed m)
  end.

(* GetFileSize (:1759-1766) *)
Definition m_size t p : mres :=
  match b_stat t p with
  | Some (F c) => mkM (RNum (Z.of_nat (length c))) t O O
  | Some D => mkM (RNum 4096) t O O
  | None => mkM (RErr ENotFound) t O O
  end.

(* the calls M covers *)
Definition m_exec (t : tree) (c : call) : option mres :=
  match c with
  | Exists (P p _) => let '(e, h) := m_exists t p in Some (mkM (RBool e) t h h)
  | IsFile (P p _) => let '(e, h) := m_isfile t p in Some (mkM (RBool e) t h h)
  | IsDir (P p _) => Some (m_isdir t p)
  | IsEmpty (P p _) => Some (m_isempty t p)
  | Mkdir (P p _) => Some (m_mkdir t p)
  | Touch (P p tr) => Some (m_touch t p tr)
  | Write (P p _) c => Some (m_write t p c)
  | Read (P p _) => Some (m_read t p)
  | Ls (P p _) => Some (m_ls t p)
  | Size (P p _) => Some (m_size t p)
  | _ => None
  end.

(* well-formed trees: every entry's ancestors are present (as the dumps of a real file system are) *)
Definition wf (t : tree) : Prop :=
  forall p e, find_entry t p = Some e -> forall q, In q (prefixes p) -> exists_ t q = true.

(* boolean version of [wf], evaluated on every observed dump *)
Definition wf_b (t : tree) : bool := forallb (fun e => forallb (exists_ t) (prefixes (fst e))) t.

(* ---- correspondence: R and, for the calls it covers, M against the observations ---- *)
Fixpoint check_steps_m (t : tree) (l : list stepobs) : bool :=
  match l with
  | [] => true
  | s :: l' =>
      let t_obs := match s_after s with Some x => x | None => t end in
      wf_b t_obs &&
      (if s_unconstrained s then true
       else match m_exec t (s_call s) with
            | None => true
            | Some m => res_eqb (m_r m) (s_res s) && tree_eqb (m_t m) t_obs && Nat.eqb (m_opened m) (m_closed m)
            end) && check_steps_m t_obs l'
  end.

Definition check_case_m (c : case) : bool := check_case c && wf_b (c_init c) && check_steps_m (c_init c) (c_steps c).
