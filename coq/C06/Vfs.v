(* C06 — M: mechanised model of the simpler VFS functions of utils/filesystem/files.go, written over back-end primitives
   (stat, mkdirall, create-truncate, open, readdirnames) the way the Go code calls them, with the number of handles each
   path of the code opens and closes.  Proofs.v/ProofsVfs.v show M = R on every call free of kind conflicts. *)
From Coq Require Import List ZArith Bool Lia.
Import ListNotations.
From GU Require Import C06.Model C06.Facts C06.Gen.
Local Open Scope Z_scope.

(* ---- back-end primitives (POSIX semantics, as afero.OsFs; no file on the way: kind conflicts are excluded) ---- *)
Definition b_stat (t : tree) (p : path) : option entry := lookup t p.                 (* None = ENOENT *)
Definition b_mkdirall (t : tree) (p : path) : option tree :=                          (* None = ENOTDIR / EEXIST *)
  if through_file t p || is_file t p then None else Some (mkdirp t p).
Inductive berr := BNotFound | BOther.
Definition b_create (t : tree) (p : path) : tree + berr :=                            (* O_CREATE|O_TRUNC *)
  if is_dir t p then inr BOther else if is_dir t (parent p) then inl (set_file t p []) else inr BNotFound.
Definition b_readdirnames (t : tree) (p : path) : list name := children t p.

(* a result, the tree, handles opened, handles closed *)
Record mres := mkM { m_r : res; m_t : tree; m_opened : nat; m_closed : nat }.

(* Exists (files.go:637-670): Stat; for a directory, checkDirExists opens it, reads one name, closes it (deferred + explicit:
   the second Close of the same handle is not counted). *)
Definition m_exists (t : tree) (p : path) : bool * nat :=
  match b_stat t p with
  | None => (false, O)
  | Some (F _) => (true, O)
  | Some D => (true, 1%nat)            (* one handle opened and closed *)
  end.

(* IsFile (:758-772) *)
Definition m_isfile t p : bool * nat :=
  let '(e, h) := m_exists t p in
  if e then (match b_stat t p with Some (F _) => true | _ => false end, h) else (false, h).

(* IsDir (:808-823) *)
Definition m_isdir t p : mres :=
  let '(e, h) := m_exists t p in
  if e then mkM (RBool (match b_stat t p with Some D => true | _ => false end)) t h h
  else mkM (RErr ENotFound) t h h.

(* IsEmpty (:836-887): missing -> true; file -> size 0; directory -> Open, Readdirnames(1) = EOF, Close *)
Definition m_isempty t p : mres :=
  let '(e, h) := m_exists t p in
  if negb e then mkM (RBool true) t h h
  else let '(f, h2) := m_isfile t p in
       if f then mkM (RBool (match b_stat t p with Some (F []) => true | _ => false end)) t (h + h2) (h + h2)
       else mkM (RBool (match b_readdirnames t p with [] => true | _ => false end)) t (h + h2 + 1) (h + h2 + 1).

(* MkDirAll (:897-914): empty -> undefined (not a P argument); Exists -> nil; backend MkdirAll; error tolerated if it exists now *)
Definition m_mkdir t p : mres :=
  let '(e, h) := m_exists t p in
  if e then mkM ROk t h h
  else match b_mkdirall t p with
       | Some t' => mkM ROk t' h h
       | None => let '(e2, h2) := m_exists t p in mkM (if e2 then ROk else RErr EOther) t (h + h2) (h + h2)
       end.

(* Touch (:993-1017): Exists -> Chtimes; trailing separator -> MkDir; else CreateFile + Close *)
Definition m_touch t p (tr : bool) : mres :=
  let '(e, h) := m_exists t p in
  if e then mkM ROk t h h
  else if tr then let m := m_mkdir t p in mkM (m_r m) (m_t m) (h + m_opened m) (h + m_closed m)
  else match b_create t p with
       | inl t' => mkM ROk t' (h + 1) (h + 1)
       | inr BNotFound => mkM (RErr ENotFound) t h h
       | inr BOther => mkM (RErr EOther) t h h
       end.

(* WriteFile / WriteToFile (:408-452): OpenFile(O_WRONLY [|O_CREATE] [|O_TRUNC]: facts); [defer Close: a fact]; copy;
   0 bytes -> 'empty'; Close *)
Definition m_write (fa : facts) t p (c : list Z) : mres :=
  if is_dir t p then mkM (RErr EOther) t O O
  else if negb (is_dir t (parent p)) then mkM (RErr ENotFound) t O O
  else
    let opened (t1 : tree) (old : list Z) :=
      let t2 := set_file t1 p (c ++ skipn (length c) old) in
      match c with
      | [] => mkM (RErr EEmpty) t2 1 (if f_write_close_deferred fa then 1%nat else O)   (* returns before the explicit Close *)
      | _ => mkM ROk t2 1 1
      end in
    match lookup t p with
    | Some (F old) => if f_write_trunc fa then opened (set_file t p []) [] else opened t old
    | _ => if f_write_create fa then opened (set_file t p []) [] else mkM (RErr ENotFound) t O O
    end.

(* ReadFile (:315-401): GenericOpen; defer Close; ReadAtMost (no bytes -> 'empty') *)
Definition m_read t p : mres :=
  match b_stat t p with
  | None => mkM (RErr ENotFound) t O O
  | Some (F []) => mkM (RErr EEmpty) t 1 1
  | Some (F c) => mkM (RData c) t 1 1
  | Some D => mkM (RErr EOther) t 1 1
  end.

(* Ls (:1171-1262): IsDir (false or error -> 'invalid'); GenericOpen; Readdirnames(-1); Close *)
Definition m_ls t p : mres :=
  let m := m_isdir t p in
  match m_r m with
  | RBool true => mkM (RNames (map (fun n => [n]) (b_readdirnames t p))) t (m_opened m + 1) (m_closed m + 1)
  | _ => mkM (RErr EInvalid) t (m_opened m) (m_closed m)
  end.

(* GetFileSize (:1759-1766) *)
Definition m_size t p : mres :=
  match b_stat t p with
  | Some (F c) => mkM (RNum (Z.of_nat (length c))) t O O
  | Some D => mkM (RNum 4096) t O O
  | None => mkM (RErr ENotFound) t O O
  end.

(* ---- Rm / CleanDir (files.go:583-631, 708-752): recursive, with explicit fuel ---- *)

(* backend Remove: unlink, or rmdir of an EMPTY directory (None = ENOTEMPTY) *)
Definition b_remove (t : tree) (p : path) : option tree :=
  match children t p with
  | [] => Some (filter (fun e => negb (path_eqb p (fst e))) t)
  | _ => None
  end.

(* IsEmpty as a boolean (the path exists) *)
Definition m_empty_b (t : tree) (p : path) : bool :=
  match b_stat t p with
  | Some (F []) => true
  | Some (F _) => false
  | _ => match b_readdirnames t p with [] => true | _ => false end
  end.

(* the loop of CleanDir over the names Ls returned: removeFileWithContext(dir, f) for each; the first error stops it *)
Fixpoint rm_children (rm : tree -> path -> option (res * tree * nat)) (p : path) (ns : list name) (t0 : tree) (h : nat)
  : option (res * tree * nat) :=
  match ns with
  | [] => Some (ROk, t0, h)
  | n :: ns' => match rm t0 (p ++ [n]) with
                | None => None
                | Some (ROk, t1, h1) => rm_children rm p ns' t1 (h + h1)%nat
                | Some (r, t1, h1) => Some (r, t1, (h + h1)%nat)
                end
  end.

(* RemoveWithContext: missing -> nil; IsDir; IsEmpty; non-empty directory -> CleanDir (Exists, IsEmpty, Ls, loop); IsEmpty again
   (still non-empty -> nil, something was excluded); backend Remove.  Result, tree, handles opened (= closed on every path:
   every Open in Exists / IsEmpty / Ls is paired with its Close before the next statement).  None = out of fuel. *)
Fixpoint m_rm (fuel : nat) (t : tree) (p : path) {struct fuel} : option (res * tree * nat) :=
  match fuel with
  | O => None
  | S f =>
      let '(e, h0) := m_exists t p in
      if negb e then Some (ROk, t, h0)
      else
        let isdir := match b_stat t p with Some D => true | _ => false end in
        let cleaned :=
          if isdir && negb (m_empty_b t p)
          then rm_children (m_rm f) p (b_readdirnames t p) t (h0 + 4)%nat
          else Some (ROk, t, (h0 + 2)%nat) in
        match cleaned with
        | None => None
        | Some (ROk, t1, h1) =>
            if isdir && negb (m_empty_b t1 p) then Some (ROk, t1, (h1 + 1)%nat)
            else match b_remove t1 p with
                 | Some t2 => Some (ROk, t2, (h1 + 1)%nat)
                 | None => Some (RErr EOther, t1, (h1 + 1)%nat)
                 end
        | Some x => Some x
        end
  end.

(* CleanDir: "" or missing -> nil; empty -> nil; Ls; loop *)
Definition m_clean (fuel : nat) (t : tree) (p : path) : option (res * tree * nat) :=
  let '(e, h0) := m_exists t p in
  if negb e then Some (ROk, t, h0)
  else if m_empty_b t p then Some (ROk, t, (h0 + 1)%nat)
  else rm_children (m_rm fuel) p (b_readdirnames t p) t (h0 + 3)%nat.

(* fuel that always suffices (ProofsVfsRm.v): one more than the number of entries *)
Definition rm_fuel (t : tree) : nat := S (length t).

Definition lift3 (x : option (res * tree * nat)) : option mres :=
  match x with Some (r, t, h) => Some (mkM r t h h) | None => None end.

(* ---- handle accounting for the functions whose Closes are deferred: opened, closed ---- *)
Definition hs := (nat * nat)%type.
Definition hb (n : nat) : hs := (n, n).                                   (* n handles opened and closed *)
Definition hadd (a b : hs) : hs := (fst a + fst b, snd a + snd b)%nat.
Infix "+h" := hadd (at level 50, left associativity).
Definition lift4 (x : option (res * tree * hs)) : option mres :=
  match x with Some (r, t, h) => Some (mkM r t (fst h) (snd h)) | None => None end.

(* ---- Copy (files.go CopyBetweenFSWithExclusionRegexes, copyFolder..., copyFile...), parameterised by the generated facts ---- *)

(* copyFile: GenericOpen(src); [defer Close]; CreateFile(dst); [defer Close]; copy; Close both.
   When CreateFile fails the source handle is closed only by its deferred Close. *)
Definition m_copy_file (fa : facts) (t : tree) (s dst : path) : res * tree * hs :=
  let after_src_only : hs := (1%nat, if f_copyfile_src_close_deferred fa then 1%nat else O) in
  match b_stat t s with
  | Some (F c) => match b_create t dst with
                  | inl t1 => (ROk, set_file t1 dst c, hb 2)
                  | inr BNotFound => (RErr ENotFound, t, after_src_only)
                  | inr BOther => (RErr EOther, t, after_src_only)
                  end
  | Some D => (RErr EOther, t, after_src_only)
  | None => (RErr ENotFound, t, hb 0)
  end.

(* the loop of copyFolder over the names of the source: Copy(src/name, dst) for each; the first error stops it *)
Fixpoint copy_children (cp : tree -> path -> option (res * tree * hs)) (s : path) (ns : list name) (t0 : tree) (h : hs)
  : option (res * tree * hs) :=
  match ns with
  | [] => Some (ROk, t0, h)
  | n :: ns' => match cp t0 (s ++ [n]) with
                | None => None
                | Some (ROk, t1, h1) => copy_children cp s ns' t1 (h +h h1)
                | Some (r, t1, h1) => Some (r, t1, h +h h1)
                end
  end.

Definition is_dir_b (t : tree) (p : path) : bool := match b_stat t p with Some D => true | _ => false end.
Definition m_mkdir3 (t : tree) (p : path) : res * tree * nat := let m := m_mkdir t p in (m_r m, m_t m, m_opened m).

(* CopyBetweenFSWithExclusionRegexes(src, dest) — src == dest; Exists(src); IsDir(src); Exists(dest), IsDir(dest);
   the guards "a directory is not copied into itself / over one of its parents" (present or not, before or after the creation
   of the destination: facts); creation of the destination (the shape table); dst; copyFolder (MkDir(dst), IsEmpty(src), Ls(src),
   loop) or copyFile (same file — compared with dst or with dest: a fact —: nothing; over a directory: refused or not: a fact). *)
Fixpoint m_copy (fa : facts) (fuel : nat) (t : tree) (s : path) (str : bool) (d : path) (dtr : bool) {struct fuel}
  : option (res * tree * hs) :=
  match fuel with
  | O => None
  | S f =>
      if path_eqb s d && Bool.eqb str dtr then Some (ROk, t, hb O)
      else
        let '(es, h1) := m_exists t s in
        if negb es then Some (RErr ENotFound, t, hb h1)
        else
          let src_dir := is_dir_b t s in
          let '(ed, h2) := m_exists t d in
          let dest_dir0 := ed && is_dir_b t d in
          let target := if dest_dir0 then d ++ [base s] else d in
          let h := hb (h1 + h1 + h2 + h2) in
          let guard := src_dir && ((f_copy_into_itself_guard fa && is_prefix s target)
                                   || (f_copy_over_parent_guard fa && is_prefix target s)) in
          if f_copy_guards_before_create fa && guard then Some (RErr EInvalid, t, h)
          else
            let '(r1, t1, hm) :=
              if ed then (ROk, t, O)
              else if src_dir || dtr then m_mkdir3 t d else m_mkdir3 t (parent d) in
            match r1 with
            | ROk =>
                if negb (f_copy_guards_before_create fa) && guard then Some (RErr EInvalid, t1, h +h hb hm)
                else
                let dest_dir := if ed then dest_dir0 else src_dir || dtr in
                let dst := if negb (src_dir && negb ed) && dest_dir then d ++ [base s] else d in
                if src_dir then
                  let '(r2, t2, hm2) := m_mkdir3 t1 dst in
                  match r2 with
                  | ROk =>
                      if m_empty_b t2 s then Some (ROk, t2, h +h hb (hm + hm2 + 1))
                      else copy_children (fun t0 c => m_copy fa f t0 c false dst false) s (b_readdirnames t2 s) t2 (h +h hb (hm + hm2 + 2))
                  | r => Some (r, t2, h +h hb (hm + hm2))
                  end
                else if path_eqb s (if f_copy_samefile_resolved fa then dst else d) then Some (ROk, t1, h +h hb hm)
                else
                  let '(e3, h3) := m_exists t1 dst in
                  if f_copy_file_over_dir_refused fa && (e3 && is_dir_b t1 dst) then Some (RErr EInvalid, t1, h +h hb (hm + h3 + h3))
                  else let '(r3, t3, h4) := m_copy_file fa t1 s dst in Some (r3, t3, h +h hb (hm + h3) +h h4)
            | r => Some (r, t1, h +h hb hm)
            end
  end.

(* CopyToFile (:1499-1536) *)
Definition m_copytofile (fa : facts) (fuel : nat) (t : tree) (s : path) (str : bool) (d : path) (dtr : bool) : option (res * tree * hs) :=
  let '(f1, h1) := m_isfile t s in
  if negb f1 then Some (RErr EInvalid, t, hb h1)
  else
    let '(ed, h2) := m_exists t d in
    if ed then
      let '(f2, h3) := m_isfile t d in
      if negb f2 then Some (RErr EInvalid, t, hb (h1 + h2 + h3))
      else match m_copy fa fuel t s str d dtr with Some (r, t', h) => Some (r, t', hb (h1 + h2 + h3) +h h) | None => None end
    else if dtr then Some (RErr EInvalid, t, hb (h1 + h2))
    else match m_copy fa fuel t s str d dtr with Some (r, t', h) => Some (r, t', hb (h1 + h2) +h h) | None => None end.

(* CopyToDirectory (:1543-1563): MkDir(destDirectory); Copy(src, destDirectory) *)
Definition m_copytodir (fa : facts) (fuel : nat) (t : tree) (a : parg) (d : path) (dtr : bool) : option (res * tree * hs) :=
  let '(r1, t1, h1) := m_mkdir3 t d in
  match r1 with
  | ROk => match a with
           | PEmpty => Some (RErr ENotFound, t1, hb h1)             (* Exists("") is false *)
           | P s str => match m_copy fa fuel t1 s str d dtr with Some (r, t', h) => Some (r, t', hb h1 +h h) | None => None end
           end
  | r => Some (r, t1, hb h1)
  end.

(* ---- Move (MoveWithContext; move; moveFolder; moveFile), parameterised by the generated facts ---- *)

(* backend Rename, POSIX: onto nothing; a file onto a file; a directory onto an EMPTY directory; otherwise refused *)
Definition b_rename (t : tree) (s d : path) : option tree :=
  match lookup t s with
  | None => None
  | Some e =>
      if negb (is_dir t (parent d)) || is_prefix s d then None
      else match lookup t d, e with
           | None, _ => Some (rename_sub t s d)
           | Some (F _), F c => Some (set_file (remove_sub t s) d c)
           | Some D, D => match children t d with [] => Some (rename_sub (remove_sub t d) s d) | _ => None end
           | _, _ => None
           end
  end.

Fixpoint move_children (mv : tree -> path -> path -> option (res * tree * hs)) (s d : path) (ns : list name) (t0 : tree) (h : hs)
  : option (res * tree * hs) :=
  match ns with
  | [] => Some (ROk, t0, h)
  | n :: ns' => match mv t0 (s ++ [n]) (d ++ [n]) with
                | None => None
                | Some (ROk, t1, h1) => move_children mv s d ns' t1 (h +h h1)
                | Some (r, t1, h1) => Some (r, t1, h +h h1)
                end
  end.

(* move(src, dest): MkDir(Dir(dest)); Rename; if the rename is refused (e.g. across devices): IsDir(src) — or of dest: a fact —
   (a missing path: 'not found') chooses moveFolder (MkDir(dest), IsEmpty, Ls, loop, then Remove(src) — also when src was empty, or not: a fact) or
   moveFile (copy, then remove). *)
Fixpoint m_move_raw (fa : facts) (xdev : bool) (fuel : nat) (t : tree) (s d : path) {struct fuel} : option (res * tree * hs) :=
  match fuel with
  | O => None
  | S f =>
      if path_eqb s d then Some (ROk, t, hb O)
      else
        let '(r1, t1, h1) := m_mkdir3 t (parent d) in
        match r1 with
        | ROk =>
            match (if xdev then None else b_rename t1 s d) with       (* xdev: the back end refuses every rename, as across devices *)
            | Some t2 => Some (ROk, t2, hb h1)
            | None =>
                let k := if f_move_fallback_isdir_src fa then s else d in      (* IsDir(<which>): a fact *)
                let '(ek, h2) := m_exists t1 k in
                if negb ek then Some (RErr ENotFound, t1, hb (h1 + h2))
                else if is_dir_b t1 k then
                  let '(r2, t2, h3) := m_mkdir3 t1 d in
                  match r2 with
                  | ROk =>
                      let empty := m_empty_b t2 s in
                      let looped :=
                        if empty then Some (ROk, t2, hb (h1 + h2 + h3 + 1))
                        else move_children (m_move_raw fa xdev f) s d (b_readdirnames t2 s) t2 (hb (h1 + h2 + h3 + 2)) in
                      match looped with
                      | Some (ROk, t3, h4) =>
                          if f_movefolder_always_removes_src fa || negb empty then
                            match m_rm (rm_fuel t3) t3 s with
                            | Some (r, t4, h5) => Some (r, t4, h4 +h hb h5)
                            | None => None
                            end
                          else Some (ROk, t3, h4)
                      | x => x
                      end
                  | r => Some (r, t2, hb (h1 + h2 + h3))
                  end
                else
                  match m_copy fa (S f) t1 s false d false with
                  | Some (ROk, t2, h3) => match b_remove t2 s with
                                          | Some t3 => Some (ROk, t3, hb (h1 + h2) +h h3)
                                          | None => Some (RErr EOther, t2, hb (h1 + h2) +h h3)
                                          end
                  | x => x
                  end
            end
        | r => Some (r, t1, hb h1)
        end
  end.

(* MoveWithContext: its checks are run in the ORDER found in the source (a fact: the list of guards); each either returns or
   lets the next one run; the resolution of the destination is one of them; then move(src, target). *)
Record mstate := mkMs { ms_target : path; ms_h : nat }.

Fixpoint m_move_guards (fa : facts) (gs : list mguard) (t : tree) (s : path) (str : bool) (d : path) (dtr : bool) (st : mstate)
  : (res * nat) + mstate :=
  match gs with
  | [] => inr st
  | g :: gs' =>
      let next st' := m_move_guards fa gs' t s str d dtr st' in
      let tg := ms_target st in
      match g with
      | GSameString => if path_eqb s d && Bool.eqb str dtr then inl (ROk, ms_h st) else next st
      | GEmptyDest => next st                                    (* dest == "": not a root/<components> argument *)
      | GMissingSrc => let '(es, h1) := m_exists t s in
                       if negb es then inl (RErr ENotFound, (ms_h st + h1)%nat) else next (mkMs tg (ms_h st + h1 + h1))
      | GResolve => let '(ed, h2) := m_exists t d in
                    let dest_dir := if ed then is_dir_b t d else dtr in
                    next (mkMs (if dest_dir then d ++ [base s] else d) (ms_h st + h2 + h2))
      | GSamePlace => if path_eqb s tg then inl (ROk, ms_h st) else next st
      | GWithin => if f_move_within_plain fa && is_prefix s tg then inl (RErr EInvalid, ms_h st)
                   else if negb (f_move_within_plain fa) && negb (path_eqb tg d) && is_prefix s tg then inl (RErr EInvalid, ms_h st)
                   else next st                                  (* not plain: only evaluated when re-targeted *)
      | GNonEmptyTarget => let '(et, h3) := m_exists t tg in
                           if is_dir_b t s && et && is_dir_b t tg && negb (m_empty_b t tg)
                           then inl (RErr EExists, (ms_h st + h3 + h3 + 1)%nat) else next (mkMs tg (ms_h st + h3))
      end
  end.

Definition m_move (fa : facts) (fuel : nat) (t : tree) (s : path) (str : bool) (d : path) (dtr : bool) : option (res * tree * hs) :=
  match m_move_guards fa (f_move_guards fa) t s str d dtr (mkMs d O) with
  | inl (r, h) => Some (r, t, hb h)
  | inr st => match m_move_raw fa false fuel t s (ms_target st) with
              | Some (r, t', h4) => Some (r, t', hb (ms_h st) +h h4)
              | None => None
              end
  end.

(* ---- listings ---- *)

(* SubDirectories (files.go:1772-1810): afero.ReadDir; the entries that are directories and are not hidden *)
Definition m_subdirs (t : tree) (p : path) : mres :=
  match b_stat t p with
  | Some D => mkM (RNames (map (fun n => [n]) (filter (fun n => is_dir_b t (p ++ [n]) && negb (hidden n)) (b_readdirnames t p)))) t 1 1
  | Some (F _) => mkM (RErr EOther) t 1 1
  | None => mkM (RErr ENotFound) t O O
  end.

(* ListDirTree (files.go:1841-1873): Ls(dir) (not a directory: 'invalid'); every name is appended and, when it is a directory,
   descended into.  Depth-first, with explicit fuel; handles: one per Ls, one per IsDir of a directory. *)
Fixpoint m_tree_names (fuel : nat) (t : tree) (p : path) {struct fuel} : option (list path) :=
  match fuel with
  | O => None
  | S f =>
      (fix go (ns : list name) : option (list path) :=
         match ns with
         | [] => Some []
         | n :: ns' =>
             match (if is_dir_b t (p ++ [n]) then m_tree_names f t (p ++ [n]) else Some []), go ns' with
             | Some l1, Some l2 => Some ((p ++ [n]) :: l1 ++ l2)
             | _, _ => None
             end
         end) (b_readdirnames t p)
  end.

Definition m_tree (t : tree) (p : path) : option res :=
  if is_dir_b t p then match m_tree_names (rm_fuel t) t p with Some l => Some (RNames l) | None => None end
  else Some (RErr EInvalid).

(* ---- MkDirAll on a back end whose MkdirAll CREATES the directory and still reports an error (a creation race lost on a back end
   that is not atomic, or an error reported after the creation): Exists -> nil; back-end MkdirAll; then — a fact — the re-check
   `if err != nil && fs.Exists(dir) { err = nil }`, or the back end's error ('already exists') as it comes ---- *)
Definition m_mkdir_raced (fa : facts) (t : tree) (p : path) : res * tree :=
  if fst (m_exists t p) then (ROk, t)
  else match b_mkdirall t p with
       | Some t' => (if f_mkdirall_rechecks fa then ROk else RErr EExists, t')
       | None => (RErr EOther, t)
       end.

(* ---- calls on the empty name: Stat / GenericOpen / OpenFile guarded by checkPathIsNotEmpty, or not (facts).  Without the
   guard a back end may resolve "" to its own root (afero MemMapFs does): modelled as "the root directory". ---- *)
Definition m_exec_empty (fa : facts) (t : tree) (c : call) : option mres :=
  match c with
  | Exists PEmpty => Some (mkM (RBool (negb (f_empty_stat fa))) t O O)
  | IsFile PEmpty => Some (mkM (RBool false) t O O)
  | IsDir PEmpty => Some (if f_empty_stat fa then mkM (RErr ENotFound) t O O else mkM (RBool true) t 1 1)
  | IsEmpty PEmpty => Some (if f_empty_stat fa then mkM (RBool true) t O O else mkM (RBool false) t 1 1)
  | Size PEmpty => Some (if f_empty_stat fa then mkM (RErr ENotFound) t O O else mkM (RNum 4096) t O O)
  | Read PEmpty => Some (if f_empty_open fa then mkM (RErr ENotFound) t O O else mkM (RErr EOther) t 1 1)
  | Write PEmpty _ => Some (if f_empty_openfile fa then mkM (RErr ENotFound) t O O else mkM (RErr EOther) t O O)
  | _ => None
  end.

(* the calls M covers *)
Definition m_exec (fa : facts) (t : tree) (c : call) : option mres :=
  match c with
  | Exists (P p _) => let '(e, h) := m_exists t p in Some (mkM (RBool e) t h h)
  | IsFile (P p _) => let '(e, h) := m_isfile t p in Some (mkM (RBool e) t h h)
  | IsDir (P p _) => Some (m_isdir t p)
  | IsEmpty (P p _) => Some (m_isempty t p)
  | Mkdir (P p _) => Some (m_mkdir t p)
  | Touch (P p tr) => Some (m_touch t p tr)
  | Write (P p _) c => Some (m_write fa t p c)
  | Read (P p _) => Some (m_read t p)
  | Ls (P p _) => Some (m_ls t p)
  | Size (P p _) => Some (m_size t p)
  | Rm (P (a :: p) _) => lift3 (m_rm (rm_fuel t) t (a :: p))
  | Clean (P p _) => lift3 (m_clean (rm_fuel t) t p)
  | SubDirs (P p _) => Some (m_subdirs t p)
  | Move (P (n :: s) str) (P d dtr) => lift4 (m_move fa (rm_fuel t) t (n :: s) str d dtr)
  | CopyToFile (P s str) (P d dtr) => lift4 (m_copytofile fa (rm_fuel t) t s str d dtr)
  (* Copy / CopyToDirectory of a FILE (or of a missing source): the destination-shape table; the recursive copy of a
     directory is in [m_exec_all] below (its refinement is an equality of finite maps, not of lists) *)
  | Copy (P s str) (P d dtr) => if is_dir_b t s then None else lift4 (m_copy fa (rm_fuel t) t s str d dtr)
  | CopyToDir (P s str) (P d dtr) =>
      if is_dir_b (m_t (m_mkdir t d)) s then None
      else lift4 (m_copytodir fa (rm_fuel (m_t (m_mkdir t d))) t (P s str) d dtr)
  | _ => m_exec_empty fa t c
  end.

(* everything M models, including the recursive directory copy *)
Definition m_exec_all (fa : facts) (t : tree) (c : call) : option mres :=
  match c with
  | Copy (P s str) (P d dtr) => lift4 (m_copy fa (rm_fuel t) t s str d dtr)
  | CopyToDir a (P d dtr) => lift4 (m_copytodir fa (rm_fuel (m_t (m_mkdir t d))) t a d dtr)
  | _ => m_exec fa t c
  end.

(* a program on M: [None] as soon as a call is outside M's coverage; results, final tree, handles opened and closed *)
Fixpoint m_run (fa : facts) (t : tree) (cs : list call) : option (list res * tree * nat * nat) :=
  match cs with
  | [] => Some ([], t, O, O)
  | c :: cs' => match m_exec fa t c with
                | None => None
                | Some m => match m_run fa (m_t m) cs' with
                            | Some (rs, t', o, cl) => Some (m_r m :: rs, t', (m_opened m + o)%nat, (m_closed m + cl)%nat)
                            | None => None
                            end
                end
  end.

(* ---- correspondence: R and, for the calls it covers, M INSTANTIATED WITH THE GENERATED FACTS, against the observations ---- *)
Fixpoint check_steps_m (fa : facts) (t : tree) (l : list stepobs) : bool :=
  match l with
  | [] => true
  | s :: l' =>
      let t_obs := match s_after s with Some x => x | None => t end in
      wf_b t_obs &&
      (if s_unconstrained s then true
       else match s_call s with
            | TreeL (P p _) => match m_tree t p with Some r => res_eqb r (s_res s) | None => false end
            | _ => true
            end) &&
      (if s_unconstrained s then true
       else match m_exec_all fa t (s_call s) with
            | None => true
            | Some m => res_eqb (m_r m) (s_res s) && tree_eqb (m_t m) t_obs && Nat.eqb (m_opened m) (m_closed m)
            end) && check_steps_m fa t_obs l'
  end.

Definition check_case_m (c : case) : bool :=
  check_case c && wf_b (c_init c) && check_steps_m gen_facts (c_init c) (c_steps c).
