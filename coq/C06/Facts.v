(* C06 — the facts of utils/filesystem/files.go that the mechanised model M (VfsGen.v) is parameterised by.
   The record is GENERATED from the source on every run (translator-c06/cmd/vfs2coq -> Gen.v); the conditions below are what
   the theorems of Props.v need of it, each theorem naming exactly the conditions it depends on. *)
From Coq Require Import List Bool.
Import ListNotations.

(* the checks of MoveWithContext, in the order of the statements *)
Inductive mguard :=
  | GSameString        (* if src == dest { return } *)
  | GEmptyDest         (* if dest == "" { undefined } *)
  | GMissingSrc        (* if !fs.Exists(src) { not found } *)
  | GResolve           (* target := dest; an existing directory / a trailing separator => Join(dest, Base(src)) *)
  | GSamePlace         (* if Clean(src) == Clean(target) { return } *)
  | GWithin            (* if isPathWithin(fs, src, target) { invalid } *)
  | GNonEmptyTarget.   (* a directory over an existing non-empty directory => already exists *)

Record facts := mkFacts {
  f_move_guards : list mguard;
  f_move_within_plain : bool;           (* the isPathWithin test stands alone: not conjoined with / nested under another condition *)
  f_move_ctx_first : bool;              (* move(): the context test is the first statement *)
  f_move_fallback_isdir_src : bool;     (* move(): after a refused rename, IsDir(SRC) chooses moveFolder / moveFile *)
  f_movefolder_always_removes_src : bool; (* moveFolder: RemoveWithContext(src) also when the source is empty *)
  f_copy_guards_before_create : bool;   (* CopyBetweenFS...: the into-itself / over-own-parent guards precede every MkDir *)
  f_copy_into_itself_guard : bool;
  f_copy_over_parent_guard : bool;
  f_copy_samefile_resolved : bool;      (* the same-file guard compares the RESOLVED destination dst (not dest) *)
  f_copy_file_over_dir_refused : bool;
  f_copyfile_src_close_deferred : bool; (* copyFile...: defer Close registered right after GenericOpen(src) *)
  f_copyfile_dst_close_deferred : bool; (*              ... and right after CreateFile(dest) *)
  f_write_create : bool;                (* WriteToFile: O_CREATE *)
  f_write_trunc : bool;                 (*              O_TRUNC *)
  f_write_close_deferred : bool;        (*              defer Close right after the open *)
  f_empty_stat : bool;                  (* checkPathIsNotEmpty before the back end in Stat *)
  f_empty_open : bool;                  (* ... GenericOpen *)
  f_empty_openfile : bool;              (* ... OpenFile *)
  f_empty_create : bool;                (* ... CreateFile *)
  f_mkdirall_rechecks : bool            (* MkDirAll: after the back end's MkdirAll, `if err != nil && fs.Exists(dir) { err = nil }` *)
}.

Definition mguard_eqb (a b : mguard) : bool :=
  match a, b with
  | GSameString, GSameString | GEmptyDest, GEmptyDest | GMissingSrc, GMissingSrc | GResolve, GResolve
  | GSamePlace, GSamePlace | GWithin, GWithin | GNonEmptyTarget, GNonEmptyTarget => true
  | _, _ => false
  end.

Fixpoint mguards_eqb (a b : list mguard) : bool :=
  match a, b with
  | [], [] => true
  | x :: a', y :: b' => mguard_eqb x y && mguards_eqb a' b'
  | _, _ => false
  end.

Lemma mguard_eqb_eq a b : mguard_eqb a b = true -> a = b.
Proof. destruct a, b; simpl; congruence. Qed.

Lemma mguards_eqb_eq a : forall b, mguards_eqb a b = true -> a = b.
Proof.
  induction a as [|x a IH]; destruct b as [|y b]; simpl; try congruence.
  intros H. apply andb_true_iff in H as [H1 H2]. apply mguard_eqb_eq in H1. apply IH in H2. congruence.
Qed.

(* the empty-destination check concerns a call shape M does not take (M's arguments are root/<components>): its place in the
   order is irrelevant to M, the relative order of the others is not *)
Definition relevant (gs : list mguard) : list mguard := filter (fun g => negb (mguard_eqb g GEmptyDest)) gs.

(* what the Move theorems need *)
Definition move_ok (F : facts) : bool :=
  mguards_eqb (relevant (f_move_guards F)) [GSameString; GMissingSrc; GResolve; GSamePlace; GWithin; GNonEmptyTarget]
  && f_move_within_plain F.
(* what the theorems about Move's fall-back (rename refused) need *)
Definition fallback_ok (F : facts) : bool := f_move_fallback_isdir_src F && f_movefolder_always_removes_src F.
(* what the Copy theorems need *)
Definition copy_ok (F : facts) : bool :=
  f_copy_guards_before_create F && f_copy_into_itself_guard F && f_copy_over_parent_guard F
  && f_copy_samefile_resolved F && f_copy_file_over_dir_refused F.
(* what the WriteFile theorem needs *)
Definition write_ok (F : facts) : bool := f_write_create F && f_write_trunc F.
(* what handle balance needs *)
Definition handles_ok (F : facts) : bool :=
  f_copyfile_src_close_deferred F && f_copyfile_dst_close_deferred F && f_write_close_deferred F.
(* what mkdir -p under a lost creation race needs *)
Definition mkdir_ok (F : facts) : bool := f_mkdirall_rechecks F.
(* what the empty-name theorem needs *)
Definition paths_ok (F : facts) : bool := f_empty_stat F && f_empty_open F && f_empty_openfile F.
