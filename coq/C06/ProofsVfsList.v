(* C06 - M's ListDirTree (depth-first, explicit fuel) lists exactly the paths R lists (everything strictly below), as a set;
   fuel S (number of entries) suffices. *)
From Coq Require Import List ZArith Bool Lia Arith.
Import ListNotations.
From GU Require Import C06.Model C06.Proofs C06.ProofsWf C06.Vfs C06.ProofsVfsRm C06.ProofsVfsCopy C06.ProofsVfsCopyDir.
Local Open Scope Z_scope.

Local Arguments is_dir_b : simpl never.

(* the inner loop of m_tree_names, named *)
Fixpoint tree_go (rec : path -> option (list path)) (t : tree) (p : path) (ns : list name) : option (list path) :=
  match ns with
  | [] => Some []
  | n :: ns' =>
      match (if is_dir_b t (p ++ [n]) then rec (p ++ [n]) else Some []), tree_go rec t p ns' with
      | Some l1, Some l2 => Some ((p ++ [n]) :: l1 ++ l2)
      | _, _ => None
      end
  end.

Lemma m_tree_names_S f t p : m_tree_names (S f) t p = tree_go (m_tree_names f t) t p (b_readdirnames t p).
Proof.
  simpl. generalize (b_readdirnames t p). induction l as [|n ns IH]; simpl; auto. now rewrite IH.
Qed.

Definition lists_below (t : tree) (p : path) (l : list path) : Prop :=
  forall q, In q l <-> (below p q = true /\ find_entry t q <> None).

(* no entry more than f levels below p *)
Definition shallow' (t : tree) (p : path) (f : nat) : Prop :=
  forall q, below p q = true -> find_entry t q <> None -> (length q <= length p + f)%nat.

Lemma below_snoc p n r : below p (p ++ n :: r) = true.
Proof.
  unfold below. rewrite is_prefix_app. simpl. apply negb_true_iff. apply path_eqb_neq. intros E. symmetry in E. revert E. apply app_cons_neq.
Qed.

Lemma below_spec p q : below p q = true -> exists n r, q = p ++ n :: r.
Proof.
  unfold below. intros H. apply andb_true_iff in H as [H1 H2]. apply is_prefix_spec in H1 as [r ->].
  destruct r as [|n r]; [rewrite app_nil_r, path_eqb_refl in H2; discriminate|]. eauto.
Qed.

Lemma snoc_cons_assoc (p : path) n y r : p ++ n :: y :: r = (p ++ [n]) ++ y :: r.
Proof. now rewrite <- app_assoc. Qed.

Lemma tree_go_ok rec t p : wf t -> forall ns,
  (forall n, In n ns -> exists_ t (p ++ [n]) = true) ->
  (forall n, In n ns -> is_dir t (p ++ [n]) = true -> exists l1, rec (p ++ [n]) = Some l1 /\ lists_below t (p ++ [n]) l1) ->
  exists l, tree_go rec t p ns = Some l /\
    (forall q, In q l <-> exists n, In n ns /\ (q = p ++ [n] \/ (is_dir t (p ++ [n]) = true /\ below (p ++ [n]) q = true /\ find_entry t q <> None))).
Proof.
  intros W. induction ns as [|n ns IH]; intros Hex Hrec; simpl.
  - exists []. split; auto. intros q. split; [contradiction|]. intros [n [[] _]].
  - destruct IH as [l2 [E2 S2]]; [intros; apply Hex; now right|intros; apply Hrec; auto; now right|]. rewrite E2.
    change (is_dir_b t (p ++ [n])) with (is_dir t (p ++ [n])).
    assert (Sub : exists l1, (if is_dir t (p ++ [n]) then rec (p ++ [n]) else Some []) = Some l1 /\
                  (forall q, In q l1 <-> (is_dir t (p ++ [n]) = true /\ below (p ++ [n]) q = true /\ find_entry t q <> None))).
    { destruct (is_dir t (p ++ [n])) eqn:Dn.
      - destruct (Hrec n (or_introl eq_refl) Dn) as [l1 [E1 S1]]. exists l1. split; auto. intros q. rewrite (S1 q). tauto.
      - exists []. split; auto. intros q. split; [contradiction|]. intros [X _]. discriminate. }
    destruct Sub as [l1 [E1 S1]]. rewrite E1. eexists. split; [reflexivity|].
    intros q. simpl. rewrite in_app_iff, S1, S2. split.
    + intros [<-|[X|[m [Hm X]]]].
      * exists n. split; auto.
      * exists n. split; auto.
      * exists m. split; auto.
    + intros [m [[<-|Hm] X]].
      * destruct X as [->|X]; auto.
      * right. right. exists m. auto.
Qed.

Definition tree_ok (f : nat) : Prop :=
  forall t p, wf t -> shallow' t p f -> exists l, m_tree_names (S f) t p = Some l /\ lists_below t p l.

Lemma tree_ok_all f : tree_ok f.
Proof.
  induction f as [|f IHf]; intros t p W Sh; rewrite m_tree_names_S; unfold b_readdirnames.
  - (* nothing below p *)
    destruct (children t p) as [|n ns] eqn:Ch.
    + exists []. split; auto. intros q. split; [contradiction|]. intros [Bq Fq]. exfalso.
      destruct (below_spec _ _ Bq) as [n [r ->]]. destruct (find_entry t (p ++ n :: r)) as [e|] eqn:Fe; [|congruence].
      pose proof (child_in t p n (wf_step_exists _ _ _ _ _ W (find_entry_in _ _ _ Fe))) as X. rewrite Ch in X. contradiction.
    + exfalso. assert (Ex : exists_ t (p ++ [n]) = true) by (apply children_exists; rewrite Ch; now left).
      unfold exists_ in Ex. rewrite lookup_nonroot in Ex by apply snoc_nonnil.
      specialize (Sh (p ++ [n]) (below_snoc p n [])). destruct (find_entry t (p ++ [n])); [|discriminate].
      specialize (Sh ltac:(discriminate)). rewrite app_length in Sh. simpl in Sh. lia.
  - destruct (tree_go_ok (m_tree_names (S f) t) t p W (children t p)) as [l [E S1]].
    + intros n Hn. now apply children_exists.
    + intros n Hn Dn. apply IHf; auto. intros q Bq Fq.
      assert (Bp : below p q = true).
      { destruct (below_spec _ _ Bq) as [y [r ->]]. rewrite <- snoc_cons_assoc. apply below_snoc. }
      specialize (Sh q Bp Fq). rewrite app_length. simpl. lia.
    + exists l. split; auto. intros q. rewrite (S1 q). split.
      * intros [n [Hn [->|[Dn [Bq Fq]]]]].
        -- split; [apply below_snoc|]. apply children_exists in Hn. unfold exists_ in Hn.
           rewrite lookup_nonroot in Hn by apply snoc_nonnil. destruct (find_entry t (p ++ [n])); [discriminate|discriminate].
        -- split; auto. destruct (below_spec _ _ Bq) as [y [r ->]]. rewrite <- snoc_cons_assoc. apply below_snoc.
      * intros [Bq Fq]. destruct (below_spec _ _ Bq) as [n [r ->]].
        destruct (find_entry t (p ++ n :: r)) as [e|] eqn:Fe; [|congruence].
        pose proof (wf_step_exists _ _ _ _ _ W (find_entry_in _ _ _ Fe)) as Ex.
        exists n. split; [now apply child_in|]. destruct r as [|y r]; [now left|]. right. repeat split.
        -- eapply (proj1 (wf_iff _) W); [exact Fe|]. split; [apply snoc_nonnil|]. exists y, r. apply snoc_cons_assoc.
        -- rewrite snoc_cons_assoc. apply below_snoc.
        -- congruence.
Qed.

(* R's listing: the keys of the entries strictly below *)
Lemma descendants_spec t p q : In q (map fst (descendants t p)) <-> (below p q = true /\ find_entry t q <> None).
Proof.
  unfold descendants. rewrite in_map_iff. split.
  - intros [[k e] [<- H]]. apply filter_In in H as [Hin B]. simpl in *. split; auto.
    destruct (in_find_some _ _ _ Hin) as [e' ->]. discriminate.
  - intros [B Fq]. destruct (find_entry t q) as [e|] eqn:Fe; [|congruence].
    exists (q, e). split; auto. apply filter_In. split; auto. now apply find_entry_in.
Qed.

(* ListDirTree: M lists what R lists, as a set; fuel S (number of entries) suffices *)
Lemma m_tree_refines t p tr r t' :
  wf t -> exec t (TreeL (P p tr)) = Out r t' ->
  t' = t /\ match r with
            | RNames lr => exists lm, m_tree t p = Some (RNames lm) /\ forall q, In q lm <-> In q lr
            | _ => m_tree t p = Some r
            end.
Proof.
  intros W. simpl. destruct (dir_arg_conflict t p); [discriminate|]. unfold m_tree.
  change (is_dir_b t p) with (is_dir t p). destruct (is_dir t p) eqn:Dp; intros H; inversion H; subst r t'; clear H; split; auto.
  destruct (tree_ok_all (length t) t p W) as [l [E S1]].
  - intros q Bq Fq. pose proof (wf_key_length t q W Fq). lia.
  - unfold rm_fuel. rewrite E. exists l. split; auto. intros q. rewrite (S1 q), descendants_spec. tauto.
Qed.
