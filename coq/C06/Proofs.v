(* C06 — lemmas about the reference model R (GU.C06.Model). *)
From Coq Require Import List ZArith Bool Lia.
Import ListNotations.
From GU Require Import C06.Model.
Local Open Scope Z_scope.

(* ---------- paths ---------- *)

Lemma path_eqb_refl p : path_eqb p p = true.
Proof. induction p; simpl; auto. rewrite Z.eqb_refl. auto. Qed.

Lemma path_eqb_eq p q : path_eqb p q = true <-> p = q.
Proof.
  revert q; induction p as [|a p IH]; destruct q as [|b q]; simpl; split; intros H; try congruence; auto.
  - apply andb_true_iff in H as [H1 H2]. apply Z.eqb_eq in H1. apply IH in H2. congruence.
  - inversion H; subst. rewrite Z.eqb_refl. simpl. apply IH. auto.
Qed.

Lemma path_eqb_neq p q : path_eqb p q = false <-> p <> q.
Proof.
  split; intros H.
  - intros E. apply path_eqb_eq in E. congruence.
  - destruct (path_eqb p q) eqn:E; auto. apply path_eqb_eq in E. contradiction.
Qed.

Lemma path_eqb_sym p q : path_eqb p q = path_eqb q p.
Proof.
  destruct (path_eqb p q) eqn:E.
  - apply path_eqb_eq in E. subst. symmetry. apply path_eqb_refl.
  - symmetry. apply path_eqb_neq. apply path_eqb_neq in E. congruence.
Qed.

Lemma is_prefix_refl p : is_prefix p p = true.
Proof. induction p; simpl; auto. rewrite Z.eqb_refl. auto. Qed.

Lemma is_prefix_app p q : is_prefix p (p ++ q) = true.
Proof. induction p; simpl; auto. rewrite Z.eqb_refl. auto. Qed.

Lemma is_prefix_spec p q : is_prefix p q = true <-> exists r, q = p ++ r.
Proof.
  revert q; induction p as [|a p IH]; intros q; simpl.
  - split; eauto.
  - destruct q as [|b q].
    + split; [discriminate|]. intros [r H]. discriminate.
    + rewrite andb_true_iff, Z.eqb_eq, IH. split.
      * intros [-> [r ->]]. eauto.
      * intros [r H]. inversion H; subst. eauto.
Qed.

Lemma is_prefix_trans p q r : is_prefix p q = true -> is_prefix q r = true -> is_prefix p r = true.
Proof.
  rewrite !is_prefix_spec. intros [a ->] [b ->]. exists (a ++ b). now rewrite app_assoc.
Qed.

(* ---------- finite maps ---------- *)

Lemma find_entry_app t1 t2 p :
  find_entry (t1 ++ t2) p = match find_entry t1 p with Some e => Some e | None => find_entry t2 p end.
Proof.
  induction t1 as [|[q e] t1 IH]; simpl; auto. destruct (path_eqb q p); auto.
Qed.

Lemma find_entry_filter (f : path -> bool) t p :
  find_entry (filter (fun e => f (fst e)) t) p = if f p then find_entry t p else None.
Proof.
  induction t as [|[q e] t IH]; simpl.
  - destruct (f p); auto.
  - destruct (f q) eqn:Fq; simpl.
    + destruct (path_eqb q p) eqn:E.
      * apply path_eqb_eq in E. subst. now rewrite Fq.
      * exact IH.
    + rewrite IH. destruct (path_eqb q p) eqn:E; auto.
      apply path_eqb_eq in E. subst. now rewrite Fq.
Qed.

(* rm -rf p: everything at or below p is gone, everything else is untouched *)
Lemma find_remove_sub t p q :
  find_entry (remove_sub t p) q = if is_prefix p q then None else find_entry t q.
Proof.
  unfold remove_sub. rewrite (find_entry_filter (fun x => negb (is_prefix p x))).
  destruct (is_prefix p q); auto.
Qed.

Lemma find_remove_below t p q :
  find_entry (remove_below t p) q = if below p q then None else find_entry t q.
Proof.
  unfold remove_below. rewrite (find_entry_filter (fun x => negb (below p x))).
  destruct (below p q); auto.
Qed.

Lemma find_set_file t p c q :
  find_entry (set_file t p c) q = if path_eqb p q then Some (F c) else find_entry t q.
Proof.
  unfold set_file. rewrite find_entry_app, (find_entry_filter (fun x => negb (path_eqb p x))). simpl.
  destruct (path_eqb p q) eqn:E; simpl.
  - reflexivity.
  - destruct (find_entry t q); auto.
Qed.

Lemma find_add_dir t d q :
  find_entry (add_dir t d) q =
  match find_entry t q with Some e => Some e | None => if path_eqb d q && negb (exists_ t d) then Some D else None end.
Proof.
  unfold add_dir. destruct (exists_ t d) eqn:E.
  - rewrite andb_false_r. destruct (find_entry t q); auto.
  - rewrite find_entry_app. simpl. rewrite andb_true_r. destruct (find_entry t q); auto.
Qed.

(* add_dir never changes what is already there *)
Lemma find_add_dir_some t d q e : find_entry t q = Some e -> find_entry (add_dir t d) q = Some e.
Proof. intros H. rewrite find_add_dir, H. auto. Qed.

Lemma find_add_dir_other t d q : path_eqb d q = false -> find_entry (add_dir t d) q = find_entry t q.
Proof. intros H. rewrite find_add_dir, H. simpl. destruct (find_entry t q); auto. Qed.

Lemma find_fold_add_dir_other ds : forall t q,
  (forall d, In d ds -> path_eqb d q = false) ->
  find_entry (fold_left add_dir ds t) q = find_entry t q.
Proof.
  induction ds as [|d ds IH]; intros t q H; simpl; auto.
  rewrite IH by (intros; apply H; now right). apply find_add_dir_other. apply H. now left.
Qed.

Lemma find_fold_add_dir_some ds : forall t q e,
  find_entry t q = Some e -> find_entry (fold_left add_dir ds t) q = Some e.
Proof.
  induction ds as [|d ds IH]; intros t q e H; simpl; auto. apply IH. now apply find_add_dir_some.
Qed.

Lemma in_prefixes p q : In q (prefixes p) -> is_prefix q p = true /\ q <> [].
Proof.
  revert q; induction p as [|a p IH]; simpl; intros q H; [contradiction|].
  destruct H as [<-|H].
  - simpl. rewrite Z.eqb_refl. split; [reflexivity|discriminate].
  - apply in_map_iff in H as [r [<- Hr]]. destruct (IH _ Hr) as [H1 H2].
    simpl. rewrite Z.eqb_refl. split; [exact H1|discriminate].
Qed.

(* mkdir -p p touches only the prefixes of p, and never what exists *)
Lemma find_mkdirp_other t p q : is_prefix q p = false -> find_entry (mkdirp t p) q = find_entry t q.
Proof.
  intros H. unfold mkdirp. apply find_fold_add_dir_other. intros d Hd.
  apply in_prefixes in Hd as [Hd _]. apply path_eqb_neq. intros ->. congruence.
Qed.

Lemma find_mkdirp_some t p q e : find_entry t q = Some e -> find_entry (mkdirp t p) q = Some e.
Proof. apply find_fold_add_dir_some. Qed.

Lemma lookup_nonroot t p : p <> [] -> lookup t p = find_entry t p.
Proof. destruct p; simpl; congruence. Qed.

Lemma lookup_mkdirp_other t p q : is_prefix q p = false -> lookup (mkdirp t p) q = lookup t q.
Proof.
  intros H. destruct q; [destruct p; discriminate|]. simpl. now apply find_mkdirp_other.
Qed.

Lemma lookup_mkdirp_some t p q e : lookup t q = Some e -> lookup (mkdirp t p) q = Some e.
Proof. destruct q; simpl; auto. apply find_mkdirp_some. Qed.

(* after mkdir -p every prefix of p exists *)
Lemma fold_add_dir_exists ds : forall t d, In d ds -> d <> [] -> exists_ (fold_left add_dir ds t) d = true.
Proof.
  induction ds as [|x ds IH]; intros t d Hin Hne; simpl; [contradiction|].
  destruct Hin as [->|Hin]; [|now apply IH].
  assert (E : exists e, find_entry (add_dir t d) d = Some e).
  { rewrite find_add_dir. destruct (find_entry t d) eqn:F1; eauto.
    rewrite path_eqb_refl. unfold exists_. rewrite lookup_nonroot, F1 by auto. simpl. eauto. }
  destruct E as [e E]. unfold exists_. rewrite lookup_nonroot by auto.
  now rewrite (find_fold_add_dir_some ds _ _ _ E).
Qed.

Lemma prefixes_cons a p : prefixes (a :: p) = map (cons a) ([] :: prefixes p).
Proof. reflexivity. Qed.

Lemma prefixes_in p r : p <> [] -> In p (prefixes (p ++ r)).
Proof.
  induction p as [|a p IH]; intros H; [congruence|].
  change ((a :: p) ++ r) with (a :: (p ++ r)). rewrite prefixes_cons. apply in_map.
  destruct p as [|b p]; [now left|]. right. apply IH. discriminate.
Qed.

Lemma mkdirp_exists t p q : is_prefix q p = true -> exists_ (mkdirp t p) q = true.
Proof.
  intros H. destruct q as [|a q]; [reflexivity|].
  apply fold_add_dir_exists; [|discriminate].
  apply is_prefix_spec in H as [r ->]. apply prefixes_in. discriminate.
Qed.

(* q is a proper prefix of q ++ x :: r *)
Lemma removelast_map {A B} (f : A -> B) l : removelast (map f l) = map f (removelast l).
Proof. induction l as [|x l IH]; simpl; auto. destruct l; simpl in *; auto. now rewrite IH. Qed.

Lemma proper_prefixes_in q x r : q <> [] -> In q (proper_prefixes (q ++ x :: r)).
Proof.
  unfold proper_prefixes. induction q as [|a q IH]; intros H; [congruence|].
  change ((a :: q) ++ x :: r) with (a :: (q ++ x :: r)). rewrite prefixes_cons, removelast_map. apply in_map.
  destruct q as [|b q].
  - simpl. destruct (prefixes r); simpl; now left.
  - assert (IH' := IH ltac:(discriminate)).
    change (removelast ([] :: prefixes ((b :: q) ++ x :: r))) with
      (match prefixes ((b :: q) ++ x :: r) with [] => [] | _ => [] :: removelast (prefixes ((b :: q) ++ x :: r)) end).
    destruct (prefixes ((b :: q) ++ x :: r)) eqn:E; [simpl in IH'; contradiction|]. right. exact IH'.
Qed.

(* what mkdir -p adds are directories *)
Lemma find_add_dir_new t d q : find_entry t q = None -> find_entry (add_dir t d) q = None \/ find_entry (add_dir t d) q = Some D.
Proof. intros H. rewrite find_add_dir, H. destruct (path_eqb d q && negb (exists_ t d)); auto. Qed.

Lemma find_fold_add_dir_new ds : forall t q,
  find_entry t q = None -> find_entry (fold_left add_dir ds t) q = None \/ find_entry (fold_left add_dir ds t) q = Some D.
Proof.
  induction ds as [|d ds IH]; intros t q H; simpl; auto.
  destruct (find_add_dir_new t d q H) as [E|E]; [now apply IH|].
  right. now apply find_fold_add_dir_some.
Qed.

Lemma mkdirp_is_dir t p q :
  through_file t p = false -> is_file t p = false -> is_prefix q p = true -> is_dir (mkdirp t p) q = true.
Proof.
  intros Htf Hf Hq. destruct q as [|a q]; [reflexivity|].
  pose proof (mkdirp_exists t p _ Hq) as Hex. unfold is_dir, exists_ in *.
  rewrite lookup_nonroot in * by discriminate.
  destruct (find_entry t (a :: q)) eqn:F1.
  - (* already there: it is not a file *)
    rewrite (find_mkdirp_some t p _ _ F1). destruct e; auto. exfalso.
    destruct (path_eqb (a :: q) p) eqn:E.
    + apply path_eqb_eq in E. subst p. unfold is_file in Hf. rewrite lookup_nonroot, F1 in Hf by discriminate. discriminate.
    + (* a proper prefix that is a file *)
      unfold through_file in Htf.
      assert (Hin : In (a :: q) (proper_prefixes p)).
      { apply is_prefix_spec in Hq as [r ->]. destruct r as [|x r]; [rewrite app_nil_r, path_eqb_refl in E; discriminate|].
        apply proper_prefixes_in. discriminate. }
      assert (X : existsb (is_file t) (proper_prefixes p) = true).
      { apply existsb_exists. exists (a :: q). split; auto. unfold is_file. rewrite lookup_nonroot, F1 by discriminate. reflexivity. }
      congruence.
  - destruct (find_fold_add_dir_new (prefixes p) t _ F1) as [E|E]; unfold mkdirp in *; rewrite E in *; auto; try discriminate.
Qed.

(* ---------- the calls ---------- *)

Definition is_query (c : call) : bool :=
  match c with
  | Read _ | Ls _ | LsRec _ _ | TreeL _ | SubDirs _ | FindAll _ | Exists _ | IsFile _ | IsDir _ | IsEmpty _
  | Size _ | Hash _ | RelPath _ => true
  | _ => false
  end.

Lemma queries_pure_l t c r t' : is_query c = true -> exec t c = Out r t' -> t' = t.
Proof.
  destruct c; simpl; try discriminate; intros _;
  unfold r_read, r_ls, r_lsrec, r_tree, r_subdirs, r_findall, r_exists, r_isfile, r_isdir, r_isempty, r_size, r_hash, r_relpath;
  destruct p as [|p tr]; intros H;
  repeat match type of H with
         | Out _ _ = Out _ _ => inversion H; reflexivity
         | Unconstrained = Out _ _ => discriminate
         | context [if ?b then _ else _] => destruct b
         | context [match ?x with _ => _ end] => destruct x
         end.
Qed.

(* rm -rf: a constrained removal removes exactly the subtree *)
Lemma rm_spec_l t p tr r t' :
  exec t (Rm (P p tr)) = Out r t' ->
  r = ROk /\ forall q, q <> [] -> lookup t' q = if is_prefix p q then None else lookup t q.
Proof.
  simpl. destruct p as [|a p]; [discriminate|].
  destruct (arg_conflict t (a :: p) tr); [discriminate|]. intros H; inversion H; subst. split; auto.
  intros q Hq. rewrite !lookup_nonroot by auto. apply find_remove_sub.
Qed.

Lemma clean_spec_l t p tr r t' :
  exec t (Clean (P p tr)) = Out r t' ->
  r = ROk /\ forall q, q <> [] -> lookup t' q = if below p q then None else lookup t q.
Proof.
  simpl. destruct (dir_arg_conflict t p); [discriminate|]. intros H; inversion H; subst. split; auto.
  intros q Hq. rewrite !lookup_nonroot by auto. apply find_remove_below.
Qed.

(* mkdir -p: every prefix of the path is a directory afterwards; nothing else changes; nothing that existed changes *)
Lemma mkdir_spec_l t p tr r t' :
  exec t (Mkdir (P p tr)) = Out r t' ->
  r = ROk /\ (forall q, is_prefix q p = true -> is_dir t' q = true)
          /\ (forall q, is_prefix q p = false -> lookup t' q = lookup t q)
          /\ (forall q e, lookup t q = Some e -> lookup t' q = Some e).
Proof.
  simpl. destruct (through_file t p) eqn:Htf; [discriminate|]. destruct (is_file t p) eqn:Hf; [discriminate|].
  simpl. intros H; inversion H; subst. repeat split.
  - intros q Hq. now apply mkdirp_is_dir.
  - intros q Hq. now apply lookup_mkdirp_other.
  - intros q e Hq. now apply lookup_mkdirp_some.
Qed.

(* a directory is never copied or moved into itself: refused, nothing changes (D12 / D28) *)
Lemma copy_into_itself_refused_l t s str d dtr :
  s <> [] -> arg_conflict t s str = false -> arg_conflict t d dtr = false ->
  is_dir t s = true -> is_file t d = false ->
  is_prefix s (if is_dir t d then d ++ [base s] else d) = true -> parg_eqb (P s str) (P d dtr) = false ->
  exec t (Copy (P s str) (P d dtr)) = Out (RErr EInvalid) t.
Proof.
  intros Hs Ha Hb Hd Hf Hp Hne. simpl. unfold r_copy. rewrite Hne, Ha, Hb. simpl.
  unfold is_dir in Hd. destruct (lookup t s) as [[c|]|] eqn:L; try discriminate.
  rewrite Hf. destruct s; [congruence|].
  match goal with |- (if ?b then _ else _) = _ => replace b with true by (symmetry; exact Hp) end. reflexivity.
Qed.

Lemma move_into_itself_refused_l t s str d dtr :
  s <> [] -> arg_conflict t s str = false -> arg_conflict t d dtr = false ->
  is_dir t s = true ->
  let dst := if is_dir t d then d ++ [base s] else if negb (exists_ t d) && dtr then d ++ [base s] else d in
  is_prefix s dst = true -> path_eqb dst s = false -> parg_eqb (P s str) (P d dtr) = false ->
  exec t (Move (P s str) (P d dtr)) = Out (RErr EInvalid) t.
Proof.
  intros Hs Ha Hb Hd dst Hp Hne Hne2.
  assert (L : lookup t s = Some D) by (unfold is_dir in Hd; destruct (lookup t s) as [[|]|]; congruence).
  destruct s as [|a s]; [congruence|].
  unfold exec, r_move. rewrite Hne2, Ha, Hb. cbv beta iota. simpl orb. cbv iota. rewrite L. cbv zeta.
  match goal with |- (if ?b then _ else _) = _ => replace b with false by (symmetry; exact Hne) end.
  match goal with |- (if ?b then _ else _) = _ => replace b with true by (symmetry; exact Hp) end. reflexivity.
Qed.
