(* C06 — lemmas about the reference model R (GU.C06.Model). *)
From Coq Require Import List ZArith Bool Lia.
Import ListNotations.
From GU Require Import C06.Model.
Local Open Scope Z_scope.

(* ---------- paths ---------- *)

Lemma path_eqb_refl p : path_eqb p p = true.
Proof. induction p; simpl; auto. rewrite Z.eqb_refl. auto. Qed.

Lemma path_eqb_eq p q : path_eqb p q = true <-> p = q.
Proof.
  revert q; induction p as [|a p IH]; destruct q as [|b q]; simpl; split; intros H; try congruence; auto.
  - apply andb_true_iff in H as [H1 H2]. apply Z.eqb_eq in H1. apply IH in H2. congruence.
  - inversion H; subst. rewrite Z.eqb_refl. simpl. apply IH. auto.
Qed.

Lemma path_eqb_neq p q : path_eqb p q = false <-> p <> q.
Proof.
  split; intros H.
  - intros E. apply path_eqb_eq in E. congruence.
  - destruct (path_eqb p q) eqn:E; auto. apply path_eqb_eq in E. contradiction.
Qed.

Lemma path_eqb_sym p q : path_eqb p q = path_eqb q p.
Proof.
  destruct (path_eqb p q) eqn:E.
  - apply path_eqb_eq in E. subst. symmetry. apply path_eqb_refl.
  - symmetry. apply path_eqb_neq. apply path_eqb_neq in E. congruence.
Qed.

Lemma is_prefix_refl p : is_prefix p p = true.
Proof. induction p; simpl; auto. rewrite Z.eqb_refl. auto. Qed.

Lemma is_prefix_app p q : is_prefix p (p ++ q) = true.
Proof. induction p; simpl; auto. rewrite Z.eqb_refl. auto. Qed.

Lemma is_prefix_spec p q : is_prefix p q = true <-> exists r, q = p ++ r.
Proof.
  revert q; induction p as [|a p IH]; intros q; simpl.
  - split; eauto.
  - destruct q as [|b q].
    + split; [discriminate|]. intros [r H]. discriminate.
    + rewrite andb_true_iff, Z.eqb_eq, IH. split.
      * intros [-> [r ->]]. eauto.
      * intros [r H]. inversion H; subst. eauto.
Qed.

Lemma is_prefix_trans p q r : is_prefix p q = true -> is_prefix q r = true -> is_prefix p r = true.
Proof.
  rewrite !is_prefix_spec. intros [a ->] [b ->]. exists (a ++ b). now rewrite app_assoc.
Qed.

(* ---------- finite maps ---------- *)

Lemma find_entry_app t1 t2 p :
  find_entry (t1 ++ t2) p = match find_entry t1 p with Some e => Some e | None => find_entry t2 p end.
Proof.
  induction t1 as [|[q e] t1 IH]; simpl; auto. destruct (path_eqb q p); auto.
Qed.

Lemma find_entry_filter (f : path -> bool) t p :
  find_entry (filter (fun e => f (fst e)) t) p = if f p then find_entry t p else None.
Proof.
  induction t as [|[q e] t IH]; simpl.
  - destruct (f p); auto.
  - destruct (f q) eqn:Fq; simpl.
    + destruct (path_eqb q p) eqn:E.
      * apply path_eqb_eq in E. subst. now rewrite Fq.
      * exact IH.
    + rewrite IH. destruct (path_eqb q p) eqn:E; auto.
      apply path_eqb_eq in E. subst. now rewrite Fq.
Qed.

Lemma find_entry_in t p e : find_entry t p = Some e -> In (p, e) t.
Proof.
  induction t as [|[q x] t IH]; simpl; [discriminate|].
  destruct (path_eqb q p) eqn:E.
  - intros H. inversion H; subst. apply path_eqb_eq in E. subst. now left.
  - intros H. right. auto.
Qed.

(* rm -rf p: everything at or below p is gone, everything else is untouched *)
Lemma find_remove_sub t p q :
  find_entry (remove_sub t p) q = if is_prefix p q then None else find_entry t q.
Proof.
  unfold remove_sub. rewrite (find_entry_filter (fun x => negb (is_prefix p x))).
  destruct (is_prefix p q); auto.
Qed.

Lemma find_remove_below t p q :
  find_entry (remove_below t p) q = if below p q then None else find_entry t q.
Proof.
  unfold remove_below. rewrite (find_entry_filter (fun x => negb (below p x))).
  destruct (below p q); auto.
Qed.

Lemma find_set_file t p c q :
  find_entry (set_file t p c) q = if path_eqb p q then Some (F c) else find_entry t q.
Proof.
  unfold set_file. rewrite find_entry_app, (find_entry_filter (fun x => negb (path_eqb p x))). simpl.
  destruct (path_eqb p q) eqn:E; simpl.
  - reflexivity.
  - destruct (find_entry t q); auto.
Qed.

Lemma find_add_dir t d q :
  find_entry (add_dir t d) q =
  match find_entry t q with Some e => Some e | None => if path_eqb d q && negb (exists_ t d) then Some D else None end.
Proof.
  unfold add_dir. destruct (exists_ t d) eqn:E.
  - rewrite andb_false_r. destruct (find_entry t q); auto.
  - rewrite find_entry_app. simpl. rewrite andb_true_r. destruct (find_entry t q); auto.
Qed.

(* add_dir never changes what is already there *)
Lemma find_add_dir_some t d q e : find_entry t q = Some e -> find_entry (add_dir t d) q = Some e.
Proof. intros H. rewrite find_add_dir, H. auto. Qed.

Lemma find_add_dir_other t d q : path_eqb d q = false -> find_entry (add_dir t d) q = find_entry t q.
Proof. intros H. rewrite find_add_dir, H. simpl. destruct (find_entry t q); auto. Qed.

Lemma find_fold_add_dir_other ds : forall t q,
  (forall d, In d ds -> path_eqb d q = false) ->
  find_entry (fold_left add_dir ds t) q = find_entry t q.
Proof.
  induction ds as [|d ds IH]; intros t q H; simpl; auto.
  rewrite IH by (intros; apply H; now right). apply find_add_dir_other. apply H. now left.
Qed.

Lemma find_fold_add_dir_some ds : forall t q e,
  find_entry t q = Some e -> find_entry (fold_left add_dir ds t) q = Some e.
Proof.
  induction ds as [|d ds IH]; intros t q e H; simpl; auto. apply IH. now apply find_add_dir_some.
Qed.

Lemma in_prefixes p q : In q (prefixes p) -> is_prefix q p = true /\ q <> [].
Proof.
  revert q; induction p as [|a p IH]; simpl; intros q H; [contradiction|].
  destruct H as [<-|H].
  - simpl. rewrite Z.eqb_refl. split; [reflexivity|discriminate].
  - apply in_map_iff in H as [r [<- Hr]]. destruct (IH _ Hr) as [H1 H2].
    simpl. rewrite Z.eqb_refl. split; [exact H1|discriminate].
Qed.

(* mkdir -p p touches only the prefixes of p, and never what exists *)
Lemma find_mkdirp_other t p q : is_prefix q p = false -> find_entry (mkdirp t p) q = find_entry t q.
Proof.
  intros H. unfold mkdirp. apply find_fold_add_dir_other. intros d Hd.
  apply in_prefixes in Hd as [Hd _]. apply path_eqb_neq. intros ->. congruence.
Qed.

Lemma find_mkdirp_some t p q e : find_entry t q = Some e -> find_entry (mkdirp t p) q = Some e.
Proof. apply find_fold_add_dir_some. Qed.

Lemma lookup_nonroot t p : p <> [] -> lookup t p = find_entry t p.
Proof. destruct p; simpl; congruence. Qed.

Lemma lookup_mkdirp_other t p q : is_prefix q p = false -> lookup (mkdirp t p) q = lookup t q.
Proof.
  intros H. destruct q; [destruct p; discriminate|]. simpl. now apply find_mkdirp_other.
Qed.

Lemma lookup_mkdirp_some t p q e : lookup t q = Some e -> lookup (mkdirp t p) q = Some e.
Proof. destruct q; simpl; auto. apply find_mkdirp_some. Qed.

(* after mkdir -p every prefix of p exists *)
Lemma fold_add_dir_exists ds : forall t d, In d ds -> d <> [] -> exists_ (fold_left add_dir ds t) d = true.
Proof.
  induction ds as [|x ds IH]; intros t d Hin Hne; simpl; [contradiction|].
  destruct Hin as [->|Hin]; [|now apply IH].
  assert (E : exists e, find_entry (add_dir t d) d = Some e).
  { rewrite find_add_dir. destruct (find_entry t d) eqn:F1; eauto.
    rewrite path_eqb_refl. unfold exists_. rewrite lookup_nonroot, F1 by auto. simpl. eauto. }
  destruct E as [e E]. unfold exists_. rewrite lookup_nonroot by auto.
  now rewrite (find_fold_add_dir_some ds _ _ _ E).
Qed.

Lemma prefixes_cons a p : prefixes (a :: p) = map (cons a) ([] :: prefixes p).
Proof. reflexivity. Qed.

Lemma prefixes_in p r : p <> [] -> In p (prefixes (p ++ r)).
Proof.
  induction p as [|a p IH]; intros H; [congruence|].
  change ((a :: p) ++ r) with (a :: (p ++ r)). rewrite prefixes_cons. apply in_map.
  destruct p as [|b p]; [now left|]. right. apply IH. discriminate.
Qed.

Lemma mkdirp_exists t p q : is_prefix q p = true -> exists_ (mkdirp t p) q = true.
Proof.
  intros H. destruct q as [|a q]; [reflexivity|].
  apply fold_add_dir_exists; [|discriminate].
  apply is_prefix_spec in H as [r ->]. apply prefixes_in. discriminate.
Qed.

(* q is a proper prefix of q ++ x :: r *)
Lemma removelast_map {A B} (f : A -> B) l : removelast (map f l) = map f (removelast l).
Proof. induction l as [|x l IH]; simpl; auto. destruct l; simpl in *; auto. now rewrite IH. Qed.

Lemma proper_prefixes_in q x r : q <> [] -> In q (proper_prefixes (q ++ x :: r)).
Proof.
  unfold proper_prefixes. induction q as [|a q IH]; intros H; [congruence|].
  change ((a :: q) ++ x :: r) with (a :: (q ++ x :: r)). rewrite prefixes_cons, removelast_map. apply in_map.
  destruct q as [|b q].
  - simpl. destruct (prefixes r); simpl; now left.
  - assert (IH' := IH ltac:(discriminate)).
    change (removelast ([] :: prefixes ((b :: q) ++ x :: r))) with
      (match prefixes ((b :: q) ++ x :: r) with [] => [] | _ => [] :: removelast (prefixes ((b :: q) ++ x :: r)) end).
    destruct (prefixes ((b :: q) ++ x :: r)) eqn:E; [simpl in IH'; contradiction|]. right. exact IH'.
Qed.

(* what mkdir -p adds are directories *)
Lemma find_add_dir_new t d q : find_entry t q = None -> find_entry (add_dir t d) q = None \/ find_entry (add_dir t d) q = Some D.
Proof. intros H. rewrite find_add_dir, H. destruct (path_eqb d q && negb (exists_ t d)); auto. Qed.

Lemma find_fold_add_dir_new ds : forall t q,
  find_entry t q = None -> find_entry (fold_left add_dir ds t) q = None \/ find_entry (fold_left add_dir ds t) q = Some D.
Proof.
  induction ds as [|d ds IH]; intros t q H; simpl; auto.
  destruct (find_add_dir_new t d q H) as [E|E]; [now apply IH|].
  right. now apply find_fold_add_dir_some.
Qed.

Lemma mkdirp_is_dir t p q :
  through_file t p = false -> is_file t p = false -> is_prefix q p = true -> is_dir (mkdirp t p) q = true.
Proof.
  intros Htf Hf Hq. destruct q as [|a q]; [reflexivity|].
  pose proof (mkdirp_exists t p _ Hq) as Hex. unfold is_dir, exists_ in *.
  rewrite lookup_nonroot in * by discriminate.
  destruct (find_entry t (a :: q)) eqn:F1.
  - (* already there: it is not a file *)
    rewrite (find_mkdirp_some t p _ _ F1). destruct e; auto. exfalso.
    destruct (path_eqb (a :: q) p) eqn:E.
    + apply path_eqb_eq in E. subst p. unfold is_file in Hf. rewrite lookup_nonroot, F1 in Hf by discriminate. discriminate.
    + (* a proper prefix that is a file *)
      unfold through_file in Htf.
      assert (Hin : In (a :: q) (proper_prefixes p)).
      { apply is_prefix_spec in Hq as [r ->]. destruct r as [|x r]; [rewrite app_nil_r, path_eqb_refl in E; discriminate|].
        apply proper_prefixes_in. discriminate. }
      assert (X : existsb (is_file t) (proper_prefixes p) = true).
      { apply existsb_exists. exists (a :: q). split; auto. unfold is_file. rewrite lookup_nonroot, F1 by discriminate. reflexivity. }
      congruence.
  - destruct (find_fold_add_dir_new (prefixes p) t _ F1) as [E|E]; unfold mkdirp in *; rewrite E in *; auto; try discriminate.
Qed.

(* ---------- the calls ---------- *)

Definition is_query (c : call) : bool :=
  match c with
  | Read _ | Ls _ | LsRec _ _ | TreeL _ | SubDirs _ | FindAll _ | Exists _ | IsFile _ | IsDir _ | IsEmpty _
  | Size _ | Hash _ | RelPath _ => true
  | _ => false
  end.

Lemma queries_pure_l t c r t' : is_query c = true -> exec t c = Out r t' -> t' = t.
Proof.
  destruct c; simpl; try discriminate; intros _;
  unfold r_read, r_ls, r_lsrec, r_tree, r_subdirs, r_findall, r_exists, r_isfile, r_isdir, r_isempty, r_size, r_hash, r_relpath;
  destruct p as [|p tr]; intros H;
  repeat match type of H with
         | Out _ _ = Out _ _ => inversion H; reflexivity
         | Unconstrained = Out _ _ => discriminate
         | context [if ?b then _ else _] => destruct b
         | context [match ?x with _ => _ end] => destruct x
         end.
Qed.

(* rm -rf: a constrained removal removes exactly the subtree *)
Lemma rm_spec_l t p tr r t' :
  exec t (Rm (P p tr)) = Out r t' ->
  r = ROk /\ forall q, q <> [] -> lookup t' q = if is_prefix p q then None else lookup t q.
Proof.
  simpl. destruct p as [|a p]; [discriminate|].
  destruct (arg_conflict t (a :: p) tr); [discriminate|]. intros H; inversion H; subst. split; auto.
  intros q Hq. rewrite !lookup_nonroot by auto. apply find_remove_sub.
Qed.

Lemma clean_spec_l t p tr r t' :
  exec t (Clean (P p tr)) = Out r t' ->
  r = ROk /\ forall q, q <> [] -> lookup t' q = if below p q then None else lookup t q.
Proof.
  simpl. destruct (dir_arg_conflict t p); [discriminate|]. intros H; inversion H; subst. split; auto.
  intros q Hq. rewrite !lookup_nonroot by auto. apply find_remove_below.
Qed.

(* mkdir -p: every prefix of the path is a directory afterwards; nothing else changes; nothing that existed changes *)
Lemma mkdir_spec_l t p tr r t' :
  exec t (Mkdir (P p tr)) = Out r t' ->
  r = ROk /\ (forall q, is_prefix q p = true -> is_dir t' q = true)
          /\ (forall q, is_prefix q p = false -> lookup t' q = lookup t q)
          /\ (forall q e, lookup t q = Some e -> lookup t' q = Some e).
Proof.
  simpl. destruct (through_file t p) eqn:Htf; [discriminate|]. destruct (is_file t p) eqn:Hf; [discriminate|].
  simpl. intros H; inversion H; subst. repeat split.
  - intros q Hq. now apply mkdirp_is_dir.
  - intros q Hq. now apply lookup_mkdirp_other.
  - intros q e Hq. now apply lookup_mkdirp_some.
Qed.

(* a directory is never copied or moved into itself: refused, nothing changes (D12 / D28) *)
Lemma copy_into_itself_refused_l t s str d dtr :
  s <> [] -> arg_conflict t s str = false -> arg_conflict t d dtr = false ->
  is_dir t s = true -> is_file t d = false ->
  is_prefix s (if is_dir t d then d ++ [base s] else d) = true -> parg_eqb (P s str) (P d dtr) = false ->
  exec t (Copy (P s str) (P d dtr)) = Out (RErr EInvalid) t.
Proof.
  intros Hs Ha Hb Hd Hf Hp Hne. simpl. unfold r_copy. rewrite Hne, Ha, Hb. simpl.
  unfold is_dir in Hd. destruct (lookup t s) as [[c|]|] eqn:L; try discriminate.
  rewrite Hf. destruct s; [congruence|].
  match goal with |- (if ?b || _ then _ else _) = _ => replace b with true by (symmetry; exact Hp) end. reflexivity.
Qed.

Lemma move_into_itself_refused_l t s str d dtr :
  s <> [] -> arg_conflict t s str = false -> arg_conflict t d dtr = false ->
  is_dir t s = true ->
  let dst := if is_dir t d then d ++ [base s] else if negb (exists_ t d) && dtr then d ++ [base s] else d in
  is_prefix s dst = true -> path_eqb dst s = false -> parg_eqb (P s str) (P d dtr) = false ->
  exec t (Move (P s str) (P d dtr)) = Out (RErr EInvalid) t.
Proof.
  intros Hs Ha Hb Hd dst Hp Hne Hne2.
  assert (L : lookup t s = Some D) by (unfold is_dir in Hd; destruct (lookup t s) as [[|]|]; congruence).
  destruct s as [|a s]; [congruence|].
  unfold exec, r_move. rewrite Hne2, Ha, Hb. cbv beta iota. simpl orb. cbv iota. rewrite L. cbv zeta.
  match goal with |- (if ?b then _ else _) = _ => replace b with false by (symmetry; exact Hne) end.
  match goal with |- (if ?b then _ else _) = _ => replace b with true by (symmetry; exact Hp) end. reflexivity.
Qed.

(* ---------- frame: nothing outside the destination changes ---------- *)

(* [frame t t' rs]: every path that is not at or below one of [rs] keeps its entry if it had one, and is unchanged
   altogether unless it is an ancestor of one of [rs] (mkdir -p of the parents). *)
Definition frame (t t' : tree) (rs : list path) : Prop :=
  forall q, outside rs q = true ->
    (forall e, lookup t q = Some e -> lookup t' q = Some e) /\ (towards rs q = false -> lookup t' q = lookup t q).

Lemma frame_refl t rs : frame t t rs.
Proof. intros q _. split; auto. Qed.

Lemma frame_trans t t1 t2 rs : frame t t1 rs -> frame t1 t2 rs -> frame t t2 rs.
Proof.
  intros H1 H2 q Hq. destruct (H1 q Hq) as [A1 B1]. destruct (H2 q Hq) as [A2 B2]. split.
  - intros e He. apply A2, A1, He.
  - intros Ht. rewrite B2, B1; auto.
Qed.

Lemma outside_in rs q r : outside rs q = true -> In r rs -> is_prefix r q = false.
Proof.
  unfold outside. rewrite forallb_forall. intros H Hin. apply H in Hin. now apply negb_true_iff in Hin.
Qed.

Lemma towards_in rs q r : towards rs q = false -> In r rs -> is_prefix q r = false.
Proof.
  unfold towards. intros H Hin. destruct (is_prefix q r) eqn:E; auto.
  assert (existsb (fun r => is_prefix q r) rs = true) by (apply existsb_exists; eauto). congruence.
Qed.

Lemma prefix_comparable a b x : is_prefix a x = true -> is_prefix b x = true -> is_prefix a b = true \/ is_prefix b a = true.
Proof.
  revert b x; induction a as [|u a IH]; intros b x Ha Hb; [now left|].
  destruct b as [|v b]; [now right|]. destruct x as [|w x]; [discriminate|].
  simpl in *. apply andb_true_iff in Ha as [Ha1 Ha2]. apply andb_true_iff in Hb as [Hb1 Hb2].
  apply Z.eqb_eq in Ha1, Hb1. subst. rewrite Z.eqb_refl. simpl. eapply IH; eauto.
Qed.

Lemma lookup_root t : lookup t [] = Some D.
Proof. reflexivity. Qed.

(* mkdir -p p, p an ancestor of a root or at/below a root *)
Lemma frame_mkdirp t p rs r :
  In r rs -> is_prefix p r = true \/ is_prefix r p = true -> frame t (mkdirp t p) rs.
Proof.
  intros Hin Hr q Hq. split.
  - intros e. apply lookup_mkdirp_some.
  - intros Ht. apply lookup_mkdirp_other. destruct (is_prefix q p) eqn:E; auto. exfalso.
    pose proof (outside_in _ _ _ Hq Hin) as O. pose proof (towards_in _ _ _ Ht Hin) as T.
    destruct Hr as [Hr|Hr].
    + rewrite (is_prefix_trans _ _ _ E Hr) in T. discriminate.
    + destruct (prefix_comparable _ _ _ E Hr); congruence.
Qed.

(* a change confined to what lies at or below xs, each of which is at or below a root *)
Lemma frame_under t t' xs rs :
  (forall q, q <> [] -> (forall x, In x xs -> is_prefix x q = false) -> find_entry t' q = find_entry t q) ->
  (forall x, In x xs -> exists r, In r rs /\ is_prefix r x = true) ->
  frame t t' rs.
Proof.
  intros H Hx q Hq.
  assert (E : lookup t' q = lookup t q).
  { destruct q as [|a q]; [reflexivity|]. simpl. apply H; [discriminate|]. intros x Hin.
    destruct (Hx x Hin) as [r [Hr Hp]]. pose proof (outside_in _ _ _ Hq Hr) as O.
    destruct (is_prefix x (a :: q)) eqn:E; auto. rewrite (is_prefix_trans _ _ _ Hp E) in O. discriminate. }
  rewrite E. split; auto.
Qed.

Lemma is_prefix_false_neq p q : is_prefix p q = false -> path_eqb p q = false.
Proof. intros H. apply path_eqb_neq. intros ->. rewrite is_prefix_refl in H. discriminate. Qed.

Lemma frame_set_file t x c rs r : In r rs -> is_prefix r x = true -> frame t (set_file t x c) rs.
Proof.
  intros Hin Hp. apply (frame_under _ _ [x]).
  - intros q _ H. rewrite find_set_file, (is_prefix_false_neq x q); auto. apply H. now left.
  - intros y [<-|[]]. eauto.
Qed.

Lemma frame_remove_sub t x rs r : In r rs -> is_prefix r x = true -> frame t (remove_sub t x) rs.
Proof.
  intros Hin Hp. apply (frame_under _ _ [x]).
  - intros q _ H. rewrite find_remove_sub, H; auto. now left.
  - intros y [<-|[]]. eauto.
Qed.

Lemma below_prefix p q : below p q = true -> is_prefix p q = true.
Proof. unfold below. intros H. now apply andb_true_iff in H as [H _]. Qed.

Lemma frame_remove_below t x rs r : In r rs -> is_prefix r x = true -> frame t (remove_below t x) rs.
Proof.
  intros Hin Hp. apply (frame_under _ _ [x]).
  - intros q _ H. rewrite find_remove_below. destruct (below x q) eqn:E; auto.
    apply below_prefix in E. rewrite H in E; [discriminate|now left].
  - intros y [<-|[]]. eauto.
Qed.

Lemma skipn_app_exact {A} (a b : list A) : skipn (length a) (a ++ b) = b.
Proof. induction a; simpl; auto. Qed.

Lemma path_eqb_app_l a b c : path_eqb (a ++ b) (a ++ c) = path_eqb b c.
Proof. induction a; simpl; auto. now rewrite Z.eqb_refl. Qed.

Lemma is_prefix_app_false s q r : is_prefix s q = false -> path_eqb q (s ++ r) = false.
Proof.
  intros H. apply path_eqb_neq. intros ->. rewrite is_prefix_app in H. discriminate.
Qed.

(* where the rerooted copy of the subtree at s has an entry *)
Lemma find_map_reroot t s dst x :
  find_entry (map (fun e => (reroot s dst (fst e), snd e)) (sub t s)) x =
  if is_prefix dst x then find_entry t (unroot s dst x) else None.
Proof.
  unfold sub. induction t as [|[q e] t IH]; simpl.
  - now destruct (is_prefix dst x).
  - destruct (is_prefix s q) eqn:Sq; simpl.
    + rewrite IH. apply is_prefix_spec in Sq as [r ->]. unfold reroot. rewrite skipn_app_exact.
      destruct (is_prefix dst x) eqn:Dx.
      * apply is_prefix_spec in Dx as [r' ->]. unfold unroot. rewrite skipn_app_exact, !path_eqb_app_l. reflexivity.
      * rewrite (path_eqb_sym (dst ++ r) x), (is_prefix_app_false dst x r Dx). reflexivity.
    + rewrite IH. destruct (is_prefix dst x); auto. unfold unroot. now rewrite (is_prefix_app_false s q _ Sq).
Qed.

Lemma find_graft t s dst x :
  find_entry (graft t s dst) x =
  if is_prefix dst x then match find_entry t (unroot s dst x) with Some e => Some e | None => find_entry t x end
  else find_entry t x.
Proof.
  unfold graft. rewrite find_entry_app, (find_entry_filter (fun k => negb (has_source t s dst k))), find_map_reroot.
  unfold has_source. destruct (is_prefix dst x); simpl.
  - destruct (find_entry t (unroot s dst x)); simpl; auto. destruct (find_entry t x); auto.
  - destruct (find_entry t x); auto.
Qed.

Lemma find_graft_other t s dst q : is_prefix dst q = false -> find_entry (graft t s dst) q = find_entry t q.
Proof. intros H. now rewrite find_graft, H. Qed.

Lemma frame_graft t s dst rs r : In r rs -> is_prefix r dst = true -> frame t (graft t s dst) rs.
Proof.
  intros Hin Hp. apply (frame_under _ _ [dst]).
  - intros q _ H. apply find_graft_other. apply H. now left.
  - intros y [<-|[]]. eauto.
Qed.

Lemma find_map_reroot_none (l : tree) s dst q :
  is_prefix dst q = false -> find_entry (map (fun e => (reroot s dst (fst e), snd e)) l) q = None.
Proof.
  intros H. induction l as [|e l IH]; simpl; auto.
  destruct (path_eqb (reroot s dst (fst e)) q) eqn:E; auto.
  apply path_eqb_eq in E. subst q. unfold reroot in H. rewrite is_prefix_app in H. discriminate.
Qed.

Lemma frame_rename t s dst rs r1 r2 :
  In r1 rs -> is_prefix r1 s = true -> In r2 rs -> is_prefix r2 dst = true -> frame t (rename_sub t s dst) rs.
Proof.
  intros H1 P1 H2 P2. apply (frame_under _ _ [s; dst]).
  - intros q _ H. unfold rename_sub. rewrite find_entry_app, find_remove_sub.
    rewrite (H s) by (now left). rewrite find_map_reroot_none by (apply H; right; now left).
    destruct (find_entry t q); auto.
  - intros y [<-|[<-|[]]]; eauto.
Qed.

Lemma is_prefix_parent p : is_prefix (parent p) p = true.
Proof.
  unfold parent. induction p as [|a p IH]; auto. simpl. destruct p; [reflexivity|].
  simpl in *. now rewrite Z.eqb_refl.
Qed.

Lemma frame_weaken_nil t t' : t' = t -> forall rs, frame t t' rs.
Proof. intros ->. intros; apply frame_refl. Qed.

Ltac inv_out H := first [discriminate H | (inversion H; subst; clear H)].

(* Copy: everything it changes is at or below its destination argument d (or a freshly created ancestor of d) *)
Lemma frame_copy t a d dtr r t' : r_copy t a (P d dtr) = Out r t' -> frame t t' [d].
Proof.
  unfold r_copy. destruct (parg_eqb a (P d dtr)); [intros H; inv_out H; apply frame_refl|].
  destruct a as [|s str]; [intros H; inv_out H; apply frame_refl|].
  destruct (arg_conflict t s str || arg_conflict t d dtr); [discriminate|].
  destruct (lookup t s) as [[c|]|] eqn:L; [| |intros H; inv_out H; apply frame_refl].
  - (* file *)
    set (dst := if is_dir t d then d ++ [base s] else if exists_ t d then d else if dtr then d ++ [base s] else d).
    set (pre := if exists_ t d then t else if dtr then mkdirp t d else mkdirp t (parent d)).
    assert (Fpre : frame t pre [d]).
    { unfold pre. destruct (exists_ t d); [apply frame_refl|]. destruct dtr.
      - apply (frame_mkdirp _ _ _ d); [now left|left; apply is_prefix_refl].
      - apply (frame_mkdirp _ _ _ d); [now left|left; apply is_prefix_parent]. }
    assert (Pd : is_prefix d dst = true).
    { unfold dst. destruct (is_dir t d); [apply is_prefix_app|]. destruct (exists_ t d); [apply is_prefix_refl|].
      destruct dtr; [apply is_prefix_app|apply is_prefix_refl]. }
    destruct (path_eqb dst s); [intros H; inv_out H; exact Fpre|].
    destruct (is_dir pre dst); [discriminate|]. intros H; inv_out H.
    eapply frame_trans; [exact Fpre|]. apply (frame_set_file _ _ _ _ d); [now left|exact Pd].
  - (* directory *)
    destruct (is_file t d); [discriminate|]. destruct s as [|n s]; [intros H; inv_out H; apply frame_refl|].
    set (dst := if is_dir t d then d ++ [base (n :: s)] else d).
    assert (Pd : is_prefix d dst = true) by (unfold dst; destruct (is_dir t d); [apply is_prefix_app|apply is_prefix_refl]).
    destruct (is_prefix (n :: s) dst || is_prefix dst (n :: s)); [intros H; inv_out H; apply frame_refl|].
    destruct (through_file t dst || graft_conflict t (n :: s) dst); [discriminate|]. intros H; inv_out H.
    eapply frame_trans.
    + apply (frame_mkdirp _ dst _ d); [now left|right; exact Pd].
    + apply (frame_graft _ _ _ _ d); [now left|exact Pd].
Qed.

Lemma frame_mono t t' rs rs' : (forall r, In r rs -> In r rs') -> frame t t' rs -> frame t t' rs'.
Proof.
  intros Hsub H q Hq.
  assert (O : outside rs q = true).
  { unfold outside in *. rewrite forallb_forall in *. intros r Hr. apply Hq, Hsub, Hr. }
  destruct (H q O) as [A B]. split; auto. intros T. apply B.
  unfold towards in *. destruct (existsb (fun r => is_prefix q r) rs) eqn:E; auto.
  apply existsb_exists in E as [r [Hr Hp]].
  assert (existsb (fun r => is_prefix q r) rs' = true) by (apply existsb_exists; exists r; auto). congruence.
Qed.

Lemma frame_move t s str d dtr r t' : r_move t (P s str) (P d dtr) = Out r t' -> frame t t' [s; d].
Proof.
  unfold r_move. destruct (parg_eqb (P s str) (P d dtr)); [intros H; inv_out H; apply frame_refl|].
  destruct s as [|n s]; [discriminate|].
  destruct (arg_conflict t (n :: s) str || arg_conflict t d dtr); [discriminate|].
  destruct (lookup t (n :: s)) as [e|] eqn:L; [|intros H; inv_out H; apply frame_refl].
  set (dst := if is_dir t d then d ++ [base (n :: s)] else if negb (exists_ t d) && dtr then d ++ [base (n :: s)] else d).
  assert (Pd : is_prefix d dst = true).
  { unfold dst. destruct (is_dir t d); [apply is_prefix_app|]. destruct (negb (exists_ t d) && dtr); [apply is_prefix_app|apply is_prefix_refl]. }
  destruct (path_eqb dst (n :: s)); [intros H; inv_out H; apply frame_refl|].
  destruct ((match e with D => true | _ => false end) && is_prefix (n :: s) dst); [intros H; inv_out H; apply frame_refl|].
  set (pre := mkdirp t (parent dst)).
  assert (Fpre : frame t pre [n :: s; d]).
  { unfold pre. apply (frame_mkdirp _ _ _ d); [right; now left|].
    destruct (prefix_comparable _ _ _ (is_prefix_parent dst) Pd); auto. }
  destruct (lookup pre dst) as [[c|]|] eqn:Ld; destruct e as [c'|]; try discriminate; intros H.
  - inv_out H. eapply frame_trans; [exact Fpre|]. apply (frame_trans _ (remove_sub pre (n :: s))).
    + apply (frame_remove_sub _ _ _ (n :: s)); [now left|apply is_prefix_refl].
    + apply (frame_set_file _ _ _ _ d); [right; now left|exact Pd].
  - destruct (children pre dst); inv_out H; [|exact Fpre].
    eapply frame_trans; [exact Fpre|]. apply (frame_trans _ (remove_sub pre dst)).
    + apply (frame_remove_sub _ _ _ d); [right; now left|exact Pd].
    + apply (frame_rename _ _ _ _ (n :: s) d); [now left|apply is_prefix_refl|right; now left|exact Pd].
  - inv_out H. eapply frame_trans; [exact Fpre|].
    apply (frame_rename _ _ _ _ (n :: s) d); [now left|apply is_prefix_refl|right; now left|exact Pd].
  - inv_out H. eapply frame_trans; [exact Fpre|].
    apply (frame_rename _ _ _ _ (n :: s) d); [now left|apply is_prefix_refl|right; now left|exact Pd].
Qed.

Lemma only_touches_destination_l t c r t' : exec t c = Out r t' -> frame t t' (roots c).
Proof.
  destruct (is_query c) eqn:Q; [intros H; apply frame_weaken_nil; eapply queries_pure_l; eassumption|].
  destruct c; try discriminate Q; clear Q; simpl.
  - (* mkdir *) destruct p as [|p tr]; simpl; intros H; [inv_out H; apply frame_refl|].
    destruct (through_file t p || is_file t p); inv_out H.
    apply (frame_mkdirp _ _ _ p); [now left|left; apply is_prefix_refl].
  - (* touch *) destruct p as [|p tr]; simpl; intros H; [inv_out H; apply frame_refl|].
    destruct (arg_conflict t p tr); [discriminate|]. destruct (exists_ t p); [inv_out H; apply frame_refl|].
    destruct tr; [inv_out H; apply (frame_mkdirp _ _ _ p); [now left|left; apply is_prefix_refl]|].
    destruct (is_dir t (parent p)); inv_out H; [|apply frame_refl].
    apply (frame_set_file _ _ _ _ p); [now left|apply is_prefix_refl].
  - (* write *) destruct p as [|p tr]; simpl; intros H; [inv_out H; apply frame_refl|].
    destruct (through_file t p || tr || is_dir t p); [discriminate|].
    destruct (is_dir t (parent p)); inv_out H; [|apply frame_refl].
    apply (frame_set_file _ _ _ _ p); [now left|apply is_prefix_refl].
  - (* rm *) destruct p as [|p tr]; simpl; intros H; [inv_out H; apply frame_refl|].
    destruct p as [|a p]; [discriminate|]. destruct (arg_conflict t (a :: p) tr); inv_out H.
    apply (frame_remove_sub _ _ _ (a :: p)); [now left|apply is_prefix_refl].
  - (* clean *) destruct p as [|p tr]; simpl; intros H; [inv_out H; apply frame_refl|].
    destruct (dir_arg_conflict t p); inv_out H.
    apply (frame_remove_below _ _ _ p); [now left|apply is_prefix_refl].
  - (* copy *) destruct q as [|d dtr]; simpl.
    + unfold r_copy. destruct (parg_eqb p PEmpty); [|destruct p]; intros H; inv_out H; apply frame_refl.
    + apply frame_copy.
  - (* copytofile *) unfold r_copytofile. destruct p as [|s str]; [intros H; inv_out H; apply frame_refl|].
    destruct (arg_conflict t s str || is_dir t s); [discriminate|].
    destruct (negb (is_file t s)); [intros H; inv_out H; apply frame_refl|].
    destruct q as [|d dtr]; [intros H; inv_out H; apply frame_refl|].
    destruct (arg_conflict t d dtr || is_dir t d); [discriminate|].
    destruct (negb (exists_ t d) && dtr); [intros H; inv_out H; apply frame_refl|]. simpl. apply frame_copy.
  - (* copytodir *) unfold r_copytodir. destruct q as [|d dtr]; [intros H; inv_out H; apply frame_refl|].
    destruct (through_file t d || is_file t d); [discriminate|]. simpl.
    assert (Fm : frame t (mkdirp t d) [d]) by (apply (frame_mkdirp _ _ _ d); [now left|left; apply is_prefix_refl]).
    destruct p as [|s str].
    + intros H. eapply frame_trans; [exact Fm|]. eapply frame_copy; eauto.
    + destruct (arg_conflict t s str); [discriminate|]. intros H. eapply frame_trans; [exact Fm|]. eapply frame_copy; eauto.
  - (* move *) destruct p as [|s str]; destruct q as [|d dtr]; simpl.
    + unfold r_move. simpl. intros H; inv_out H; apply frame_refl.
    + unfold r_move. simpl. intros H; inv_out H; apply frame_refl.
    + unfold r_move. simpl. destruct s; intros H; inv_out H; apply frame_refl.
    + apply frame_move.
  - (* movebetween: the copy touches the destination, the removal the source *)
    unfold r_movebetween. destruct (parg_eqb p q); [intros H; inv_out H; apply frame_refl|].
    destruct q as [|d dtr]; [destruct p as [|[|? ?] ?]; intros H; inv_out H; apply frame_refl|].
    destruct p as [|s str]; [intros H; inv_out H; apply frame_refl|].
    destruct s as [|n s]; [discriminate|].
    destruct (arg_conflict t (n :: s) str || arg_conflict t d dtr); [discriminate|].
    destruct (exists_ t (n :: s) && is_dir t d && path_eqb (d ++ [base (n :: s)]) (n :: s)); [intros H; inv_out H; apply frame_refl|].
    destruct (r_copy t (P (n :: s) str) (P d dtr)) as [|r1 t1] eqn:E; [discriminate|].
    assert (Fc : frame t t1 [n :: s; d]).
    { apply (frame_mono _ _ [d]); [intros x [<-|[]]; right; now left|]. eapply frame_copy; eauto. }
    simpl. destruct r1; intros H; inv_out H; auto.
    eapply frame_trans; [exact Fc|]. apply (frame_remove_sub _ _ _ (n :: s)); [now left|apply is_prefix_refl].
  - (* createfile *) destruct p as [|p tr]; simpl; intros H; [inv_out H; apply frame_refl|].
    destruct (through_file t p || tr || is_dir t p); [discriminate|].
    destruct (is_dir t (parent p)); inv_out H; [|apply frame_refl].
    apply (frame_set_file _ _ _ _ p); [now left|apply is_prefix_refl].
  - (* openfile with O_CREATE *) destruct p as [|p tr]; simpl; intros H; [inv_out H; apply frame_refl|].
    destruct (through_file t p || tr || is_dir t p); [discriminate|]. destruct (is_file t p); [inv_out H; apply frame_refl|].
    destruct (is_dir t (parent p)); inv_out H; [|apply frame_refl].
    apply (frame_set_file _ _ _ _ p); [now left|apply is_prefix_refl].
Qed.

(* ---------- a copy never changes its source ---------- *)

Lemma through_file_below t s d : is_file t s = true -> is_prefix s d = true -> path_eqb s d = false -> s <> [] -> through_file t d = true.
Proof.
  intros Hf Hp Hne Hs. apply is_prefix_spec in Hp as [r ->]. destruct r as [|x r].
  - rewrite app_nil_r, path_eqb_refl in Hne. discriminate.
  - unfold through_file. apply existsb_exists. exists s. split; auto. now apply proper_prefixes_in.
Qed.

Lemma is_file_nonroot t s : is_file t s = true -> s <> [].
Proof. intros H ->. discriminate. Qed.

Lemma prefix_of_app_singleton s d b : is_prefix s (d ++ [b]) = true -> is_prefix s d = true \/ s = d ++ [b].
Proof.
  revert d; induction s as [|a s IH]; intros d H; [now left|].
  destruct d as [|x d]; simpl in *.
  - apply andb_true_iff in H as [H1 H2]. apply Z.eqb_eq in H1. subst. destruct s; [now right|discriminate].
  - apply andb_true_iff in H as [H1 H2]. apply Z.eqb_eq in H1. subst. rewrite Z.eqb_refl. simpl.
    destruct (IH _ H2) as [E|E]; [now left|right; now rewrite E].
Qed.

Lemma copy_leaves_source_l t s str b r t' :
  exec t (Copy (P s str) b) = Out r t' -> forall q, is_prefix s q = true -> lookup t' q = lookup t q.
Proof.
  simpl. unfold r_copy. destruct (parg_eqb (P s str) b); [intros H; inv_out H; auto|].
  destruct b as [|d dtr]; [intros H; inv_out H; auto|].
  unfold arg_conflict at 2. destruct (arg_conflict t s str); [discriminate|]. simpl orb.
  destruct (through_file t d) eqn:Tf; [discriminate|]. simpl orb.
  destruct (dtr && is_file t d) eqn:Tr; [discriminate|].
  destruct (lookup t s) as [[c|]|] eqn:L; [| |intros H; inv_out H; auto].
  - (* file: its path is neither the destination nor on the way to it *)
    assert (Hf : is_file t s = true) by (unfold is_file; now rewrite L).
    pose proof (is_file_nonroot _ _ Hf) as Hs.
    assert (Nd : is_prefix s d = true -> path_eqb s d = true).
    { intros Hp. destruct (path_eqb s d) eqn:E; auto. rewrite (through_file_below t s d Hf Hp E Hs) in Tf. discriminate. }
    set (dst := if is_dir t d then d ++ [base s] else if exists_ t d then d else if dtr then d ++ [base s] else d).
    set (pre := if exists_ t d then t else if dtr then mkdirp t d else mkdirp t (parent d)).
    assert (Epre : forall q, is_prefix s q = true -> lookup pre q = lookup t q).
    { intros q Hq. unfold pre. destruct (exists_ t d) eqn:Ex; auto.
      assert (X : is_prefix s d = false).
      { destruct (is_prefix s d) eqn:E; auto. specialize (Nd eq_refl). apply path_eqb_eq in Nd. subst d.
        unfold exists_ in Ex. rewrite L in Ex. discriminate. }
      destruct dtr; apply lookup_mkdirp_other.
      - destruct (is_prefix q d) eqn:E; auto. rewrite (is_prefix_trans _ _ _ Hq E) in X. discriminate.
      - destruct (is_prefix q (parent d)) eqn:E; auto.
        rewrite (is_prefix_trans _ _ _ Hq (is_prefix_trans _ _ _ E (is_prefix_parent d))) in X. discriminate. }
    destruct (path_eqb dst s) eqn:Eds; [intros H; inv_out H; exact Epre|].
    destruct (is_dir pre dst); [discriminate|]. intros H; inv_out H. intros q Hq.
    assert (X : path_eqb dst q = false).
    { apply path_eqb_neq. intros <-.
      assert (Y : is_prefix s d = true \/ s = dst).
      { unfold dst in Hq |- *. destruct (is_dir t d); [apply prefix_of_app_singleton in Hq; tauto|].
        destruct (exists_ t d); [now left|]. destruct dtr; [apply prefix_of_app_singleton in Hq; tauto|now left]. }
      destruct Y as [Y|Y].
      - apply Nd in Y. apply path_eqb_eq in Y. subst d.
        unfold dst in Eds. unfold is_dir, exists_ in Eds. rewrite L in Eds. rewrite path_eqb_refl in Eds. discriminate.
      - rewrite <- Y, path_eqb_refl in Eds. discriminate. }
    destruct q as [|a q]; [reflexivity|].
    rewrite <- (Epre (a :: q) Hq). simpl. now rewrite find_set_file, X.
  - (* directory: the destination is neither inside the source nor one of its parents *)
    destruct (is_file t d); [discriminate|]. destruct s as [|n s]; [intros H; inv_out H; auto|].
    set (dst := if is_dir t d then d ++ [base (n :: s)] else d).
    destruct (is_prefix (n :: s) dst) eqn:P1; [intros H; inv_out H; auto|].
    destruct (is_prefix dst (n :: s)) eqn:P2; [intros H; inv_out H; auto|]. simpl orb.
    destruct (through_file t dst || graft_conflict t (n :: s) dst); [discriminate|]. intros H; inv_out H.
    intros q Hq. destruct q as [|a q]; [reflexivity|]. simpl.
    rewrite find_graft_other.
    + apply find_mkdirp_other. destruct (is_prefix (a :: q) dst) eqn:E; auto.
      rewrite (is_prefix_trans _ _ _ Hq E) in P1. discriminate.
    + destruct (is_prefix dst (a :: q)) eqn:E; auto.
      destruct (prefix_comparable _ _ _ Hq E); congruence.
Qed.

(* ---------- programs ---------- *)

Lemma program_frame_l cs : forall t t' q,
  run t cs = Some t' ->
  (forall c, In c cs -> outside (roots c) q = true /\ towards (roots c) q = false) ->
  lookup t' q = lookup t q.
Proof.
  induction cs as [|c cs IH]; intros t t' q Hr Hq; simpl in Hr.
  - now inversion Hr.
  - destruct (exec t c) as [|r t1] eqn:E; [discriminate|].
    rewrite (IH t1 t' q Hr) by (intros c' Hc'; apply Hq; now right).
    destruct (Hq c (or_introl eq_refl)) as [O T].
    destruct (only_touches_destination_l _ _ _ _ E q O) as [_ B]. now apply B.
Qed.

Lemma program_preserves_l cs : forall t t' q e,
  run t cs = Some t' ->
  (forall c, In c cs -> outside (roots c) q = true) ->
  lookup t q = Some e -> lookup t' q = Some e.
Proof.
  induction cs as [|c cs IH]; intros t t' q e Hr Hq He; simpl in Hr.
  - now inversion Hr; subst.
  - destruct (exec t c) as [|r t1] eqn:E; [discriminate|].
    apply (IH t1 t' q e Hr); [intros c' Hc'; apply Hq; now right|].
    destruct (only_touches_destination_l _ _ _ _ E q (Hq c (or_introl eq_refl))) as [A _]. now apply A.
Qed.
