(* C06 — R preserves well-formedness: from a tree in which the ancestors of every entry are directories, every constrained
   call (hence every program) leads to such a tree. *)
From Coq Require Import List ZArith Bool Lia.
Import ListNotations.
From GU Require Import C06.Model C06.Proofs.
Local Open Scope Z_scope.

(* ---------- ancestors ---------- *)

Definition anc (q p : path) : Prop := q <> [] /\ exists x r, p = q ++ x :: r.

Lemma proper_prefixes_anc p : forall q, In q (proper_prefixes p) -> anc q p.
Proof.
  unfold proper_prefixes. induction p as [|a p IH]; intros q H; [contradiction|].
  rewrite prefixes_cons, removelast_map in H. apply in_map_iff in H as [q' [<- H]].
  destruct (prefixes p) as [|l l0] eqn:E.
  - simpl in H. contradiction.
  - change (removelast ([] :: l :: l0)) with ([] :: removelast (l :: l0)) in H. destruct H as [<-|H].
    + split; [discriminate|]. destruct p as [|x r]; [discriminate|]. exists x, r. reflexivity.
    + destruct (IH _ H) as [_ [x [r ->]]]. split; [discriminate|]. exists x, r. reflexivity.
Qed.

Lemma anc_proper_prefixes q p : anc q p -> In q (proper_prefixes p).
Proof. intros [H [x [r ->]]]. now apply proper_prefixes_in. Qed.

Lemma wf_iff t : wf t <-> (forall p e, find_entry t p = Some e -> forall q, anc q p -> is_dir t q = true).
Proof.
  split; intros H p e Hp q Hq.
  - eapply H; eauto. now apply anc_proper_prefixes.
  - eapply H; eauto. now apply proper_prefixes_anc.
Qed.

Lemma anc_prefix q p : anc q p -> is_prefix q p = true.
Proof. intros [_ [x [r ->]]]. apply is_prefix_app. Qed.

Lemma anc_neq q p : anc q p -> q <> p.
Proof.
  intros [_ [x [r ->]]] E. apply (f_equal (@length _)) in E. rewrite app_length in E. simpl in E. lia.
Qed.

Lemma prefix_anc q p : q <> [] -> is_prefix q p = true -> q <> p -> anc q p.
Proof.
  intros H1 H2 H3. apply is_prefix_spec in H2 as [r ->]. destruct r as [|x r]; [rewrite app_nil_r in H3; congruence|].
  split; auto. eauto.
Qed.

Lemma anc_trans a b c : anc a b -> anc b c -> anc a c.
Proof.
  intros [Ha [x [r ->]]] [_ [y [r' ->]]]. split; auto. exists x, (r ++ y :: r'). now rewrite <- app_assoc.
Qed.

Lemma is_prefix_antisym a b : is_prefix a b = true -> is_prefix b a = true -> a = b.
Proof.
  rewrite !is_prefix_spec. intros [r ->] [r' H]. rewrite <- app_assoc in H.
  rewrite <- (app_nil_r a) in H at 1. apply app_inv_head in H. symmetry in H. apply app_eq_nil in H as [-> _]. now rewrite app_nil_r.
Qed.

Lemma removelast_app_cons {A} (q : list A) x r : removelast (q ++ x :: r) = q ++ removelast (x :: r).
Proof. induction q as [|a q IH]; auto. simpl. rewrite IH. destruct (q ++ x :: r) eqn:E; auto. destruct q; discriminate. Qed.

(* an ancestor of p is the parent of p or an ancestor of the parent *)
Lemma anc_parent q p : anc q p -> q = parent p \/ anc q (parent p).
Proof.
  intros [H [x [r ->]]]. unfold parent. rewrite removelast_app_cons.
  destruct r as [|y r].
  - left. simpl. now rewrite app_nil_r.
  - right. split; auto. exists x, (removelast (y :: r)). reflexivity.
Qed.

Lemma parent_app_singleton (d : path) b : parent (d ++ [b]) = d.
Proof. unfold parent. apply removelast_last. Qed.

Lemma is_dir_nonroot t q : q <> [] -> is_dir t q = match find_entry t q with Some D => true | _ => false end.
Proof. intros H. unfold is_dir. now rewrite lookup_nonroot. Qed.

Lemma is_dir_root t : is_dir t [] = true.
Proof. reflexivity. Qed.

(* in a well-formed tree the ancestors of a directory... of anything that exists or of the root are directories *)
Lemma wf_anc_dir t p q : wf t -> exists_ t p = true -> anc q p -> is_dir t q = true.
Proof.
  intros W E A. destruct p as [|a p]; [destruct A as [_ [x [r H]]]; destruct q; discriminate|].
  unfold exists_ in E. rewrite lookup_nonroot in E by discriminate.
  destruct (find_entry t (a :: p)) eqn:F1; [|discriminate]. eapply (proj1 (wf_iff _) W); eauto.
Qed.

Lemma removelast_neq {A} (l : list A) : l <> [] -> removelast l <> l.
Proof.
  induction l as [|a l IH]; intros H; [congruence|]. simpl. destruct l as [|b l]; [discriminate|].
  intros E. inversion E. apply IH; [discriminate|auto].
Qed.

Lemma wf_parent_dir t p : wf t -> exists_ t p = true -> is_dir t (parent p) = true.
Proof.
  intros W E. destruct (parent p) as [|a q] eqn:P; [reflexivity|].
  rewrite <- P. apply (wf_anc_dir t p); auto.
  apply prefix_anc; [rewrite P; discriminate|apply is_prefix_parent|].
  intros H. unfold parent in H. destruct p as [|x p]; [discriminate|].
  revert H. apply removelast_neq. discriminate.
Qed.

(* ---------- the mutators ---------- *)

Lemma is_dir_mkdirp_mono t p q : is_dir t q = true -> is_dir (mkdirp t p) q = true.
Proof.
  unfold is_dir. destruct (lookup t q) as [[|]|] eqn:L; try discriminate. intros _.
  now rewrite (lookup_mkdirp_some t p q D L).
Qed.

Lemma wf_mkdirp t p : wf t -> through_file t p = false -> is_file t p = false -> wf (mkdirp t p).
Proof.
  intros W Tf Nf. apply (proj2 (wf_iff _)). intros x e Hx q A.
  destruct (is_prefix x p) eqn:Px.
  - apply mkdirp_is_dir; auto. exact (is_prefix_trans _ _ _ (anc_prefix _ _ A) Px).
  - rewrite find_mkdirp_other in Hx by auto. apply is_dir_mkdirp_mono. eapply (proj1 (wf_iff _) W); eauto.
Qed.

Lemma is_dir_set_file_other t p c q : path_eqb p q = false -> is_dir (set_file t p c) q = is_dir t q.
Proof.
  intros H. destruct q as [|a q]; [reflexivity|]. rewrite !is_dir_nonroot by discriminate. now rewrite find_set_file, H.
Qed.

Lemma wf_set_file t p c :
  wf t -> p <> [] -> is_dir t (parent p) = true -> is_dir t p = false -> wf (set_file t p c).
Proof.
  intros W Hp Pd Nd. apply (proj2 (wf_iff _)). intros x e Hx q A. rewrite find_set_file in Hx.
  destruct (path_eqb p x) eqn:E.
  - apply path_eqb_eq in E. subst x.
    rewrite is_dir_set_file_other by (apply path_eqb_neq; intros ->; exact (anc_neq _ _ A eq_refl)).
    destruct (anc_parent _ _ A) as [->|A']; auto.
    apply (wf_anc_dir t (parent p)); auto. unfold exists_, is_dir in *. destruct (lookup t (parent p)) as [[|]|]; auto; discriminate.
  - assert (Dq : is_dir t q = true) by (eapply (proj1 (wf_iff _) W); eauto).
    rewrite is_dir_set_file_other; auto. apply path_eqb_neq. intros ->. congruence.
Qed.

Lemma wf_remove_sub t p : wf t -> wf (remove_sub t p).
Proof.
  intros W. apply (proj2 (wf_iff _)). intros x e Hx q A. rewrite find_remove_sub in Hx.
  destruct (is_prefix p x) eqn:Px; [discriminate|].
  destruct A as [Hq A0]. rewrite is_dir_nonroot, find_remove_sub by auto.
  destruct (is_prefix p q) eqn:Pq.
  - rewrite (is_prefix_trans _ _ _ Pq (anc_prefix _ _ (conj Hq A0))) in Px. discriminate.
  - rewrite <- is_dir_nonroot by auto. eapply (proj1 (wf_iff _) W); eauto. split; auto.
Qed.

Lemma wf_remove_below t p : wf t -> wf (remove_below t p).
Proof.
  intros W. apply (proj2 (wf_iff _)). intros x e Hx q A. rewrite find_remove_below in Hx.
  destruct (below p x) eqn:Px; [discriminate|].
  pose proof A as [Hq _]. rewrite is_dir_nonroot, find_remove_below by auto.
  destruct (below p q) eqn:Pq.
  - exfalso. unfold below in *. apply andb_true_iff in Pq as [P1 P2].
    pose proof (is_prefix_trans _ _ _ P1 (anc_prefix _ _ A)) as P3. rewrite P3 in Px. simpl in Px.
    apply negb_false_iff in Px. apply path_eqb_eq in Px. subst x.
    apply negb_true_iff in P2. apply path_eqb_neq in P2. apply P2.
    apply is_prefix_antisym; auto. now apply anc_prefix.
  - rewrite <- is_dir_nonroot by auto. eapply (proj1 (wf_iff _) W); eauto.
Qed.

Lemma unroot_app s dst r : unroot s dst (dst ++ r) = s ++ r.
Proof. unfold unroot. now rewrite skipn_app_exact. Qed.

Lemma is_dir_find t q : q <> [] -> is_dir t q = true -> find_entry t q = Some D.
Proof. intros H. rewrite is_dir_nonroot by auto. destruct (find_entry t q) as [[|]|]; congruence. Qed.

Lemma is_dir_exists' t q : is_dir t q = true -> exists_ t q = true.
Proof. unfold is_dir, exists_. destruct (lookup t q) as [[|]|]; auto. Qed.

Definition no_clash (t : tree) (s dst : path) : Prop :=
  forall r e, find_entry t (s ++ r) = Some e ->
    match find_entry t (dst ++ r), e with Some (F _), D | Some D, F _ => False | _, _ => True end.

Lemma app_nonnil_l {A} (a b : list A) : a <> [] -> a ++ b <> [].
Proof. destruct a; simpl; congruence. Qed.

Lemma wf_graft t s dst :
  wf t -> s <> [] -> dst <> [] -> find_entry t s = Some D -> is_dir t dst = true -> no_clash t s dst ->
  wf (graft t s dst).
Proof.
  intros W Hs Hd Fs Dd NC. apply (proj2 (wf_iff _)). intros x e Hx q A.
  pose proof A as [Hq _]. rewrite find_graft in Hx. rewrite is_dir_nonroot, find_graft by auto.
  destruct (is_prefix dst q) eqn:Dq.
  - apply is_prefix_spec in Dq as [r1 ->]. rewrite unroot_app.
    destruct A as [_ [y [r2 ->]]]. rewrite <- app_assoc, is_prefix_app, unroot_app in Hx.
    assert (Anc : forall b, b <> [] -> b ++ r1 <> [] /\ (r1 <> [] -> anc b (b ++ r1)) /\ anc (b ++ r1) (b ++ r1 ++ y :: r2)).
    { intros b Hb. split; [now apply app_nonnil_l|]. split.
      - intros H. split; auto. destruct r1 as [|z r1]; [congruence|]. eauto.
      - split; [now apply app_nonnil_l|]. exists y, r2. now rewrite app_assoc. }
    destruct (find_entry t (s ++ r1 ++ y :: r2)) as [e'|] eqn:Src.
    + assert (Ds : is_dir t (s ++ r1) = true).
      { eapply (proj1 (wf_iff _) W); [exact Src|]. apply Anc; auto. }
      rewrite (is_dir_find _ _ (proj1 (Anc s Hs)) Ds). reflexivity.
    + assert (Dt : is_dir t (dst ++ r1) = true).
      { eapply (proj1 (wf_iff _) W); [exact Hx|]. apply Anc; auto. }
      pose proof (is_dir_find _ _ (proj1 (Anc dst Hd)) Dt) as Ft.
      destruct (find_entry t (s ++ r1)) as [[c|]|] eqn:S1.
      * exfalso. specialize (NC r1 (F c) S1). now rewrite Ft in NC.
      * reflexivity.
      * now rewrite Ft.
  - rewrite <- is_dir_nonroot by auto. destruct (is_prefix dst x) eqn:Dx.
    + apply (wf_anc_dir t dst); auto using is_dir_exists'.
      destruct (prefix_comparable _ _ _ (anc_prefix _ _ A) Dx) as [C|C]; [|congruence].
      apply prefix_anc; auto. intros ->. rewrite is_prefix_refl in Dq. discriminate.
    + eapply (proj1 (wf_iff _) W); eauto.
Qed.

(* mv: the subtree at s reappears at dst, where there was nothing *)
Lemma find_rename t s dst x :
  find_entry (rename_sub t s dst) x =
  match (if is_prefix s x then None else find_entry t x) with
  | Some e => Some e
  | None => if is_prefix dst x then find_entry t (unroot s dst x) else None
  end.
Proof. unfold rename_sub. now rewrite find_entry_app, find_remove_sub, find_map_reroot. Qed.

Lemma wf_rename t s dst :
  wf t -> s <> [] -> dst <> [] -> exists_ t s = true -> is_dir t (parent dst) = true ->
  (forall x, is_prefix dst x = true -> find_entry t x = None) ->
  is_prefix s dst = false -> is_prefix dst s = false ->
  wf (rename_sub t s dst).
Proof.
  intros W Hs Hd Es Pd Free P1 P2. apply (proj2 (wf_iff _)). intros x e Hx q A.
  pose proof A as [Hq _]. rewrite find_rename in Hx. rewrite is_dir_nonroot, find_rename by auto.
  assert (Incomp : forall r, is_prefix s (dst ++ r) = false).
  { intros r. destruct (is_prefix s (dst ++ r)) eqn:E; auto.
    destruct (prefix_comparable _ _ _ E (is_prefix_app dst r)); congruence. }
  destruct (is_prefix s x) eqn:Sx.
  - (* nothing survives below s, except as image *)
    destruct (is_prefix dst x) eqn:Dx; [|discriminate]. apply is_prefix_spec in Dx as [r ->].
    rewrite Incomp in Sx. discriminate.
  - destruct (find_entry t x) as [e0|] eqn:Fx.
    + (* an entry that stays *)
      assert (Dq : is_dir t q = true) by (eapply (proj1 (wf_iff _) W); eauto).
      destruct (is_prefix s q) eqn:Sq; [rewrite (is_prefix_trans _ _ _ Sq (anc_prefix _ _ A)) in Sx; discriminate|].
      now rewrite (is_dir_find _ _ Hq Dq).
    + (* an image: x = dst ++ r *)
      destruct (is_prefix dst x) eqn:Dx; [|discriminate]. apply is_prefix_spec in Dx as [r ->]. rewrite unroot_app in Hx.
      destruct (is_prefix dst q) eqn:Dq.
      * apply is_prefix_spec in Dq as [r1 ->]. rewrite Incomp, (Free (dst ++ r1)) by apply is_prefix_app.
        rewrite ?is_prefix_app, unroot_app.
        destruct A as [_ [y [r2 E]]]. rewrite <- app_assoc in E. apply app_inv_head in E. subst r.
        assert (Ds : is_dir t (s ++ r1) = true).
        { eapply (proj1 (wf_iff _) W); [exact Hx|]. split; [now apply app_nonnil_l|]. exists y, r2. now rewrite app_assoc. }
        now rewrite (is_dir_find _ _ (app_nonnil_l _ _ Hs) Ds).
      * (* q is an ancestor of dst *)
        assert (Aq : anc q dst).
        { destruct (prefix_comparable _ _ _ (anc_prefix _ _ A) (is_prefix_app dst r)) as [C|C]; [|congruence].
          apply prefix_anc; auto. intros ->. rewrite is_prefix_refl in Dq. discriminate. }
        assert (Dq' : is_dir t q = true).
        { destruct (anc_parent _ _ Aq) as [->|A']; auto. apply (wf_anc_dir t (parent dst)); auto using is_dir_exists'. }
        destruct (is_prefix s q) eqn:Sq.
        { rewrite (is_prefix_trans _ _ _ Sq (anc_prefix _ _ Aq)) in P1. discriminate. }
        now rewrite (is_dir_find _ _ Hq Dq').
Qed.

(* ---------- helpers about conflict-freeness ---------- *)

Lemma through_file_false t p q : through_file t p = false -> anc q p -> is_file t q = false.
Proof.
  unfold through_file. intros H A. destruct (is_file t q) eqn:E; auto.
  assert (existsb (is_file t) (proper_prefixes p) = true) by (apply existsb_exists; exists q; split; auto using anc_proper_prefixes).
  congruence.
Qed.

Lemma through_file_intro t p : (forall q, anc q p -> is_file t q = false) -> through_file t p = false.
Proof.
  intros H. unfold through_file. destruct (existsb (is_file t) (proper_prefixes p)) eqn:E; auto.
  apply existsb_exists in E as [q [Hq Hf]]. rewrite (H q (proper_prefixes_anc _ _ Hq)) in Hf. discriminate.
Qed.

Lemma parent_anc p : parent p <> [] -> anc (parent p) p.
Proof.
  intros H. apply prefix_anc; auto using is_prefix_parent. intros E. destruct p; [now apply H|].
  revert E. apply removelast_neq. discriminate.
Qed.

Lemma through_file_parent t d :
  through_file t d = false -> through_file t (parent d) = false /\ is_file t (parent d) = false.
Proof.
  intros H. destruct (parent d) as [|a q] eqn:P; [split; reflexivity|]. rewrite <- P.
  assert (A : anc (parent d) d) by (apply parent_anc; rewrite P; discriminate).
  split; [|eapply through_file_false; eauto].
  apply through_file_intro. intros q' Aq. eapply through_file_false; eauto. eapply anc_trans; eauto.
Qed.

(* a file is never a proper prefix of a conflict-free destination *)
Lemma file_prefix_dst t s d b dst :
  is_file t s = true -> through_file t d = false ->
  dst = d \/ (dst = d ++ [b] /\ is_file t d = false) ->
  is_prefix s dst = true -> s = dst.
Proof.
  intros Fs Tf Hd Hp. pose proof (is_file_nonroot _ _ Fs) as Hs.
  assert (K : forall x, is_prefix s x = true -> x = d -> s = x).
  { intros x Hx ->. destruct (path_eqb s d) eqn:E; [now apply path_eqb_eq|].
    rewrite (through_file_below t s d Fs Hx E Hs) in Tf. discriminate. }
  destruct Hd as [->|[-> Nf]]; [now apply K|].
  destruct (prefix_of_app_singleton _ _ _ Hp) as [H|H]; auto.
  rewrite <- (K d H eq_refl) in Nf. congruence.
Qed.

Lemma children_nil_find t p x : children t p = [] -> find_entry t (p ++ [x]) = None.
Proof.
  intros H. destruct (find_entry t (p ++ [x])) eqn:E; auto. exfalso. apply find_entry_in in E.
  unfold children in H.
  assert (In (base (p ++ [x])) (flat_map (fun e0 => if is_prefix p (fst e0) && Nat.eqb (length (fst e0)) (S (length p)) then [base (fst e0)] else []) t)).
  { apply in_flat_map. exists (p ++ [x], e). split; auto. simpl. rewrite is_prefix_app, app_length. simpl.
    replace (length p + 1)%nat with (S (length p)) by lia. rewrite Nat.eqb_refl. simpl. now left. }
  rewrite H in H0. contradiction.
Qed.

(* nothing exists below a missing path of a well-formed tree *)
Lemma wf_free_below t p x : wf t -> p <> [] -> find_entry t p = None -> is_prefix p x = true -> find_entry t x = None.
Proof.
  intros W Hp Fp Px. destruct (find_entry t x) as [e|] eqn:Fx; auto. exfalso.
  destruct (path_eqb p x) eqn:E; [apply path_eqb_eq in E; subst; congruence|]. apply path_eqb_neq in E.
  assert (D1 : is_dir t p = true) by (eapply (proj1 (wf_iff _) W); eauto using prefix_anc).
  rewrite (is_dir_find _ _ Hp D1) in Fp. discriminate.
Qed.

Lemma is_dir_remove_sub t p q : is_prefix p q = false -> is_dir (remove_sub t p) q = is_dir t q.
Proof.
  intros H. destruct q as [|a q]; [reflexivity|]. rewrite !is_dir_nonroot by discriminate. now rewrite find_remove_sub, H.
Qed.

Lemma exists_mkdirp_mono t p q : exists_ t q = true -> exists_ (mkdirp t p) q = true.
Proof.
  unfold exists_. destruct (lookup t q) eqn:L; [|discriminate]. intros _. now rewrite (lookup_mkdirp_some t p q e L).
Qed.

Lemma graft_conflict_false t s dst :
  graft_conflict t s dst = false ->
  forall r e, find_entry t (s ++ r) = Some e ->
    match lookup t (dst ++ r), e with Some (F _), D | Some D, F _ => False | _, _ => True end.
Proof.
  unfold graft_conflict. intros H r e Hf.
  destruct (lookup t (dst ++ r)) as [[c|]|] eqn:L; destruct e as [c'|]; auto; exfalso.
  all: assert (X : existsb (fun e0 => match lookup t (reroot s dst (fst e0)), snd e0 with
                                      | Some (F _), D | Some D, F _ => true | _, _ => false end) (sub t s) = true);
       [|congruence].
  all: apply existsb_exists; eexists (s ++ r, _); split;
       [unfold sub; apply filter_In; split; [apply find_entry_in; exact Hf|simpl; apply is_prefix_app]
       |simpl; unfold reroot; rewrite skipn_app_exact, L; reflexivity].
Qed.

(* ---------- the calls ---------- *)

Ltac inv_out H := first [discriminate H | (inversion H; subst; clear H)].

Lemma arg_conflict_false t p tr : arg_conflict t p tr = false -> through_file t p = false /\ (tr = true -> is_file t p = false).
Proof.
  unfold arg_conflict. intros H. apply orb_false_iff in H as [H1 H2]. split; auto. intros ->. exact H2.
Qed.

Lemma not_exists_not_file t p : exists_ t p = false -> is_file t p = false /\ is_dir t p = false.
Proof. unfold exists_, is_file, is_dir. destruct (lookup t p) as [[|]|]; auto; discriminate. Qed.

Lemma is_dir_not_file t p : is_dir t p = true -> is_file t p = false.
Proof. unfold is_file, is_dir. destruct (lookup t p) as [[|]|]; auto; discriminate. Qed.

Lemma wf_copy t a d dtr r t' : wf t -> r_copy t a (P d dtr) = Out r t' -> wf t'.
Proof.
  intros W. unfold r_copy. destruct (parg_eqb a (P d dtr)); [intros H; inv_out H; auto|].
  destruct a as [|s str]; [intros H; inv_out H; auto|].
  destruct (arg_conflict t s str) eqn:Ca; [discriminate|]. destruct (arg_conflict t d dtr) eqn:Cd; [discriminate|]. simpl orb.
  destruct (arg_conflict_false _ _ _ Cd) as [Tfd _].
  destruct (lookup t s) as [[c|]|] eqn:L; [| |intros H; inv_out H; auto].
  - (* file *)
    set (dst := if is_dir t d then d ++ [base s] else if exists_ t d then d else if dtr then d ++ [base s] else d).
    set (pre := if exists_ t d then t else if dtr then mkdirp t d else mkdirp t (parent d)).
    assert (Wp : wf pre).
    { unfold pre. destruct (exists_ t d) eqn:Ex; auto. destruct (not_exists_not_file _ _ Ex) as [Nf _]. destruct dtr.
      - now apply wf_mkdirp.
      - destruct (through_file_parent _ _ Tfd). now apply wf_mkdirp. }
    destruct (path_eqb dst s); [intros H; inv_out H; exact Wp|].
    destruct (is_dir pre dst) eqn:Dd; [discriminate|]. intros H; inv_out H.
    assert (Hne : dst <> []) by (intros E; rewrite E in Dd; discriminate).
    apply wf_set_file; auto.
    unfold dst, pre in *. destruct (is_dir t d) eqn:Id.
    + rewrite parent_app_singleton. rewrite (is_dir_exists' _ _ Id). exact Id.
    + destruct (exists_ t d) eqn:Ex.
      * now apply wf_parent_dir.
      * destruct (not_exists_not_file _ _ Ex) as [Nf _]. destruct dtr.
        -- rewrite parent_app_singleton. apply mkdirp_is_dir; auto using is_prefix_refl.
        -- destruct (through_file_parent _ _ Tfd). apply mkdirp_is_dir; auto using is_prefix_refl.
  - (* directory *)
    destruct (is_file t d) eqn:Fd; [discriminate|]. destruct s as [|n s]; [intros H; inv_out H; auto|].
    set (dst := if is_dir t d then d ++ [base (n :: s)] else d).
    destruct (is_prefix (n :: s) dst) eqn:P1; [intros H; inv_out H; auto|].
    destruct (is_prefix dst (n :: s)) eqn:P2; [intros H; inv_out H; auto|]. simpl orb.
    destruct (through_file t dst) eqn:Tf; [discriminate|]. destruct (graft_conflict t (n :: s) dst) eqn:Gc; [discriminate|].
    simpl orb. intros H; inv_out H.
    pose proof (graft_conflict_false _ _ _ Gc) as NC.
    assert (Fs : find_entry t (n :: s) = Some D) by exact L.
    assert (Hd : dst <> []) by (intros E; rewrite E in P2; discriminate).
    assert (Nf : is_file t dst = false).
    { specialize (NC [] D). rewrite !app_nil_r in NC. specialize (NC Fs). unfold is_file. destruct (lookup t dst) as [[|]|]; auto. contradiction. }
    assert (D1 : is_dir (mkdirp t dst) dst = true) by (apply mkdirp_is_dir; auto using is_prefix_refl).
    apply wf_graft; auto; [now apply wf_mkdirp|discriminate|now apply find_mkdirp_some|].
    intros r0 e He.
    assert (Np : is_prefix ((n :: s) ++ r0) dst = false).
    { destruct (is_prefix ((n :: s) ++ r0) dst) eqn:E; auto.
      rewrite (is_prefix_trans _ _ _ (is_prefix_app (n :: s) r0) E) in P1. discriminate. }
    rewrite find_mkdirp_other in He by exact Np. specialize (NC r0 e He).
    destruct r0 as [|y r0].
    + rewrite app_nil_r in *. rewrite (is_dir_find _ _ Hd D1). rewrite Fs in He. inv_out He. exact I.
    + rewrite find_mkdirp_other.
      * rewrite lookup_nonroot in NC by (now apply app_nonnil_l). exact NC.
      * destruct (is_prefix (dst ++ y :: r0) dst) eqn:E; auto.
        pose proof (is_prefix_antisym _ _ E (is_prefix_app dst (y :: r0))) as X.
        rewrite <- (app_nil_r dst) in X at 2. apply app_inv_head in X. discriminate.
Qed.

Lemma wf_move t s str d dtr r t' : wf t -> r_move t (P s str) (P d dtr) = Out r t' -> wf t'.
Proof.
  intros W. unfold r_move. destruct (parg_eqb (P s str) (P d dtr)); [intros H; inv_out H; auto|].
  destruct s as [|n s]; [discriminate|].
  destruct (arg_conflict t (n :: s) str) eqn:Ca; [discriminate|]. destruct (arg_conflict t d dtr) eqn:Cd; [discriminate|]. simpl orb.
  destruct (arg_conflict_false _ _ _ Cd) as [Tfd _].
  destruct (lookup t (n :: s)) as [e|] eqn:L; [|intros H; inv_out H; auto].
  set (dst := if is_dir t d then d ++ [base (n :: s)] else if negb (exists_ t d) && dtr then d ++ [base (n :: s)] else d).
  assert (Shape : dst = d \/ (dst = d ++ [base (n :: s)] /\ is_file t d = false)).
  { unfold dst. destruct (is_dir t d) eqn:Id; [right; split; auto using is_dir_not_file|].
    destruct (exists_ t d) eqn:Ex; simpl; [now left|]. destruct dtr; [right; split; auto; now destruct (not_exists_not_file _ _ Ex)|now left]. }
  assert (Hd : dst <> []).
  { unfold dst. destruct (is_dir t d) eqn:Id; [destruct d; discriminate|].
    destruct (negb (exists_ t d) && dtr); [destruct d; discriminate|]. intros ->. discriminate Id. }
  destruct (path_eqb dst (n :: s)) eqn:Eq; [intros H; inv_out H; auto|].
  destruct ((match e with D => true | _ => false end) && is_prefix (n :: s) dst) eqn:Into; [intros H; inv_out H; auto|].
  assert (P1 : is_prefix (n :: s) dst = false).
  { destruct (is_prefix (n :: s) dst) eqn:E; auto. destruct e as [c|]; [|discriminate]. exfalso.
    assert (Fs : is_file t (n :: s) = true) by (unfold is_file; now rewrite L).
    pose proof (file_prefix_dst t _ d (base (n :: s)) dst Fs Tfd Shape E) as X.
    rewrite X, path_eqb_refl in Eq. discriminate. }
  set (pre := mkdirp t (parent dst)).
  assert (PreOk : through_file t (parent dst) = false /\ is_file t (parent dst) = false).
  { destruct Shape as [->|[-> Nf]]; [now apply through_file_parent|]. rewrite parent_app_singleton. auto. }
  assert (Wp : wf pre) by (unfold pre; apply wf_mkdirp; tauto).
  assert (Dp : is_dir pre (parent dst) = true) by (unfold pre; apply mkdirp_is_dir; try tauto; apply is_prefix_refl).
  assert (Es : exists_ pre (n :: s) = true) by (unfold pre; apply exists_mkdirp_mono; unfold exists_; now rewrite L).
  destruct (lookup pre dst) as [[c|]|] eqn:Ld; destruct e as [c'|]; try discriminate; intros H.
  - (* file over file *)
    inv_out H.
    apply wf_set_file; auto using wf_remove_sub.
    + rewrite is_dir_remove_sub; auto.
      destruct (is_prefix (n :: s) (parent dst)) eqn:E; auto.
      rewrite (is_prefix_trans _ _ _ E (is_prefix_parent dst)) in P1. discriminate.
    + rewrite is_dir_remove_sub by exact P1. unfold is_dir. now rewrite Ld.
  - (* directory over a directory *)
    destruct (children pre dst) eqn:Ch; inv_out H; [|exact Wp].
    assert (P2 : is_prefix dst (n :: s) = false).
    { destruct (is_prefix dst (n :: s)) eqn:E; auto. exfalso.
      apply is_prefix_spec in E as [r0 E]. destruct r0 as [|x r0].
      - rewrite app_nil_r in E. rewrite <- E, path_eqb_refl in Eq. discriminate.
      - (* dst ++ [x] is s or an ancestor of s: it exists *)
        pose proof (children_nil_find pre dst x Ch) as Nx.
        assert (Ex : exists_ pre (dst ++ [x]) = true).
        { destruct r0 as [|y r0].
          - rewrite <- E. exact Es.
          - apply is_dir_exists'. apply (wf_anc_dir pre (n :: s)); auto. split; [now apply app_nonnil_l|].
            exists y, r0. rewrite E. now rewrite <- app_assoc. }
        unfold exists_ in Ex. rewrite lookup_nonroot, Nx in Ex by (now apply app_nonnil_l). discriminate. }
    apply wf_rename; auto using wf_remove_sub; try discriminate.
    + unfold exists_ in *. rewrite lookup_nonroot in * by discriminate. now rewrite find_remove_sub, P2.
    + rewrite is_dir_remove_sub; auto. destruct (is_prefix dst (parent dst)) eqn:E; auto.
      pose proof (is_prefix_antisym _ _ E (is_prefix_parent dst)) as X. exfalso. revert X.
      intros X. symmetry in X. revert X. apply removelast_neq. exact Hd.
    + intros x Px. now rewrite find_remove_sub, Px.
  - (* nothing at the destination, a file *)
    inv_out H.
    assert (Fd : find_entry pre dst = None) by (rewrite <- lookup_nonroot; auto).
    apply wf_rename; auto; try discriminate.
    + intros x Px. eapply wf_free_below; eauto.
    + destruct (is_prefix dst (n :: s)) eqn:E; auto. exfalso.
      unfold exists_ in Es. rewrite lookup_nonroot in Es by discriminate.
      rewrite (wf_free_below pre dst (n :: s) Wp Hd Fd E) in Es. discriminate.
  - inv_out H.
    assert (Fd : find_entry pre dst = None) by (rewrite <- lookup_nonroot; auto).
    apply wf_rename; auto; try discriminate.
    + intros x Px. eapply wf_free_below; eauto.
    + destruct (is_prefix dst (n :: s)) eqn:E; auto. exfalso.
      unfold exists_ in Es. rewrite lookup_nonroot in Es by discriminate.
      rewrite (wf_free_below pre dst (n :: s) Wp Hd Fd E) in Es. discriminate.
Qed.

Lemma exec_preserves_wf_l t c r t' : wf t -> exec t c = Out r t' -> wf t'.
Proof.
  intros W. destruct (is_query c) eqn:Q; [intros H; rewrite (queries_pure_l _ _ _ _ Q H); auto|].
  destruct c; try discriminate Q; clear Q; simpl.
  - (* mkdir *) destruct p as [|p tr]; simpl; intros H; [inv_out H; auto|].
    destruct (through_file t p) eqn:Tf; [discriminate|]. destruct (is_file t p) eqn:Nf; inv_out H. now apply wf_mkdirp.
  - (* touch *) destruct p as [|p tr]; simpl; intros H; [inv_out H; auto|].
    destruct (arg_conflict t p tr) eqn:C; [discriminate|]. destruct (exists_ t p) eqn:Ex; [inv_out H; auto|].
    destruct (arg_conflict_false _ _ _ C) as [Tf _]. destruct (not_exists_not_file _ _ Ex) as [Nf Nd].
    destruct tr; [inv_out H; now apply wf_mkdirp|].
    destruct (is_dir t (parent p)) eqn:Pd; inv_out H; auto.
    apply wf_set_file; auto. intros ->. discriminate Ex.
  - (* write *) destruct p as [|p tr]; simpl; intros H; [inv_out H; auto|].
    destruct (through_file t p || tr || is_dir t p) eqn:C; [discriminate|].
    apply orb_false_iff in C as [_ Nd].
    destruct (is_dir t (parent p)) eqn:Pd; inv_out H; auto.
    apply wf_set_file; auto. intros ->. discriminate Nd.
  - (* rm *) destruct p as [|p tr]; simpl; intros H; [inv_out H; auto|].
    destruct p as [|a p]; [discriminate|]. destruct (arg_conflict t (a :: p) tr); inv_out H. now apply wf_remove_sub.
  - (* clean *) destruct p as [|p tr]; simpl; intros H; [inv_out H; auto|].
    destruct (dir_arg_conflict t p); inv_out H. now apply wf_remove_below.
  - (* copy *) destruct q as [|d dtr]; simpl.
    + unfold r_copy. destruct (parg_eqb p PEmpty); [|destruct p]; intros H; inv_out H; auto.
    + now apply wf_copy.
  - (* copytofile *) unfold r_copytofile. destruct p as [|s str]; [intros H; inv_out H; auto|].
    destruct (arg_conflict t s str || is_dir t s); [discriminate|].
    destruct (negb (is_file t s)); [intros H; inv_out H; auto|].
    destruct q as [|d dtr]; [intros H; inv_out H; auto|].
    destruct (arg_conflict t d dtr || is_dir t d); [discriminate|].
    destruct (negb (exists_ t d) && dtr); [intros H; inv_out H; auto|]. now apply wf_copy.
  - (* copytodir *) unfold r_copytodir. destruct q as [|d dtr]; [intros H; inv_out H; auto|].
    destruct (through_file t d) eqn:Tf; [discriminate|]. destruct (is_file t d) eqn:Nf; [discriminate|]. simpl.
    assert (Wm : wf (mkdirp t d)) by now apply wf_mkdirp.
    destruct p as [|s str]; [now apply wf_copy|]. destruct (arg_conflict t s str); [discriminate|]. now apply wf_copy.
  - (* move *) destruct p as [|s str]; destruct q as [|d dtr]; simpl.
    + unfold r_move. simpl. intros H; inv_out H; auto.
    + unfold r_move. simpl. intros H; inv_out H; auto.
    + unfold r_move. simpl. destruct s; intros H; inv_out H; auto.
    + now apply wf_move.
  - (* movebetween *) unfold r_movebetween. destruct (parg_eqb p q); [intros H; inv_out H; auto|].
    destruct q as [|d dtr]; [destruct p as [|[|? ?] ?]; intros H; inv_out H; auto|].
    destruct p as [|s str]; [intros H; inv_out H; auto|]. destruct s as [|n s]; [discriminate|].
    destruct (arg_conflict t (n :: s) str || arg_conflict t d dtr); [discriminate|].
    destruct (exists_ t (n :: s) && is_dir t d && path_eqb (d ++ [base (n :: s)]) (n :: s)); [intros H; inv_out H; auto|].
    destruct (r_copy t (P (n :: s) str) (P d dtr)) as [|r1 t1] eqn:E; [discriminate|].
    pose proof (wf_copy _ _ _ _ _ _ W E) as W1. destruct r1; intros H; inv_out H; auto. now apply wf_remove_sub.
  - (* createfile *) destruct p as [|p tr]; simpl; intros H; [inv_out H; auto|].
    destruct (through_file t p || tr || is_dir t p) eqn:C; [discriminate|]. apply orb_false_iff in C as [_ Nd].
    destruct (is_dir t (parent p)) eqn:Pd; inv_out H; auto. apply wf_set_file; auto. intros ->. discriminate Nd.
  - (* openfile with O_CREATE *) destruct p as [|p tr]; simpl; intros H; [inv_out H; auto|].
    destruct (through_file t p || tr || is_dir t p) eqn:C; [discriminate|]. apply orb_false_iff in C as [_ Nd].
    destruct (is_file t p); [inv_out H; auto|].
    destruct (is_dir t (parent p)) eqn:Pd; inv_out H; auto. apply wf_set_file; auto. intros ->. discriminate Nd.
Qed.

Lemma run_preserves_wf_l cs : forall t t', wf t -> run t cs = Some t' -> wf t'.
Proof.
  induction cs as [|c cs IH]; intros t t' W H; simpl in H.
  - now inversion H; subst.
  - destruct (exec t c) as [|r t1] eqn:E; [discriminate|]. eapply IH; [|exact H]. eapply exec_preserves_wf_l; eauto.
Qed.

Lemma wf_nil : wf [].
Proof. intros p e H. discriminate. Qed.
