(* C06 - M's Copy of a file (the destination-shape table), CopyToFile, CopyToDirectory of a file, and Move (resolution as mv,
   guards, rename; the copy-then-remove fall-back is dead code when the back end's rename is POSIX) refine R. *)
From Coq Require Import List ZArith Bool Lia Arith.
Import ListNotations.
From GU Require Import C06.Model C06.Facts C06.Proofs C06.ProofsWf C06.Vfs C06.ProofsVfsRm.
Local Open Scope Z_scope.

Ltac inv_o H := first [discriminate H | (inversion H; subst; clear H)].

(* turn a condition on the record of facts (copy_ok fa = true, ...) into literal field values *)
Ltac facts_literal fa H :=
  destruct fa; unfold copy_ok, move_ok, write_ok, handles_ok, paths_ok, fallback_ok in H; simpl in H;
  repeat (apply andb_true_iff in H; destruct H as [H ?]); subst; simpl.

Lemma m_exists_spec t p : fst (m_exists t p) = exists_ t p.
Proof. unfold m_exists, b_stat, exists_. destruct (lookup t p) as [[|]|]; reflexivity. Qed.

Lemma is_dir_b_spec t p : is_dir_b t p = is_dir t p.
Proof. reflexivity. Qed.

(* MkDir where nothing is in the way is mkdir -p *)
Lemma m_mkdir3_ok t p :
  wf t -> through_file t p = false -> is_file t p = false -> exists h, m_mkdir3 t p = (ROk, mkdirp t p, h).
Proof.
  intros W Tf Nf. unfold m_mkdir3, m_mkdir, m_exists, b_stat, b_mkdirall. rewrite Tf, Nf. simpl.
  unfold is_file in Nf. destruct (lookup t p) as [[c|]|] eqn:L; try discriminate; simpl; eexists; try reflexivity.
  f_equal. f_equal. symmetry. apply mkdirp_exists_id; auto. unfold exists_. now rewrite L.
Qed.

Lemma is_dir_lookup t p : is_dir t p = true -> lookup t p = Some D.
Proof. unfold is_dir. destruct (lookup t p) as [[|]|]; congruence. Qed.

Lemma m_exists_file t p c : lookup t p = Some (F c) -> m_exists t p = (true, O).
Proof. intros H. unfold m_exists, b_stat. now rewrite H. Qed.
Lemma m_exists_dir t p : lookup t p = Some D -> m_exists t p = (true, 1%nat).
Proof. intros H. unfold m_exists, b_stat. now rewrite H. Qed.
Lemma m_exists_none t p : lookup t p = None -> m_exists t p = (false, O).
Proof. intros H. unfold m_exists, b_stat. now rewrite H. Qed.
Lemma m_exists_pair t p : exists h, m_exists t p = (exists_ t p, h).
Proof. unfold m_exists, b_stat, exists_. destruct (lookup t p) as [[|]|]; eauto. Qed.

Local Arguments m_exists : simpl never.
Local Arguments is_dir_b : simpl never.
Local Arguments m_mkdir3 : simpl never.
Local Arguments m_copy_file : simpl never.
Local Arguments m_empty_b : simpl never.
Local Arguments m_rm : simpl never.
Local Arguments rm_fuel : simpl never.
Local Arguments b_rename : simpl never.
Local Arguments mkdirp : simpl never.
Local Arguments parent : simpl never.
Local Arguments is_prefix : simpl never.
Local Arguments path_eqb : simpl never.

(* ---------- Copy of a file ---------- *)

Lemma m_copy_file_refines fa t s str d dtr r t' f :
  copy_ok fa = true ->
  wf t -> is_dir t s = false -> r_copy t (P s str) (P d dtr) = Out r t' ->
  exists h, m_copy fa (S f) t s str d dtr = Some (r, t', h).
Proof.
  intros OK W Nds. facts_literal fa OK. unfold r_copy, parg_eqb. simpl.
  destruct (path_eqb s d && Bool.eqb str dtr); [intros H; inv_o H; eauto|].
  destruct (arg_conflict t s str) eqn:Ca; [discriminate|]. destruct (arg_conflict t d dtr) eqn:Cd; [discriminate|]. simpl.
  destruct (arg_conflict_false _ _ _ Cd) as [Tfd _].
  destruct (lookup t s) as [[c|]|] eqn:L.
  3:{ rewrite (m_exists_none _ _ L). simpl. intros H; inv_o H; eauto. }
  2:{ unfold is_dir in Nds. rewrite L in Nds. discriminate. }
  rewrite (m_exists_file _ _ _ L). simpl.
  assert (Sd : is_dir_b t s = false) by (unfold is_dir_b, b_stat; now rewrite L). rewrite Sd. simpl.
  destruct (m_exists_pair t d) as [h2 ->]. change (is_dir_b t d) with (is_dir t d).
  set (dst := if is_dir t d then d ++ [base s] else if exists_ t d then d else if dtr then d ++ [base s] else d).
  set (pre := if exists_ t d then t else if dtr then mkdirp t d else mkdirp t (parent d)).
  assert (Mk : exists hm, (if exists_ t d then (ROk, t, O) else if dtr then m_mkdir3 t d else m_mkdir3 t (parent d)) = (ROk, pre, hm)).
  { unfold pre. destruct (exists_ t d) eqn:Ex; [eauto|]. destruct (not_exists_not_file _ _ Ex) as [Nf _]. destruct dtr.
    - now apply m_mkdir3_ok.
    - destruct (through_file_parent _ _ Tfd). now apply m_mkdir3_ok. }
  destruct Mk as [hm Mk]. rewrite Mk.
  assert (Dst : (if (if exists_ t d then exists_ t d && is_dir t d else dtr) then d ++ [base s] else d) = dst).
  { unfold dst. destruct (is_dir t d) eqn:Id; [rewrite (is_dir_exists' _ _ Id); reflexivity|].
    destruct (exists_ t d); simpl; [reflexivity|]. destruct dtr; reflexivity. }
  rewrite Dst. rewrite (path_eqb_sym s dst).
  assert (Wp : wf pre).
  { unfold pre. destruct (exists_ t d) eqn:Ex; auto. destruct (not_exists_not_file _ _ Ex) as [Nf _]. destruct dtr.
    - now apply wf_mkdirp.
    - destruct (through_file_parent _ _ Tfd). now apply wf_mkdirp. }
  destruct (path_eqb dst s); [intros H; inv_o H; eauto|].
  destruct (m_exists_pair pre dst) as [h3 ->]. change (is_dir_b pre dst) with (is_dir pre dst).
  destruct (is_dir pre dst) eqn:Dd; [discriminate|]. rewrite andb_false_r. intros H; inv_o H.
  assert (Hne : dst <> []) by (intros E; rewrite E in Dd; discriminate).
  assert (Pd : is_dir pre (parent dst) = true).
  { unfold dst, pre in *. destruct (is_dir t d) eqn:Id.
    - rewrite parent_app_singleton. rewrite (is_dir_exists' _ _ Id). exact Id.
    - destruct (exists_ t d) eqn:Ex.
      + now apply wf_parent_dir.
      + destruct (not_exists_not_file _ _ Ex) as [Nf _]. destruct dtr.
        * rewrite parent_app_singleton. apply mkdirp_is_dir; auto using is_prefix_refl.
        * destruct (through_file_parent _ _ Tfd). apply mkdirp_is_dir; auto using is_prefix_refl. }
  assert (Ls : lookup pre s = Some (F c)).
  { unfold pre. destruct (exists_ t d); auto. destruct dtr; now apply lookup_mkdirp_some. }
  unfold m_copy_file, b_stat, b_create. rewrite Ls, Dd, Pd, set_file_twice. eauto.
Qed.

(* ---------- CopyToFile, CopyToDirectory ---------- *)

Lemma m_isfile_pair t p : exists h, m_isfile t p = (is_file t p, h).
Proof. unfold m_isfile, m_exists, b_stat, is_file. destruct (lookup t p) as [[|]|]; eauto. Qed.

Local Arguments m_isfile : simpl never.
Local Arguments m_copy : simpl never.

Lemma is_file_not_dir t p : is_file t p = true -> is_dir t p = false.
Proof. unfold is_file, is_dir. destruct (lookup t p) as [[|]|]; auto; discriminate. Qed.

Lemma m_copytofile_refines fa t s str d dtr r t' f :
  copy_ok fa = true ->
  wf t -> r_copytofile t (P s str) (P d dtr) = Out r t' -> exists h, m_copytofile fa (S f) t s str d dtr = Some (r, t', h).
Proof.
  intros OK W. unfold r_copytofile, m_copytofile.
  destruct (arg_conflict t s str || is_dir t s); [discriminate|].
  destruct (m_isfile_pair t s) as [h1 ->]. destruct (is_file t s) eqn:Fs; simpl; [|intros H; inv_o H; eauto].
  destruct (arg_conflict t d dtr || is_dir t d) eqn:C; [discriminate|]. apply orb_false_iff in C as [_ Nd].
  destruct (m_exists_pair t d) as [h2 ->]. destruct (m_isfile_pair t d) as [h3 ->].
  destruct (exists_ t d) eqn:Ex; simpl.
  - assert (Fd : is_file t d = true).
    { unfold exists_, is_dir, is_file in *. destruct (lookup t d) as [[|]|]; auto; discriminate. }
    rewrite Fd. simpl. intros H. destruct (m_copy_file_refines fa t s str d dtr r t' f OK W (is_file_not_dir _ _ Fs) H) as [h ->]. eauto.
  - destruct dtr; [intros H; inv_o H; eauto|].
    intros H. destruct (m_copy_file_refines fa t s str d false r t' f OK W (is_file_not_dir _ _ Fs) H) as [h ->]. eauto.
Qed.

Lemma m_copytodir_file_refines fa t s str d dtr r t' f :
  copy_ok fa = true ->
  wf t -> is_dir (mkdirp t d) s = false -> r_copytodir t (P s str) (P d dtr) = Out r t' ->
  exists h, m_copytodir fa (S f) t (P s str) d dtr = Some (r, t', h).
Proof.
  intros OK W Nd. unfold r_copytodir, m_copytodir.
  destruct (through_file t d) eqn:Tf; [discriminate|]. destruct (is_file t d) eqn:Nf; [discriminate|]. simpl.
  destruct (arg_conflict t s str); [discriminate|].
  destruct (m_mkdir3_ok t d W Tf Nf) as [h1 E]. unfold m_mkdir3 in E. inversion E as [[E1 E2 E3]]. rewrite E1, E2.
  intros H. destruct (m_copy_file_refines fa (mkdirp t d) s str d dtr r t' f OK (wf_mkdirp _ _ W Tf Nf) Nd H) as [h ->]. eauto.
Qed.

(* ---------- Move ---------- *)

Lemma m_empty_b_dir' t p : lookup t p = Some D -> m_empty_b t p = match children t p with [] => true | _ => false end.
Proof. intros H. unfold m_empty_b, b_stat, b_readdirnames. now rewrite H. Qed.

Lemma m_move_guards_relevant fa gs t s str d dtr : forall st,
  m_move_guards fa gs t s str d dtr st = m_move_guards fa (relevant gs) t s str d dtr st.
Proof.
  induction gs as [|g gs IH]; intros st; [reflexivity|]. destruct g; simpl.
  - destruct (path_eqb s d && Bool.eqb str dtr); auto.
  - apply IH.
  - destruct (m_exists t s) as [es h1]. destruct (negb es); auto.
  - destruct (m_exists t d) as [ed h2]. auto.
  - destruct (path_eqb s (ms_target st)); auto.
  - destruct (f_move_within_plain fa && is_prefix s (ms_target st)); auto.
    destruct (negb (f_move_within_plain fa) && negb (path_eqb (ms_target st) d) && is_prefix s (ms_target st)); auto.
  - destruct (m_exists t (ms_target st)) as [et h3].
    destruct (is_dir_b t s && et && is_dir_b t (ms_target st) && negb (m_empty_b t (ms_target st))); auto.
Qed.

Local Arguments m_move_raw : simpl never.
Local Arguments lookup : simpl never.
Local Arguments exists_ : simpl never.
Local Arguments is_dir : simpl never.

Lemma m_move_refines fa t n s str d dtr r t' f :
  move_ok fa = true ->
  wf t -> r_move t (P (n :: s) str) (P d dtr) = Out r t' -> exists h, m_move fa (S f) t (n :: s) str d dtr = Some (r, t', h).
Proof.
  intros OK W. unfold move_ok in OK. apply andb_true_iff in OK as [G Pl]. apply mguards_eqb_eq in G.
  unfold r_move, m_move, parg_eqb. rewrite m_move_guards_relevant, G. simpl. rewrite Pl. simpl.
  destruct (path_eqb (n :: s) d && Bool.eqb str dtr); [intros H; inv_o H; eauto|].
  destruct (arg_conflict t (n :: s) str) eqn:Ca; [discriminate|]. destruct (arg_conflict t d dtr) eqn:Cd; [discriminate|]. simpl orb.
  destruct (arg_conflict_false _ _ _ Cd) as [Tfd _].
  destruct (m_exists_pair t (n :: s)) as [h1 ->].
  destruct (lookup t (n :: s)) as [e|] eqn:L.
  2:{ assert (Ex0 : exists_ t (n :: s) = false) by (unfold exists_; now rewrite L). rewrite Ex0. simpl. intros H; inv_o H; eauto. }
  assert (Ex0 : exists_ t (n :: s) = true) by (unfold exists_; now rewrite L). rewrite Ex0. simpl negb. cbv iota.
  destruct (m_exists_pair t d) as [h2 ->]. change (is_dir_b t d) with (is_dir t d). simpl.
  set (dst := if is_dir t d then d ++ [base (n :: s)] else if negb (exists_ t d) && dtr then d ++ [base (n :: s)] else d).
  assert (Tg : (if (if exists_ t d then is_dir t d else dtr) then d ++ [base (n :: s)] else d) = dst).
  { unfold dst. destruct (is_dir t d) eqn:Id; [now rewrite (is_dir_exists' _ _ Id)|].
    destruct (exists_ t d); simpl; [reflexivity|]. destruct dtr; reflexivity. }
  match goal with |- context [m_empty_b t ?X] => replace X with dst by (symmetry; exact Tg) end.
  assert (Shape : dst = d \/ (dst = d ++ [base (n :: s)] /\ is_file t d = false)).
  { unfold dst. destruct (is_dir t d) eqn:Id; [right; split; auto using is_dir_not_file|].
    destruct (exists_ t d) eqn:Ex; simpl; [now left|]. destruct dtr; [right; split; auto; now destruct (not_exists_not_file _ _ Ex)|now left]. }
  assert (Hd : dst <> []).
  { unfold dst. destruct (is_dir t d) eqn:Id; [destruct d; discriminate|].
    destruct (negb (exists_ t d) && dtr); [destruct d; discriminate|]. intros ->. discriminate Id. }
  rewrite (path_eqb_sym (n :: s) dst).
  destruct (path_eqb dst (n :: s)) eqn:Eq; [intros H; inv_o H; eauto|].
  assert (P1 : (match e with D => true | _ => false end) && is_prefix (n :: s) dst = false -> is_prefix (n :: s) dst = false).
  { intros Into. destruct (is_prefix (n :: s) dst) eqn:E; auto. destruct e as [c|]; [|simpl in Into; discriminate Into]. exfalso.
    assert (Fs : is_file t (n :: s) = true) by (unfold is_file; now rewrite L).
    pose proof (file_prefix_dst t _ d (base (n :: s)) dst Fs Tfd Shape E) as X.
    assert (Y : path_eqb dst (n :: s) = true) by (rewrite X; apply path_eqb_refl). congruence. }
  destruct ((match e with D => true | _ => false end) && is_prefix (n :: s) dst) eqn:Into.
  { apply andb_true_iff in Into as [_ ->]. intros H; inv_o H; eauto. }
  rewrite (P1 eq_refl). specialize (P1 eq_refl).
  set (pre := mkdirp t (parent dst)).
  assert (PreOk : through_file t (parent dst) = false /\ is_file t (parent dst) = false).
  { destruct Shape as [->|[-> Nf]]; [now apply through_file_parent|]. rewrite parent_app_singleton. auto. }
  assert (Wp : wf pre) by (unfold pre; apply wf_mkdirp; tauto).
  assert (Dp : is_dir pre (parent dst) = true) by (unfold pre; apply mkdirp_is_dir; try tauto; apply is_prefix_refl).
  assert (Ls : lookup pre (n :: s) = Some e) by (unfold pre; now apply lookup_mkdirp_some).
  assert (Ld : lookup pre dst = lookup t dst).
  { unfold pre. apply lookup_mkdirp_other. destruct (is_prefix dst (parent dst)) eqn:E; auto. exfalso.
    pose proof (is_prefix_antisym _ _ E (is_prefix_parent dst)) as X. symmetry in X. revert X. now apply removelast_neq. }
  assert (PreT : exists_ t dst = true -> pre = t).
  { intros Ex. unfold pre. apply mkdirp_exists_id; auto. apply is_dir_exists'. now apply wf_parent_dir. }
  destruct (m_exists_pair t dst) as [h3 ->]. change (is_dir_b t (n :: s)) with (is_dir t (n :: s)). change (is_dir_b t dst) with (is_dir t dst).
  destruct (m_mkdir3_ok t (parent dst) W (proj1 PreOk) (proj2 PreOk)) as [hm Mk]. fold pre in Mk.
  rewrite Ld.
  (* the move proper, once the guards are passed: MkDir of the parent, then the rename decides *)
  assert (Raw : forall t2, b_rename pre (n :: s) dst = Some t2 ->
                exists h, m_move_raw fa false (S f) t (n :: s) dst = Some (ROk, t2, h)).
  { intros t2 Hr. unfold m_move_raw. fold (m_move_raw fa false). rewrite (path_eqb_sym (n :: s) dst), Eq, Mk. cbv iota. rewrite Hr. eauto. }
  assert (Ren : forall X, (match lookup t dst, e with
                           | None, _ => Some (rename_sub pre (n :: s) dst)
                           | Some (F _), F c => Some (set_file (remove_sub pre (n :: s)) dst c)
                           | Some D, D => match children pre dst with [] => Some (rename_sub (remove_sub pre dst) (n :: s) dst) | _ => None end
                           | _, _ => None end) = X -> b_rename pre (n :: s) dst = X).
  { intros X <-. unfold b_rename. rewrite Ls, Dp, P1, Ld. reflexivity. }
  destruct (lookup t dst) as [[c|]|] eqn:Lt; destruct e as [c'|]; try discriminate.
  - (* file over file *)
    assert (Sd : is_dir t (n :: s) = false) by (unfold is_dir; now rewrite L). rewrite Sd. simpl.
    intros H; inv_o H. destruct (Raw _ (Ren _ eq_refl)) as [h ->]. eauto.
  - (* directory over a directory *)
    assert (Sd : is_dir t (n :: s) = true) by (unfold is_dir; now rewrite L).
    assert (Dd : is_dir t dst = true) by (unfold is_dir; now rewrite Lt).
    assert (Ex : exists_ t dst = true) by (unfold exists_; now rewrite Lt).
    rewrite Sd, Dd, Ex, (m_empty_b_dir' _ _ Lt). simpl. pose proof (PreT Ex) as Ept.
    assert (Chp : children pre dst = children t dst) by (now rewrite Ept).
    rewrite Chp in *.
    destruct (children t dst) eqn:Ch; simpl; intros H; inversion H; subst r t'; clear H.
    + destruct (Raw _ (Ren _ eq_refl)) as [h ->]. eauto.
    + rewrite Ept. eauto.
  - (* nothing there: a file *)
    assert (Ex : exists_ t dst = false) by (unfold exists_; now rewrite Lt).
    rewrite Ex, andb_false_r. simpl. intros H; inv_o H. destruct (Raw _ (Ren _ eq_refl)) as [h ->]. eauto.
  - assert (Ex : exists_ t dst = false) by (unfold exists_; now rewrite Lt).
    rewrite Ex, andb_false_r. simpl. intros H; inv_o H. destruct (Raw _ (Ren _ eq_refl)) as [h ->]. eauto.
Qed.
