(* C06 — Filesystem API follows its documented semantics on every back end.
   Property theorems only.  R = GU.C06.Model (reference model of the documented semantics, tied to files.go on both back ends
   by the correspondence runs of harness/cmd/c06). *)
From Coq Require Import List ZArith Bool.
Import ListNotations.
From GU Require Import C06.Model C06.Proofs C06.Vfs C06.ProofsVfs.
Local Open Scope Z_scope.

(* Query calls (read, the listings, exists / is-file / is-dir / is-empty, size, hash, path conversion) never change the tree,
   whatever their arguments and whatever the tree. *)
Theorem queries_pure : forall t c r t', is_query c = true -> exec t c = Out r t' -> t' = t.
Proof. exact queries_pure_l. Qed.
Print Assumptions queries_pure.

(* rm -rf: succeeds; exactly the named subtree disappears, every other path keeps its entry. *)
Theorem rm_removes_exactly_the_subtree : forall t p tr r t',
  exec t (Rm (P p tr)) = Out r t' ->
  r = ROk /\ forall q, q <> [] -> lookup t' q = if is_prefix p q then None else lookup t q.
Proof. exact rm_spec_l. Qed.
Print Assumptions rm_removes_exactly_the_subtree.

(* clean: exactly what lies strictly below the directory disappears. *)
Theorem clean_empties_exactly_the_directory : forall t p tr r t',
  exec t (Clean (P p tr)) = Out r t' ->
  r = ROk /\ forall q, q <> [] -> lookup t' q = if below p q then None else lookup t q.
Proof. exact clean_spec_l. Qed.
Print Assumptions clean_empties_exactly_the_directory.

(* mkdir -p: afterwards every prefix of the path is a directory; paths that are not prefixes are untouched; nothing that
   existed is altered. *)
Theorem mkdir_p_spec : forall t p tr r t',
  exec t (Mkdir (P p tr)) = Out r t' ->
  r = ROk /\ (forall q, is_prefix q p = true -> is_dir t' q = true)
          /\ (forall q, is_prefix q p = false -> lookup t' q = lookup t q)
          /\ (forall q e, lookup t q = Some e -> lookup t' q = Some e).
Proof. exact mkdir_spec_l. Qed.
Print Assumptions mkdir_p_spec.

(* D12: a directory is never copied into itself — whatever the tree, the call is refused ('invalid') and nothing changes. *)
Theorem copy_into_itself_refused : forall t s str d dtr,
  s <> [] -> arg_conflict t s str = false -> arg_conflict t d dtr = false ->
  is_dir t s = true -> is_file t d = false ->
  is_prefix s (if is_dir t d then d ++ [base s] else d) = true -> parg_eqb (P s str) (P d dtr) = false ->
  exec t (Copy (P s str) (P d dtr)) = Out (RErr EInvalid) t.
Proof. exact copy_into_itself_refused_l. Qed.
Print Assumptions copy_into_itself_refused.

(* D28: nor moved into itself. *)
Theorem move_into_itself_refused : forall t s str d dtr,
  s <> [] -> arg_conflict t s str = false -> arg_conflict t d dtr = false ->
  is_dir t s = true ->
  let dst := if is_dir t d then d ++ [base s] else if negb (exists_ t d) && dtr then d ++ [base s] else d in
  is_prefix s dst = true -> path_eqb dst s = false -> parg_eqb (P s str) (P d dtr) = false ->
  exec t (Move (P s str) (P d dtr)) = Out (RErr EInvalid) t.
Proof. exact move_into_itself_refused_l. Qed.
Print Assumptions move_into_itself_refused.

(* Second sentence, on R, for EVERY call (mutating or not), every tree and every argument for which R is defined:
   a path that is not at or below the call's destination (or, for move / rm / clean, its source) keeps the entry it had,
   and is unchanged altogether unless it is an ancestor of the destination (mkdir -p of the parents creates directories). *)
Theorem only_touches_destination : forall t c r t' q,
  exec t c = Out r t' -> outside (roots c) q = true ->
  (forall e, lookup t q = Some e -> lookup t' q = Some e) /\ (towards (roots c) q = false -> lookup t' q = lookup t q).
Proof. intros t c r t' q H. exact (only_touches_destination_l t c r t' H q). Qed.
Print Assumptions only_touches_destination.

(* ... lifted by induction to programs of ANY length: what no call of the program names as destination is the same at the end. *)
Theorem program_only_touches_destinations : forall cs t t' q,
  run t cs = Some t' ->
  (forall c, In c cs -> outside (roots c) q = true /\ towards (roots c) q = false) ->
  lookup t' q = lookup t q.
Proof. exact program_frame_l. Qed.
Print Assumptions program_only_touches_destinations.

Theorem program_never_alters_other_entries : forall cs t t' q e,
  run t cs = Some t' -> (forall c, In c cs -> outside (roots c) q = true) ->
  lookup t q = Some e -> lookup t' q = Some e.
Proof. exact program_preserves_l. Qed.
Print Assumptions program_never_alters_other_entries.

(* A copy never changes its source, also when source and destination overlap: every path at or below the source — existing
   or not — is exactly as before, whatever the destination (inside the source, a parent of it, equal to it, elsewhere). *)
Theorem copy_leaves_source : forall t s str b r t',
  exec t (Copy (P s str) b) = Out r t' -> forall q, is_prefix s q = true -> lookup t' q = lookup t q.
Proof. exact copy_leaves_source_l. Qed.
Print Assumptions copy_leaves_source.

(* Without the "own parent" refusal the statement is false: the witness found while proving it (a/b/c/b copied to a, which
   resolves to a/b) overwrites the source file a/b/c/b/e.txt; it is replayed on the implementation by the harness corpus. *)
Example copy_over_own_parent_witness :
  let t := [([0], D); ([0;1], D); ([0;1;2], D); ([0;1;2;1], D); ([0;1;2;1;4], F [1]);
            ([0;1;2;1;2], D); ([0;1;2;1;2;1], D); ([0;1;2;1;2;1;4], F [2])] in
  lookup (graft (mkdirp t [0;1]) [0;1;2;1] [0;1]) [0;1;2;1;4] = Some (F [2]) /\
  exec t (Copy (P [0;1;2;1] false) (P [0] false)) = Out (RErr EInvalid) t.
Proof. split; reflexivity. Qed.

(* Refinement M <= R: on a well-formed tree, for every call that M covers (mkdir, touch, write, read, ls, exists, is-file,
   is-dir, is-empty, size) and that is free of kind conflicts, the mechanised model of the VFS code over back-end primitives
   returns exactly the result and the tree of the reference model.  (Copy / Move / Rm / Clean are not covered by M:
   for them the implementation is compared with R directly.) *)
Theorem vfs_refines_ref_partial : forall t c m r t',
  wf t -> m_exec t c = Some m -> exec t c = Out r t' -> m_r m = r /\ m_t m = t'.
Proof. exact m_refines_r_l. Qed.
Print Assumptions vfs_refines_ref_partial.

(* ... and every path through the modelled code closes the handles it opened (success and failure paths alike). *)
Theorem vfs_handles_balanced_partial : forall t c m, m_exec t c = Some m -> m_opened m = m_closed m.
Proof. exact m_handles_balanced_l. Qed.
Print Assumptions vfs_handles_balanced_partial.

(* Non-vacuity: the witnesses of D12 / D28 / D24 / D26 evaluated on R. *)
Example c06_d12 : exec [([0], D); ([0;1], F [1])] (Copy (P [0] false) (P [0;1;2] false)) = Unconstrained.
Proof. reflexivity. Qed.   (* a/b is a file: kind conflict *)
Example c06_d12' : exec [([0], D); ([0;1], D)] (Copy (P [0] false) (P [0;1;2] false)) = Out (RErr EInvalid) [([0], D); ([0;1], D)].
Proof. reflexivity. Qed.
Example c06_d28 : exec [([0], D); ([0;1], F [1])] (Move (P [0] false) (P [0;2] false)) = Out (RErr EInvalid) [([0], D); ([0;1], F [1])].
Proof. reflexivity. Qed.
Example c06_d24 : exec [([0], D); ([0;1], F [7]); ([3], D)] (Move (P [0;1] false) (P [3] false))
                  = Out ROk [([0], D); ([3], D); ([3;1], F [7])].
Proof. reflexivity. Qed.
Example c06_d26 : exec [([0], D); ([0;1], F [7])] (Copy (P [0;1] false) (P [0] false)) = Out ROk [([0], D); ([0;1], F [7])].
Proof. reflexivity. Qed.
Example c06_wf_nonvacuous : wf [([0], D); ([0;1], F [7]); ([3], D)] /\
  m_exec [([0], D); ([0;1], F [7]); ([3], D)] (Touch (P [3;2] false)) =
    Some (mkM ROk [([0], D); ([0;1], F [7]); ([3], D); ([3;2], F [])] 1 1).
Proof. split; [apply wf_b_sound|]; reflexivity. Qed.
Example c06_cp_r_merge :
  exec [([0], D); ([0;1], F [7]); ([3], D); ([3;0], D); ([3;0;2], F [9])] (Copy (P [0] false) (P [3] false))
  = Out ROk [([0], D); ([0;1], F [7]); ([3], D); ([3;0], D); ([3;0;2], F [9]); ([3;0;1], F [7])].
Proof. reflexivity. Qed.
