(* C06 — Filesystem API follows its documented semantics on every back end.
   Property theorems only.  R = GU.C06.Model (reference model of the documented semantics, tied to files.go on both back ends
   by the correspondence runs of harness/cmd/c06). *)
From Coq Require Import List ZArith Bool.
Import ListNotations.
From GU Require Import C06.Model C06.Proofs.
Local Open Scope Z_scope.

(* Query calls (read, the listings, exists / is-file / is-dir / is-empty, size, hash, path conversion) never change the tree,
   whatever their arguments and whatever the tree. *)
Theorem queries_pure : forall t c r t', is_query c = true -> exec t c = Out r t' -> t' = t.
Proof. exact queries_pure_l. Qed.
Print Assumptions queries_pure.

(* rm -rf: succeeds; exactly the named subtree disappears, every other path keeps its entry. *)
Theorem rm_removes_exactly_the_subtree : forall t p tr r t',
  exec t (Rm (P p tr)) = Out r t' ->
  r = ROk /\ forall q, q <> [] -> lookup t' q = if is_prefix p q then None else lookup t q.
Proof. exact rm_spec_l. Qed.
Print Assumptions rm_removes_exactly_the_subtree.

(* clean: exactly what lies strictly below the directory disappears. *)
Theorem clean_empties_exactly_the_directory : forall t p tr r t',
  exec t (Clean (P p tr)) = Out r t' ->
  r = ROk /\ forall q, q <> [] -> lookup t' q = if below p q then None else lookup t q.
Proof. exact clean_spec_l. Qed.
Print Assumptions clean_empties_exactly_the_directory.

(* mkdir -p: afterwards every prefix of the path is a directory; paths that are not prefixes are untouched; nothing that
   existed is altered. *)
Theorem mkdir_p_spec : forall t p tr r t',
  exec t (Mkdir (P p tr)) = Out r t' ->
  r = ROk /\ (forall q, is_prefix q p = true -> is_dir t' q = true)
          /\ (forall q, is_prefix q p = false -> lookup t' q = lookup t q)
          /\ (forall q e, lookup t q = Some e -> lookup t' q = Some e).
Proof. exact mkdir_spec_l. Qed.
Print Assumptions mkdir_p_spec.

(* D12: a directory is never copied into itself — whatever the tree, the call is refused ('invalid') and nothing changes. *)
Theorem copy_into_itself_refused : forall t s str d dtr,
  s <> [] -> arg_conflict t s str = false -> arg_conflict t d dtr = false ->
  is_dir t s = true -> is_file t d = false ->
  is_prefix s (if is_dir t d then d ++ [base s] else d) = true -> parg_eqb (P s str) (P d dtr) = false ->
  exec t (Copy (P s str) (P d dtr)) = Out (RErr EInvalid) t.
Proof. exact copy_into_itself_refused_l. Qed.
Print Assumptions copy_into_itself_refused.

(* D28: nor moved into itself. *)
Theorem move_into_itself_refused : forall t s str d dtr,
  s <> [] -> arg_conflict t s str = false -> arg_conflict t d dtr = false ->
  is_dir t s = true ->
  let dst := if is_dir t d then d ++ [base s] else if negb (exists_ t d) && dtr then d ++ [base s] else d in
  is_prefix s dst = true -> path_eqb dst s = false -> parg_eqb (P s str) (P d dtr) = false ->
  exec t (Move (P s str) (P d dtr)) = Out (RErr EInvalid) t.
Proof. exact move_into_itself_refused_l. Qed.
Print Assumptions move_into_itself_refused.

(* Non-vacuity: the witnesses of D12 / D28 / D24 / D26 evaluated on R. *)
Example c06_d12 : exec [([0], D); ([0;1], F [1])] (Copy (P [0] false) (P [0;1;2] false)) = Unconstrained.
Proof. reflexivity. Qed.   (* a/b is a file: kind conflict *)
Example c06_d12' : exec [([0], D); ([0;1], D)] (Copy (P [0] false) (P [0;1;2] false)) = Out (RErr EInvalid) [([0], D); ([0;1], D)].
Proof. reflexivity. Qed.
Example c06_d28 : exec [([0], D); ([0;1], F [1])] (Move (P [0] false) (P [0;2] false)) = Out (RErr EInvalid) [([0], D); ([0;1], F [1])].
Proof. reflexivity. Qed.
Example c06_d24 : exec [([0], D); ([0;1], F [7]); ([3], D)] (Move (P [0;1] false) (P [3] false))
                  = Out ROk [([0], D); ([3], D); ([3;1], F [7])].
Proof. reflexivity. Qed.
Example c06_d26 : exec [([0], D); ([0;1], F [7])] (Copy (P [0;1] false) (P [0] false)) = Out ROk [([0], D); ([0;1], F [7])].
Proof. reflexivity. Qed.
Example c06_cp_r_merge :
  exec [([0], D); ([0;1], F [7]); ([3], D); ([3;0], D); ([3;0;2], F [9])] (Copy (P [0] false) (P [3] false))
  = Out ROk [([0], D); ([0;1], F [7]); ([3], D); ([3;0], D); ([3;0;2], F [9]); ([3;0;1], F [7])].
Proof. reflexivity. Qed.
