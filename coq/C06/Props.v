(* C06 — Filesystem API follows its documented semantics on every back end.
   Property theorems only.  R = GU.C06.Model (reference model of the documented semantics, tied to files.go on both back ends
   by the correspondence runs of harness/cmd/c06). *)
From Coq Require Import List ZArith Bool.
Import ListNotations.
From GU Require Import C06.Model C06.Facts C06.Gen C06.Proofs C06.ProofsWf C06.Vfs C06.ProofsVfsHandles C06.ProofsVfsRm C06.ProofsVfsCopy C06.ProofsVfsCopyDir C06.ProofsVfsList C06.ProofsVfsFallback C06.ProofsVfs.
Local Open Scope Z_scope.

(* Query calls (read, the listings, exists / is-file / is-dir / is-empty, size, hash, path conversion) never change the tree,
   whatever their arguments and whatever the tree. *)
Theorem queries_pure : forall t c r t', is_query c = true -> exec t c = Out r t' -> t' = t.
Proof. exact queries_pure_l. Qed.
Print Assumptions queries_pure.

(* rm -rf: succeeds; exactly the named subtree disappears, every other path keeps its entry. *)
Theorem rm_removes_exactly_the_subtree : forall t p tr r t',
  exec t (Rm (P p tr)) = Out r t' ->
  r = ROk /\ forall q, q <> [] -> lookup t' q = if is_prefix p q then None else lookup t q.
Proof. exact rm_spec_l. Qed.
Print Assumptions rm_removes_exactly_the_subtree.

(* clean: exactly what lies strictly below the directory disappears. *)
Theorem clean_empties_exactly_the_directory : forall t p tr r t',
  exec t (Clean (P p tr)) = Out r t' ->
  r = ROk /\ forall q, q <> [] -> lookup t' q = if below p q then None else lookup t q.
Proof. exact clean_spec_l. Qed.
Print Assumptions clean_empties_exactly_the_directory.

(* mkdir -p: afterwards every prefix of the path is a directory; paths that are not prefixes are untouched; nothing that
   existed is altered. *)
Theorem mkdir_p_spec : forall t p tr r t',
  exec t (Mkdir (P p tr)) = Out r t' ->
  r = ROk /\ (forall q, is_prefix q p = true -> is_dir t' q = true)
          /\ (forall q, is_prefix q p = false -> lookup t' q = lookup t q)
          /\ (forall q e, lookup t q = Some e -> lookup t' q = Some e).
Proof. exact mkdir_spec_l. Qed.
Print Assumptions mkdir_p_spec.

(* D12: a directory is never copied into itself — whatever the tree, the call is refused ('invalid') and nothing changes. *)
Theorem copy_into_itself_refused : forall t s str d dtr,
  s <> [] -> arg_conflict t s str = false -> arg_conflict t d dtr = false ->
  is_dir t s = true -> is_file t d = false ->
  is_prefix s (if is_dir t d then d ++ [base s] else d) = true -> parg_eqb (P s str) (P d dtr) = false ->
  exec t (Copy (P s str) (P d dtr)) = Out (RErr EInvalid) t.
Proof. exact copy_into_itself_refused_l. Qed.
Print Assumptions copy_into_itself_refused.

(* D28: nor moved into itself. *)
Theorem move_into_itself_refused : forall t s str d dtr,
  s <> [] -> arg_conflict t s str = false -> arg_conflict t d dtr = false ->
  is_dir t s = true ->
  let dst := if is_dir t d then d ++ [base s] else if negb (exists_ t d) && dtr then d ++ [base s] else d in
  is_prefix s dst = true -> path_eqb dst s = false -> parg_eqb (P s str) (P d dtr) = false ->
  exec t (Move (P s str) (P d dtr)) = Out (RErr EInvalid) t.
Proof. exact move_into_itself_refused_l. Qed.
Print Assumptions move_into_itself_refused.

(* Second sentence, on R, for EVERY call (mutating or not), every tree and every argument for which R is defined:
   a path that is not at or below the call's destination (or, for move / rm / clean, its source) keeps the entry it had,
   and is unchanged altogether unless it is an ancestor of the destination (mkdir -p of the parents creates directories). *)
Theorem only_touches_destination : forall t c r t' q,
  exec t c = Out r t' -> outside (roots c) q = true ->
  (forall e, lookup t q = Some e -> lookup t' q = Some e) /\ (towards (roots c) q = false -> lookup t' q = lookup t q).
Proof. intros t c r t' q H. exact (only_touches_destination_l t c r t' H q). Qed.
Print Assumptions only_touches_destination.

(* ... lifted by induction to programs of ANY length: what no call of the program names as destination is the same at the end. *)
Theorem program_only_touches_destinations : forall cs t t' q,
  run t cs = Some t' ->
  (forall c, In c cs -> outside (roots c) q = true /\ towards (roots c) q = false) ->
  lookup t' q = lookup t q.
Proof. exact program_frame_l. Qed.
Print Assumptions program_only_touches_destinations.

Theorem program_never_alters_other_entries : forall cs t t' q e,
  run t cs = Some t' -> (forall c, In c cs -> outside (roots c) q = true) ->
  lookup t q = Some e -> lookup t' q = Some e.
Proof. exact program_preserves_l. Qed.
Print Assumptions program_never_alters_other_entries.

(* A copy never changes its source, also when source and destination overlap: every path at or below the source — existing
   or not — is exactly as before, whatever the destination (inside the source, a parent of it, equal to it, elsewhere). *)
Theorem copy_leaves_source : forall t s str b r t',
  exec t (Copy (P s str) b) = Out r t' -> forall q, is_prefix s q = true -> lookup t' q = lookup t q.
Proof. exact copy_leaves_source_l. Qed.
Print Assumptions copy_leaves_source.

(* Without the "own parent" refusal the statement is false: the witness found while proving it (a/b/c/b copied to a, which
   resolves to a/b) overwrites the source file a/b/c/b/e.txt; it is replayed on the implementation by the harness corpus. *)
Example copy_over_own_parent_witness :
  let t := [([0], D); ([0;1], D); ([0;1;2], D); ([0;1;2;1], D); ([0;1;2;1;4], F [1]);
            ([0;1;2;1;2], D); ([0;1;2;1;2;1], D); ([0;1;2;1;2;1;4], F [2])] in
  lookup (graft (mkdirp t [0;1]) [0;1;2;1] [0;1]) [0;1;2;1;4] = Some (F [2]) /\
  exec t (Copy (P [0;1;2;1] false) (P [0] false)) = Out (RErr EInvalid) t.
Proof. split; reflexivity. Qed.

(* R preserves well-formedness (the ancestors of every entry are directories): for EVERY constrained call, including the
   cp -r merge and mv, and hence along programs of any length.  Well-formedness is therefore a premise about the initial tree
   only (checked on every observed dump by the correspondence). *)
Theorem ref_preserves_wf : forall t c r t', wf t -> exec t c = Out r t' -> wf t'.
Proof. exact exec_preserves_wf_l. Qed.
Print Assumptions ref_preserves_wf.

Theorem program_preserves_wf : forall cs t t', wf t -> run t cs = Some t' -> wf t'.
Proof. exact run_preserves_wf_l. Qed.
Print Assumptions program_preserves_wf.

(* ===== The mechanised model M is parameterised by a record of FACTS about files.go that is REGENERATED FROM THE SOURCE on
   every run (translator-c06 -> Gen.v: gen_facts).  The lemmas of the proof files hold for every record satisfying the
   condition named in each (move_ok / copy_ok / write_ok / paths_ok / handles_ok / fallback_ok, Facts.v); the theorems below
   are those lemmas INSTANTIATED WITH THE GENERATED RECORD, the conditions being discharged by computation (eq_refl): an edit
   of the source that changes a fact breaks exactly the theorems whose condition mentions it. ===== *)

(* Refinement M <= R: on a well-formed tree, for every call in [m_exec] — mkdir, touch, write, read, ls, exists, is-file,
   is-dir, is-empty, size, sub-directories, the recursive rm and clean, Move (the checks of MoveWithContext in the order
   found in the source, then MkDir of the parent and the rename), CopyToFile, Copy / CopyToDirectory of a file (the
   destination-shape table), and the calls on the empty name — that is free of kind conflicts, M returns exactly the result
   and the tree (as a list) of the reference model.
   Needs of the facts: move_ok (order of the checks; the into-itself test standing alone), copy_ok (guards present and before
   the creation of the destination; same-file guard on the RESOLVED destination; file-over-directory refusal), write_ok
   (O_CREATE, O_TRUNC), paths_ok (checkPathIsNotEmpty in Stat / GenericOpen / OpenFile).
   (_partial: LsRecursive / Walk, FindAll, hash and path conversion are not in M; ListDirTree has its own theorem below.) *)
Theorem vfs_refines_ref_partial : forall t c m r t',
  wf t -> m_exec gen_facts t c = Some m -> exec t c = Out r t' -> m_r m = r /\ m_t m = t'.
Proof. exact (fun t c m r t' => m_refines_r_l gen_facts t c m r t' eq_refl eq_refl eq_refl eq_refl). Qed.
Print Assumptions vfs_refines_ref_partial.

(* ... lifted to programs of ANY length over the calls M covers, from a well-formed INITIAL tree: M yields the same list of
   results and the same final tree as R (same needs), and has closed as many handles as it opened (needs handles_ok). *)
Theorem vfs_program_refines_ref_partial : forall cs t rs t' x,
  wf t -> run_res t cs = Some (rs, t') -> m_run gen_facts t cs = Some x -> exists o, x = (rs, t', o, o).
Proof.
  intros cs t rs t' x W Hr Hm.
  destruct (m_program_refines_r_l gen_facts cs eq_refl eq_refl eq_refl eq_refl t rs t' x W Hr Hm) as [o [cl ->]].
  rewrite (m_program_handles_balanced_l gen_facts cs eq_refl _ _ _ _ _ Hm). eauto.
Qed.
Print Assumptions vfs_program_refines_ref_partial.

(* WriteFile alone (needs only write_ok: O_CREATE and O_TRUNC in the open flags of WriteToFile) *)
Theorem vfs_write_refines_ref : forall t p tr c r t',
  r_write t (P p tr) c = Out r t' -> m_r (m_write gen_facts t p c) = r /\ m_t (m_write gen_facts t p c) = t'.
Proof. exact (fun t p tr c r t' => m_write_refines gen_facts t p tr c r t' eq_refl). Qed.
Print Assumptions vfs_write_refines_ref.

(* mkdir -p when the back end's MkdirAll creates the directory and STILL reports an error (a creation race lost on a back end
   that is not atomic; an error reported after the creation): MkDir succeeds, with R's tree.  Needs only mkdir_ok: the re-check
   `if err != nil && fs.Exists(dir) { err = nil }` after the back-end call. *)
Theorem vfs_mkdir_race_tolerated : forall t p tr r t',
  wf t -> r_mkdir t (P p tr) = Out r t' -> m_mkdir_raced gen_facts t p = (r, t').
Proof. exact (fun t p tr r t' => m_mkdir_raced_refines gen_facts t p tr r t' eq_refl). Qed.
Print Assumptions vfs_mkdir_race_tolerated.

(* The calls on the empty name alone (needs only paths_ok: without the guards a back end may answer for its own root) *)
Theorem vfs_empty_name_refines_ref : forall t c m r t',
  is_empty_call c = true -> m_exec gen_facts t c = Some m -> exec t c = Out r t' -> m_r m = r /\ m_t m = t'.
Proof. exact (fun t c m r t' => m_empty_refines gen_facts t c m r t' eq_refl). Qed.
Print Assumptions vfs_empty_name_refines_ref.

(* Termination of the recursive removal with explicit fuel: one more than the number of entries of the tree always suffices
   (more precisely: more than the number of entries at or below the path), and the result is then rm -rf / rm -rf dir/*. *)
Theorem vfs_rm_fuel_sufficient : forall t p,
  wf t -> p <> [] -> exists h, m_rm (S (length t)) t p = Some (ROk, remove_sub t p, h).
Proof. exact m_rm_refines. Qed.
Print Assumptions vfs_rm_fuel_sufficient.

Theorem vfs_rm_fuel_bound : forall f t p,
  wf t -> p <> [] -> (length (sub t p) < f)%nat -> exists h, m_rm f t p = Some (ROk, remove_sub t p, h).
Proof. exact m_rm_ok. Qed.
Print Assumptions vfs_rm_fuel_bound.

Theorem vfs_clean_fuel_sufficient : forall t p,
  wf t -> dir_arg_conflict t p = false -> exists h, m_clean (S (length t)) t p = Some (ROk, remove_below t p, h).
Proof. exact m_clean_refines. Qed.
Print Assumptions vfs_clean_fuel_sufficient.

(* The same for EVERYTHING M models, the recursive copy of a directory (copyFolder) included: same result, same tree as a
   finite map (the order of the entries differs from R's), the tree stays well-formed, handles balanced — and the fuel
   S (number of entries) given to the recursive functions always suffices (m_exec_all never runs out on a constrained call). *)
Theorem vfs_all_refines_ref_partial : forall t c m r t',
  wf t -> m_exec_all gen_facts t c = Some m -> exec t c = Out r t' ->
  m_r m = r /\ (forall q, find_entry (m_t m) q = find_entry t' q) /\ wf (m_t m) /\ m_opened m = m_closed m.
Proof.
  intros t c m r t' W Hm Hr.
  destruct (m_all_refines_r_l gen_facts t c m r t' eq_refl eq_refl eq_refl eq_refl W Hm Hr) as [A [B C]].
  repeat split; auto. exact (m_all_handles_balanced_l gen_facts t c m eq_refl Hm).
Qed.
Print Assumptions vfs_all_refines_ref_partial.

(* Termination of the recursive copy with explicit fuel: one more than the number of entries suffices for every directory
   copy R constrains (into itself / over its own parent is refused before anything is created), and the result is cp -r. *)
Theorem vfs_copy_dir_fuel_sufficient : forall t s str d dtr r t',
  wf t -> is_dir t s = true -> r_copy t (P s str) (P d dtr) = Out r t' ->
  exists t'' h, m_copy gen_facts (S (length t)) t s str d dtr = Some (r, t'', h) /\ (forall q, find_entry t'' q = find_entry t' q) /\ wf t''.
Proof. exact (fun t s str d dtr r t' => m_copy_dir_refines gen_facts t s str d dtr r t' eq_refl). Qed.
Print Assumptions vfs_copy_dir_fuel_sufficient.

(* Move never needs fuel beyond 1 when the back end's rename is POSIX: the checks, in the order of the source, and the rename
   decide.  Needs only move_ok. *)
Theorem vfs_move_refines_ref : forall t n s str d dtr r t' f,
  wf t -> r_move t (P (n :: s) str) (P d dtr) = Out r t' -> exists h, m_move gen_facts (S f) t (n :: s) str d dtr = Some (r, t', h).
Proof. exact (fun t n s str d dtr r t' f => m_move_refines gen_facts t n s str d dtr r t' f eq_refl). Qed.
Print Assumptions vfs_move_refines_ref.

(* Move's fall-back, taken when the back end refuses the rename (xdev = true: as across devices).  For a FILE (moveFile: Copy,
   then Remove) and for an EMPTY DIRECTORY (moveFolder: MkDir(dest), nothing to loop over, Remove(src)) moved to a missing
   destination whose parent exists, M gives the tree of R's mv, as a finite map.
   Needs of the facts: IsDir(SRC) — not dest — chooses moveFolder / moveFile; moveFolder removes the source ALSO when it was
   empty; and, for the file, copy_ok.   (_partial: a non-empty directory — the recursive case — is not proved; it is compared
   with R on the implementation by forcing renames to fail.) *)
Theorem vfs_move_fallback_refines_ref_partial : forall t s dst f,
  wf t -> s <> [] -> dst <> [] -> find_entry t dst = None -> is_dir t (parent dst) = true -> is_prefix s dst = false ->
  (forall c, find_entry t s = Some (F c) ->
     exists t'' h, m_move_raw gen_facts true (S f) t s dst = Some (ROk, t'', h) /\ (forall q, find_entry t'' q = find_entry (rename_sub t s dst) q))
  /\ (find_entry t s = Some D -> children t s = [] ->
     exists t'' h, m_move_raw gen_facts true (S f) t s dst = Some (ROk, t'', h) /\ (forall q, find_entry t'' q = find_entry (rename_sub t s dst) q)).
Proof.
  intros t s dst f W Hs Hd Fd Pd P1. split.
  - intros c Fs. exact (m_move_fallback_file gen_facts t s dst c f eq_refl eq_refl W Hs Hd Fs Fd Pd P1).
  - intros Fs Ch. exact (m_move_fallback_empty_dir gen_facts t s dst f eq_refl eq_refl W Hs Hd Fs Ch Fd Pd P1).
Qed.
Print Assumptions vfs_move_fallback_refines_ref_partial.

(* ListDirTree (depth-first, explicit fuel S (number of entries), proved sufficient): M lists exactly the paths R lists, as a set
   (the order is the back end's), and the error cases coincide. *)
Theorem vfs_tree_listing_refines_ref : forall t p tr r t',
  wf t -> exec t (TreeL (P p tr)) = Out r t' ->
  t' = t /\ match r with
            | RNames lr => exists lm, m_tree t p = Some (RNames lm) /\ forall q, In q lm <-> In q lr
            | _ => m_tree t p = Some r
            end.
Proof. exact m_tree_refines. Qed.
Print Assumptions vfs_tree_listing_refines_ref.

(* ... and every path through the modelled code closes the handles it opened, success and failure paths alike (whatever the
   call, constrained or not).  Needs handles_ok: the deferred Closes of copyFile and WriteToFile registered right after the opens. *)
Theorem vfs_handles_balanced_partial : forall t c m, m_exec_all gen_facts t c = Some m -> m_opened m = m_closed m.
Proof. exact (fun t c m => m_all_handles_balanced_l gen_facts t c m eq_refl). Qed.
Print Assumptions vfs_handles_balanced_partial.

(* Non-vacuity: the witnesses of D12 / D28 / D24 / D26 evaluated on R. *)
Example c06_d12 : exec [([0], D); ([0;1], F [1])] (Copy (P [0] false) (P [0;1;2] false)) = Unconstrained.
Proof. reflexivity. Qed.   (* a/b is a file: kind conflict *)
Example c06_d12' : exec [([0], D); ([0;1], D)] (Copy (P [0] false) (P [0;1;2] false)) = Out (RErr EInvalid) [([0], D); ([0;1], D)].
Proof. reflexivity. Qed.
Example c06_d28 : exec [([0], D); ([0;1], F [1])] (Move (P [0] false) (P [0;2] false)) = Out (RErr EInvalid) [([0], D); ([0;1], F [1])].
Proof. reflexivity. Qed.
Example c06_d24 : exec [([0], D); ([0;1], F [7]); ([3], D)] (Move (P [0;1] false) (P [3] false))
                  = Out ROk [([0], D); ([3], D); ([3;1], F [7])].
Proof. reflexivity. Qed.
Example c06_d26 : exec [([0], D); ([0;1], F [7])] (Copy (P [0;1] false) (P [0] false)) = Out ROk [([0], D); ([0;1], F [7])].
Proof. reflexivity. Qed.
Example c06_wf_nonvacuous : wf [([0], D); ([0;1], F [7]); ([3], D)] /\
  m_exec gen_facts [([0], D); ([0;1], F [7]); ([3], D)] (Touch (P [3;2] false)) =
    Some (mkM ROk [([0], D); ([0;1], F [7]); ([3], D); ([3;2], F [])] 1 1).
Proof. split; [apply wf_b_sound|]; reflexivity. Qed.
Example c06_rm_nonvacuous :
  m_exec gen_facts [([0], D); ([0;1], D); ([0;1;2], F [7]); ([0;3], F []); ([4], D)] (Rm (P [0] false)) = Some (mkM ROk [([4], D)] 18 18).
Proof. reflexivity. Qed.
Example c06_m_copy_dir_nonvacuous :
  match m_exec_all gen_facts [([0], D); ([0;1], F [7]); ([0;2], D); ([0;2;1], F [8]); ([3], D); ([3;0], D); ([3;0;4], F [9])]
                   (Copy (P [0] false) (P [3] false)) with
  | Some m => res_eqb (m_r m) ROk &&
              tree_eqb (m_t m) [([0], D); ([0;1], F [7]); ([0;2], D); ([0;2;1], F [8]); ([3], D); ([3;0], D); ([3;0;4], F [9]);
                                ([3;0;1], F [7]); ([3;0;2], D); ([3;0;2;1], F [8])]
  | None => false
  end = true.
Proof. reflexivity. Qed.
Example c06_cp_r_merge :
  match exec [([0], D); ([0;1], F [7]); ([3], D); ([3;0], D); ([3;0;2], F [9])] (Copy (P [0] false) (P [3] false)) with
  | Out ROk t' => tree_eqb t' [([0], D); ([0;1], F [7]); ([3], D); ([3;0], D); ([3;0;2], F [9]); ([3;0;1], F [7])]
  | _ => false
  end = true.
Proof. reflexivity. Qed.
