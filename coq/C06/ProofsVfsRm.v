(* C06 - M recursive removal (Rm and CleanDir) refines R (rm -rf, and rm -rf of the content) on well-formed trees, with fuel
   S (number of entries) proved sufficient. *)
From Coq Require Import List ZArith Bool Lia Arith.
Import ListNotations.
From GU Require Import C06.Model C06.Proofs C06.ProofsWf C06.Vfs.
Local Open Scope Z_scope.

(* ---------- basics shared by the refinement proofs ---------- *)

Lemma add_dir_id t q : exists_ t q = true -> add_dir t q = t.
Proof. unfold add_dir. now intros ->. Qed.

Lemma fold_add_dir_id ds : forall t, (forall q, In q ds -> exists_ t q = true) -> fold_left add_dir ds t = t.
Proof.
  induction ds as [|d ds IH]; intros t H; simpl; auto.
  rewrite add_dir_id by (apply H; now left). apply IH. intros q Hq. apply H. now right.
Qed.

Lemma is_dir_exists t q : is_dir t q = true -> exists_ t q = true.
Proof. unfold is_dir, exists_. destruct (lookup t q) as [[|]|]; auto. Qed.

Lemma prefixes_split p q : In q (prefixes p) -> q = p \/ In q (proper_prefixes p).
Proof.
  intros H. apply in_prefixes in H as [H1 H2]. apply is_prefix_spec in H1 as [r ->].
  destruct r as [|x r]; [left; now rewrite app_nil_r|right; now apply proper_prefixes_in].
Qed.

(* mkdir -p of something that exists in a well-formed tree changes nothing *)
Lemma mkdirp_exists_id t p : wf t -> exists_ t p = true -> mkdirp t p = t.
Proof.
  intros W H. unfold mkdirp. apply fold_add_dir_id. intros q Hq.
  destruct (prefixes_split _ _ Hq) as [->|Hp]; auto.
  destruct p as [|a p]; [contradiction|].
  unfold exists_ in H. rewrite lookup_nonroot in H by discriminate.
  destruct (find_entry t (a :: p)) eqn:E; [|discriminate]. apply is_dir_exists. eapply W; eauto.
Qed.

Lemma filter_filter_same {A} (f : A -> bool) l : filter f (filter f l) = filter f l.
Proof. induction l as [|x l IH]; simpl; auto. destruct (f x) eqn:E; simpl; rewrite ?E, IH; auto. Qed.

Lemma set_file_twice t p c c' : set_file (set_file t p c) p c' = set_file t p c'.
Proof.
  unfold set_file. rewrite filter_app, filter_filter_same. simpl. rewrite path_eqb_refl. simpl. now rewrite app_nil_r.
Qed.

(* ---------- filters ---------- *)

Lemma filter_filter {A} (f g : A -> bool) l : filter f (filter g l) = filter (fun x => g x && f x) l.
Proof. induction l as [|x l IH]; simpl; auto. destruct (g x) eqn:G; simpl; [destruct (f x); simpl; now rewrite IH|exact IH]. Qed.

Lemma filter_true {A} (f : A -> bool) l : (forall x, In x l -> f x = true) -> filter f l = l.
Proof.
  induction l as [|x l IH]; intros H; simpl; auto. rewrite (H x (or_introl eq_refl)). f_equal. apply IH. intros; apply H; now right.
Qed.

Lemma filter_length_le' {A} (f : A -> bool) l : (length (filter f l) <= length l)%nat.
Proof. induction l as [|x l IH]; simpl; auto. destruct (f x); simpl; lia. Qed.

Lemma filter_length_mono {A} (f g : A -> bool) l :
  (forall x, In x l -> f x = true -> g x = true) -> (length (filter f l) <= length (filter g l))%nat.
Proof.
  induction l as [|x l IH]; intros H; simpl; auto.
  assert (IH' := IH (fun y Hy => H y (or_intror Hy))).
  destruct (f x) eqn:F1; simpl.
  - rewrite (H x (or_introl eq_refl) F1). simpl. lia.
  - destruct (g x); simpl; lia.
Qed.

Lemma filter_length_lt {A} (f g : A -> bool) l a :
  (forall x, In x l -> f x = true -> g x = true) -> In a l -> g a = true -> f a = false ->
  (length (filter f l) < length (filter g l))%nat.
Proof.
  induction l as [|x l IH]; intros H Hin Ga Fa; [contradiction|]. simpl.
  assert (Hm := filter_length_mono f g l (fun y Hy => H y (or_intror Hy))).
  destruct Hin as [->|Hin].
  - rewrite Fa, Ga. simpl. lia.
  - assert (IH' := IH (fun y Hy => H y (or_intror Hy)) Hin Ga Fa).
    destruct (f x) eqn:F1; simpl.
    + rewrite (H x (or_introl eq_refl) F1). simpl. lia.
    + destruct (g x); simpl; lia.
Qed.

Lemma forallb_false_in {A} (f : A -> bool) l x : In x l -> f x = false -> forallb f l = false.
Proof.
  intros Hin Hf. destruct (forallb f l) eqn:E; auto. rewrite forallb_forall in E. rewrite (E x Hin) in Hf. discriminate.
Qed.

Lemma snoc_nonnil (p : path) n : p ++ [n] <> [].
Proof. destruct p; simpl; discriminate. Qed.

(* ---------- entries, children ---------- *)

Lemma in_find_some (t : tree) k e : In (k, e) t -> exists e', find_entry t k = Some e'.
Proof.
  induction t as [|[q x] t IH]; intros H; [contradiction|]. simpl.
  destruct (path_eqb q k) eqn:E; [eauto|]. destruct H as [H|H]; [|auto].
  inversion H; subst. rewrite path_eqb_refl in E. discriminate.
Qed.

Lemma child_in t p x : exists_ t (p ++ [x]) = true -> In x (children t p).
Proof.
  unfold exists_. rewrite lookup_nonroot by apply snoc_nonnil.
  destruct (find_entry t (p ++ [x])) eqn:E; [|discriminate]. intros _. apply find_entry_in in E.
  unfold children. apply in_flat_map. exists (p ++ [x], e). split; auto. simpl.
  rewrite is_prefix_app, app_length. simpl. replace (length p + 1)%nat with (S (length p)) by lia.
  rewrite Nat.eqb_refl. simpl. left. unfold base. apply last_last.
Qed.

Lemma prefix_len_singleton p k : is_prefix p k = true -> length k = S (length p) -> exists x, k = p ++ [x].
Proof.
  intros H L. apply is_prefix_spec in H as [r ->]. rewrite app_length in L.
  destruct r as [|x [|y r]]; simpl in L; try lia. eauto.
Qed.

Lemma children_nil_intro t p :
  (forall e, In e t -> is_prefix p (fst e) && Nat.eqb (length (fst e)) (S (length p)) = false) -> children t p = [].
Proof.
  unfold children. induction t as [|e t IH]; intros H; simpl; auto.
  rewrite (H e (or_introl eq_refl)). simpl. apply IH. intros; apply H; now right.
Qed.

(* in a well-formed tree, the first step from p towards any entry strictly below p exists *)
Lemma wf_step_exists t p x r e : wf t -> In (p ++ x :: r, e) t -> exists_ t (p ++ [x]) = true.
Proof.
  intros W H. destruct (in_find_some _ _ _ H) as [e' F1].
  destruct r as [|y r].
  - unfold exists_. rewrite lookup_nonroot by apply snoc_nonnil. now rewrite F1.
  - apply is_dir_exists'. eapply (proj1 (wf_iff _) W); [exact F1|].
    split; [apply snoc_nonnil|]. exists y, r. now rewrite <- app_assoc.
Qed.

Definition not_under_children (p : path) (ns : list name) (k : path) : bool :=
  forallb (fun n => negb (is_prefix (p ++ [n]) k)) ns.

Lemma is_prefix_child p n k : is_prefix (p ++ [n]) k = true -> is_prefix p k = true.
Proof. intros H. exact (is_prefix_trans _ _ _ (is_prefix_app p [n]) H). Qed.

(* key fact: among the entries of a well-formed tree, "below p" is "at or below one of the children of p" *)
Lemma below_iff_under_child t p k e :
  wf t -> In (k, e) t -> not_under_children p (children t p) k = negb (below p k).
Proof.
  intros W Hin. unfold below. destruct (is_prefix p k) eqn:Pk; simpl.
  - destruct (path_eqb p k) eqn:E; simpl.
    + apply path_eqb_eq in E. subst k. unfold not_under_children. apply forallb_forall. intros n _.
      apply negb_true_iff. destruct (is_prefix (p ++ [n]) p) eqn:X; auto.
      pose proof (is_prefix_antisym _ _ X (is_prefix_app p [n])) as Y.
      rewrite <- (app_nil_r p) in Y at 2. apply app_inv_head in Y. discriminate.
    + apply is_prefix_spec in Pk as [r ->]. destruct r as [|x r]; [rewrite app_nil_r, path_eqb_refl in E; discriminate|].
      apply (forallb_false_in _ _ x).
      * apply child_in. eapply wf_step_exists; eauto.
      * apply negb_false_iff. change (x :: r) with ([x] ++ r). rewrite app_assoc. apply is_prefix_app.
  - unfold not_under_children. apply forallb_forall. intros n _. apply negb_true_iff.
    destruct (is_prefix (p ++ [n]) k) eqn:X; auto. rewrite (is_prefix_child _ _ _ X) in Pk. discriminate.
Qed.

Lemma sub_length_child t p n e0 :
  In (p, e0) t -> (length (sub t (p ++ [n])) < length (sub t p))%nat.
Proof.
  intros H. unfold sub. apply (filter_length_lt _ _ _ (p, e0)); auto.
  - intros [k e] _ Hk. simpl in *. eapply is_prefix_child; eauto.
  - simpl. apply is_prefix_refl.
  - simpl. destruct (is_prefix (p ++ [n]) p) eqn:X; auto.
    pose proof (is_prefix_antisym _ _ X (is_prefix_app p [n])) as Y.
    rewrite <- (app_nil_r p) in Y at 2. apply app_inv_head in Y. discriminate.
Qed.

Lemma sub_remove_sub_length t a c : (length (sub (remove_sub t a) c) <= length (sub t c))%nat.
Proof.
  unfold sub, remove_sub. rewrite filter_filter. apply filter_length_mono. intros x _ H.
  now apply andb_true_iff in H as [_ H].
Qed.

(* ---------- the loop over the children ---------- *)

Definition rm_ok (f : nat) : Prop :=
  forall t c, wf t -> c <> [] -> (length (sub t c) < f)%nat -> exists h, m_rm f t c = Some (ROk, remove_sub t c, h).

Lemma rm_children_ok f p : rm_ok f -> forall ns t0 h,
  wf t0 -> (forall n, In n ns -> (length (sub t0 (p ++ [n])) < f)%nat) ->
  exists h', rm_children (m_rm f) p ns t0 h = Some (ROk, filter (fun e => not_under_children p ns (fst e)) t0, h').
Proof.
  intros IHf. induction ns as [|n ns IH]; intros t0 h W Hl; simpl.
  - exists h. f_equal. f_equal. f_equal. symmetry. apply filter_true. reflexivity.
  - destruct (IHf t0 (p ++ [n]) W (snoc_nonnil p n) (Hl n (or_introl eq_refl))) as [h1 ->].
    destruct (IH (remove_sub t0 (p ++ [n])) (h + h1)%nat (wf_remove_sub _ _ W)) as [h' ->].
    + intros m Hm. eapply Nat.le_lt_trans; [apply sub_remove_sub_length|]. apply Hl. now right.
    + exists h'. f_equal. f_equal. f_equal. unfold remove_sub. rewrite filter_filter. reflexivity.
Qed.

(* ---------- Rm ---------- *)

Lemma remove_leaf t p :
  wf t -> p <> [] -> children t p = [] ->
  filter (fun e => negb (path_eqb p (fst e))) t = remove_sub t p.
Proof.
  intros W Hp Ch. unfold remove_sub. apply filter_ext_in. intros [k e] Hin. simpl. f_equal.
  destruct (is_prefix p k) eqn:Pk.
  - apply is_prefix_spec in Pk as [r ->]. destruct r as [|x r]; [rewrite app_nil_r; apply path_eqb_refl|].
    pose proof (child_in t p x (wf_step_exists _ _ _ _ _ W Hin)) as X. rewrite Ch in X. contradiction.
  - now apply is_prefix_false_neq.
Qed.

Lemma m_empty_b_dir t p : p <> [] -> find_entry t p = Some D ->
  m_empty_b t p = match children t p with [] => true | _ => false end.
Proof. intros Hp H. unfold m_empty_b, b_stat, b_readdirnames. now rewrite lookup_nonroot, H. Qed.

Lemma file_no_children t p c : wf t -> p <> [] -> find_entry t p = Some (F c) -> children t p = [].
Proof.
  intros W Hp Fp. destruct (children t p) as [|x l] eqn:C; auto. exfalso.
  assert (In x (children t p)) by (rewrite C; now left). unfold children in H. apply in_flat_map in H as [[k e] [Hin Hk]].
  simpl in Hk. destruct (is_prefix p k && Nat.eqb (length k) (S (length p))) eqn:B; [|contradiction].
  apply andb_true_iff in B as [B1 B2]. apply Nat.eqb_eq in B2. destruct (prefix_len_singleton _ _ B1 B2) as [y ->].
  destruct (in_find_some _ _ _ Hin) as [e' F1].
  assert (is_dir t p = true) by (eapply (proj1 (wf_iff _) W); [exact F1|]; split; auto; exists y, []; reflexivity).
  rewrite is_dir_nonroot, Fp in H by auto. discriminate.
Qed.

Local Arguments m_empty_b : simpl never.
Local Arguments b_remove : simpl never.
Local Arguments rm_children : simpl never.

Lemma m_rm_ok f : rm_ok f.
Proof.
  induction f as [|f IHf]; intros t p W Hp Hl; [lia|]. simpl.
  unfold m_exists, b_stat. rewrite lookup_nonroot by auto.
  destruct (find_entry t p) as [[c|]|] eqn:Fp; simpl.
  - (* a file *)
    pose proof (file_no_children t p c W Hp Fp) as Ch.
    unfold b_remove. rewrite Ch. eexists. now rewrite (remove_leaf t p W Hp Ch).
  - (* a directory *)
    rewrite (m_empty_b_dir t p Hp Fp).
    destruct (children t p) as [|x l] eqn:Ch; simpl.
    + rewrite (m_empty_b_dir t p Hp Fp), Ch. simpl. unfold b_remove. rewrite Ch. eexists. now rewrite (remove_leaf t p W Hp Ch).
    + unfold b_readdirnames. clear Ch.
      destruct (rm_children_ok f p IHf (children t p) t 5%nat W) as [h' ->].
      { intros n _. pose proof (sub_length_child t p n D (find_entry_in _ _ _ Fp)). lia. }
      set (t1 := filter (fun e => not_under_children p (children t p) (fst e)) t).
      assert (F1 : find_entry t1 p = Some D).
      { unfold t1. rewrite (find_entry_filter (not_under_children p (children t p))).
        rewrite (below_iff_under_child t p p D W (find_entry_in _ _ _ Fp)). unfold below. rewrite path_eqb_refl, andb_false_r. exact Fp. }
      assert (C1 : children t1 p = []).
      { apply children_nil_intro. intros [k e] Hin. simpl. unfold t1 in Hin. apply filter_In in Hin as [Hin G]. simpl in G.
        destruct (is_prefix p k && Nat.eqb (length k) (S (length p))) eqn:B; auto. exfalso.
        apply andb_true_iff in B as [B1 B2]. apply Nat.eqb_eq in B2. destruct (prefix_len_singleton _ _ B1 B2) as [y ->].
        rewrite (below_iff_under_child t p _ e W Hin) in G. unfold below in G. rewrite is_prefix_app in G. simpl in G.
        apply negb_true_iff, negb_false_iff, path_eqb_eq in G.
        rewrite <- (app_nil_r p) in G at 1. apply app_inv_head in G. discriminate. }
      rewrite (m_empty_b_dir t1 p Hp F1), C1. simpl. unfold b_remove. rewrite C1. eexists. f_equal. f_equal. f_equal.
      unfold t1, remove_sub. rewrite filter_filter. apply filter_ext_in. intros [k e] Hin. simpl.
      rewrite (below_iff_under_child t p k e W Hin). unfold below.
      destruct (is_prefix p k) eqn:Pk; simpl.
      * destruct (path_eqb p k); reflexivity.
      * now rewrite (is_prefix_false_neq _ _ Pk).
  - (* missing: nothing below *)
    eexists. f_equal. f_equal. f_equal. symmetry. unfold remove_sub. apply filter_true. intros [k e] Hin. simpl.
    destruct (is_prefix p k) eqn:Pk; auto. destruct (in_find_some _ _ _ Hin) as [e' F1].
    rewrite (wf_free_below t p k W Hp Fp Pk) in F1. discriminate.
Qed.

Lemma sub_length_le t p : (length (sub t p) <= length t)%nat.
Proof. apply filter_length_le'. Qed.

(* fuel: one more than the number of entries always suffices *)
Lemma m_rm_refines t p : wf t -> p <> [] -> exists h, m_rm (rm_fuel t) t p = Some (ROk, remove_sub t p, h).
Proof. intros W Hp. apply m_rm_ok; auto. unfold rm_fuel. pose proof (sub_length_le t p). lia. Qed.

(* ---------- CleanDir ---------- *)

Lemma m_clean_refines t p :
  wf t -> dir_arg_conflict t p = false -> exists h, m_clean (rm_fuel t) t p = Some (ROk, remove_below t p, h).
Proof.
  intros W C. unfold dir_arg_conflict in C. apply orb_false_iff in C as [_ Nf].
  assert (Key : forall h, exists_ t p = true ->
     exists h', (if m_empty_b t p then Some (ROk, t, h) else rm_children (m_rm (rm_fuel t)) p (b_readdirnames t p) t (h + 2)%nat)
                = Some (ROk, remove_below t p, h')).
  { intros h Ex. unfold m_empty_b, b_stat, b_readdirnames.
    assert (Lp : match lookup t p with Some (F _) => False | _ => True end).
    { unfold is_file in Nf. destruct (lookup t p) as [[|]|]; auto. discriminate. }
    assert (Eq : filter (fun e => not_under_children p (children t p) (fst e)) t = remove_below t p).
    { unfold remove_below. apply filter_ext_in. intros [k e] Hin. simpl. now apply (below_iff_under_child t p k e). }
    assert (Loop : forall h0, exists h', rm_children (m_rm (rm_fuel t)) p (children t p) t h0 = Some (ROk, remove_below t p, h')).
    { intros h0. destruct (rm_children_ok (rm_fuel t) p (m_rm_ok _) (children t p) t h0 W) as [h' E].
      - intros n _. unfold rm_fuel. pose proof (sub_length_le t (p ++ [n])). lia.
      - exists h'. now rewrite E, Eq. }
    destruct (lookup t p) as [[c|]|] eqn:L; try contradiction.
    - destruct (children t p) eqn:Ch; [|rewrite ?Ch; apply Loop].
      exists h. f_equal. f_equal. f_equal. rewrite <- Eq. symmetry. apply filter_true. reflexivity.
    - unfold exists_ in Ex. rewrite L in Ex. discriminate. }
  unfold m_clean, m_exists, b_stat.
  destruct (lookup t p) as [[c|]|] eqn:L; simpl.
  - unfold is_file in Nf. rewrite L in Nf. discriminate.
  - destruct (Key 2%nat) as [h' E]; [unfold exists_; now rewrite L|].
    destruct (m_empty_b t p); [inversion E; subst; eexists; f_equal; f_equal; f_equal; congruence|].
    simpl in E. eexists. exact E.
  - (* missing: nothing below *)
    eexists. f_equal. f_equal. f_equal. symmetry. unfold remove_below. apply filter_true. intros [k e] Hin. simpl.
    destruct (below p k) eqn:B; auto. destruct (in_find_some _ _ _ Hin) as [e' F1].
    assert (Hp : p <> []) by (intros ->; discriminate L). rewrite lookup_nonroot in L by auto.
    rewrite (wf_free_below t p k W Hp L (below_prefix _ _ B)) in F1. discriminate.
Qed.
