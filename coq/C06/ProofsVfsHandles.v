(* C06 - handle balance of the functions of M whose Closes are deferred in the source: every handle opened is closed on every
   path (success and failure), PROVIDED the facts say the deferred Closes are registered right after the opens. *)
From Coq Require Import List ZArith Bool Lia Arith.
Import ListNotations.
From GU Require Import C06.Model C06.Facts C06.Vfs.
Local Open Scope Z_scope.

Definition balanced (h : hs) : Prop := fst h = snd h.

Lemma balanced_hb n : balanced (hb n).
Proof. reflexivity. Qed.

Lemma balanced_hadd a b : balanced a -> balanced b -> balanced (a +h b).
Proof. unfold balanced, hadd. simpl. intros -> ->. reflexivity. Qed.

#[local] Hint Resolve balanced_hb balanced_hadd : bal.

Ltac inv H := inversion H; subst; clear H.

(* split a hypothesis  <nested matches> = Some (r, t, h)  into its branches *)
Ltac split_branches H :=
  repeat match type of H with
         | context [match ?x with _ => _ end] => destruct x eqn:?
         | context [if ?x then _ else _] => destruct x eqn:?
         end; try discriminate H.

Lemma m_copy_file_balanced fa t s dst r t' h :
  f_copyfile_src_close_deferred fa = true -> m_copy_file fa t s dst = (r, t', h) -> balanced h.
Proof.
  intros Hd. unfold m_copy_file. rewrite Hd.
  destruct (b_stat t s) as [[c|]|]; [destruct (b_create t dst) as [t1|[|]]| |]; intros H; inv H; reflexivity.
Qed.

Lemma copy_children_balanced cp s :
  (forall t0 c r t1 h1, cp t0 c = Some (r, t1, h1) -> balanced h1) ->
  forall ns t0 h r t' h', balanced h -> copy_children cp s ns t0 h = Some (r, t', h') -> balanced h'.
Proof.
  intros Hcp. induction ns as [|n ns IH]; intros t0 h r t' h' Hb H; simpl in H.
  - inv H. auto.
  - destruct (cp t0 (s ++ [n])) as [[[r1 t1] h1]|] eqn:E; [|discriminate]. pose proof (Hcp _ _ _ _ _ E) as B1.
    destruct r1; [|inv H; auto with bal ..]. eapply IH; [|exact H]. auto with bal.
Qed.

Local Arguments m_mkdir3 : simpl never.
Local Arguments m_exists : simpl never.
Local Arguments is_dir_b : simpl never.
Local Arguments m_empty_b : simpl never.
Local Arguments m_copy_file : simpl never.
Local Arguments b_rename : simpl never.
Local Arguments path_eqb : simpl never.
Local Arguments is_prefix : simpl never.

Lemma m_copy_balanced fa : f_copyfile_src_close_deferred fa = true ->
  forall f t s str d dtr r t' h, m_copy fa f t s str d dtr = Some (r, t', h) -> balanced h.
Proof.
  intros Hd. induction f as [|f IHf]; intros t s str d dtr r t' h H; [discriminate|].
  simpl in H.
  destruct (path_eqb s d && Bool.eqb str dtr); [inv H; auto with bal|].
  destruct (m_exists t s) as [es h1]. destruct (negb es); [inv H; auto with bal|].
  destruct (m_exists t d) as [ed h2].
  match type of H with (if ?c then _ else _) = _ => destruct c end; [inv H; auto with bal|].
  destruct (if ed then (ROk, t, 0%nat) else if is_dir_b t s || dtr then m_mkdir3 t d else m_mkdir3 t (parent d)) as [[r1 t1] hm].
  destruct r1; [|inv H; auto with bal ..].
  match type of H with (if ?c then _ else _) = _ => destruct c end; [inv H; auto with bal|].
  destruct (is_dir_b t s).
  - match type of H with context [m_mkdir t1 ?x] => destruct (m_mkdir t1 x) as [r2 t2 hm2 cm2] end. simpl in H. destruct r2; [|inv H; auto with bal ..].
    destruct (m_empty_b t2 s); [inv H; auto with bal|].
    eapply copy_children_balanced; [|idtac|exact H]; auto with bal. intros ? ? ? ? ? X. eapply IHf. exact X.
  - match type of H with (if ?c then _ else _) = _ => destruct c end; [inv H; auto with bal|].
    match type of H with context [m_exists t1 ?x] => destruct (m_exists t1 x) as [e3 h3] end.
    match type of H with (if ?c then _ else _) = _ => destruct c end; [inv H; auto with bal|].
    match type of H with context [m_copy_file fa t1 s ?x] => destruct (m_copy_file fa t1 s x) as [[r3 t3] h4] eqn:E end.
    inv H. apply balanced_hadd; auto with bal. eapply m_copy_file_balanced; eauto.
Qed.

Lemma m_copytofile_balanced fa f t s str d dtr r t' h : f_copyfile_src_close_deferred fa = true ->
  m_copytofile fa f t s str d dtr = Some (r, t', h) -> balanced h.
Proof.
  intros Hd. unfold m_copytofile. destruct (m_isfile t s) as [f1 h1]. destruct (negb f1); [intros H; inv H; auto with bal|].
  destruct (m_exists t d) as [ed h2]. destruct ed.
  - destruct (m_isfile t d) as [f2 h3]. destruct (negb f2); [intros H; inv H; auto with bal|].
    destruct (m_copy fa f t s str d dtr) as [[[r0 t0] h0]|] eqn:E; intros H; inv H.
    apply balanced_hadd; auto with bal. eapply m_copy_balanced; eauto.
  - destruct dtr; [intros H; inv H; auto with bal|].
    destruct (m_copy fa f t s str d false) as [[[r0 t0] h0]|] eqn:E; intros H; inv H.
    apply balanced_hadd; auto with bal. eapply m_copy_balanced; eauto.
Qed.

Lemma m_copytodir_balanced fa f t a d dtr r t' h : f_copyfile_src_close_deferred fa = true ->
  m_copytodir fa f t a d dtr = Some (r, t', h) -> balanced h.
Proof.
  intros Hd. unfold m_copytodir. destruct (m_mkdir3 t d) as [[r1 t1] h1].
  destruct r1; [|intros H; inv H; auto with bal ..]. destruct a as [|s str]; [intros H; inv H; auto with bal|].
  destruct (m_copy fa f t1 s str d dtr) as [[[r0 t0] h0]|] eqn:E; intros H; inv H.
  apply balanced_hadd; auto with bal. eapply m_copy_balanced; eauto.
Qed.

Lemma move_children_balanced mv s d :
  (forall t0 a b r t1 h1, mv t0 a b = Some (r, t1, h1) -> balanced h1) ->
  forall ns t0 h r t' h', balanced h -> move_children mv s d ns t0 h = Some (r, t', h') -> balanced h'.
Proof.
  intros Hmv. induction ns as [|n ns IH]; intros t0 h r t' h' Hb H; simpl in H.
  - inv H. auto.
  - destruct (mv t0 (s ++ [n]) (d ++ [n])) as [[[r1 t1] h1]|] eqn:E; [|discriminate]. pose proof (Hmv _ _ _ _ _ _ E) as B1.
    destruct r1; [|inv H; auto with bal ..]. eapply IH; [|exact H]. auto with bal.
Qed.

Local Arguments m_copy : simpl never.
Local Arguments m_rm : simpl never.

Lemma m_move_raw_balanced fa : f_copyfile_src_close_deferred fa = true ->
  forall x f t s d r t' h, m_move_raw fa x f t s d = Some (r, t', h) -> balanced h.
Proof.
  intros Hd x. induction f as [|f IHf]; intros t s d r t' h H; [discriminate|].
  simpl in H. destruct (path_eqb s d); [inv H; auto with bal|].
  destruct (m_mkdir t (parent d)) as [r1 t1 h1 c1]. simpl in H. destruct r1; [|inv H; auto with bal ..].
  match type of H with match ?c with _ => _ end = _ => destruct c end; [inv H; auto with bal|].
  match type of H with context [m_exists t1 ?k] => destruct (m_exists t1 k) as [es h2] end. destruct (negb es); [inv H; auto with bal|].
  match type of H with (if ?c then _ else _) = _ => destruct c end.
  - destruct (m_mkdir t1 d) as [r2 t2 h3 c3]. simpl in H. destruct r2; [|inv H; auto with bal ..].
    match type of H with match ?x with _ => _ end = _ => destruct x as [[[r3 t3] h4]|] eqn:L end; [|discriminate].
    assert (B4 : balanced h4).
    { destruct (m_empty_b t2 s); [inv L; auto with bal|].
      eapply move_children_balanced; [|idtac|exact L]; auto with bal. }
    destruct r3; [|inv H; auto ..].
    match type of H with (if ?c then _ else _) = _ => destruct c end; [|inv H; auto].
    destruct (m_rm (rm_fuel t3) t3 s) as [[[r5 t5] h5]|]; inv H. auto with bal.
  - destruct (m_copy fa (S f) t1 s false d false) as [[[r3 t3] h3]|] eqn:E; [|discriminate].
    pose proof (m_copy_balanced fa Hd _ _ _ _ _ _ _ _ _ E) as B3.
    destruct r3; [|inv H; auto ..]. destruct (b_remove t3 s); inv H; auto with bal.
Qed.

Lemma m_move_balanced fa f t s str d dtr r t' h : f_copyfile_src_close_deferred fa = true ->
  m_move fa f t s str d dtr = Some (r, t', h) -> balanced h.
Proof.
  intros Hd. unfold m_move. destruct (m_move_guards fa (f_move_guards fa) t s str d dtr (mkMs d 0)) as [[r0 h0]|st].
  - intros H; inv H. auto with bal.
  - destruct (m_move_raw fa false f t s (ms_target st)) as [[[r1 t1] h4]|] eqn:E; intros H; inv H.
    apply balanced_hadd; auto with bal. eapply m_move_raw_balanced; eauto.
Qed.
