(* C13 — proofs about Part 2b of the model: a composite's members are exactly those it was given at construction plus
   its own Appends, whatever the caller does afterwards with the slice it passed (constructors copy their argument). *)
From Coq Require Import String List ZArith Bool Arith Lia.
Import ListNotations.
From GU Require Import C13.Base C13.Gen C13.Model C13.Proofs.

Lemma elems_ext st st' (s s' : slice) :
  s_len s = s_len s' -> (forall i, i < s_len s -> st (s_arr s) i = st' (s_arr s') i) -> elems st s = elems st' s'.
Proof.
  intros L H. unfold elems. rewrite <- L. apply map_ext_in. intros i Hi. apply in_seq in Hi. apply H. lia.
Qed.

Lemma elems_snoc st a n k k' : elems st (mkSlice a (S n) k) = elems st (mkSlice a n k') ++ [st a n].
Proof. unfold elems. simpl s_len. simpl s_arr. rewrite seq_S, map_app. reflexivity. Qed.

Lemma elems_wr_other st a i v (s : slice) : s_arr s <> a -> elems (wr_store st a i v) s = elems st s.
Proof.
  intro H. apply elems_ext; [reflexivity|]. intros j _. unfold wr_store.
  destruct (Nat.eqb_spec (s_arr s) a); [congruence | reflexivity].
Qed.

Lemma elems_fresh st next (F : nat -> nat) (s : slice) : s_arr s <> next ->
  elems (fun a i => if Nat.eqb a next then F i else st a i) s = elems st s.
Proof.
  intro H. apply elems_ext; [reflexivity|]. intros j _. destruct (Nat.eqb_spec (s_arr s) next); [congruence | reflexivity].
Qed.

Record AInv (s : astate) : Prop := mkAInv {
  a1 : s_arr (a_caller s) < a_next s;
  a2 : forall c sl, a_comp s c = Some sl ->
         s_arr sl < a_next s /\ s_arr sl <> s_arr (a_caller s) /\ elems (a_st s) sl = a_own s c;
  a3 : forall c c' sl sl', c <> c' -> a_comp s c = Some sl -> a_comp s c' = Some sl' -> s_arr sl <> s_arr sl';
  a4 : a_recv s = a_exp s
}.

Lemma ainit_inv init cap : AInv (ainit init cap).
Proof. constructor; simpl; auto; intros; discriminate. Qed.

Ltac upc := unfold upd in *.

Lemma astep_inv s o : AInv s -> AInv (astep true s o).
Proof.
  intros [A1 A2 A3 A4]. destruct o as [c|c id|i id|id|c m]; simpl.
  - (* ANew: the constructor copies *)
    constructor; simpl.
    + lia.
    + intros c0 sl H. upc. destruct (Nat.eqb_spec c0 c) as [->|Hn].
      * inversion H; subst sl; clear H. simpl. split; [lia|]. split; [lia|].
        apply elems_ext; [reflexivity|]. simpl. intros j _. now rewrite Nat.eqb_refl.
      * destruct (A2 c0 sl H) as (B1 & B2 & B3). split; [lia|]. split; [exact B2|].
        rewrite elems_fresh by lia. exact B3.
    + intros c0 c1 sl0 sl1 Hn H0 H1. upc.
      destruct (Nat.eqb_spec c0 c) as [->|N0], (Nat.eqb_spec c1 c) as [->|N1]; try congruence.
      * inversion H0; subst sl0. simpl. destruct (A2 c1 sl1 H1) as (B1 & _). lia.
      * inversion H1; subst sl1. simpl. destruct (A2 c0 sl0 H0) as (B1 & _). lia.
      * exact (A3 c0 c1 sl0 sl1 Hn H0 H1).
    + exact A4.
  - (* Append on composite c *)
    destruct (a_comp s c) as [sl|] eqn:E; [|constructor; auto].
    destruct (A2 c sl E) as (B1 & B2 & B3).
    unfold go_append. destruct (Nat.ltb (s_len sl) (s_cap sl)); simpl.
    + (* in place *)
      constructor; simpl.
      * exact A1.
      * intros c0 sl0 H. upc. destruct (Nat.eqb_spec c0 c) as [->|Hn].
        -- inversion H; subst sl0; clear H. simpl. split; [exact B1|]. split; [exact B2|].
           rewrite (elems_snoc _ _ _ _ (s_cap sl)). f_equal.
           ++ rewrite <- B3. destruct sl as [a n k]. simpl. apply elems_ext; [reflexivity|]. simpl. intros j Hj.
              unfold wr_store. rewrite Nat.eqb_refl. simpl. destruct (Nat.eqb_spec j n); [lia | reflexivity].
           ++ unfold wr_store. now rewrite !Nat.eqb_refl.
        -- destruct (A2 c0 sl0 H) as (C1 & C2 & C3). split; [exact C1|]. split; [exact C2|].
           rewrite elems_wr_other; [exact C3|]. exact (A3 c0 c sl0 sl Hn H E).
      * intros c0 c1 sl0 sl1 Hn H0 H1. upc.
        destruct (Nat.eqb_spec c0 c) as [->|N0], (Nat.eqb_spec c1 c) as [->|N1]; try congruence.
        -- inversion H0; subst sl0. simpl. exact (A3 c c1 sl sl1 Hn E H1).
        -- inversion H1; subst sl1. simpl. exact (A3 c0 c sl0 sl Hn H0 E).
        -- exact (A3 c0 c1 sl0 sl1 Hn H0 H1).
      * exact A4.
    + (* a fresh array *)
      constructor; simpl.
      * lia.
      * intros c0 sl0 H. upc. destruct (Nat.eqb_spec c0 c) as [->|Hn].
        -- inversion H; subst sl0; clear H. simpl. split; [lia|]. split; [lia|].
           rewrite (elems_snoc _ _ _ _ (s_cap sl)). f_equal.
           ++ rewrite <- B3. destruct sl as [a n k]. simpl. apply elems_ext; [reflexivity|]. simpl. intros j Hj.
              rewrite Nat.eqb_refl. destruct (Nat.eqb_spec j n); [lia | reflexivity].
           ++ now rewrite !Nat.eqb_refl.
        -- destruct (A2 c0 sl0 H) as (C1 & C2 & C3). split; [lia|]. split; [exact C2|].
           rewrite elems_fresh by lia. exact C3.
      * intros c0 c1 sl0 sl1 Hn H0 H1. upc.
        destruct (Nat.eqb_spec c0 c) as [->|N0], (Nat.eqb_spec c1 c) as [->|N1]; try congruence.
        -- inversion H0; subst sl0. simpl. destruct (A2 c1 sl1 H1) as (C1 & _). lia.
        -- inversion H1; subst sl1. simpl. destruct (A2 c0 sl0 H0) as (C1 & _). lia.
        -- exact (A3 c0 c1 sl0 sl1 Hn H0 H1).
      * exact A4.
  - (* the caller overwrites an element of ITS slice *)
    destruct (Nat.ltb i (s_len (a_caller s))); [|constructor; auto].
    constructor; simpl; auto.
    intros c0 sl0 H. destruct (A2 c0 sl0 H) as (C1 & C2 & C3). split; [exact C1|]. split; [exact C2|].
    rewrite elems_wr_other by exact C2. exact C3.
  - (* the caller appends to ITS slice *)
    unfold go_append. destruct (Nat.ltb (s_len (a_caller s)) (s_cap (a_caller s))); simpl.
    + constructor; simpl; auto.
      intros c0 sl0 H. destruct (A2 c0 sl0 H) as (C1 & C2 & C3). split; [exact C1|]. split; [exact C2|].
      rewrite elems_wr_other by exact C2. exact C3.
    + constructor; simpl; auto.
      * intros c0 sl0 H. destruct (A2 c0 sl0 H) as (C1 & C2 & C3). split; [lia|]. split; [lia|].
        rewrite elems_fresh by lia. exact C3.
  - (* Log *)
    destruct (a_comp s c) as [sl|] eqn:E; [|constructor; auto].
    destruct (A2 c sl E) as (B1 & B2 & B3). constructor; simpl; auto. now rewrite B3, A4.
Qed.

Lemma arun_inv script : forall s, AInv s -> AInv (arun true s script).
Proof.
  induction script as [|o r IH]; intros s I; simpl; [exact I|]. apply IH. now apply astep_inv.
Qed.

Lemma constructors_copy_members_l : forall (init : list nat) (cap : nat) (script : list aop),
  let s := arun true (ainit init cap) script in
  (forall c sl, a_comp s c = Some sl -> elems (a_st s) sl = a_own s c) /\ a_recv s = a_exp s.
Proof.
  intros init cap script s. assert (I : AInv s) by (apply arun_inv, ainit_inv).
  split; [|exact (a4 s I)]. intros c sl H. now destruct (a2 s I c sl H) as (_ & _ & E).
Qed.

(* a constructor that KEEPS the caller's slice: the caller changes who the members are *)
Lemma aliasing_constructor_refuted_l : exists init cap script,
  a_recv (arun false (ainit init cap) script) <> a_exp (arun false (ainit init cap) script).
Proof.
  exists [1; 2], 4, [ANew 0; ANew 1; AAppend 0 3; AAppend 1 4; ALog 0 7].
  vm_compute. discriminate.
Qed.
