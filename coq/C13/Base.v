(* C13 — vocabulary of the GENERATED lock table (coq/C13/Gen.v, written by translator-c13/cmd/loglocks2coq from
   utils/logs/*.go on every run) and the lockset discipline that is checked over it.  Definitions only. *)
From Coq Require Import List String Bool.
Import ListNotations.

(* which method of the owning object's sync.Mutex / sync.RWMutex is held at the access:
   none / RLock (shared) / Lock (exclusive) *)
Inductive lockmode := LNone | LShared | LExclusive.

(* kind of access to a field of the receiver:
   AMutate — assignment to the field / element, or a known mutator of strings.Builder, bytes.Buffer, slices (append), maps;
   ARead   — every other use of the field's value (including calling a method of an interface / pointer / struct stored there);
   ASync   — call of a method of a self-synchronised value (sync.Map, atomic values) stored in the field. *)
Inductive access := AMutate | ARead | ASync.

(* PInit: the method is a construction-phase helper (explicit list in the translator: JSONLoggers.Configure, called by
   NewJSONLogger before the object is published); PRun: reachable by the users of a published logger. *)
Inductive phase := PInit | PRun.

Record entry := mkEntry {
  e_owner  : string;   (* Go struct type that declares the field *)
  e_method : string;   (* "RecvType.Method": exported entry point through which the access is reached (helpers inlined) *)
  e_field  : string;
  e_access : access;
  e_lock   : lockmode;
  e_phase  : phase;
  e_pos    : string    (* file:line of the access *)
}.

Definition access_eqb (a b : access) : bool :=
  match a, b with AMutate, AMutate | ARead, ARead | ASync, ASync => true | _, _ => false end.
Definition is_run (e : entry) : bool := match e_phase e with PRun => true | PInit => false end.

(* the field (owner, field) has a mutating access in the run phase somewhere in the table *)
Definition mutated_in (tbl : list entry) (owner field : string) : bool :=
  existsb (fun e => is_run e && access_eqb (e_access e) AMutate &&
                    String.eqb (e_owner e) owner && String.eqb (e_field e) field) tbl.

(* Lockset discipline for one entry: a run-phase mutation holds the lock exclusively; a run-phase read of a field that is
   mutated in the run phase holds the lock at least shared. *)
Definition entry_ok (tbl : list entry) (e : entry) : bool :=
  match e_phase e, e_access e with
  | PInit, _ => true
  | PRun, ASync => true
  | PRun, AMutate => match e_lock e with LExclusive => true | _ => false end
  | PRun, ARead => if mutated_in tbl (e_owner e) (e_field e)
                   then match e_lock e with LNone => false | _ => true end
                   else true
  end.

Definition table_ok (tbl : list entry) : bool := forallb (entry_ok tbl) tbl.

(* the offending entries (printed when the obligation fails) *)
Definition offenders (tbl : list entry) : list entry := filter (fun e => negb (entry_ok tbl e)) tbl.

(* lock mode under which [method] mutates [owner.field]; LNone when there is no such entry, the weakest when several *)
Definition weaker (a b : lockmode) : lockmode :=
  match a, b with
  | LNone, _ | _, LNone => LNone
  | LShared, _ | _, LShared => LShared
  | LExclusive, LExclusive => LExclusive
  end.
Definition mutate_mode (tbl : list entry) (owner method field : string) : lockmode :=
  match filter (fun e => access_eqb (e_access e) AMutate && String.eqb (e_owner e) owner &&
                         String.eqb (e_method e) method && String.eqb (e_field e) field) tbl with
  | [] => LNone
  | e :: es => fold_left (fun m x => weaker m (e_lock x)) es (e_lock e)
  end.
