(* C13 — proofs about Part 2 of the model (composite logger). *)
From Coq Require Import String List ZArith Bool Arith Lia.
Import ListNotations.
From GU Require Import C13.Base C13.Gen C13.Model C13.Proofs.

Lemma expected_sink_snoc mb g t st x : m_joined mb <= length g ->
  expected_sink mb (g ++ [(t, st, x)]) =
  expected_sink mb g ++ (if accepts (m_quiet mb) st then [(t, x)] else []).
Proof.
  intro H. unfold expected_sink. rewrite skipn_app. replace (m_joined mb - length g) with 0 by lia.
  simpl skipn. rewrite filter_app, map_app. simpl. destruct (accepts (m_quiet mb) st); reflexivity.
Qed.

Lemma expected_sink_ext mb mb' g : m_quiet mb = m_quiet mb' -> m_joined mb = m_joined mb' ->
  expected_sink mb g = expected_sink mb' g.
Proof. intros H1 H2. unfold expected_sink. now rewrite H1, H2. Qed.

Lemma nth_error_update_nth {A} (f : A -> A) : forall l i j,
  nth_error (update_nth i f l) j = if Nat.eqb j i then option_map f (nth_error l j) else nth_error l j.
Proof.
  induction l as [|a l IH]; intros i j; simpl.
  - destruct i, j; simpl; try reflexivity. now destruct (Nat.eqb j i).
  - destruct i, j; simpl; auto.
Qed.

Lemma gproj_app t a b : gproj t (a ++ b) = gproj t a ++ gproj t b.
Proof. unfold gproj. now rewrite filter_app, map_app. Qed.
Lemma gproj_one_same t st x : gproj t [(t, st, x)] = [(st, x)].
Proof. unfold gproj. simpl. now rewrite Nat.eqb_refl. Qed.
Lemma gproj_one_other t t' st x : t <> t' -> gproj t [(t', st, x)] = [].
Proof. intro H. unfold gproj. simpl. destruct (Nat.eqb_spec t' t); [congruence | reflexivity]. Qed.

Definition inflight (s : mstate) : option (tid * nat * stream * msg) :=
  match mlock s with
  | Some t => match mpcs s t, mprog s t with
              | MHeld i, MLog st x :: _ => Some (t, i, st, x)
              | _, _ => None
              end
  | None => None
  end.

Section Multi.
Variable quiets : list (bool * nat).
Variable P : tid -> list mop.

Definition settled (s : mstate) : Prop :=
  forall mb, In mb (members s) ->
    m_joined mb <= length (glog s) /\ (m_failmod mb = 0 -> m_sink mb = expected_sink mb (glog s)).

Record MInv (s : mstate) : Prop := mkMInv {
  mi_held : forall t i, mpcs s t = MHeld i -> mlock s = Some t;
  mi_proj : forall t, gproj t (glog s) ++ mpending s t = mlogs_of (P t);
  mi_init : forall j q, nth_error quiets j = Some q ->
              exists mb, nth_error (members s) j = Some mb /\ m_joined mb = 0 /\ m_quiet mb = fst q /\
                         m_failmod mb = snd q;
  mi_sinks : match inflight s with
             | None => settled s
             | Some (t, i, st, x) =>
                 exists g', glog s = g' ++ [(t, st, x)] /\
                   forall j mb, nth_error (members s) j = Some mb ->
                     m_joined mb <= length g' /\
                     (m_failmod mb = 0 -> m_sink mb = expected_sink mb (if Nat.ltb j i then glog s else g'))
             end
}.

Ltac ups := repeat (rewrite upd_same in * || (rewrite upd_other in * by congruence)).

Lemma mstep_inv s t s' : MInv s -> mstep s t = Some s' -> MInv s'.
Proof.
  intros I St. unfold mstep in St.
  destruct (mpcs s t) as [|i] eqn:Epc; destruct (mprog s t) as [|o r] eqn:Epr; try discriminate.
  - (* MIdle: obtain c.mu *)
    destruct (mlock s) eqn:El; [discriminate|]. inversion St; subst s'; clear St.
    destruct I as [I1 I2 I3 I4]. unfold inflight in I4. rewrite El in I4.
    constructor; simpl.
    + intros t0 i0 H. destruct (Nat.eq_dec t0 t) as [->|Hn]; ups; [reflexivity|].
      specialize (I1 _ _ H). congruence.
    + intro t0. specialize (I2 t0). unfold mpending in *. simpl.
      destruct (Nat.eq_dec t0 t) as [->|Hn]; ups.
      * rewrite Epc, Epr in I2. rewrite Epr. simpl tl.
        destruct o as [st x| |]; simpl in I2; [|exact I2|exact I2].
        rewrite gproj_app, gproj_one_same, <- app_assoc. exact I2.
      * destruct o as [st x| |]; [|exact I2|exact I2].
        rewrite gproj_app, gproj_one_other by exact Hn. now rewrite app_nil_r.
    + exact I3.
    + unfold inflight. simpl. ups. rewrite Epr.
      destruct o as [st x| |]; [|exact I4|exact I4].
      exists (glog s). split; [reflexivity|]. intros j mb H. simpl.
      apply I4. eapply nth_error_In; eauto.
  - (* MHeld *)
    pose proof (mi_held s I t i Epc) as El.
    destruct o as [st x|q|].
    + (* Log: serve member i, or release *)
      destruct (Nat.ltb_spec i (length (members s))) as [Hi|Hi]; inversion St; subst s'; clear St.
      * destruct I as [I1 I2 I3 I4]. unfold inflight in I4. rewrite El, Epc, Epr in I4.
        destruct I4 as [g' [Eg I4]].
        constructor; simpl.
        -- intros t0 i0 H. destruct (Nat.eq_dec t0 t) as [->|Hn]; ups; [exact El | eauto].
        -- intro t0. specialize (I2 t0). unfold mpending in *. simpl.
           destruct (Nat.eq_dec t0 t) as [->|Hn]; ups; [rewrite Epc in I2; exact I2 | exact I2].
        -- intros j q Hq. destruct (I3 j q Hq) as (mb & H1 & H2 & H3 & H4).
           rewrite nth_error_update_nth, H1. destruct (Nat.eqb j i); simpl.
           ++ eexists. split; [reflexivity|]. unfold deliver. destruct (accepts _ _); simpl; auto.
           ++ eauto.
        -- unfold inflight. simpl. rewrite El. ups. rewrite Epr.
           exists g'. split; [exact Eg|]. intros j mb' H.
           rewrite nth_error_update_nth in H. destruct (Nat.eqb_spec j i) as [->|Hn].
           ++ destruct (nth_error (members s) i) as [mb|] eqn:En; [|discriminate]. simpl in H.
              inversion H; subst mb'; clear H. destruct (I4 i mb En) as [J1 J2].
              rewrite Nat.ltb_irrefl in J2.
              replace (Nat.ltb i (S i)) with true by (symmetry; apply Nat.ltb_lt; lia).
              assert (Q : m_quiet (deliver mb t st x) = m_quiet mb /\ m_joined (deliver mb t st x) = m_joined mb /\
                          m_failmod (deliver mb t st x) = m_failmod mb).
              { unfold deliver. destruct (accepts _ _); simpl; auto. }
              destruct Q as (Q1 & Q2 & Q3). split; [now rewrite Q2|]. rewrite Q3. intro Hh.
              (* a healthy member: this write does not fail, whatever happened at the members before it *)
              assert (Hf : fails mb = false) by (unfold fails; now rewrite Hh).
              rewrite (expected_sink_ext _ mb _ Q1 Q2), Eg, expected_sink_snoc by exact J1.
              unfold deliver. rewrite Hf.
              destruct (accepts (m_quiet mb) st); simpl; [now rewrite (J2 Hh) | rewrite app_nil_r; exact (J2 Hh)].
           ++ destruct (I4 j mb' H) as [J1 J2]. split; [exact J1|].
              destruct (Nat.ltb_spec j i), (Nat.ltb_spec j (S i)); try lia; exact J2.
      * destruct I as [I1 I2 I3 I4]. unfold inflight in I4. rewrite El, Epc, Epr in I4.
        destruct I4 as [g' [Eg I4]].
        constructor; simpl.
        -- intros t0 i0 H. destruct (Nat.eq_dec t0 t) as [->|Hn]; ups; [discriminate|].
           specialize (I1 _ _ H). congruence.
        -- intro t0. specialize (I2 t0). unfold mpending in *. simpl.
           destruct (Nat.eq_dec t0 t) as [->|Hn]; ups; [rewrite Epc, Epr in I2; exact I2 | exact I2].
        -- exact I3.
        -- unfold inflight, settled. simpl. intros mb Hin. destruct (In_nth_error _ _ Hin) as [j Hj].
           destruct (I4 j mb Hj) as [J1 J2].
           assert (j < length (members s)) by (apply nth_error_Some; congruence).
           replace (Nat.ltb j i) with true in J2 by (symmetry; apply Nat.ltb_lt; lia).
           split; [rewrite Eg, app_length; simpl; lia | exact J2].
    + (* Append *)
      inversion St; subst s'; clear St.
      destruct I as [I1 I2 I3 I4]. unfold inflight in I4. rewrite El, Epc, Epr in I4.
      constructor; simpl.
      * intros t0 i0 H. destruct (Nat.eq_dec t0 t) as [->|Hn]; ups; [discriminate|].
        specialize (I1 _ _ H). congruence.
      * intro t0. specialize (I2 t0). unfold mpending in *. simpl.
        destruct (Nat.eq_dec t0 t) as [->|Hn]; ups; [rewrite Epc, Epr in I2; exact I2 | exact I2].
      * intros j q0 Hq. destruct (I3 j q0 Hq) as (mb & H1 & H2 & H3 & H4). exists mb.
        split; [|auto]. rewrite nth_error_app1; [exact H1 | apply nth_error_Some; congruence].
      * unfold inflight, settled. simpl. intros mb Hin. apply in_app_or in Hin. destruct Hin as [Hin|[<-|[]]].
        -- now apply I4.
        -- simpl. split; [lia|]. intros _. unfold expected_sink. simpl. now rewrite skipn_all.
    + (* SetLogSource *)
      inversion St; subst s'; clear St.
      destruct I as [I1 I2 I3 I4]. unfold inflight in I4. rewrite El, Epc, Epr in I4.
      constructor; simpl.
      * intros t0 i0 H. destruct (Nat.eq_dec t0 t) as [->|Hn]; ups; [discriminate|].
        specialize (I1 _ _ H). congruence.
      * intro t0. specialize (I2 t0). unfold mpending in *. simpl.
        destruct (Nat.eq_dec t0 t) as [->|Hn]; ups; [rewrite Epc, Epr in I2; exact I2 | exact I2].
      * exact I3.
      * unfold inflight. simpl. exact I4.
Qed.

Lemma mrun_inv sched : forall s s', MInv s -> mrun s sched = Some s' -> MInv s'.
Proof.
  induction sched as [|t r IH]; intros s s' I R; simpl in R.
  - now inversion R; subst.
  - destruct (mstep s t) eqn:E; [|discriminate]. eapply IH; [eapply mstep_inv; eauto | exact R].
Qed.

End Multi.

Lemma minit_inv quiets Pl : MInv quiets (fun t => nth t Pl []) (minit quiets Pl).
Proof.
  constructor; simpl.
  - intros; discriminate.
  - reflexivity.
  - intros j q H. exists (mkMember (fst q) (snd q) 0 0 []). split; [|auto]. now rewrite nth_error_map, H.
  - unfold inflight, settled. simpl. intros mb Hin. apply in_map_iff in Hin. destruct Hin as [q [<- _]].
    simpl. split; [lia | reflexivity].
Qed.

Lemma multi_delivers_all_l : forall (quiets : list (bool * nat)) (Pl : list (list mop)) (sched : list tid) (s : mstate),
  mrun (minit quiets Pl) sched = Some s -> mlock s = None ->
  (forall mb, In mb (members s) -> m_failmod mb = 0 -> m_sink mb = expected_sink mb (glog s)) /\
  (forall j q, nth_error quiets j = Some q ->
     exists mb, nth_error (members s) j = Some mb /\ m_joined mb = 0 /\ m_quiet mb = fst q /\ m_failmod mb = snd q) /\
  (forall t, gproj t (glog s) ++ mpending s t = mlogs_of (nth t Pl [])).
Proof.
  intros quiets Pl sched s R L. pose proof (mrun_inv quiets _ sched _ _ (minit_inv quiets Pl) R) as I.
  split; [|split; [exact (mi_init _ _ _ I) | exact (mi_proj _ _ _ I)]].
  pose proof (mi_sinks _ _ _ I) as H. unfold inflight in H. rewrite L in H.
  intros mb Hin. now apply H.
Qed.
