(* C13 — executable models of the logging architecture of utils/logs (definitions only, no proofs).

   Part 1  producers -> fronts -> one sink            string_logger.go:15-39,66-88, log.go:37-43
   Part 2  composite logger (MultipleLogger)           multiple_logger.go:17-118
   Part 3  ring-buffered asynchronous writer           writer.go:78-121 over zerolog/diode (many-to-one ring)
   Part 4  correspondence cases

   Granularity.  Part 1 is at MEMORY-STEP granularity inside the sink: an append is "read the length, copy the bytes,
   publish the new length", three separate steps, executed under the lock mode that the source actually uses — that
   mode is not written here, it is read from the GENERATED lock table (Gen.v, from utils/logs/*.go on every run).
   Parts 2 and 3 take one member delivery / one ring operation as a step (the members' own sinks are Part 1). *)
From Coq Require Import String List ZArith Bool Arith.
Import ListNotations.
From GU Require Import C13.Base C13.Gen.

Definition tid := nat.
Definition msg := list Z.          (* one fully assembled line *)

Definition upd {A : Type} (f : nat -> A) (k : nat) (v : A) : nat -> A :=
  fun x => if Nat.eqb x k then v else f x.

(* ------------------------------------------------------------------------------------------------------------ *)
(* Part 1.  A producer calls Log / LogError: GenericLoggers.Log -> l.Output.Println (log.go:37-43).  log.Logger
   ("front") holds its OWN mutex while it assembles the line and issues exactly ONE Write to the shared writer; the
   output front and the error front are two log.Logger objects over the same StringWriter (string_logger.go:70-73).
   StringWriter.Write (string_logger.go:21-26) takes w.mu in the table's mode and calls strings.Builder.Write, i.e.
   append(b.buf, p...): load the slice header (length), copy p behind it, store the new header. *)

Inductive pc :=
| PIdle                 (* between two messages *)
| PFront                (* holds the front's mutex, line assembled *)
| PSink                 (* + holds the sink lock (in the table's mode) *)
| PRead (l : nat)       (* has loaded the length l *)
| PCopied (l : nat)     (* has copied the bytes at offset l *)
| PPub                  (* has stored the new length *)
| PRel.                 (* has released the sink lock, still holds the front *)

Definition op := (nat * msg)%type.      (* front index (0 = Output, 1 = Error, ...), line *)

Record state := mkState {
  prog  : tid -> list op;               (* remaining operations of each producer, head = current *)
  pcs   : tid -> pc;
  front : nat -> option tid;            (* holder of each front's mutex *)
  wr    : option tid;                   (* exclusive holder of the sink's RWMutex *)
  rd    : nat;                          (* number of shared holders *)
  cells : list Z;                       (* backing array of the builder *)
  len   : nat;                          (* published length *)
  log   : list (tid * msg)              (* ghost: order in which messages were published *)
}.

Definition set_pc s t p := mkState (prog s) (upd (pcs s) t p) (front s) (wr s) (rd s) (cells s) (len s) (log s).
Definition set_prog s t r := mkState (upd (prog s) t r) (pcs s) (front s) (wr s) (rd s) (cells s) (len s) (log s).
Definition set_front s f h := mkState (prog s) (pcs s) (upd (front s) f h) (wr s) (rd s) (cells s) (len s) (log s).
Definition set_wr s h := mkState (prog s) (pcs s) (front s) h (rd s) (cells s) (len s) (log s).
Definition set_rd s n := mkState (prog s) (pcs s) (front s) (wr s) n (cells s) (len s) (log s).
Definition set_cells s c := mkState (prog s) (pcs s) (front s) (wr s) (rd s) c (len s) (log s).
Definition publish s n e := mkState (prog s) (pcs s) (front s) (wr s) (rd s) (cells s) n (log s ++ [e]).

(* copy m into the backing array at offset l (the array grows as needed) *)
Definition write_at (l : nat) (m : list Z) (c : list Z) : list Z :=
  firstn l c ++ m ++ skipn (l + length m) c.

(* sync.RWMutex: Lock needs no holder at all, RLock needs no exclusive holder; no lock = no step condition *)
Definition acquire (m : lockmode) (t : tid) (s : state) : option state :=
  match m with
  | LNone => Some s
  | LShared => match wr s with None => Some (set_rd s (S (rd s))) | Some _ => None end
  | LExclusive => match wr s, rd s with None, O => Some (set_wr s (Some t)) | _, _ => None end
  end.

Definition release (m : lockmode) (s : state) : state :=
  match m with
  | LNone => s
  | LShared => set_rd s (pred (rd s))
  | LExclusive => set_wr s None
  end.

(* one step of producer t; None = not enabled (blocked on a mutex, or finished) *)
Definition step (m : lockmode) (s : state) (t : tid) : option state :=
  match pcs s t, prog s t with
  | _, [] => None
  | PIdle, (f, _) :: _ =>
      match front s f with
      | None => Some (set_pc (set_front s f (Some t)) t PFront)                 (* log.Logger.mu.Lock *)
      | Some _ => None
      end
  | PFront, _ :: _ =>
      match acquire m t s with Some s' => Some (set_pc s' t PSink) | None => None end   (* w.mu.(R)Lock *)
  | PSink, _ :: _ => Some (set_pc s t (PRead (len s)))                           (* load len(b.buf) *)
  | PRead l, (_, x) :: _ => Some (set_pc (set_cells s (write_at l x (cells s))) t (PCopied l))   (* copy *)
  | PCopied l, (_, x) :: _ => Some (set_pc (publish s (l + length x) (t, x)) t PPub)   (* store the header *)
  | PPub, _ :: _ => Some (set_pc (release m s) t PRel)                           (* w.mu.(R)Unlock *)
  | PRel, (f, _) :: r => Some (set_pc (set_prog (set_front s f None) t r) t PIdle)  (* log.Logger.mu.Unlock *)
  end.

Fixpoint run (m : lockmode) (s : state) (sched : list tid) : option state :=
  match sched with
  | [] => Some s
  | t :: r => match step m s t with Some s' => run m s' r | None => None end
  end.

Definition init (P : list (list op)) : state :=
  mkState (fun t => nth t P []) (fun _ => PIdle) (fun _ => None) None 0 [] 0 [].

Definition content (s : state) : list Z := firstn (len s) (cells s).
Definition flat (l : list (tid * msg)) : list Z := concat (map snd l).
Definition proj (t : tid) (l : list (tid * msg)) : list msg :=
  map snd (filter (fun e => Nat.eqb (fst e) t) l).

(* what producer t has still to deliver *)
Definition pending (s : state) (t : tid) : list msg :=
  match pcs s t with
  | PPub | PRel => map snd (tl (prog s t))
  | _ => map snd (prog s t)
  end.

Definition finished (n : nat) (s : state) : bool :=
  forallb (fun t => match pcs s t, prog s t with PIdle, [] => true | _, _ => false end) (seq 0 n).

(* inside the sink's critical region *)
Definition in_sink (p : pc) : bool :=
  match p with PSink | PRead _ | PCopied _ | PPub => true | _ => false end.

(* the memory access a producer performs with its NEXT step: location (false = length word, true = backing array),
   and whether it writes *)
Definition next_access (p : pc) : option (bool * bool) :=
  match p with
  | PSink => Some (false, false)       (* reads the length *)
  | PRead _ => Some (true, true)       (* writes the array *)
  | PCopied _ => Some (false, true)    (* writes the length *)
  | _ => None
  end.
Definition conflict (a b : option (bool * bool)) : bool :=
  match a, b with
  | Some (la, wa), Some (lb, wb) => Bool.eqb la lb && (wa || wb)
  | _, _ => false
  end.

(* the lock mode of the string sink, READ FROM THE GENERATED TABLE (string_logger.go:21-26) *)
Definition sink_mode : lockmode := mutate_mode table "StringWriter"%string "StringWriter.Write"%string "Logs"%string.

(* ------------------------------------------------------------------------------------------------------------ *)
(* Part 2.  MultipleLogger (multiple_logger.go).  Log/LogError: c.mu.Lock(); for i := range c.loggers
   { c.loggers[i].Log(...) }; unlock (lines 67-81).  Append: lock; c.loggers = append(...); unlock (103-108).
   SetLogSource: lock; loop; unlock (39-47) — no effect on any sink.  A member is a sink of its own (Part 1) and is
   taken here as one atomic append; a "quiet" member (quiet_logger.go:25-30) ignores the output stream. *)

Inductive stream := SOut | SErr.
Inductive mop := MLog (st : stream) (x : msg) | MAppend (quiet : bool) | MSetSource.
Inductive mpc := MIdle | MHeld (i : nat).     (* holds c.mu; i = index of the next member to serve *)

Record member := mkMember {
  m_quiet  : bool;
  m_failmod : nat;                      (* 0 = healthy; k > 0 = every k-th write to this member FAILS (returns an error) *)
  m_writes : nat;                       (* writes attempted on this member so far *)
  m_joined : nat;                       (* ghost: how many messages had been accepted by the composite when it joined *)
  m_sink   : list (tid * msg)
}.

Record mstate := mkM {
  mprog   : tid -> list mop;
  mpcs    : tid -> mpc;
  mlock   : option tid;
  members : list member;
  glog    : list (tid * stream * msg)   (* ghost: order in which Log/LogError calls obtained c.mu *)
}.

Definition accepts (quiet : bool) (st : stream) : bool :=
  match st with SOut => negb quiet | SErr => true end.

(* A member whose write fails records nothing — and THE LOOP GOES ON to the next member: the callers of
   MultipleLogger.Log / MultipleWritersWithSource.Write (writer.go:37-46: n, _ = writer.Write(p)) ignore the error,
   so stopping at the first failing member would silently starve every member behind it. *)
Definition fails (mb : member) : bool :=
  match m_failmod mb with
  | O => false
  | k => Nat.eqb (S (m_writes mb) mod k) 0
  end.

Definition deliver (mb : member) (t : tid) (st : stream) (x : msg) : member :=
  if accepts (m_quiet mb) st
  then mkMember (m_quiet mb) (m_failmod mb) (S (m_writes mb)) (m_joined mb)
                (if fails mb then m_sink mb else m_sink mb ++ [(t, x)])
  else mb.

Fixpoint update_nth {A} (i : nat) (f : A -> A) (l : list A) : list A :=
  match l, i with
  | [], _ => []
  | a :: r, O => f a :: r
  | a :: r, S j => a :: update_nth j f r
  end.

Definition mstep (s : mstate) (t : tid) : option mstate :=
  match mpcs s t, mprog s t with
  | _, [] => None
  | MIdle, o :: _ =>
      match mlock s with
      | Some _ => None
      | None =>
          let g := match o with MLog st x => glog s ++ [(t, st, x)] | _ => glog s end in
          Some (mkM (mprog s) (upd (mpcs s) t (MHeld 0)) (Some t) (members s) g)
      end
  | MHeld i, MLog st x :: r =>
      if Nat.ltb i (List.length (members s))
      then Some (mkM (mprog s) (upd (mpcs s) t (MHeld (S i))) (mlock s)
                     (update_nth i (fun mb => deliver mb t st x) (members s)) (glog s))
      else Some (mkM (upd (mprog s) t r) (upd (mpcs s) t MIdle) None (members s) (glog s))
  | MHeld _, MAppend q :: r =>
      Some (mkM (upd (mprog s) t r) (upd (mpcs s) t MIdle) None
                (members s ++ [mkMember q 0 0 (List.length (glog s)) []]) (glog s))
  | MHeld _, MSetSource :: r =>
      Some (mkM (upd (mprog s) t r) (upd (mpcs s) t MIdle) None (members s) (glog s))
  end.

Fixpoint mrun (s : mstate) (sched : list tid) : option mstate :=
  match sched with
  | [] => Some s
  | t :: r => match mstep s t with Some s' => mrun s' r | None => None end
  end.

Definition minit (specs : list (bool * nat)) (P : list (list mop)) : mstate :=     (* (quiet, failmod) per member *)
  mkM (fun t => nth t P []) (fun _ => MIdle) None (map (fun q => mkMember (fst q) (snd q) 0 0 []) specs) [].

(* what member mb must hold once the composite is quiescent: every accepted message since it joined, in order *)
Definition expected_sink (mb : member) (g : list (tid * stream * msg)) : list (tid * msg) :=
  map (fun e => (fst (fst e), snd e))
      (filter (fun e => accepts (m_quiet mb) (snd (fst e))) (skipn (m_joined mb) g)).

Definition mlogs_of (l : list mop) : list (stream * msg) :=
  flat_map (fun o => match o with MLog st x => [(st, x)] | _ => [] end) l.
Definition gproj (t : tid) (g : list (tid * stream * msg)) : list (stream * msg) :=
  map (fun e => (snd (fst e), snd e)) (filter (fun e => Nat.eqb (fst (fst e)) t) g).
(* Log calls of producer t that have not yet obtained the composite's lock *)
Definition mpending (s : mstate) (t : tid) : list (stream * msg) :=
  match mpcs s t with
  | MIdle => mlogs_of (mprog s t)
  | MHeld _ => mlogs_of (tl (mprog s t))
  end.

(* ------------------------------------------------------------------------------------------------------------ *)
(* A member that PANICS while it is given a record (the caller recovers): the loop over the members is abandoned, and
   the composite's mutex is released iff its Unlock is deferred — [deferred] is the GENERATED fact
   composite_unlocks_deferred (Gen.v).  Otherwise the lock stays with the producer for ever and every later call
   blocks. *)
Definition mpanic (deferred : bool) (s : mstate) (t : tid) : mstate :=
  mkM (upd (mprog s) t (tl (mprog s t))) (upd (mpcs s) t MIdle)
      (if deferred then None else mlock s) (members s) (glog s).

(* Part 2b.  WHO the members of a composite are.  NewCombinedLoggers / NewMultipleLoggers (multiple_logger.go:122-155)
   and NewMultipleWritersWithSource / AddWriters (writer.go:30-36, 74-78) take a variadic list — i.e. possibly a slice
   OWNED BY THE CALLER, with spare capacity — and hand it to Append / AddWriters:
        c.loggers = append(c.loggers, l...)          (c.loggers nil at construction: a FRESH array, a copy)
   so the composite never shares a backing array with its caller or with another composite built from the same
   slice.  Go slices are modelled over a store of arrays: (array, len, cap); append writes in place while len < cap
   and moves to a fresh array otherwise.  [copies] = the constructor copies its argument (the code as it is); with
   [copies = false] it would keep the caller's slice (refuted below).  Sequential: no concurrency is needed. *)
Definition store := nat -> nat -> nat.                       (* array -> index -> member identity *)
Record slice := mkSlice { s_arr : nat; s_len : nat; s_cap : nat }.
Definition elems (st : store) (s : slice) : list nat := map (st (s_arr s)) (seq 0 (s_len s)).
Definition wr_store (st : store) (a i v : nat) : store :=
  fun a' i' => if Nat.eqb a' a && Nat.eqb i' i then v else st a' i'.
(* Go's append of one element; returns the new store, the next fresh array and the resulting slice *)
Definition go_append (st : store) (next : nat) (s : slice) (x : nat) : store * nat * slice :=
  if Nat.ltb (s_len s) (s_cap s)
  then (wr_store st (s_arr s) (s_len s) x, next, mkSlice (s_arr s) (S (s_len s)) (s_cap s))
  else ((fun a i => if Nat.eqb a next then (if Nat.eqb i (s_len s) then x else st (s_arr s) i) else st a i),
        S next, mkSlice next (S (s_len s)) (S (2 * s_cap s))).
(* append(nil, l...): a fresh array holding a copy *)
Definition copy_slice (st : store) (next : nat) (s : slice) : store * nat * slice :=
  ((fun a i => if Nat.eqb a next then st (s_arr s) i else st a i), S next, mkSlice next (s_len s) (s_len s)).

Inductive aop :=
| ANew (c : nat)                 (* composite c := New...Loggers(backing...) *)
| AAppend (c id : nat)           (* composite c .Append(id) *)
| ACallerSet (i id : nat)        (* the caller: backing[i] = id *)
| ACallerAppend (id : nat)       (* the caller: backing = append(backing, id) *)
| ALog (c m : nat).              (* composite c .Log(m): every current member receives m *)

Record astate := mkA {
  a_st     : store;
  a_next   : nat;
  a_caller : slice;
  a_comp   : nat -> option slice;
  a_own    : nat -> list nat;             (* ghost: members given at construction ++ the composite's own Appends *)
  a_recv   : list (nat * nat * nat);      (* (member, composite, message) in delivery order *)
  a_exp    : list (nat * nat * nat)       (* ghost: what the property demands *)
}.

Definition astep (copies : bool) (s : astate) (o : aop) : astate :=
  match o with
  | ANew c =>
      let own := upd (a_own s) c (elems (a_st s) (a_caller s)) in
      if copies
      then let '(st', n', sl) := copy_slice (a_st s) (a_next s) (a_caller s) in
           mkA st' n' (a_caller s) (upd (a_comp s) c (Some sl)) own (a_recv s) (a_exp s)
      else mkA (a_st s) (a_next s) (a_caller s) (upd (a_comp s) c (Some (a_caller s))) own (a_recv s) (a_exp s)
  | AAppend c id =>
      match a_comp s c with
      | None => s
      | Some sl => let '(st', n', sl') := go_append (a_st s) (a_next s) sl id in
                   mkA st' n' (a_caller s) (upd (a_comp s) c (Some sl')) (upd (a_own s) c (a_own s c ++ [id]))
                       (a_recv s) (a_exp s)
      end
  | ACallerSet i id =>
      if Nat.ltb i (s_len (a_caller s))
      then mkA (wr_store (a_st s) (s_arr (a_caller s)) i id) (a_next s) (a_caller s) (a_comp s) (a_own s)
               (a_recv s) (a_exp s)
      else s
  | ACallerAppend id =>
      let '(st', n', sl') := go_append (a_st s) (a_next s) (a_caller s) id in
      mkA st' n' sl' (a_comp s) (a_own s) (a_recv s) (a_exp s)
  | ALog c m =>
      match a_comp s c with
      | None => s
      | Some sl => mkA (a_st s) (a_next s) (a_caller s) (a_comp s) (a_own s)
                       (a_recv s ++ map (fun id => (id, c, m)) (elems (a_st s) sl))
                       (a_exp s ++ map (fun id => (id, c, m)) (a_own s c))
      end
  end.
Definition arun (copies : bool) (s : astate) (script : list aop) : astate := fold_left (astep copies) script s.
(* the caller's slice: array 0 holding [init], capacity cap *)
Definition ainit (init : list nat) (cap : nat) : astate :=
  mkA (fun a i => if Nat.eqb a 0 then nth i init 0 else 0) 1 (mkSlice 0 (List.length init) cap)
      (fun _ => None) (fun _ => []) [] [].

(* Part 3.  diode.Writer over diodes.ManyToOne (writer.go:110-121 -> zerolog/diode).  Set (producer side): take the
   next sequence number, store the bucket in slot seq mod n — overwriting whatever is there.  TryNext (the single
   reader): swap the slot at readIndex mod n with nil; nothing -> no data; seq < readIndex -> stale, dropped, no data;
   seq > readIndex -> the writers lapped the reader: report seq - readIndex missed, jump; deliver.
   ASSUMPTION (third-party code): Set is taken as ONE atomic step.  The real Set is fetch-add, load, compare-and-swap
   with a retry ("Diode set collision"); the retry re-sends the same message under a new sequence number, which makes
   the real diode OVER-report, never under-report, in everything observed — see the harness. *)

Record ring := mkRing {
  rn      : nat;                          (* ring size *)
  rw      : nat;                          (* number of Sets so far = next sequence number *)
  rr      : nat;                          (* readIndex *)
  slots   : nat -> option (nat * msg);
  rsent   : list msg;                     (* ghost: messages in sequence order *)
  rdeliv  : list msg;                     (* what the reader handed to the slow writer *)
  ralerts : list nat                      (* arguments of the dropped-messages callback *)
}.

Definition rinit (n : nat) : ring := mkRing n 0 0 (fun _ => None) [] [] [].

Definition rset (x : msg) (g : ring) : ring :=
  mkRing (rn g) (S (rw g)) (rr g) (upd (slots g) (rw g mod rn g) (Some (rw g, x)))
         (rsent g ++ [x]) (rdeliv g) (ralerts g).

(* TryNext; the boolean says whether data was returned *)
Definition rtry (g : ring) : ring * bool :=
  let i := rr g mod rn g in
  match slots g i with
  | None => (g, false)
  | Some (s, x) =>
      let sl := upd (slots g) i None in
      if Nat.ltb s (rr g) then (mkRing (rn g) (rw g) (rr g) sl (rsent g) (rdeliv g) (ralerts g), false)
      else if Nat.ltb (rr g) s
      then (mkRing (rn g) (rw g) (S s) sl (rsent g) (rdeliv g ++ [x]) (ralerts g ++ [s - rr g]), true)
      else (mkRing (rn g) (rw g) (S s) sl (rsent g) (rdeliv g ++ [x]) (ralerts g), true)
  end.

Inductive rev := RSet (x : msg) | RTry.
Definition rstep (g : ring) (e : rev) : ring :=
  match e with RSet x => rset x g | RTry => fst (rtry g) end.
Definition rrun (g : ring) (es : list rev) : ring := fold_left rstep es g.

Definition sum (l : list nat) : nat := fold_right Nat.add 0 l.
Fixpoint drain (k : nat) (g : ring) : ring :=
  match k with O => g | S j => drain j (fst (rtry g)) end.

Inductive subseq {A} : list A -> list A -> Prop :=
| sub_nil : forall l, subseq [] l
| sub_take : forall a l1 l2, subseq l1 l2 -> subseq (a :: l1) (a :: l2)
| sub_skip : forall a l1 l2, subseq l1 l2 -> subseq l1 (a :: l2).

(* Part 3b.  The same ring with Set at the granularity of its three atomic operations (many_to_one.go, Set):
     writeIndex := atomic.AddUint64(&d.writeIndex, 1)            WIdle   -> WGot seq
     old := atomic.LoadPointer(&d.buffer[idx]); if old is a NEWER bucket (seq > writeIndex - len): collision, retry
                                                                  WGot    -> WLoaded seq old | WIdle
     CompareAndSwapPointer(&d.buffer[idx], old, new); on failure: collision, retry with the next sequence number
                                                                  WLoaded -> WIdle (message sent, or still pending)
   Buckets are compared by sequence number (every bucket has its own).  TryNext is one atomic swap: [rtry]. *)
Inductive wpc := WIdle | WGot (seq : nat) | WLoaded (seq : nat) (old : option (nat * msg)).
Record mring := mkMRing {
  mbase : ring;
  wpcs  : tid -> wpc;
  wmsgs : tid -> list msg                 (* what each producer still has to send, head = current *)
}.
Definition bucket_eqb (a b : option (nat * msg)) : bool :=
  match a, b with
  | None, None => true
  | Some (s, _), Some (s', _) => Nat.eqb s s'
  | _, _ => false
  end.
Definition with_slots (g : ring) sl sent w := mkRing (rn g) w (rr g) sl sent (rdeliv g) (ralerts g).
Inductive mev := MW (t : tid) | MR.
Definition mrstep (m : mring) (e : mev) : mring :=
  match e with
  | MR => mkMRing (fst (rtry (mbase m))) (wpcs m) (wmsgs m)
  | MW t =>
      let g := mbase m in
      match wpcs m t, wmsgs m t with
      | _, [] => m
      | WIdle, _ :: _ =>
          mkMRing (with_slots g (slots g) (rsent g) (S (rw g))) (upd (wpcs m) t (WGot (rw g))) (wmsgs m)
      | WGot seq, _ :: _ =>
          let old := slots g (seq mod rn g) in
          let newer := match old with
                       | Some (s, _) => Nat.leb (rn g) seq && Nat.ltb (seq - rn g) s
                       | None => false
                       end in
          mkMRing g (upd (wpcs m) t (if newer then WIdle else WLoaded seq old)) (wmsgs m)
      | WLoaded seq old, x :: r =>
          if bucket_eqb (slots g (seq mod rn g)) old
          then mkMRing (with_slots g (upd (slots g) (seq mod rn g) (Some (seq, x))) (rsent g ++ [x]) (rw g))
                       (upd (wpcs m) t WIdle) (upd (wmsgs m) t r)
          else mkMRing g (upd (wpcs m) t WIdle) (wmsgs m)
      end
  end.
Definition mrrun (m : mring) (es : list mev) : mring := fold_left mrstep es m.
Definition mrinit (n : nat) (P : list (list msg)) : mring :=
  mkMRing (rinit n) (fun _ => WIdle) (fun t => nth t P []).
(* every producer has sent everything and is outside Set *)
Definition mrquiet (nthreads : nat) (m : mring) : bool :=
  forallb (fun t => match wpcs m t, wmsgs m t with WIdle, [] => true | _, _ => false end) (seq 0 nthreads).

(* Part 3c.  AsynchronousLoggers.Close (log.go:100-110): err1 := l.eWriter.Close(); err2 := l.oWriter.Close(); then the
   first error is returned.  [both] is the GENERATED fact (Gen.v, async_close_closes_both) that both Close calls
   are made unconditionally; a Close that returned after a failing first call would leave the other ring undrained.
   Closing a DiodeWriter drains its ring (diode.Writer.Close: cancel, wait for the poller, which delivers what is
   still stored). *)
Definition async_close (both : bool) (e_close_fails o_close_fails : bool) : bool * bool :=   (* (error side closed, output side closed) *)
  if both then (true, true) else (true, negb e_close_fails).
Definition ring_after_close (closed : bool) (g : ring) : ring :=
  if closed then drain (rw g - rr g) g else g.

(* Scripted runs (correspondence): the harness holds the reader goroutine inside the slow writer's Write ("gate").
   SSet x  = one producer performs Write(x) (-> Set); if the reader is waiting for data it takes at once.
   SRelease = the Write in progress is allowed to return; the reader then calls Next again. *)
Inductive sev := SSet (x : msg) | SRelease.
Definition stake (gb : ring * bool) : ring * bool :=
  let (g, busy) := gb in
  if busy then gb else rtry g.
Definition sstep (gb : ring * bool) (e : sev) : ring * bool :=
  match e with
  | SSet x => stake (rset x (fst gb), snd gb)
  | SRelease => stake (fst gb, false)
  end.
Definition srun (n : nat) (es : list sev) : ring * bool := fold_left sstep es (rinit n, false).

(* ------------------------------------------------------------------------------------------------------------ *)
(* Part 4.  Correspondence cases (written by harness/cmd/c13). *)

Fixpoint zlist_eqb (a b : list Z) : bool :=
  match a, b with
  | [], [] => true
  | x :: xs, y :: ys => Z.eqb x y && zlist_eqb xs ys
  | _, _ => false
  end.
Fixpoint list_eqb {A} (eq : A -> A -> bool) (a b : list A) : bool :=
  match a, b with
  | [], [] => true
  | x :: xs, y :: ys => eq x y && list_eqb eq xs ys
  | _, _ => false
  end.
Definition tm_eqb (a b : tid * msg) : bool := Nat.eqb (fst a) (fst b) && zlist_eqb (snd a) (snd b).

(* is [obs] a merge of the queues [qs] (each queue consumed in order, nothing left over)?  Messages are unique, so
   the greedy search is complete. *)
Fixpoint pop_first (x : msg) (qs : list (list msg)) : option (list (list msg)) :=
  match qs with
  | [] => None
  | (y :: q) :: r => if zlist_eqb x y then Some (q :: r)
                     else match pop_first x r with Some r' => Some ((y :: q) :: r') | None => None end
  | [] :: r => match pop_first x r with Some r' => Some ([] :: r') | None => None end
  end.
Fixpoint is_merge (obs : list msg) (qs : list (list msg)) : bool :=
  match obs with
  | [] => forallb (fun q => match q with [] => true | _ => false end) qs
  | x :: r => match pop_first x qs with Some qs' => is_merge r qs' | None => false end
  end.
(* sub-merge: like is_merge, but queue elements may be skipped (dropped messages) *)
Fixpoint drop_until (x : msg) (q : list msg) : option (list msg) :=
  match q with
  | [] => None
  | y :: r => if zlist_eqb x y then Some r else drop_until x r
  end.
Fixpoint pop_sub (x : msg) (qs : list (list msg)) : option (list (list msg)) :=
  match qs with
  | [] => None
  | q :: r => match drop_until x q with
              | Some q' => Some (q' :: r)
              | None => match pop_sub x r with Some r' => Some (q :: r') | None => None end
              end
  end.
Fixpoint is_submerge (obs : list msg) (qs : list (list msg)) : bool :=
  match obs with
  | [] => true
  | x :: r => match pop_sub x qs with Some qs' => is_submerge r qs' | None => false end
  end.

Inductive case :=
(* one sink fed through fronts: programs of the producers (front, line) and the order in which the lines were found
   in the real sink (producer, line).  The model is RUN on the sequential schedule that commits the lines in the
   observed order, in the lock mode of the generated table; it must finish with exactly the observed content. *)
| CSink (P : list (list op)) (obs : list (tid * msg))
(* composite: initial members (quiet?), programs, the order in which the FIRST member saw the messages (used as the
   schedule), and what every member held at the end, in member order *)
| CMulti (quiets : list (bool * nat)) (P : list (list mop)) (sched : list tid) (sinks : list (list (tid * msg)))
(* scripted ring run: size, script, what the reader took (in order) and the alerts (in order) *)
| CRing (n : nat) (script : list sev) (taken : list msg) (alerts : list nat)
(* concurrent ring run: size, what each producer sent, what reached the slow writer, the sum of the alerts *)
| CRingStress (n : nat) (sent : list (list msg)) (deliv : list msg) (reported : nat)
(* membership script (sequential): the caller's slice (members, capacity), the script, and for every logger that
   exists in the run — members and non-members — the (composite, message) pairs it received, in order *)
| CAlias (init : list nat) (cap : nat) (script : list aop) (obs : list (nat * list (nat * nat))).

Definition steps_per_message : nat := 7.

Definition check_case (c : case) : bool :=
  match c with
  | CSink P obs =>
      let sched := flat_map (fun e => repeat (fst e) steps_per_message) obs in
      match run sink_mode (init P) sched with
      | Some s => finished (List.length P) s && zlist_eqb (content s) (flat obs) && list_eqb tm_eqb (log s) obs
      | None => false
      end
  | CMulti quiets P sched sinks =>
      match mrun (minit quiets P) sched with
      | Some s =>
          match mlock s with None => true | Some _ => false end &&
          forallb (fun t => match mprog s t with [] => true | _ => false end) (seq 0 (List.length P)) &&
          Nat.eqb (List.length (members s)) (List.length sinks) &&
          forallb (fun ms => let (mb, obs) := (ms : member * list (tid * msg)) in
                             match m_failmod mb with
                             | O =>
                               (* healthy member: same multiset and same per-producer order as the model's member,
                                  which holds everything accepted since it joined — whatever the other members do *)
                               is_merge (map snd obs)
                                        (map (fun t => proj t (m_sink mb)) (seq 0 (List.length P))) &&
                               Nat.eqb (List.length obs) (List.length (m_sink mb)) &&
                               list_eqb tm_eqb (m_sink mb) (expected_sink mb (glog s))
                             | _ =>
                               (* failing member: which writes fail depends on the schedule; it holds a part of
                                  what it was offered, nothing else, nothing twice *)
                               is_submerge (map snd obs)
                                           (map (fun t => proj t (expected_sink mb (glog s))) (seq 0 (List.length P)))
                             end)
                  (combine (members s) sinks)
      | None => false
      end
  | CRing n script taken alerts =>
      let g := fst (srun n script) in
      list_eqb zlist_eqb (rdeliv g) taken && list_eqb Nat.eqb (ralerts g) alerts
  | CAlias init cap script obs =>
      let s := arun true (ainit init cap) script in
      forallb (fun io => let (id, l) := (io : nat * list (nat * nat)) in
                         list_eqb (fun a b => Nat.eqb (fst a) (fst b) && Nat.eqb (snd a) (snd b))
                                  (map (fun e => (snd (fst e), snd e))
                                       (filter (fun e => Nat.eqb (fst (fst e)) id) (a_recv s))) l)
              obs
  | CRingStress n sent deliv reported =>
      is_submerge deliv sent &&
      Nat.leb (List.length (concat sent) - List.length deliv) reported
  end.
