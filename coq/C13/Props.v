(* C13 — Loggers are goroutine-safe and lose nothing.  Property theorems (statements only; proofs in Proofs*.v). *)
From Coq Require Import String List ZArith Bool Arith Lia.
Import ListNotations.
From GU Require Import C13.Base C13.Gen C13.Model C13.Proofs C13.ProofsMulti C13.ProofsAlias C13.ProofsRing.

(* (1) The generated lock table (every access to a field of the receiver in every exported method of every struct of
   package logs, with the lock mode held): every run-phase mutation is under the exclusive lock and every run-phase
   read of a field that is mutated in the run phase is under at least the shared lock.  Finite: the bound is the
   table, which is regenerated from the source on every run.  (On the tree before the fixes this fails with
   StringWriter.Write/Logs under RLock and logrLogger.SetLogSource/logger under no lock.) *)
Theorem sinks_are_exclusive : table_ok table = true /\ sink_mode = LExclusive.
Proof. split; [exact table_ok_l | exact sink_mode_exclusive]. Qed.
Print Assumptions sinks_are_exclusive.

(* (2) With an exclusive sink lock: for EVERY number of producers and fronts, every list of messages, every schedule
   (prefix of an execution included): the sink content is the concatenation of the published messages in publication
   order — whole messages, nothing torn or overlapped; every producer's messages appear exactly once and in its own
   order (published ++ still-to-deliver = its program); at most one producer is inside the sink's critical region;
   and no two producers are about to perform conflicting memory accesses (data-race freedom in the lockset sense). *)
Theorem exclusive_sink_intact : forall (Pl : list (list op)) (sched : list tid) (s : state),
  run LExclusive (init Pl) sched = Some s ->
  content s = flat (log s) /\
  (forall t, proj t (log s) ++ pending s t = map snd (nth t Pl [])) /\
  (forall t1 t2, in_sink (pcs s t1) = true -> in_sink (pcs s t2) = true -> t1 = t2) /\
  (forall t1 t2, t1 <> t2 -> conflict (next_access (pcs s t1)) (next_access (pcs s t2)) = false).
Proof. exact exclusive_sink_intact_l. Qed.
Print Assumptions exclusive_sink_intact.

(* (3) The same for the string logger AS THE SOURCE LOCKS IT (mode read from the generated table), at the end of a
   complete run: content = an interleaving at message granularity of all messages, each exactly once, per-producer
   order kept. *)
Theorem string_logger_exactly_once : forall (Pl : list (list op)) (sched : list tid) (s : state),
  run sink_mode (init Pl) sched = Some s -> finished (length Pl) s = true ->
  content s = flat (log s) /\ forall t, proj t (log s) = map snd (nth t Pl []).
Proof. rewrite sink_mode_exclusive. exact finished_exactly_once. Qed.
Print Assumptions string_logger_exactly_once.

(* (4) The lock the code used before the fix (RLock around the write, D7) does not protect the append: two producers
   on two fronts, an explicit schedule, a complete run — one message is gone (content shorter than what was sent and
   not an interleaving of the messages), and two conflicting accesses are enabled at once.  Kept as the record of
   the repaired defect; the harness stresses exactly this configuration on every run. *)
Theorem shared_sink_refuted : exists Pl sched s,
  run LShared (init Pl) sched = Some s /\ finished (length Pl) s = true /\
  length (content s) < length (concat (map snd (concat Pl))) /\
  ~ (exists lg, content s = flat lg /\ forall t, proj t lg = map snd (nth t Pl [])).
Proof. exact shared_sink_refuted_l. Qed.
Print Assumptions shared_sink_refuted.

Theorem shared_sink_races : exists Pl sched s t1 t2,
  run LShared (init Pl) sched = Some s /\ t1 <> t2 /\
  conflict (next_access (pcs s t1)) (next_access (pcs s t2)) = true.
Proof. exact shared_sink_races_l. Qed.
Print Assumptions shared_sink_races.

(* (5) Composite logger: for every initial member list (each member quiet or not, healthy or FAILING every k-th
   write, in any position), every program mix of Log / LogError / Append / SetLogSource, every schedule: whenever
   nobody holds the composite's lock, every HEALTHY member holds exactly the messages the composite accepted since
   that member joined (all of them for the initial members; the output stream is filtered out for a quiet member),
   in the order of acceptance — each exactly once, whatever the members before or after it do (a failing member
   does not stop the loop); and every producer's Log calls are accepted in its own order. *)
Theorem multi_delivers_all : forall (specs : list (bool * nat)) (Pl : list (list mop)) (sched : list tid) (s : mstate),
  mrun (minit specs Pl) sched = Some s -> mlock s = None ->
  (forall mb, In mb (members s) -> m_failmod mb = 0 -> m_sink mb = expected_sink mb (glog s)) /\
  (forall j q, nth_error specs j = Some q ->
     exists mb, nth_error (members s) j = Some mb /\ m_joined mb = 0 /\ m_quiet mb = fst q /\ m_failmod mb = snd q) /\
  (forall t, gproj t (glog s) ++ mpending s t = mlogs_of (nth t Pl [])).
Proof. exact multi_delivers_all_l. Qed.
Print Assumptions multi_delivers_all.

(* (5a) A member that panics does not block the composite: with the Unlock calls as the source places them (GENERATED
   fact composite_unlocks_deferred) the lock is free after the panic, so the producer that recovered — and every
   other producer — can take its next step as in (5). *)
Theorem composite_lock_released_on_panic : forall (s : mstate) (t : tid),
  mlock (mpanic composite_unlocks_deferred s t) = None /\ mpcs (mpanic composite_unlocks_deferred s t) t = MIdle.
Proof. intros s t. unfold mpanic. simpl. split; [reflexivity|]. unfold upd. now rewrite Nat.eqb_refl. Qed.
Print Assumptions composite_lock_released_on_panic.

(* (5b) WHO the members are (complements (5), where the member list is the composite's own value).  Go slices over a
   store of arrays; the caller passes a slice it OWNS (any content, any spare capacity) to the constructor and goes on
   using it: for every script of constructions of any number of composites from that slice, Appends to them, writes
   of the caller into its slice, appends of the caller to its slice, and Log calls — with constructors that copy
   their argument (the code: Append / AddWriters onto a nil slice) every composite's member list is exactly what it
   was given at construction plus its own Appends, and every Log delivers to exactly those: no member misses a
   message, no non-member receives one. *)
Theorem multi_members_are_its_own : forall (init : list nat) (cap : nat) (script : list aop),
  let s := arun true (ainit init cap) script in
  (forall c sl, a_comp s c = Some sl -> elems (a_st s) sl = a_own s c) /\ a_recv s = a_exp s.
Proof. exact constructors_copy_members_l. Qed.
Print Assumptions multi_members_are_its_own.

(* A constructor that keeps the caller's slice instead (seeded change "no need to lock and copy") is refuted: two
   composites built from one slice with spare capacity, one Append each — the first composite's new member is
   overwritten by the second's. *)
Theorem aliasing_constructor_refuted : exists init cap script,
  a_recv (arun false (ainit init cap) script) <> a_exp (arun false (ainit init cap) script).
Proof. exact aliasing_constructor_refuted_l. Qed.
Print Assumptions aliasing_constructor_refuted.

(* (6) Ring-buffered asynchronous writer, Set taken as ONE atomic step (see Model.v and (7)): for every ring size, every interleaving of
   producer Sets and reader TryNexts: what was delivered is a subsequence of what was sent (nothing duplicated,
   nothing altered, order kept); delivered + reported-missed = readIndex <= sent; after the reader has drained
   (at most sent - readIndex further TryNexts) sent - delivered = reported-missed exactly: no silent loss. *)
Theorem ring_accounts_for_drops : forall (n : nat) (es : list rev),
  let g := rrun (rinit n) es in
  subseq (rdeliv g) (rsent g) /\
  length (rdeliv g) + sum (ralerts g) = rr g /\ rr g <= rw g /\ rw g = length (rsent g) /\
  (forall k, rw g - rr g <= k ->
     let g' := drain k g in
     rsent g' = rsent g /\ subseq (rdeliv g') (rsent g') /\
     length (rsent g') - length (rdeliv g') = sum (ralerts g')).
Proof. exact ring_accounts_for_drops_l. Qed.
Print Assumptions ring_accounts_for_drops.

(* (6b) Close of the asynchronous loggers, as the source orders its two Close calls (GENERATED fact
   async_close_closes_both: both are made unconditionally): whatever the Close of either slow writer returns, both
   sides are closed and — Set atomic as in (6) — after Close nothing is missing without having been reported, on
   either ring. *)
Theorem async_close_drains_both : forall (n : nat) (es_out es_err : list rev) (e_fails o_fails : bool),
  let c := async_close async_close_closes_both e_fails o_fails in
  let go := ring_after_close (snd c) (rrun (rinit n) es_out) in
  let ge := ring_after_close (fst c) (rrun (rinit n) es_err) in
  c = (true, true) /\
  length (rsent go) - length (rdeliv go) = sum (ralerts go) /\
  length (rsent ge) - length (rdeliv ge) = sum (ralerts ge).
Proof. exact async_close_drains_both_l. Qed.
Print Assumptions async_close_drains_both.

(* (7) FINDING (stuck-in-ring-at-close).  With Set at the granularity of its atomic operations (fetch-add, load,
   compare-and-swap with retry) statement (6) is FALSE: when the reader discards a stale bucket between a producer's
   load and its compare-and-swap, the producer re-sends under the next sequence number and the slot at readIndex
   stays empty; the reader can never pass it (until the writers have gone round the ring again), so messages that
   were stored successfully are neither delivered nor reported however long the reader drains.  Witness: ring of 2,
   one producer, 5 messages, explicit interleaving; at the end every Set has returned, delivered + reported = 4 < 5
   sent, and no number of further TryNexts changes that.  The harness provokes exactly this interleaving on the
   real diode writer at the start of every run. *)
Theorem ring_gap_loss_refuted : exists n P es,
  let m := mrrun (mrinit n P) es in
  mrquiet (length P) m = true /\
  forall k, let g := drain k (mbase m) in
    length (rdeliv g) + sum (ralerts g) < length (rsent g) /\ rr g < rw g.
Proof. exact ring_gap_loss_refuted_l. Qed.
Print Assumptions ring_gap_loss_refuted.

(* ---- non-vacuity ---- *)
Example sink_run_exists :
  exists s, run sink_mode (init [[(0, [1;2]%Z); (1, [3]%Z)]; [(1, [4;5]%Z)]])
                (repeat 0 7 ++ repeat 1 7 ++ repeat 0 7) = Some s /\
            finished 2 s = true /\ content s = [1;2;4;5;3]%Z.
Proof. eexists. split; [vm_compute; reflexivity|]. split; reflexivity. Qed.

Example check_sink_example :
  check_case (CSink [[(0, [1;2]%Z); (1, [3]%Z)]; [(1, [4;5]%Z)]] [(0, [1;2]%Z); (1, [4;5]%Z); (0, [3]%Z)]) = true /\
  check_case (CSink [[(0, [1;2]%Z); (1, [3]%Z)]; [(1, [4;5]%Z)]] [(0, [3]%Z); (1, [4;5]%Z); (0, [1;2]%Z)]) = false /\
  check_case (CSink [[(0, [1;2]%Z); (1, [3]%Z)]; [(1, [4;5]%Z)]] [(0, [1;2]%Z); (1, [4;5]%Z)]) = false.
Proof. vm_compute. auto. Qed.

Example ring_lapping_example :
  let g := rrun (rinit 4) [RSet [0]; RSet [1]; RSet [2]; RSet [3]; RSet [4]; RSet [5]; RTry; RTry; RTry; RSet [6]; RTry]%Z in
  rdeliv g = [[4]; [5]; [6]]%Z /\ ralerts g = [4] /\ rr g = 7.
Proof. vm_compute. auto. Qed.

Example multi_example :
  exists s, mrun (minit [(false, 0); (true, 0)] [[MLog SOut [1]%Z; MAppend false; MLog SErr [2]%Z]; [MLog SErr [3]%Z]])
                 [0;0;0;0; 0;0; 1;1;1;1;1; 0;0;0;0;0] = Some s /\ mlock s = None /\
            map m_sink (members s) = [[(0, [1%Z]); (1, [3%Z]); (0, [2%Z])]; [(1, [3%Z]); (0, [2%Z])]; [(1, [3%Z]); (0, [2%Z])]].
Proof. eexists. split; [vm_compute; reflexivity|]. split; reflexivity. Qed.

(* a member that fails every 2nd write sits BETWEEN two healthy members: both healthy members hold everything *)
Example multi_failing_member_example :
  exists s, mrun (minit [(false, 0); (false, 2); (false, 0)] [[MLog SOut [1]%Z; MLog SErr [2]%Z; MLog SOut [3]%Z]])
                 (repeat 0 15) = Some s /\ mlock s = None /\
            map m_sink (members s) = [[(0, [1%Z]); (0, [2%Z]); (0, [3%Z])]; [(0, [1%Z]); (0, [3%Z])];
                                      [(0, [1%Z]); (0, [2%Z]); (0, [3%Z])]].
Proof. eexists. split; [vm_compute; reflexivity|]. split; reflexivity. Qed.
