(* C13 — proofs about Part 3 of the model (many-to-one ring with a lapping producer side and a reporting reader). *)
From Coq Require Import String List ZArith Bool Arith Lia.
Import ListNotations.
From GU Require Import C13.Base C13.Gen C13.Model C13.Proofs.

Lemma sum_snoc l k : sum (l ++ [k]) = sum l + k.
Proof. unfold sum. induction l; simpl; lia. Qed.

Lemma subseq_refl {A} (l : list A) : subseq l l.
Proof. induction l; constructor; auto. Qed.
Lemma subseq_skip_front {A} (c a b : list A) : subseq a b -> subseq a (c ++ b).
Proof. intro H. induction c; simpl; [exact H | now constructor]. Qed.
Lemma subseq_app2 {A} (a b c d : list A) : subseq a b -> subseq c d -> subseq (a ++ c) (b ++ d).
Proof.
  intros H1 H2. induction H1; simpl.
  - now apply subseq_skip_front.
  - now constructor.
  - now constructor.
Qed.
Lemma subseq_app_r {A} (a b c : list A) : subseq a b -> subseq a (b ++ c).
Proof. intro H. rewrite <- (app_nil_r a). apply subseq_app2; [exact H | constructor]. Qed.

Lemma firstn_snoc_nth {A} (l : list A) : forall s x, nth_error l s = Some x -> firstn (S s) l = firstn s l ++ [x].
Proof.
  induction l as [|a l IH]; intros [|s] x H; simpl in *; try discriminate.
  - now inversion H.
  - f_equal. now apply IH.
Qed.

Lemma firstn_split_le {A} (l : list A) r s : r <= s -> firstn s l = firstn r l ++ skipn r (firstn s l).
Proof.
  intro H. rewrite <- (firstn_skipn r (firstn s l)) at 1. f_equal.
  rewrite firstn_firstn. f_equal. lia.
Qed.

Lemma latest_exists n : forall w r, r < w ->
  exists s, r <= s /\ s < w /\ s mod n = r mod n /\ (forall s', s < s' -> s' < w -> s' mod n <> r mod n).
Proof.
  induction w as [|w IH]; intros r H; [lia|].
  destruct (Nat.eq_dec r w) as [->|Hn].
  - exists w. repeat split; try lia; try (intros; lia).
  - destruct (IH r ltac:(lia)) as (s & H1 & H2 & H3 & H4).
    destruct (Nat.eq_dec (w mod n) (r mod n)) as [E|E].
    + exists w. repeat split; try lia; try (intros; lia).
    + exists s. repeat split; try lia. intros s' Hs Hs'.
      destruct (Nat.eq_dec s' w) as [->|]; [exact E | apply H4; lia].
Qed.

Record RInv (g : ring) : Prop := mkRInv {
  r_w : rw g = length (rsent g);
  r_le : rr g <= rw g;
  r_cnt : length (rdeliv g) + sum (ralerts g) = rr g;
  r_sub : subseq (rdeliv g) (firstn (rr g) (rsent g));
  r_A : forall i s x, slots g i = Some (s, x) ->
          s < rw g /\ s mod rn g = i /\ nth_error (rsent g) s = Some x /\
          (forall s', s < s' -> s' < rw g -> s' mod rn g <> i);
  r_B : forall s, rr g <= s -> s < rw g ->
          (forall s', s < s' -> s' < rw g -> s' mod rn g <> s mod rn g) ->
          exists x, slots g (s mod rn g) = Some (s, x)
}.

Lemma rinit_inv n : RInv (rinit n).
Proof.
  constructor; simpl; auto.
  - constructor.
  - intros; discriminate.
  - intros; lia.
Qed.

Lemma rset_inv x g : RInv g -> RInv (rset x g).
Proof.
  intros [W L C Sb A B]. constructor; simpl.
  - rewrite app_length. simpl. lia.
  - lia.
  - exact C.
  - rewrite firstn_app. replace (rr g - length (rsent g)) with 0 by lia. simpl. now rewrite app_nil_r.
  - intros i s y H. unfold upd in H. destruct (Nat.eqb_spec i (rw g mod rn g)) as [->|Hn].
    + inversion H; subst s y. repeat split; try lia.
      * rewrite nth_error_app2 by lia. rewrite W, Nat.sub_diag. reflexivity.
    + destruct (A i s y H) as (A1 & A2 & A3 & A4). repeat split; try lia.
      * rewrite nth_error_app1 by lia. exact A3.
      * intros s' Hs Hs'. destruct (Nat.eq_dec s' (rw g)) as [->|]; [congruence | apply A4; lia].
  - intros s Hr Hs Hl. destruct (Nat.eq_dec s (rw g)) as [->|Hn].
    + exists x. unfold upd. now rewrite Nat.eqb_refl.
    + assert (Hd : rw g mod rn g <> s mod rn g) by (apply Hl; lia).
      destruct (B s Hr ltac:(lia)) as [y Hy]; [intros; apply Hl; lia|].
      exists y. unfold upd. destruct (Nat.eqb_spec (s mod rn g) (rw g mod rn g)); [congruence | exact Hy].
Qed.

Lemma rtry_inv g : RInv g -> RInv (fst (rtry g)).
Proof.
  intros I. pose proof I as [W L C Sb A B]. unfold rtry.
  destruct (slots g (rr g mod rn g)) as [[s x]|] eqn:E; [|exact I].
  destruct (A _ _ _ E) as (A1 & A2 & A3 & A4).
  assert (Acl : forall i s0 x0, upd (slots g) (rr g mod rn g) None i = Some (s0, x0) -> slots g i = Some (s0, x0)).
  { intros i s0 x0 H. unfold upd in H. destruct (Nat.eqb i (rr g mod rn g)); [discriminate | exact H]. }
  destruct (Nat.ltb_spec s (rr g)) as [Hst|Hge]; simpl.
  - (* stale *)
    constructor; simpl; [exact W | exact L | exact C | exact Sb | | ].
    + intros i s0 x0 H. apply A. now apply Acl.
    + intros s2 H1 H2 H3. destruct (B s2 H1 H2 H3) as [y Hy]. exists y.
      unfold upd. destruct (Nat.eqb_spec (s2 mod rn g) (rr g mod rn g)) as [Eq|]; [|exact Hy].
      rewrite Eq, E in Hy. inversion Hy. lia.
  - assert (Sub : subseq (rdeliv g ++ [x]) (firstn (S s) (rsent g))).
    { rewrite (firstn_snoc_nth _ _ _ A3), (firstn_split_le (rsent g) (rr g) s Hge), <- app_assoc.
      apply subseq_app2; [exact Sb|]. apply subseq_skip_front. apply subseq_refl. }
    assert (Bn : forall s2, S s <= s2 -> s2 < rw g ->
              (forall s', s2 < s' -> s' < rw g -> s' mod rn g <> s2 mod rn g) ->
              exists y, upd (slots g) (rr g mod rn g) None (s2 mod rn g) = Some (s2, y)).
    { intros s2 H1 H2 H3. destruct (B s2 ltac:(lia) H2 H3) as [y Hy]. exists y.
      unfold upd. destruct (Nat.eqb_spec (s2 mod rn g) (rr g mod rn g)) as [Eq|]; [|exact Hy].
      exfalso. apply (A4 s2); [lia | exact H2 | exact Eq]. }
    assert (An : forall i s0 x0, upd (slots g) (rr g mod rn g) None i = Some (s0, x0) ->
              s0 < rw g /\ s0 mod rn g = i /\ nth_error (rsent g) s0 = Some x0 /\
              (forall s', s0 < s' -> s' < rw g -> s' mod rn g <> i)).
    { intros i s0 x0 H. apply A. now apply Acl. }
    destruct (Nat.ltb_spec (rr g) s) as [Hlap|Heq]; simpl.
    + constructor; simpl; [exact W | lia | | exact Sub | exact An | exact Bn].
      rewrite app_length, sum_snoc. simpl. lia.
    + assert (s = rr g) by lia. subst s.
      constructor; simpl; [exact W | lia | | exact Sub | exact An | exact Bn].
      rewrite app_length. simpl. lia.
Qed.

Lemma rtry_frame g : rsent (fst (rtry g)) = rsent g /\ rw (fst (rtry g)) = rw g /\ rn (fst (rtry g)) = rn g /\
                     rr g <= rr (fst (rtry g)).
Proof.
  unfold rtry. destruct (slots g (rr g mod rn g)) as [[s x]|]; [|simpl; auto].
  destruct (Nat.ltb_spec s (rr g)); simpl; [auto|].
  destruct (Nat.ltb_spec (rr g) s); simpl; repeat split; auto; lia.
Qed.

Lemma rtry_progress g : RInv g -> rr g < rw g -> rr g < rr (fst (rtry g)).
Proof.
  intros I H. destruct (latest_exists (rn g) (rw g) (rr g) H) as (s & H1 & H2 & H3 & H4).
  destruct (r_B g I s H1 H2) as [x Hx]; [intros; rewrite H3; now apply H4|].
  unfold rtry. rewrite <- H3, Hx.
  destruct (Nat.ltb_spec s (rr g)); [lia|].
  destruct (Nat.ltb_spec (rr g) s); simpl; lia.
Qed.

Lemma rrun_inv es : forall g, RInv g -> RInv (rrun g es).
Proof.
  induction es as [|e es IH]; intros g I; simpl; [exact I|].
  apply IH. destruct e; simpl; [now apply rset_inv | now apply rtry_inv].
Qed.

Lemma drain_spec k : forall g, RInv g -> rw g - rr g <= k ->
  RInv (drain k g) /\ rr (drain k g) = rw (drain k g) /\ rsent (drain k g) = rsent g.
Proof.
  induction k as [|k IH]; intros g I H; simpl.
  - pose proof (r_le g I). split; [exact I|]. split; [lia | reflexivity].
  - pose proof (rtry_inv g I) as I1. destruct (rtry_frame g) as (F1 & F2 & _ & F4).
    assert (Hk : rw (fst (rtry g)) - rr (fst (rtry g)) <= k).
    { rewrite F2. destruct (Nat.eq_dec (rr g) (rw g)); [lia|].
      pose proof (r_le g I). pose proof (rtry_progress g I ltac:(lia)). lia. }
    destruct (IH _ I1 Hk) as (J1 & J2 & J3). split; [exact J1|]. split; [exact J2|]. now rewrite J3.
Qed.

Lemma inv_subseq g : RInv g -> subseq (rdeliv g) (rsent g).
Proof.
  intro I. rewrite <- (firstn_skipn (rr g) (rsent g)). apply subseq_app_r. exact (r_sub g I).
Qed.

Lemma ring_accounts_for_drops_l : forall (n : nat) (es : list rev),
  let g := rrun (rinit n) es in
  subseq (rdeliv g) (rsent g) /\
  length (rdeliv g) + sum (ralerts g) = rr g /\ rr g <= rw g /\ rw g = length (rsent g) /\
  (forall k, rw g - rr g <= k ->
     let g' := drain k g in
     rsent g' = rsent g /\ subseq (rdeliv g') (rsent g') /\
     length (rsent g') - length (rdeliv g') = sum (ralerts g')).
Proof.
  intros n es g. assert (I : RInv g) by (apply rrun_inv, rinit_inv).
  split; [now apply inv_subseq|]. split; [exact (r_cnt g I)|]. split; [exact (r_le g I)|].
  split; [exact (r_w g I)|]. intros k Hk g'.
  destruct (drain_spec k g I Hk) as (J1 & J2 & J3). fold g' in J1, J2, J3.
  split; [exact J3|]. split; [now apply inv_subseq|].
  pose proof (r_cnt g' J1). pose proof (r_w g' J1). lia.
Qed.

(* ---- Set at the granularity of its atomic operations: a compare-and-swap that fails against the READER strands
   the messages behind an emptied slot (finding stuck-in-ring-at-close) ---- *)
Definition gap_P : list (list msg) := [[[0]; [1]; [2]; [3]; [4]]]%Z.
Definition gap_events : list mev :=
  (* 0 and 1 are stored; the reader takes 0 *)       [MW 0; MW 0; MW 0;  MW 0; MW 0; MW 0;  MR] ++
  (* 2 and 3 lap the reader, which jumps to 3 *)      [MW 0; MW 0; MW 0;  MW 0; MW 0; MW 0;  MR] ++
  (* Set(4): fetch-add, load the stale bucket 2 *)    [MW 0; MW 0] ++
  (* the reader discards the stale bucket *)          [MR] ++
  (* the CAS fails; retry under the next number *)    [MW 0;  MW 0; MW 0; MW 0].

Lemma drain_stuck k : forall g, slots g (rr g mod rn g) = None -> drain k g = g.
Proof.
  induction k as [|k IH]; intros g H; simpl; [reflexivity|].
  unfold rtry. rewrite H. simpl. now apply IH.
Qed.

Lemma ring_gap_loss_refuted_l : exists n P es,
  let m := mrrun (mrinit n P) es in
  mrquiet (length P) m = true /\
  forall k, let g := drain k (mbase m) in
    length (rdeliv g) + sum (ralerts g) < length (rsent g) /\ rr g < rw g.
Proof.
  exists 2, gap_P, gap_events. cbv zeta.
  remember (mrrun (mrinit 2 gap_P) gap_events) as m eqn:E.
  assert (Q : mrquiet 1 m = true) by (subst m; vm_compute; reflexivity).
  assert (S0 : slots (mbase m) (rr (mbase m) mod rn (mbase m)) = None) by (subst m; vm_compute; reflexivity).
  assert (C : length (rdeliv (mbase m)) + sum (ralerts (mbase m)) < length (rsent (mbase m)) /\ rr (mbase m) < rw (mbase m))
    by (subst m; vm_compute; lia).
  split; [exact Q|]. intro k. rewrite (drain_stuck k _ S0). exact C.
Qed.

(* ---- Close of the asynchronous loggers: both rings are drained whatever the writers' Close return ---- *)
Lemma async_close_drains_both_l : forall (n : nat) (es_out es_err : list rev) (e_fails o_fails : bool),
  let c := async_close async_close_closes_both e_fails o_fails in
  let go := ring_after_close (snd c) (rrun (rinit n) es_out) in
  let ge := ring_after_close (fst c) (rrun (rinit n) es_err) in
  c = (true, true) /\
  length (rsent go) - length (rdeliv go) = sum (ralerts go) /\
  length (rsent ge) - length (rdeliv ge) = sum (ralerts ge).
Proof.
  intros n es_out es_err e_fails o_fails.
  assert (F : async_close_closes_both = true) by reflexivity.
  unfold async_close. rewrite F. cbv zeta. simpl fst. simpl snd. unfold ring_after_close.
  split; [reflexivity|]. split.
  - destruct (ring_accounts_for_drops_l n es_out) as (_ & _ & _ & _ & H).
    destruct (H _ (Nat.le_refl _)) as (_ & _ & E). exact E.
  - destruct (ring_accounts_for_drops_l n es_err) as (_ & _ & _ & _ & H).
    destruct (H _ (Nat.le_refl _)) as (_ & _ & E). exact E.
Qed.
