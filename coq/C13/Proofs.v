(* C13 — proofs about Part 1 of the model (fronts -> one sink) and about the generated lock table. *)
From Coq Require Import String List ZArith Bool Arith Lia.
Import ListNotations.
From GU Require Import C13.Base C13.Gen C13.Model.

Lemma upd_same {A} (f : nat -> A) k v : upd f k v k = v.
Proof. unfold upd. now rewrite Nat.eqb_refl. Qed.
Lemma upd_other {A} (f : nat -> A) k v x : x <> k -> upd f k v x = f x.
Proof. intro H. unfold upd. destruct (Nat.eqb_spec x k); congruence. Qed.

(* ---- the backing array ---- *)
Lemma firstn_firstn_same {A} (l : nat) (c : list A) : l <= length c -> length (firstn l c) = l.
Proof. intro. rewrite firstn_length. lia. Qed.

Lemma firstn_write_at_keep l m c : l <= length c -> firstn l (write_at l m c) = firstn l c.
Proof.
  intro H. unfold write_at. rewrite firstn_app, firstn_firstn_same by exact H.
  rewrite Nat.sub_diag. simpl. rewrite firstn_firstn, Nat.min_id. now rewrite app_nil_r.
Qed.

Lemma firstn_write_at_full l m c : l <= length c -> firstn (l + length m) (write_at l m c) = firstn l c ++ m.
Proof.
  intro H. unfold write_at. rewrite firstn_app, firstn_firstn_same by exact H.
  rewrite firstn_firstn. replace (Nat.min (l + length m) l) with l by lia.
  replace (l + length m - l) with (length m) by lia.
  rewrite firstn_app, Nat.sub_diag, firstn_all. simpl. now rewrite app_nil_r.
Qed.

Lemma length_write_at l m c : l <= length c ->
  l + length m <= length (write_at l m c) /\ length c <= length (write_at l m c).
Proof.
  intro H. unfold write_at. rewrite !app_length, firstn_firstn_same, skipn_length by exact H. lia.
Qed.

(* ---- projections of the commit log ---- *)
Lemma proj_app t a b : proj t (a ++ b) = proj t a ++ proj t b.
Proof. unfold proj. now rewrite filter_app, map_app. Qed.
Lemma proj_one_same t x : proj t [(t, x)] = [x].
Proof. unfold proj. simpl. now rewrite Nat.eqb_refl. Qed.
Lemma proj_one_other t t' x : t <> t' -> proj t [(t', x)] = [].
Proof. intro H. unfold proj. simpl. destruct (Nat.eqb_spec t' t); [congruence | reflexivity]. Qed.
Lemma flat_app a b : flat (a ++ b) = flat a ++ flat b.
Proof. unfold flat. now rewrite map_app, concat_app. Qed.

Section Exclusive.
Variable P : tid -> list op.          (* the producers' programs *)

Record Inv (s : state) : Prop := mkInv {
  i_len : len s <= length (cells s);
  i_content : firstn (len s) (cells s) = flat (log s);
  i_proj : forall t, proj t (log s) ++ pending s t = map snd (P t);
  i_excl : forall t, in_sink (pcs s t) = true -> wr s = Some t;
  i_l : forall t l, pcs s t = PRead l \/ pcs s t = PCopied l -> l = len s;
  i_cop : forall t l f x r, pcs s t = PCopied l -> prog s t = (f, x) :: r ->
            l + length x <= length (cells s) /\ firstn (l + length x) (cells s) = firstn l (cells s) ++ x
}.

Lemma inv_mutex s t1 t2 : Inv s -> in_sink (pcs s t1) = true -> in_sink (pcs s t2) = true -> t1 = t2.
Proof.
  intros I H1 H2. pose proof (i_excl s I t1 H1) as E1. pose proof (i_excl s I t2 H2) as E2. congruence.
Qed.

Ltac ups := repeat (rewrite upd_same in * || (rewrite upd_other in * by congruence)).
Ltac other_in_sink I t t0 Ht :=
  exfalso; apply Ht; symmetry; eapply (inv_mutex _ t t0 I); [ | ]; simpl; auto.

Lemma step_inv s t s' : Inv s -> step LExclusive s t = Some s' -> Inv s'.
Proof.
  intros I St. unfold step in St.
  destruct (pcs s t) as [ | | | l | l | | ] eqn:Epc; destruct (prog s t) as [|[f x] r] eqn:Epr; try discriminate.
  - (* PIdle -> PFront *)
    destruct (front s f) eqn:Ef; [discriminate|]. inversion St; subst s'; clear St.
    destruct I as [I1 I2 I3 I4 I5 I6]. constructor; simpl; auto.
    + intro t0. specialize (I3 t0). unfold pending in *. simpl.
      destruct (Nat.eq_dec t0 t) as [->|Hn]; ups; [rewrite Epc in I3; exact I3 | exact I3].
    + intros t0 H. destruct (Nat.eq_dec t0 t) as [->|Hn]; ups; [discriminate | auto].
    + intros t0 l H. destruct (Nat.eq_dec t0 t) as [->|Hn]; ups; [destruct H; discriminate | eauto].
    + intros t0 l f0 x0 r0 H H'. destruct (Nat.eq_dec t0 t) as [->|Hn]; ups; [discriminate | eauto].
  - (* PFront -> PSink : acquire *)
    simpl in St. destruct (wr s) eqn:Ew; [discriminate|]. destruct (rd s) eqn:Er; [|discriminate].
    inversion St; subst s'; clear St.
    destruct I as [I1 I2 I3 I4 I5 I6]. constructor; simpl; auto.
    + intro t0. specialize (I3 t0). unfold pending in *. simpl.
      destruct (Nat.eq_dec t0 t) as [->|Hn]; ups; [rewrite Epc in I3; exact I3 | exact I3].
    + intros t0 H. destruct (Nat.eq_dec t0 t) as [->|Hn]; ups; [reflexivity|].
      specialize (I4 t0 H). congruence.
    + intros t0 l H. destruct (Nat.eq_dec t0 t) as [->|Hn]; ups; [destruct H; discriminate | eauto].
    + intros t0 l f0 x0 r0 H H'. destruct (Nat.eq_dec t0 t) as [->|Hn]; ups; [discriminate | eauto].
  - (* PSink -> PRead *)
    inversion St; subst s'; clear St.
    destruct I as [I1 I2 I3 I4 I5 I6]. constructor; simpl; auto.
    + intro t0. specialize (I3 t0). unfold pending in *. simpl.
      destruct (Nat.eq_dec t0 t) as [->|Hn]; ups; [rewrite Epc in I3; exact I3 | exact I3].
    + intros t0 H. destruct (Nat.eq_dec t0 t) as [->|Hn]; ups; [apply I4; now rewrite Epc | auto].
    + intros t0 l H. destruct (Nat.eq_dec t0 t) as [->|Hn]; ups; [destruct H as [H|H]; now inversion H | eauto].
    + intros t0 l f0 x0 r0 H H'. destruct (Nat.eq_dec t0 t) as [->|Hn]; ups; [discriminate | eauto].
  - (* PRead -> PCopied : copy *)
    inversion St; subst s'; clear St.
    assert (Hl : l = len s) by (eapply (i_l s I t); eauto). subst l.
    assert (Hme : forall t0, t0 <> t -> in_sink (pcs s t0) = false).
    { intros t0 Hn. destruct (in_sink (pcs s t0)) eqn:E; [|reflexivity].
      exfalso. apply Hn. eapply (inv_mutex s t0 t I); [exact E | now rewrite Epc]. }
    destruct I as [I1 I2 I3 I4 I5 I6].
    destruct (length_write_at (len s) x (cells s) I1) as [L1 L2].
    constructor; simpl; auto.
    + lia.
    + now rewrite firstn_write_at_keep.
    + intro t0. specialize (I3 t0). unfold pending in *. simpl.
      destruct (Nat.eq_dec t0 t) as [->|Hn]; ups; [rewrite Epc in I3; exact I3 | exact I3].
    + intros t0 H. destruct (Nat.eq_dec t0 t) as [->|Hn]; ups; [apply I4; now rewrite Epc | auto].
    + intros t0 l H. destruct (Nat.eq_dec t0 t) as [->|Hn]; ups; [destruct H as [H|H]; now inversion H | eauto].
    + intros t0 l f0 x0 r0 H H'. destruct (Nat.eq_dec t0 t) as [->|Hn]; ups.
      * inversion H; subst l. rewrite Epr in H'. inversion H'; subst. split; [exact L1|].
        rewrite firstn_write_at_full, firstn_write_at_keep by exact I1. reflexivity.
      * specialize (Hme t0 Hn). rewrite H in Hme. discriminate.
  - (* PCopied -> PPub : publish *)
    inversion St; subst s'; clear St.
    assert (Hl : l = len s) by (eapply (i_l s I t); eauto). subst l.
    assert (Hme : forall t0, t0 <> t -> in_sink (pcs s t0) = false).
    { intros t0 Hn. destruct (in_sink (pcs s t0)) eqn:E; [|reflexivity].
      exfalso. apply Hn. eapply (inv_mutex s t0 t I); [exact E | now rewrite Epc]. }
    destruct I as [I1 I2 I3 I4 I5 I6].
    destruct (I6 t (len s) f x r Epc Epr) as [C1 C2].
    constructor; simpl; auto.
    + rewrite C2, I2, flat_app. f_equal. unfold flat. simpl. now rewrite app_nil_r.
    + intro t0. specialize (I3 t0). unfold pending in *. simpl. rewrite proj_app.
      destruct (Nat.eq_dec t0 t) as [->|Hn]; ups.
      * rewrite Epc, Epr in I3. simpl in I3. rewrite Epr. simpl. rewrite proj_one_same, <- app_assoc. exact I3.
      * rewrite proj_one_other by exact Hn. now rewrite app_nil_r.
    + intros t0 H. destruct (Nat.eq_dec t0 t) as [->|Hn]; ups; [apply I4; now rewrite Epc | auto].
    + intros t0 l H. destruct (Nat.eq_dec t0 t) as [->|Hn]; ups; [destruct H; discriminate|].
      specialize (Hme t0 Hn). destruct H as [H|H]; rewrite H in Hme; discriminate.
    + intros t0 l f0 x0 r0 H H'. destruct (Nat.eq_dec t0 t) as [->|Hn]; ups; [discriminate|].
      specialize (Hme t0 Hn). rewrite H in Hme. discriminate.
  - (* PPub -> PRel : release *)
    inversion St; subst s'; clear St.
    assert (Hme : forall t0, t0 <> t -> in_sink (pcs s t0) = false).
    { intros t0 Hn. destruct (in_sink (pcs s t0)) eqn:E; [|reflexivity].
      exfalso. apply Hn. eapply (inv_mutex s t0 t I); [exact E | now rewrite Epc]. }
    destruct I as [I1 I2 I3 I4 I5 I6]. constructor; simpl; auto.
    + intro t0. specialize (I3 t0). unfold pending in *. simpl.
      destruct (Nat.eq_dec t0 t) as [->|Hn]; ups; [rewrite Epc in I3; exact I3 | exact I3].
    + intros t0 H. destruct (Nat.eq_dec t0 t) as [->|Hn]; ups; [discriminate|].
      specialize (Hme t0 Hn). congruence.
    + intros t0 l H. destruct (Nat.eq_dec t0 t) as [->|Hn]; ups; [destruct H; discriminate | eauto].
    + intros t0 l f0 x0 r0 H H'. destruct (Nat.eq_dec t0 t) as [->|Hn]; ups; [discriminate | eauto].
  - (* PRel -> PIdle : the front is released, next message *)
    inversion St; subst s'; clear St.
    destruct I as [I1 I2 I3 I4 I5 I6]. constructor; simpl; auto.
    + intro t0. specialize (I3 t0). unfold pending in *. simpl.
      destruct (Nat.eq_dec t0 t) as [->|Hn]; ups; [rewrite Epc, Epr in I3; exact I3 | exact I3].
    + intros t0 H. destruct (Nat.eq_dec t0 t) as [->|Hn]; ups; [discriminate | auto].
    + intros t0 l H. destruct (Nat.eq_dec t0 t) as [->|Hn]; ups; [destruct H; discriminate | eauto].
    + intros t0 l f0 x0 r0 H H'. destruct (Nat.eq_dec t0 t) as [->|Hn]; ups; [discriminate | eauto].
Qed.

Lemma run_inv sched : forall s s', Inv s -> run LExclusive s sched = Some s' -> Inv s'.
Proof.
  induction sched as [|t r IH]; intros s s' I R; simpl in R.
  - now inversion R; subst.
  - destruct (step LExclusive s t) eqn:E; [|discriminate]. eapply IH; [eapply step_inv; eauto | exact R].
Qed.

End Exclusive.

Lemma init_inv Pl : Inv (fun t => nth t Pl []) (init Pl).
Proof.
  constructor; simpl; auto.
  - intros t H; discriminate.
  - intros t l [H|H]; discriminate.
  - intros; discriminate.
Qed.

Lemma next_access_in_sink p a : next_access p = Some a -> in_sink p = true.
Proof. destruct p; simpl; intro H; try discriminate; reflexivity. Qed.

Lemma exclusive_sink_intact_l : forall (Pl : list (list op)) sched s,
  run LExclusive (init Pl) sched = Some s ->
  content s = flat (log s) /\
  (forall t, proj t (log s) ++ pending s t = map snd (nth t Pl [])) /\
  (forall t1 t2, in_sink (pcs s t1) = true -> in_sink (pcs s t2) = true -> t1 = t2) /\
  (forall t1 t2, t1 <> t2 -> conflict (next_access (pcs s t1)) (next_access (pcs s t2)) = false).
Proof.
  intros Pl sched s R. pose proof (run_inv _ sched _ _ (init_inv Pl) R) as I.
  split; [exact (i_content _ _ I)|]. split; [exact (i_proj _ _ I)|]. split.
  - intros; eapply inv_mutex; eauto.
  - intros t1 t2 Hn. destruct (next_access (pcs s t1)) as [a|] eqn:E1; [|reflexivity].
    destruct (next_access (pcs s t2)) as [b|] eqn:E2; [|now destruct a].
    exfalso. apply Hn. eapply inv_mutex; eauto using next_access_in_sink.
Qed.

Lemma finished_spec n s : finished n s = true -> forall t, t < n -> pcs s t = PIdle /\ prog s t = [].
Proof.
  unfold finished. rewrite forallb_forall. intros H t Ht.
  specialize (H t). rewrite in_seq in H. specialize (H ltac:(lia)).
  destruct (pcs s t); try discriminate; destruct (prog s t); try discriminate; auto.
Qed.

Lemma finished_exactly_once : forall (Pl : list (list op)) sched s,
  run LExclusive (init Pl) sched = Some s -> finished (length Pl) s = true ->
  content s = flat (log s) /\ forall t, proj t (log s) = map snd (nth t Pl []).
Proof.
  intros Pl sched s R F. destruct (exclusive_sink_intact_l Pl sched s R) as (C & Pj & _).
  split; [exact C|]. intro t. specialize (Pj t).
  destruct (Nat.lt_ge_cases t (length Pl)) as [Hlt|Hge].
  - destruct (finished_spec _ _ F t Hlt) as [E1 E2]. unfold pending in Pj. rewrite E1, E2 in Pj.
    simpl in Pj. now rewrite app_nil_r in Pj.
  - rewrite (nth_overflow Pl [] Hge) in *. simpl in *. now destruct (app_eq_nil _ _ Pj).
Qed.

(* ---- the shared (reader) lock does not protect the append ---- *)
Definition refute_P : list (list op) := [[(0, [1%Z])]; [(1, [2%Z])]].
Definition refute_sched : list tid := [0;0;0; 1;1;1; 0;0;0;0; 1;1;1;1].

Lemma in_proj t x lg : In x (proj t lg) -> In (t, x) lg.
Proof.
  unfold proj. rewrite in_map_iff. intros [[t' y] [E H]]. simpl in E. subst y.
  apply filter_In in H. destruct H as [H E]. simpl in E. apply Nat.eqb_eq in E. now subst.
Qed.
Lemma in_flat t x z lg : In (t, x) lg -> In z x -> In z (flat lg).
Proof.
  intros H Hz. unfold flat. apply in_concat. exists x. split; [|exact Hz].
  apply in_map_iff. now exists (t, x).
Qed.

Lemma shared_sink_refuted_l : exists Pl sched s,
  run LShared (init Pl) sched = Some s /\ finished (length Pl) s = true /\
  length (content s) < length (concat (map snd (concat Pl))) /\
  ~ (exists lg, content s = flat lg /\ forall t, proj t lg = map snd (nth t Pl [])).
Proof.
  exists refute_P, refute_sched.
  destruct (run LShared (init refute_P) refute_sched) as [s|] eqn:E; [|vm_compute in E; discriminate].
  exists s. split; [reflexivity|].
  assert (C : content s = [2%Z] /\ finished 2 s = true).
  { vm_compute in E. inversion E; subst s. vm_compute. auto. }
  destruct C as [C F]. split; [exact F|]. split; [rewrite C; simpl; lia|].
  intros [lg [Hc Hp]]. specialize (Hp 0). simpl in Hp.
  assert (In 1%Z (flat lg)).
  { eapply in_flat with (t := 0) (x := [1%Z]); [|now left]. apply in_proj. rewrite Hp. now left. }
  rewrite <- Hc, C in H. destruct H as [H|[]]. discriminate.
Qed.

Lemma shared_sink_races_l : exists Pl sched s t1 t2,
  run LShared (init Pl) sched = Some s /\ t1 <> t2 /\
  conflict (next_access (pcs s t1)) (next_access (pcs s t2)) = true.
Proof.
  exists refute_P, [0;0;0;1;1;1].
  destruct (run LShared (init refute_P) [0;0;0;1;1;1]) as [s|] eqn:E; [|vm_compute in E; discriminate].
  exists s, 0, 1. split; [reflexivity|]. split; [discriminate|].
  vm_compute in E. inversion E; subst s. reflexivity.
Qed.

(* ---- the generated table ---- *)
Lemma table_ok_l : table_ok table = true.
Proof. vm_compute. reflexivity. Qed.

Lemma sink_mode_exclusive : sink_mode = LExclusive.
Proof. vm_compute. reflexivity. Qed.
