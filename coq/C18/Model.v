(* C18 — executable model of the subprocess output adapter and of Execute / Output, PARAMETERISED by the record of facts
   (Facts.v) which translator-c18 extracts from the working tree into Gen.v: the model is an interpreter of those facts,
   so an edit of the anchored code changes the model that is evaluated in the correspondence and the record the
   theorems are instantiated with.
   Mirrors utils/subprocess/logging.go (logStreamer.Write, Flush, logPending, newLogStreamer), command_wrapper.go
   (cmdWrapper.Run: Start, context watcher, Wait, group kill, flushOutput, ConvertCommandError; createCommand),
   proc/errors.go (ConvertProcessError), messaging.go (LogStart, LogEnd), executor.go (Execute, OutputAsWithEnvironment).
   Bytes are [Z]; a stream is the list of chunks the adapter's Write receives (the successive reads of the pipe).
   Assumed (validated by the correspondence runs, not proved): the pipe hands the child's bytes of one stream to that
   stream's adapter in order, each exactly once, and all of it before Wait returns; the two streams are delivered by two
   goroutines in an arbitrary interleaving (the model takes the interleaving as an input).
   Definitions only; proofs are in Proofs.v. *)
From Coq Require Import List ZArith Bool.
Import ListNotations.
From GU Require Export C18.Facts.
Local Open Scope Z_scope.

Definition bytes := list Z.
Definition nonempty (b : bytes) : bool := match b with [] => false | _ => true end.

(* strings.Split(s, sep) for a one-byte separator: the pieces between separators; never the empty list. *)
Fixpoint split_on (sp : Z) (s : bytes) : list bytes :=
  match s with
  | [] => [[]]
  | c :: r => if c =? sp then [] :: split_on sp r
              else match split_on sp r with
                   | [] => [[c]]
                   | p :: ps => (c :: p) :: ps
                   end
  end.

(* ---- the reference: the non-empty lines of a whole stream (what the property demands to be logged) ---- *)
Definition lines_of (sp : Z) (s : bytes) : list bytes := filter nonempty (split_on sp s).

(* The adapter BEFORE the fix (logging.go:26-39 at bc1ce85a): every chunk split and logged on its own, nothing carried.
   Kept only to document why the carry-over is needed (Props.v: unbuffered_adapter_splits_lines). *)
Definition stream_log_nocarry (sp : Z) (chunks : list bytes) : list bytes := flat_map (lines_of sp) chunks.

Inductive entry := EStart | ELine (s : stream) (m : bytes) | EEndOk | EEndFail.
Inductive ctxk := CtxCancelled | CtxDeadline.

(* How the run of the command ended, as exec.Cmd sees it. *)
Inductive outcome :=
  | Exited (code : Z)        (* the child ran and exited with this status *)
  | Signaled (sig : Z)       (* the child ran and was terminated by this signal *)
  | StartCtx (k : ctxk)      (* cmd.Start refused to start: the context was already done (returns ctx.Err()) *)
  | StartNotFound            (* exec.ErrNotFound: no such executable in $PATH *)
  | StartFailed.             (* any other failure of cmd.Start (fork/exec error) *)

(* Error kinds the caller can distinguish. *)
Inductive errk := ENil | EExit (code : Z) | EProcessDone | ESignal (sig : Z) | ECancelled | ETimeout | ENotFound | EOther.
Definition is_nil (e : errk) : bool := match e with ENil => true | _ => false end.

Section Model.
Variable F : facts.

(* ---- logStreamer ---- *)

(* logPending: the messages it sends, and what is pending afterwards. *)
Definition lp_msgs (pend : bytes) : list bytes :=
  if lp_drops_empty F && negb (nonempty pend) then [] else [pend].
Definition lp_next (pend : bytes) : bytes := if lp_resets F then [] else pend.

(* a statement list of Write / Flush run on the current element; state = (messages logged so far, pending) *)
Fixpoint run_ops (ops : list wop) (piece : bytes) (st : list bytes * bytes) : list bytes * bytes :=
  match ops with
  | [] => st
  | WAppend :: r => run_ops r piece (fst st, snd st ++ piece)
  | WLogPending :: r => run_ops r piece (fst st ++ lp_msgs (snd st), lp_next (snd st))
  | WReset :: r => run_ops r piece (fst st, [])
  | WSkipEmpty :: r => if nonempty piece then run_ops r piece st else st
  end.

(* Write: the loop over lines[0..last-1], then the statements on lines[last]. *)
Fixpoint write_pieces (st : list bytes * bytes) (pieces : list bytes) : list bytes * bytes :=
  match pieces with
  | [] => st                                  (* unreachable: Split never returns an empty slice *)
  | p :: ps => match ps with
               | [] => run_ops (tail_ops F) p st
               | _ :: _ => write_pieces (run_ops (loop_ops F) p st) ps
               end
  end.

(* logStreamer.Write(p): returns (messages logged by this Write, new pending). *)
Definition write_chunk (pend : bytes) (p : bytes) : list bytes * bytes :=
  write_pieces ([], pend) (split_on (sep F) p).

(* logStreamer.Flush() *)
Definition flush (pend : bytes) : list bytes * bytes := run_ops (flush_ops F) [] ([], pend).

Fixpoint write_stream (pend : bytes) (chunks : list bytes) : list bytes * bytes :=
  match chunks with
  | [] => ([], pend)
  | c :: cs => let '(o1, p1) := write_chunk pend c in
               let '(o2, p2) := write_stream p1 cs in (o1 ++ o2, p2)
  end.

(* Everything one adapter logs for a stream: all Writes, then the Flush after Wait has returned. *)
Definition stream_log (chunks : list bytes) : list bytes :=
  let '(o, p) := write_stream [] chunks in o ++ fst (flush p).

(* ---- the two adapters of a command (createCommand) ---- *)

(* which logger an adapter created with isStdErr = flag sends its lines to *)
Definition route (flag : bool) : stream := if lp_by_stream F then (if flag then SErr else SOut) else SOut.
Definition out_route : stream := route (stdout_flag F).
Definition err_route : stream := route (stderr_flag F).

Definition tag (s : stream) (ms : list bytes) : list entry := map (ELine s) ms.

(* One pipe read delivered to the adapter of its stream. State = (pending of cmd.Stdout's adapter, of cmd.Stderr's). *)
Definition write_event (a : bytes * bytes) (ev : stream * bytes) : list entry * (bytes * bytes) :=
  match ev with
  | (SOut, p) => let '(ms, po) := write_chunk (fst a) p in (tag out_route ms, (po, snd a))
  | (SErr, p) => let '(ms, pe) := write_chunk (snd a) p in (tag err_route ms, (fst a, pe))
  end.

Fixpoint run_events (a : bytes * bytes) (evs : list (stream * bytes)) : list entry * (bytes * bytes) :=
  match evs with
  | [] => ([], a)
  | ev :: r => let '(o1, a1) := write_event a ev in
               let '(o2, a2) := run_events a1 r in (o1 ++ o2, a2)
  end.

(* cmdWrapper.flushOutput, as called by Run. *)
Definition flush_one (a : bytes * bytes) (s : stream) : list entry :=
  match s with
  | SOut => tag out_route (fst (flush (fst a)))
  | SErr => tag err_route (fst (flush (snd a)))
  end.
Definition flush_output (a : bytes * bytes) : list entry :=
  if run_flush F then flat_map (flush_one a) (flush_streams F) else [].

(* all the child's lines of one run: the reads of both pipes in the order in which the two copying goroutines deliver
   them, all before Wait returns; then flushOutput *)
Definition child_log (evs : list (stream * bytes)) : list entry :=
  let '(logged, a) := run_events ([], []) evs in logged ++ flush_output a.

(* ---- exit status: cmdWrapper.Run's ConvertCommandError = proc.ConvertProcessError ---- *)

Definition ctx_kind (k : ctxk) : errk := match k with CtxCancelled => ECancelled | CtxDeadline => ETimeout end.

(* the error as exec reports it (after ConvertContextError when that comes first) *)
Definition base_kind (o : outcome) : errk :=
  match o with
  | Exited c => if c =? 0 then (if wait_delay_set F then EOther (* exec.ErrWaitDelay, worst case: see below *) else ENil)
                else EExit c
  | Signaled s => ESignal s
  | StartCtx k => if conv_ctx_first F then ctx_kind k else EOther
  | StartNotFound | StartFailed => EOther
  end.

(* With a WaitDelay the model takes the worst case: the delay always expires before the copying goroutines are done, so
   a child which exited with status 0 is reported with exec.ErrWaitDelay and nothing of its output is guaranteed
   ([delivered] below). The theorems therefore need io_ok; the code as it is sets no WaitDelay. *)
Definition cond_holds (c : rcond) (o : outcome) : bool :=
  match c, o with
  | RcNil, Exited c => (c =? 0) && negb (wait_delay_set F)
  | RcWaitDelay, Exited c => (c =? 0) && wait_delay_set F
  | RcSignalText l, Signaled s => existsb (Z.eqb s) l
  | RcExecNotFound, StartNotFound => true
  | _, _ => false
  end.

Definition act_result (a : ract) (o : outcome) : errk :=
  match a with
  | RaReturn => base_kind o
  | RaProcessDone => EProcessDone
  | RaNil => ENil
  | RaTimeout => ETimeout
  | RaNotFound => ENotFound
  | RaForbidden | RaNotImplemented => EOther
  end.

Fixpoint apply_rules (rs : list (rcond * ract)) (o : outcome) : errk :=
  match rs with
  | [] => base_kind o
  | (c, a) :: r => if cond_holds c o then act_result a o else apply_rules r o
  end.

Definition convert_process_error (o : outcome) : errk :=
  if run_converts F then apply_rules (rules F) o else base_kind o.

(* ---- Execute ---- *)

Definition end_entry (e : errk) : entry := if Bool.eqb (is_nil e) (end_ok_iff_nil F) then EEndOk else EEndFail.

Definition ran (o : outcome) : bool := match o with Exited _ | Signaled _ => true | _ => false end.

(* the pipe reads which are guaranteed to have reached the adapters when Wait returns *)
Definition delivered (o : outcome) (evs : list (stream * bytes)) : list (stream * bytes) :=
  if ran o && negb (wait_delay_set F) then evs else [].

(* [ctx] = state of the process context when Run returns, [pctx] = state of the context given by the caller. *)
Definition ctx_of (src : ctxsrc) (ctx pctx : option ctxk) : option ctxk :=
  match src with CtxProcess => ctx | CtxParent => pctx end.

Fixpoint run_exec (ops : list xop) (wm : bool) (ctx pctx : option ctxk) (o : outcome) (evs : list (stream * bytes))
         (st : list entry * errk) : list entry * errk :=
  match ops with
  | [] => st
  | XLogStart :: r => run_exec r wm ctx pctx o evs (fst st ++ (if wm then [EStart] else []), snd st)
  | XRun :: r => run_exec r wm ctx pctx o evs (fst st ++ child_log (delivered o evs), convert_process_error o)
  | XCtxOverride src :: r =>
      run_exec r wm ctx pctx o evs
        (fst st, match snd st with
                 | ENil => ENil
                 | e => match ctx_of src ctx pctx with Some k => ctx_kind k | None => e end
                 end)
  | XLogEnd :: r => run_exec r wm ctx pctx o evs (fst st ++ (if wm then [end_entry (snd st)] else []), snd st)
  end.

(* Subprocess.Execute. [wm] = withAdditionalMessages. If the command could not be started there is no child, hence no event. *)
Definition execute (wm : bool) (ctx pctx : option ctxk) (o : outcome) (evs : list (stream * bytes)) : list entry * errk :=
  run_exec (exec_seq F) wm ctx pctx o evs ([], ENil).

Definition execute_error (ctx pctx : option ctxk) (o : outcome) : errk := snd (execute true ctx pctx o []).

(* Output: a plain string logger (message ++ "\n") is combined with the caller's loggers and receives every message in
   the same order. *)
Definition output_text (log : list entry) : bytes :=
  flat_map (fun e => match e with ELine _ m => m ++ [10] | _ => [] end) log.

Definition output (ctx pctx : option ctxk) (o : outcome) (evs : list (stream * bytes)) : bytes * list entry * errk :=
  let '(log, e) := execute (negb (output_plain F)) ctx pctx o evs in
  (if output_reads_always F || is_nil e then output_text log else [], log, e).

(* projections used by the statements and by the correspondence *)
Definition proj (s : stream) (log : list entry) : list bytes :=
  flat_map (fun e => match e, s with
                     | ELine SOut m, SOut => [m]
                     | ELine SErr m, SErr => [m]
                     | _, _ => []
                     end) log.

Definition stream_bytes (s : stream) (evs : list (stream * bytes)) : bytes :=
  flat_map (fun ev => match ev, s with
                      | (SOut, p), SOut => p
                      | (SErr, p), SErr => p
                      | _, _ => []
                      end) evs.

Definition is_line (e : entry) : bool := match e with ELine _ _ => true | _ => false end.

(* ---- correspondence cases: what the harness observed on the real code ---- *)

Definition rep (c n : Z) : bytes := repeat c (Z.to_nat n).   (* compact notation for long runs in case files *)

Fixpoint bytes_eqb (a b : bytes) : bool :=
  match a, b with
  | [], [] => true
  | x :: xs, y :: ys => (x =? y) && bytes_eqb xs ys
  | _, _ => false
  end.

Fixpoint lines_eqb (a b : list bytes) : bool :=
  match a, b with
  | [], [] => true
  | x :: xs, y :: ys => bytes_eqb x y && lines_eqb xs ys
  | _, _ => false
  end.

Definition entry_eqb (a b : entry) : bool :=
  match a, b with
  | EStart, EStart | EEndOk, EEndOk | EEndFail, EEndFail => true
  | ELine s m, ELine t n => stream_eqb s t && bytes_eqb m n
  | _, _ => false
  end.

Fixpoint entries_eqb (a b : list entry) : bool :=
  match a, b with
  | [], [] => true
  | x :: xs, y :: ys => entry_eqb x y && entries_eqb xs ys
  | _, _ => false
  end.

Definition errk_eqb (a b : errk) : bool :=
  match a, b with
  | ENil, ENil | EProcessDone, EProcessDone | ECancelled, ECancelled | ETimeout, ETimeout
  | ENotFound, ENotFound | EOther, EOther => true
  | EExit x, EExit y | ESignal x, ESignal y => x =? y
  | _, _ => false
  end.

Inductive case :=
  (* chunks fed straight into the real adapter (hook VerifNewLogStreamer), observation after every Write, then after
     the Flush of the writer ([flushed] = None when the writer has no Flush, i.e. the unfixed adapter) *)
  | CAdapter (is_stderr : bool) (chunks : list bytes) (per_write : list (list entry)) (flushed : option (list entry))
  (* a real child run by Execute (with_msgs = true) or by a plain subprocess: the bytes the child wrote on each
     stream, how it ended, the context state, and what the recording logger and the caller observed *)
  | CExec (with_msgs : bool) (ctx pctx : option ctxk) (o : outcome) (out_bytes err_bytes : bytes)
          (log : list entry) (err : errk)
  (* a real child run by Output(): additionally the returned text *)
  | COutput (o : outcome) (out_bytes err_bytes : bytes) (log : list entry) (text : bytes) (err : errk).

Fixpoint check_writes (s : stream) (pend : bytes) (chunks : list bytes) (per_write : list (list entry))
         (flushed : option (list entry)) : bool :=
  match chunks, per_write with
  | [], [] => match flushed with
              | Some f => entries_eqb f (tag s (fst (flush pend)))
              | None => false       (* the fixed adapter has a Flush *)
              end
  | c :: cs, w :: ws => let '(ms, pend') := write_chunk pend c in
                        entries_eqb w (tag s ms) && check_writes s pend' cs ws flushed
  | _, _ => false
  end.

(* The pipe reads of a real child are not observable. By theorem stream_lines_exact the model's log does not depend
   on the chunking, so the model is evaluated on the one-chunk-per-stream chunking; the observed log must have the
   model's first and last entry, only child lines in between, and the model's lines per stream (the interleaving of the
   two streams is the scheduler's). *)
Definition strip (with_msgs : bool) (log : list entry) : list entry :=
  if with_msgs then removelast (tl log) else log.

Definition check_exec (with_msgs : bool) (ctx pctx : option ctxk) (o : outcome) (ob eb : bytes) (log : list entry) (err : errk) : bool :=
  let '(mlog, merr) := execute with_msgs ctx pctx o [(SOut, ob); (SErr, eb)] in
  errk_eqb err merr
  && (if with_msgs
      then match log with
           | EStart :: _ => entry_eqb (last log EStart) (end_entry merr) && (2 <=? Z.of_nat (length log))
           | _ => false
           end
      else true)
  && forallb is_line (strip with_msgs log)
  && lines_eqb (proj SOut (strip with_msgs log)) (proj SOut (strip with_msgs mlog))
  && lines_eqb (proj SErr (strip with_msgs log)) (proj SErr (strip with_msgs mlog)).

Definition check_case (c : case) : bool :=
  match c with
  | CAdapter is_stderr chunks per_write flushed =>
      check_writes (route is_stderr) [] chunks per_write flushed
  | CExec with_msgs ctx pctx o ob eb log err => check_exec with_msgs ctx pctx o ob eb log err
  | COutput o ob eb log text err =>
      check_exec (negb (output_plain F)) None None o ob eb log err
      && bytes_eqb text (if output_reads_always F || is_nil err then output_text log else [])
  end.

End Model.

