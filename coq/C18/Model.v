(* C18 — executable model of the subprocess output adapter and of Execute / Output.
   Mirrors, in the repaired tree (fixes "subprocess output lines are no longer split across pipe reads" and "Execute
   reports a context error when the command was interrupted by its context"):
     utils/subprocess/logging.go          logStreamer.Write :32-46, Flush :48-52, logPending :54-65, flushWriter :78-82
     utils/subprocess/command_wrapper.go  cmdWrapper.Run :53-62, flushOutput :88-93, createCommand :121-130 (one adapter
                                          per stream), ConvertCommandError :173
     utils/proc/errors.go                 ConvertProcessError :25-50
     utils/subprocess/messaging.go        LogStart :31-35, LogEnd :59-68
     utils/subprocess/executor.go         Execute :241-272, OutputAsWithEnvironment :104-125.
   Bytes are [Z]; a stream is the list of chunks the adapter's Write receives (the successive reads of the pipe).
   Assumed (validated by the correspondence runs, not proved): the pipe hands the child's bytes of one stream to that
   stream's adapter in order, each exactly once, and all of it before exec.Cmd.Run returns; the two streams are
   delivered by two goroutines in an arbitrary interleaving (the model takes the interleaving as an input).
   Definitions only; proofs are in Proofs.v. *)
From Coq Require Import List ZArith Bool.
Import ListNotations.
Local Open Scope Z_scope.

Definition bytes := list Z.
Definition NL : Z := 10.   (* lineSep = platform.UnixLineSeparator() = "\n"; '\r' is an ordinary byte *)

(* strings.Split(s, "\n"): the pieces between separators; never the empty list. *)
Fixpoint split_nl (s : bytes) : list bytes :=
  match s with
  | [] => [[]]
  | c :: r => if c =? NL then [] :: split_nl r
              else match split_nl r with
                   | [] => [[c]]
                   | p :: ps => (c :: p) :: ps
                   end
  end.

Definition nonempty (b : bytes) : bool := match b with [] => false | _ => true end.

(* ---- the reference: the non-empty lines of a whole stream (what the property demands to be logged) ---- *)
Definition lines_of (s : bytes) : list bytes := filter nonempty (split_nl s).

(* ---- logStreamer ---- *)

(* logStreamer.logPending (logging.go): logs the pending line unless it is empty; pending is reset by the caller below. *)
Definition log_pending (pend : bytes) : list bytes := if nonempty pend then [pend] else [].

(* logStreamer.Write, the loop over lines[0..last-1] and the final carry-over:
     for i := 0; i < last; i++ { pending += lines[i]; logPending() }   pending += lines[last]
   returns (messages logged by this Write, new pending). *)
Fixpoint write_pieces (pend : bytes) (pieces : list bytes) : list bytes * bytes :=
  match pieces with
  | [] => ([], pend)                       (* unreachable: Split never returns an empty slice *)
  | p :: ps =>
      match ps with
      | [] => ([], pend ++ p)               (* lines[last]: carried over *)
      | _ :: _ => let '(out, pend') := write_pieces [] ps in (log_pending (pend ++ p) ++ out, pend')
      end
  end.

(* logStreamer.Write(p): strings.Split(string(p), lineSep) then the loop above. *)
Definition write_chunk (pend : bytes) (p : bytes) : list bytes * bytes := write_pieces pend (split_nl p).

(* logStreamer.Flush(): logPending(). *)
Definition flush (pend : bytes) : list bytes := log_pending pend.

(* A stream = the chunks given to successive Writes. *)
Fixpoint write_stream (pend : bytes) (chunks : list bytes) : list bytes * bytes :=
  match chunks with
  | [] => ([], pend)
  | c :: cs => let '(o1, p1) := write_chunk pend c in
               let '(o2, p2) := write_stream p1 cs in (o1 ++ o2, p2)
  end.

(* Everything one adapter logs for a stream: all Writes, then the Flush after Run/Wait has returned. *)
Definition stream_log (chunks : list bytes) : list bytes :=
  let '(o, p) := write_stream [] chunks in o ++ flush p.

(* The adapter BEFORE the fix (logging.go:26-39 at bc1ce85a): every chunk split and logged on its own, nothing carried.
   Kept only to document why the carry-over is needed (Props.v: unbuffered_adapter_refuted). *)
Definition write_chunk_nocarry (p : bytes) : list bytes := filter nonempty (split_nl p).
Definition stream_log_nocarry (chunks : list bytes) : list bytes := flat_map write_chunk_nocarry chunks.

(* ---- Execute ---- *)

Inductive stream := SOut | SErr.

(* What the loggers receive, in order: the start message (messaging.LogStart), a line of the child on one of the two
   streams, the success / failure message (messaging.LogEnd). *)
Inductive entry := EStart | ELine (s : stream) (m : bytes) | EEndOk | EEndFail.

Inductive ctxk := CtxCancelled | CtxDeadline.

(* How the run of the command ended, as exec.Cmd.Run sees it. *)
Inductive outcome :=
  | Exited (code : Z)        (* the child ran and exited with this status *)
  | Signaled (sig : Z)       (* the child ran and was terminated by this signal *)
  | StartCtx (k : ctxk)      (* cmd.Start refused to start: the context was already done (returns ctx.Err()) *)
  | StartNotFound            (* exec.ErrNotFound / ErrDot: no such executable in $PATH *)
  | StartFailed.             (* any other failure of cmd.Start (fork/exec error) *)

(* Error kinds the caller can distinguish. *)
Inductive errk := ENil | EExit (code : Z) | EProcessDone | ESignal (sig : Z) | ECancelled | ETimeout | ENotFound | EOther.

(* cmdWrapper.Run: ConvertCommandError(cmd.Run()) = proc.ConvertProcessError (proc/errors.go:25-50):
   nil stays nil; context errors become ErrCancelled / ErrTimeout; "signal: killed" / "signal: terminated" become
   os.ErrProcessDone; ErrNotFound is wrapped as commonerrors.ErrNotFound; everything else (ExitError) is returned as is. *)
Definition convert_process_error (o : outcome) : errk :=
  match o with
  | Exited c => if c =? 0 then ENil else EExit c
  | Signaled s => if (s =? 9) || (s =? 15) then EProcessDone else ESignal s
  | StartCtx CtxCancelled => ECancelled
  | StartCtx CtxDeadline => ETimeout
  | StartNotFound => ENotFound
  | StartFailed => EOther
  end.

(* Execute (executor.go), after cmd.Run():  if err != nil and the process context is done, the error is the context's kind
   (fix "Execute reports a context error when the command was interrupted by its context"). [ctx] = state of the process
   context when Run returns. *)
Definition execute_error (ctx : option ctxk) (o : outcome) : errk :=
  match convert_process_error o with
  | ENil => ENil
  | e => match ctx with
         | Some CtxCancelled => ECancelled
         | Some CtxDeadline => ETimeout
         | None => e
         end
  end.

Definition tag (s : stream) (ms : list bytes) : list entry := map (ELine s) ms.

(* One pipe read delivered to the adapter of its stream (cmd.Stdout / cmd.Stderr, command_wrapper.go createCommand).
   The state is (pending of the stdout adapter, pending of the stderr adapter). *)
Definition write_event (a : bytes * bytes) (ev : stream * bytes) : list entry * (bytes * bytes) :=
  match ev with
  | (SOut, p) => let '(ms, po) := write_chunk (fst a) p in (tag SOut ms, (po, snd a))
  | (SErr, p) => let '(ms, pe) := write_chunk (snd a) p in (tag SErr ms, (fst a, pe))
  end.

(* The reads of both pipes in the order in which the two copying goroutines deliver them (any interleaving);
   all of them happen before cmd.Run returns. *)
Fixpoint run_events (a : bytes * bytes) (evs : list (stream * bytes)) : list entry * (bytes * bytes) :=
  match evs with
  | [] => ([], a)
  | ev :: r => let '(o1, a1) := write_event a ev in
               let '(o2, a2) := run_events a1 r in (o1 ++ o2, a2)
  end.

(* cmdWrapper.flushOutput: flushWriter(cmd.Stdout); flushWriter(cmd.Stderr). *)
Definition flush_output (a : bytes * bytes) : list entry := tag SOut (flush (fst a)) ++ tag SErr (flush (snd a)).

Definition end_entry (e : errk) : entry := match e with ENil => EEndOk | _ => EEndFail end.

(* Subprocess.Execute: LogStart; cmd.Run() [= all pipe reads, then flushOutput]; LogEnd(err).
   [with_msgs] = withAdditionalMessages (true for New/Execute, false for Output's plain subprocess).
   If the command could not be started there is no child and hence no event. *)
Definition execute (with_msgs : bool) (ctx : option ctxk) (o : outcome) (events : list (stream * bytes))
  : list entry * errk :=
  let evs := match o with Exited _ | Signaled _ => events | _ => [] end in
  let '(logged, a) := run_events ([], []) evs in
  let e := execute_error ctx o in
  ((if with_msgs then [EStart] else []) ++ (logged ++ flush_output a) ++ (if with_msgs then [end_entry e] else []), e).

(* Output: a plain string logger (log.New(w, "", 0): message ++ "\n") is combined with the caller's loggers and receives
   every message in the same order; the subprocess is a plain one (no start / end messages). *)
Definition output_text (log : list entry) : bytes :=
  flat_map (fun e => match e with ELine _ m => m ++ [NL] | _ => [] end) log.

Definition output (ctx : option ctxk) (o : outcome) (events : list (stream * bytes)) : bytes * list entry * errk :=
  let '(log, e) := execute false ctx o events in (output_text log, log, e).

(* projections used by the statements and by the correspondence *)
Definition proj (s : stream) (log : list entry) : list bytes :=
  flat_map (fun e => match e, s with
                     | ELine SOut m, SOut => [m]
                     | ELine SErr m, SErr => [m]
                     | _, _ => []
                     end) log.

Definition stream_bytes (s : stream) (evs : list (stream * bytes)) : bytes :=
  flat_map (fun ev => match ev, s with
                      | (SOut, p), SOut => p
                      | (SErr, p), SErr => p
                      | _, _ => []
                      end) evs.

Definition is_line (e : entry) : bool := match e with ELine _ _ => true | _ => false end.

(* ---- correspondence cases: what the harness observed on the real code ---- *)

Definition rep (c n : Z) : bytes := repeat c (Z.to_nat n).   (* compact notation for long runs in case files *)

Fixpoint bytes_eqb (a b : bytes) : bool :=
  match a, b with
  | [], [] => true
  | x :: xs, y :: ys => (x =? y) && bytes_eqb xs ys
  | _, _ => false
  end.

Fixpoint lines_eqb (a b : list bytes) : bool :=
  match a, b with
  | [], [] => true
  | x :: xs, y :: ys => bytes_eqb x y && lines_eqb xs ys
  | _, _ => false
  end.

Definition stream_eqb (a b : stream) : bool :=
  match a, b with SOut, SOut | SErr, SErr => true | _, _ => false end.

Definition entry_eqb (a b : entry) : bool :=
  match a, b with
  | EStart, EStart | EEndOk, EEndOk | EEndFail, EEndFail => true
  | ELine s m, ELine t n => stream_eqb s t && bytes_eqb m n
  | _, _ => false
  end.

Fixpoint entries_eqb (a b : list entry) : bool :=
  match a, b with
  | [], [] => true
  | x :: xs, y :: ys => entry_eqb x y && entries_eqb xs ys
  | _, _ => false
  end.

Definition errk_eqb (a b : errk) : bool :=
  match a, b with
  | ENil, ENil | EProcessDone, EProcessDone | ECancelled, ECancelled | ETimeout, ETimeout
  | ENotFound, ENotFound | EOther, EOther => true
  | EExit x, EExit y | ESignal x, ESignal y => x =? y
  | _, _ => false
  end.

Inductive case :=
  (* chunks fed straight into the real adapter (hook VerifNewLogStreamer), observation after every Write, then after
     the Flush of the writer ([flushed] = None when the writer has no Flush, i.e. the unfixed adapter) *)
  | CAdapter (is_stderr : bool) (chunks : list bytes) (per_write : list (list entry)) (flushed : option (list entry))
  (* a real child run by Execute (with_msgs = true) or by a plain subprocess: the bytes the child wrote on each
     stream, how it ended, the context state, and what the recording logger and the caller observed *)
  | CExec (with_msgs : bool) (ctx : option ctxk) (o : outcome) (out_bytes err_bytes : bytes)
          (log : list entry) (err : errk)
  (* a real child run by Output(): additionally the returned text *)
  | COutput (o : outcome) (out_bytes err_bytes : bytes) (log : list entry) (text : bytes) (err : errk).

Fixpoint check_writes (s : stream) (pend : bytes) (chunks : list bytes) (per_write : list (list entry))
         (flushed : option (list entry)) : bool :=
  match chunks, per_write with
  | [], [] => match flushed with
              | Some f => entries_eqb f (tag s (flush pend))
              | None => false       (* the fixed adapter has a Flush *)
              end
  | c :: cs, w :: ws => let '(ms, pend') := write_chunk pend c in
                        entries_eqb w (tag s ms) && check_writes s pend' cs ws flushed
  | _, _ => false
  end.

(* The pipe reads of a real child are not observable. By theorem stream_lines_exact the model's log does not depend
   on the chunking, so the model is evaluated on the one-chunk-per-stream chunking; the observed log must have the
   model's first and last entry, only child lines in between, and the model's lines per stream (the interleaving of the
   two streams is the scheduler's). *)
Definition strip (with_msgs : bool) (log : list entry) : list entry :=
  if with_msgs then removelast (tl log) else log.

Definition check_exec (with_msgs : bool) (ctx : option ctxk) (o : outcome) (ob eb : bytes) (log : list entry) (err : errk) : bool :=
  let '(mlog, merr) := execute with_msgs ctx o [(SOut, ob); (SErr, eb)] in
  errk_eqb err merr
  && (if with_msgs
      then match log with
           | EStart :: _ => entry_eqb (last log EStart) (end_entry merr) && (2 <=? Z.of_nat (length log))
           | _ => false
           end
      else true)
  && forallb is_line (strip with_msgs log)
  && lines_eqb (proj SOut (strip with_msgs log)) (proj SOut (strip with_msgs mlog))
  && lines_eqb (proj SErr (strip with_msgs log)) (proj SErr (strip with_msgs mlog)).

Definition check_case (c : case) : bool :=
  match c with
  | CAdapter is_stderr chunks per_write flushed =>
      check_writes (if is_stderr then SErr else SOut) [] chunks per_write flushed
  | CExec with_msgs ctx o ob eb log err => check_exec with_msgs ctx o ob eb log err
  | COutput o ob eb log text err =>
      check_exec false None o ob eb log err && bytes_eqb text (output_text log)
  end.
