(* C18 — Subprocess results are faithful: exit status and every output line.
   Property theorems only. Each is stated for the model (GU.C18.Model, an interpreter of a record of facts about the
   code) instantiated with [gen_facts], the record GENERATED from utils/subprocess/{logging,command_wrapper,executor,
   messaging}.go and utils/proc/errors.go of the working tree by translator-c18 on every run (GU.C18.Gen). Each proof
   applies a lemma of Proofs.v which holds for EVERY record satisfying the conditions named in the proof
   (adapter_ok / wiring_ok / exec_ok / exit_ok / output_ok, GU.C18.Facts) and checks by computation that the generated
   record satisfies them: an edit of the code which changes a fact the property depends on breaks the theorem(s)
   depending on it. Tied to the behaviour of the code by harness/cmd/c18 (chunk scripts through the hook, real children). *)
From Coq Require Import List ZArith Bool.
From Coq Require String.
Import ListNotations.
From GU Require Import C18.Model C18.Proofs C18.Gen.
Local Open Scope Z_scope.

Notation G := gen_facts.

(* THE line property: for EVERY list of chunks (= every way the pipe reads / the child's writes cut the stream: any
   volume, any line length, cuts at arbitrary byte offsets, final line with or without newline) the adapter, once
   flushed, has logged exactly the non-empty lines of the stream: complete, unmodified, in order. *)
Theorem stream_lines_exact : forall chunks, stream_log G chunks = lines_of (sep G) (concat chunks).
Proof. apply stream_lines_exact_g. vm_compute. reflexivity. Qed.
Print Assumptions stream_lines_exact.

(* Hence two chunkings of the same bytes are logged identically. *)
Theorem chunking_irrelevant : forall c1 c2, concat c1 = concat c2 -> stream_log G c1 = stream_log G c2.
Proof. apply chunking_irrelevant_g. vm_compute. reflexivity. Qed.
Print Assumptions chunking_irrelevant.

(* No byte is lost or invented: the concatenation of the messages is the stream with the separators removed; no message
   contains a separator; no message is empty. *)
Theorem stream_no_byte_lost : forall chunks,
  concat (stream_log G chunks) = strip_nl (sep G) (concat chunks) /\
  Forall (fun m => no_nl (sep G) m /\ m <> []) (stream_log G chunks).
Proof.
  assert (A : adapter_ok G = true) by (vm_compute; reflexivity).
  intros. split; [now apply stream_no_byte_lost_g | now apply stream_msgs_ok_g].
Qed.
Print Assumptions stream_no_byte_lost.

(* Execute with messages, for every outcome, every state of the process context and of the caller's context, every
   interleaving of the reads of the two pipes and every chunking: the log is  start message, then only lines of the
   child, then exactly one end message; per stream the child's lines are exactly the non-empty lines of what it wrote
   on that stream, in order; the end message is the success message iff the child exited with status 0. *)
Theorem execute_message_order : forall ctx pctx o evs,
  exists middle,
    execute G true ctx pctx o evs =
      (EStart :: middle ++ [end_entry G (execute_error G ctx pctx o)], execute_error G ctx pctx o) /\
    forallb is_line middle = true /\
    (ran o = true -> proj SOut middle = lines_of (sep G) (stream_bytes SOut evs) /\
                     proj SErr middle = lines_of (sep G) (stream_bytes SErr evs)) /\
    (end_entry G (execute_error G ctx pctx o) = EEndOk <-> o = Exited 0).
Proof.
  assert (A : adapter_ok G = true) by (vm_compute; reflexivity).
  assert (W : wiring_ok G = true) by (vm_compute; reflexivity).
  assert (E : exec_ok G = true) by (vm_compute; reflexivity).
  assert (X : exit_ok G = true) by (vm_compute; reflexivity).
  assert (I : io_ok G = true) by (vm_compute; reflexivity).
  intros ctx pctx o evs. exists (child_log G (if ran o then evs else [])).
  rewrite (execute_error_eq G I E). split; [now rewrite (execute_shape G I E)|].
  split; [apply child_log_lines|]. split.
  - intros ->. split; [now apply child_log_out | now apply child_log_err].
  - rewrite (end_entry_ok_iff G E). now apply exec_err_nil_iff.
Qed.
Print Assumptions execute_message_order.

(* Exit status: nil exactly for exit status 0 (whatever the contexts); every other outcome (status 1..255, death by any
   signal, failure to start) is an error; and it is of the kind of the PROCESS context (cancelled by the caller's
   context, its deadline, or Cancel()) whenever that context was done. *)
Theorem exit_status_mapping : forall ctx pctx o,
  (execute_error G ctx pctx o = ENil <-> o = Exited 0) /\
  (forall k, ctx = Some k -> o <> Exited 0 -> execute_error G ctx pctx o = ctx_kind k) /\
  (ctx = None -> execute_error G ctx pctx o = convert_process_error G o).
Proof.
  assert (E : exec_ok G = true) by (vm_compute; reflexivity).
  assert (X : exit_ok G = true) by (vm_compute; reflexivity).
  assert (I : io_ok G = true) by (vm_compute; reflexivity).
  intros ctx pctx o. rewrite (execute_error_eq G I E). split; [now apply exec_err_nil_iff|]. split.
  - intros k -> H. now apply exec_err_ctx.
  - intros ->. apply exec_err_noctx.
Qed.
Print Assumptions exit_status_mapping.

(* Output(): no start / end message; the caller's loggers get exactly the lines per stream; and the returned text,
   split into lines, is exactly the sequence of all logged lines (both streams, in the order they were logged),
   whatever the exit status. *)
Theorem output_returns_all : forall ctx pctx o evs,
  let '(text, log, e) := output G ctx pctx o evs in
  forallb is_line log = true /\
  (ran o = true -> proj SOut log = lines_of (sep G) (stream_bytes SOut evs) /\
                   proj SErr log = lines_of (sep G) (stream_bytes SErr evs)) /\
  lines_of 10 text = flat_map line_text log /\
  e = execute_error G ctx pctx o.
Proof.
  assert (A : adapter_ok G = true) by (vm_compute; reflexivity).
  assert (W : wiring_ok G = true) by (vm_compute; reflexivity).
  assert (E : exec_ok G = true) by (vm_compute; reflexivity).
  assert (O : output_ok G = true) by (vm_compute; reflexivity).
  assert (S : sep G = 10) by (vm_compute; reflexivity).
  assert (I : io_ok G = true) by (vm_compute; reflexivity).
  intros ctx pctx o evs. rewrite (output_shape G I E O), (execute_error_eq G I E).
  split; [apply child_log_lines|]. split.
  - intros ->. split; [now apply child_log_out | now apply child_log_err].
  - split; [|reflexivity]. apply linesof_output_text. rewrite <- S. now apply child_log_texts_ok.
Qed.
Print Assumptions output_returns_all.

(* ---- facts of the generated record which the six theorems do not need but the tie records ---- *)

(* Stop flushes the adapters after Wait as well (Start / Stop are outside the property) *)
Example gen_stop_flushes : stop_flush G = true.
Proof. vm_compute. reflexivity. Qed.

(* the public entry points taking the loggers / messages are exactly those harness/cmd/c18 drives one by one (the
   harness compares the generated list with its own table as well and fails closed) *)
Module EntryPoints.
Import String.
Example gen_entry_points_driven :
  gen_entry_points =
  ["Execute"; "ExecuteAs"; "ExecuteAsWithEnvironment"; "ExecuteWithEnvironment"; "ExecuteWithSudo"; "New";
   "NewWithEnvironment"; "Output"; "OutputAs"; "OutputAsWithEnvironment"; "OutputWithEnvironment"; "Subprocess.Setup";
   "Subprocess.SetupAs"; "Subprocess.SetupAsWithEnvironment"; "Subprocess.SetupWithEnvironment"]%string.
Proof. vm_compute. reflexivity. Qed.
End EntryPoints.

(* on linux the command leads its own process group and its Cancel hook kills that group (C05's concern; recorded) *)
Example gen_group_facts : own_group G = true /\ cancel_hook G = true.
Proof. split; vm_compute; reflexivity. Qed.

(* ConvertProcessError, as generated, on the outcomes the harness produces *)
Example gen_convert_table :
  map (convert_process_error G) [Exited 0; Exited 3; Signaled 9; Signaled 15; Signaled 2; StartCtx CtxCancelled;
                                 StartCtx CtxDeadline; StartNotFound; StartFailed] =
  [ENil; EExit 3; EProcessDone; EProcessDone; ESignal 2; ECancelled; ETimeout; ENotFound; EOther].
Proof. vm_compute. reflexivity. Qed.

(* ---- documentation of the repaired defect (D16): the adapter as it was, logging each chunk on its own ---- *)

Fact unbuffered_exact_when_aligned : forall sp chunks, Forall (aligned sp) chunks ->
  stream_log_nocarry sp chunks = lines_of sp (concat chunks).
Proof. exact nocarry_aligned_l. Qed.

Example unbuffered_adapter_splits_lines :
  stream_log_nocarry 10 [[97; 98]; [99; 10]] = [[97; 98]; [99]] /\
  lines_of 10 (concat [[97; 98]; [99; 10]]) = [[97; 98; 99]] /\
  stream_log G [[97; 98]; [99; 10]] = [[97; 98; 99]].
Proof. repeat split; vm_compute; reflexivity. Qed.

(* ---- the conditions are not vacuous, and they matter: records which violate one of them falsify the property ---- *)

Definition with_tail (F : facts) (t : list wop) : facts :=
  {| sep := sep F; loop_ops := loop_ops F; tail_ops := t; flush_ops := flush_ops F; lp_resets := lp_resets F;
     lp_drops_empty := lp_drops_empty F; lp_by_stream := lp_by_stream F; stdout_flag := stdout_flag F;
     stderr_flag := stderr_flag F; run_flush := run_flush F; stop_flush := stop_flush F; flush_streams := flush_streams F;
     run_converts := run_converts F; wait_delay_set := wait_delay_set F; cancel_hook := cancel_hook F;
     own_group := own_group F; exec_seq := exec_seq F; end_ok_iff_nil := end_ok_iff_nil F;
     output_plain := output_plain F; output_reads_always := output_reads_always F; conv_ctx_first := conv_ctx_first F;
     rules := rules F |}.

(* pending.Reset() before the carry-over: the beginning of a line which spans three reads is lost *)
Example reset_before_carry_loses_bytes :
  adapter_ok (with_tail G [WReset; WAppend]) = false /\
  stream_log (with_tail G [WReset; WAppend]) [[97; 98]; [99]; [10]] = [[99]].
Proof. split; vm_compute; reflexivity. Qed.

Example c18_nonvacuous_stream :
  stream_log G [[97; 10; 10; 98]; []; [99; 10; 100]; [101]] = [[97]; [98; 99]; [100; 101]].
Proof. vm_compute. reflexivity. Qed.

Example c18_nonvacuous_execute :
  execute G true None None (Exited 3) [(SOut, [97]); (SErr, [120; 10; 121]); (SOut, [98; 10])] =
  ([EStart; ELine SErr [120]; ELine SOut [97; 98]; ELine SErr [121]; EEndFail], EExit 3).
Proof. vm_compute. reflexivity. Qed.

Example c18_nonvacuous_cancel :
  execute G true (Some CtxCancelled) None (Signaled 9) [(SOut, [97; 10; 98])] =
  ([EStart; ELine SOut [97]; ELine SOut [98]; EEndFail], ECancelled).
Proof. vm_compute. reflexivity. Qed.

Example c18_nonvacuous_output :
  output G None None (Exited 0) [(SOut, [97; 10]); (SErr, [98; 10]); (SOut, [99])] =
  ([97; 10; 98; 10; 99; 10], [ELine SOut [97]; ELine SErr [98]; ELine SOut [99]], ENil).
Proof. vm_compute. reflexivity. Qed.
