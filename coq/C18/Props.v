(* C18 — Subprocess results are faithful: exit status and every output line.
   Property theorems only (each closed by a lemma of Proofs.v, followed by Print Assumptions).
   Model: GU.C18.Model — logging.go (logStreamer Write/Flush, as repaired by the fix "subprocess output lines are no
   longer split across pipe reads"), command_wrapper.go (Run + flushOutput, ConvertCommandError), proc/errors.go,
   messaging.go (LogStart/LogEnd), executor.go (Execute, as repaired by the fix "Execute reports a context error ...",
   OutputAsWithEnvironment). Tied to the code by harness/cmd/c18 (chunk scripts through the hook, real children). *)
From Coq Require Import List ZArith Bool.
Import ListNotations.
From GU Require Import C18.Model C18.Proofs.
Local Open Scope Z_scope.

(* THE line property: for EVERY list of chunks (= every way the pipe reads / the child's writes cut the stream: any
   volume, any line length, cuts at arbitrary byte offsets, final line with or without newline) the adapter, once
   flushed, has logged exactly the non-empty lines of the stream: complete, unmodified, in order. *)
Theorem stream_lines_exact : forall chunks, stream_log chunks = lines_of (concat chunks).
Proof. exact stream_lines_exact_l. Qed.
Print Assumptions stream_lines_exact.

(* Hence two chunkings of the same bytes are logged identically. *)
Theorem chunking_irrelevant : forall c1 c2, concat c1 = concat c2 -> stream_log c1 = stream_log c2.
Proof. exact chunking_irrelevant_l. Qed.
Print Assumptions chunking_irrelevant.

(* No byte is lost or invented: the concatenation of the messages is the stream with the separators removed; no message
   contains a separator; no message is empty. *)
Theorem stream_no_byte_lost : forall chunks,
  concat (stream_log chunks) = strip_nl (concat chunks) /\
  Forall (fun m => no_nl m /\ m <> []) (stream_log chunks).
Proof. intros. split; [apply stream_no_byte_lost_l | apply stream_msgs_ok_l]. Qed.
Print Assumptions stream_no_byte_lost.

(* Execute with messages, for every outcome, every context state, every interleaving of the reads of the two pipes and
   every chunking: the log is  start message, then only lines of the child, then exactly one end message;
   per stream the child's lines are exactly the non-empty lines of what it wrote on that stream, in order;
   the end message is the success message iff the child exited with status 0. *)
Theorem execute_message_order : forall ctx o evs,
  exists middle,
    execute true ctx o evs = (EStart :: middle ++ [end_entry (execute_error ctx o)], execute_error ctx o) /\
    forallb is_line middle = true /\
    (ran o = true -> proj SOut middle = lines_of (stream_bytes SOut evs) /\
                     proj SErr middle = lines_of (stream_bytes SErr evs)) /\
    (end_entry (execute_error ctx o) = EEndOk <-> o = Exited 0).
Proof.
  intros ctx o evs. exists (child_log (if ran o then evs else [])).
  split; [apply execute_middle|]. split; [apply child_log_lines|]. split.
  - intros ->. split; [apply child_log_out | apply child_log_err].
  - rewrite end_entry_ok_iff. apply execute_error_nil_iff.
Qed.
Print Assumptions execute_message_order.

(* Exit status: nil exactly for exit status 0 (whatever the context); every other outcome (status 1..255, death by any
   signal, failure to start) is an error; and it is of the context's kind whenever the context was done. *)
Theorem exit_status_mapping : forall ctx o,
  (execute_error ctx o = ENil <-> o = Exited 0) /\
  (forall k, ctx = Some k -> o <> Exited 0 ->
     execute_error ctx o = match k with CtxCancelled => ECancelled | CtxDeadline => ETimeout end) /\
  (ctx = None -> execute_error ctx o = convert_process_error o).
Proof.
  intros ctx o. split; [apply execute_error_nil_iff|]. split.
  - intros k -> H. now apply execute_error_ctx.
  - intros ->. apply execute_error_noctx.
Qed.
Print Assumptions exit_status_mapping.

(* Output(): no start / end message; the caller's loggers get exactly the lines per stream; and the returned text,
   split into lines, is exactly the sequence of all logged lines (both streams, in the order they were logged). *)
Theorem output_returns_all : forall ctx o evs,
  let '(text, log, e) := output ctx o evs in
  forallb is_line log = true /\
  (ran o = true -> proj SOut log = lines_of (stream_bytes SOut evs) /\
                   proj SErr log = lines_of (stream_bytes SErr evs)) /\
  lines_of text = flat_map line_text log /\
  e = execute_error ctx o.
Proof.
  intros ctx o evs. rewrite output_shape.
  split; [apply child_log_lines|]. split.
  - intros ->. split; [apply child_log_out | apply child_log_err].
  - split; [|reflexivity]. apply lines_of_output_text. apply child_log_texts_ok.
Qed.
Print Assumptions output_returns_all.

(* ---- documentation of the repaired defect (D16): the adapter as it was, logging each chunk on its own ---- *)

(* it was exact only when every chunk ended at a line boundary ... *)
Fact unbuffered_exact_when_aligned : forall chunks, Forall aligned chunks ->
  stream_log_nocarry chunks = lines_of (concat chunks).
Proof. exact nocarry_aligned_l. Qed.

(* ... and split the line "abc" written as "ab" then "c\n" into two messages (the witness replayed by the harness). *)
Example unbuffered_adapter_splits_lines :
  stream_log_nocarry [[97; 98]; [99; 10]] = [[97; 98]; [99]] /\
  lines_of (concat [[97; 98]; [99; 10]]) = [[97; 98; 99]] /\
  stream_log [[97; 98]; [99; 10]] = [[97; 98; 99]].
Proof. repeat split; reflexivity. Qed.

(* ---- non-vacuity ---- *)
Example c18_nonvacuous_stream :
  stream_log [[97; 10; 10; 98]; []; [99; 10; 100]; [101]] = [[97]; [98; 99]; [100; 101]].
Proof. reflexivity. Qed.

Example c18_nonvacuous_execute :
  execute true None (Exited 3) [(SOut, [97]); (SErr, [120; 10; 121]); (SOut, [98; 10])] =
  ([EStart; ELine SErr [120]; ELine SOut [97; 98]; ELine SErr [121]; EEndFail], EExit 3).
Proof. reflexivity. Qed.

Example c18_nonvacuous_cancel :
  execute true (Some CtxCancelled) (Signaled 9) [(SOut, [97; 10; 98])] =
  ([EStart; ELine SOut [97]; ELine SOut [98]; EEndFail], ECancelled).
Proof. reflexivity. Qed.

Example c18_nonvacuous_output :
  output None (Exited 0) [(SOut, [97; 10]); (SErr, [98; 10]); (SOut, [99])] =
  ([97; 10; 98; 10; 99; 10], [ELine SOut [97]; ELine SErr [98]; ELine SOut [99]], ENil).
Proof. reflexivity. Qed.
