(* C18 — lemmas. Part 1 (Section Ref): facts about splitting on an arbitrary separator byte [sp] and the byte-by-byte
   machine [feed]. Part 2 (Section Bridge): for every record of facts F with adapter_ok F, the interpreted adapter of
   Model.v IS that machine; hence it logs exactly the non-empty lines whatever the chunking. Part 3: Execute, exit
   status and Output for every F satisfying wiring_ok / exec_ok / exit_ok / output_ok. *)
From Coq Require Import List ZArith Bool Lia.
Import ListNotations.
From GU Require Import C18.Model.
Local Open Scope Z_scope.

Section Ref.
Variable sp : Z.

(* logPending of the repaired adapter: logs the pending line unless it is empty *)
Definition log_pending (pend : bytes) : list bytes := if nonempty pend then [pend] else [].

(* ---------- split_on sp ---------- *)

Lemma spliton_nonnil : forall s, split_on sp s <> [].
Proof.
  induction s as [|c r IH]; simpl; [discriminate|].
  destruct (c =? sp); [discriminate|]. destruct (split_on sp r); discriminate.
Qed.

Lemma spliton_cons_nl : forall r, split_on sp (sp :: r) = [] :: split_on sp r.
Proof. intros. simpl. now rewrite Z.eqb_refl. Qed.

Lemma spliton_cons_other : forall c r, (c =? sp) = false ->
  exists p ps, split_on sp r = p :: ps /\ split_on sp (c :: r) = (c :: p) :: ps.
Proof.
  intros c r H. simpl. rewrite H. destruct (split_on sp r) as [|p ps] eqn:E.
  - exfalso. eapply spliton_nonnil; eauto.
  - eauto.
Qed.

(* ---------- the byte-by-byte machine ---------- *)

Fixpoint feed (pend : bytes) (s : bytes) : list bytes * bytes :=
  match s with
  | [] => ([], pend)
  | c :: r => if c =? sp then let '(o, p) := feed [] r in (log_pending pend ++ o, p)
              else feed (pend ++ [c]) r
  end.

Lemma feed_app : forall a b pend,
  feed pend (a ++ b) = let '(o1, p1) := feed pend a in let '(o2, p2) := feed p1 b in (o1 ++ o2, p2).
Proof.
  induction a as [|c r IH]; intros b pend; simpl.
  - destruct (feed pend b); reflexivity.
  - destruct (c =? sp).
    + rewrite IH. destruct (feed [] r) as [o1 p1]. destruct (feed p1 b) as [o2 p2]. now rewrite app_assoc.
    + apply IH.
Qed.

(* ---------- feed + flush = the non-empty lines ---------- *)

Definition prepend (pend : bytes) (ps : list bytes) : list bytes :=
  match ps with [] => [pend] | p :: r => (pend ++ p) :: r end.

Lemma log_pending_filter : forall p, log_pending p = filter nonempty [p].
Proof. intros p. unfold log_pending. simpl. now destruct (nonempty p). Qed.

Lemma feed_lines : forall s pend,
  fst (feed pend s) ++ log_pending (snd (feed pend s)) = filter nonempty (prepend pend (split_on sp s)).
Proof.
  induction s as [|c r IH]; intros pend.
  - simpl. rewrite app_nil_r. unfold log_pending. now destruct (nonempty pend).
  - destruct (c =? sp) eqn:E.
    + apply Z.eqb_eq in E. subst c. rewrite spliton_cons_nl. simpl feed. rewrite Z.eqb_refl. simpl.
      specialize (IH []). destruct (feed [] r) as [o p]. simpl in *.
      rewrite app_nil_r, <- app_assoc, IH.
      destruct (split_on sp r) as [|q qs] eqn:S; [exfalso; eapply spliton_nonnil; eauto|].
      simpl. unfold log_pending. now destruct (nonempty pend).
    + destruct (spliton_cons_other c r E) as (q & qs & S & S'). rewrite S'. simpl feed. rewrite E.
      rewrite IH, S. simpl. now rewrite <- app_assoc.
Qed.

Lemma prepend_nil : forall s, prepend [] (split_on sp s) = split_on sp s.
Proof. intros s. destruct (split_on sp s) eqn:E; [exfalso; eapply spliton_nonnil; eauto|reflexivity]. Qed.

(* ---------- no byte lost, no separator inside a message, no empty message ---------- *)

Definition no_nl (b : bytes) : Prop := ~ In sp b.
Definition strip_nl (s : bytes) : bytes := filter (fun c => negb (c =? sp)) s.

Lemma feed_bytes : forall s pend,
  concat (fst (feed pend s)) ++ snd (feed pend s) = pend ++ strip_nl s.
Proof.
  induction s as [|c r IH]; intros pend; simpl.
  - now rewrite app_nil_r.
  - destruct (c =? sp) eqn:E; simpl.
    + specialize (IH []). destruct (feed [] r) as [o p]. simpl in *.
      rewrite concat_app, <- app_assoc, IH. unfold log_pending. destruct (nonempty pend) eqn:N; simpl.
      * now rewrite app_nil_r.
      * destruct pend; [reflexivity|discriminate].
    + rewrite IH, <- app_assoc. reflexivity.
Qed.

Lemma log_pending_concat : forall p, concat (log_pending p) = p.
Proof. intros [|x p]; simpl; [reflexivity|now rewrite app_nil_r]. Qed.

Lemma feed_msgs_ok : forall s pend, no_nl pend ->
  Forall (fun m => no_nl m /\ m <> []) (fst (feed pend s)) /\ no_nl (snd (feed pend s)).
Proof.
  induction s as [|c r IH]; intros pend Hp; simpl.
  - split; [constructor|exact Hp].
  - destruct (c =? sp) eqn:E.
    + destruct (IH [] (fun H => H)) as [F N]. destruct (feed [] r) as [o p]. simpl in *. split; [|exact N].
      apply Forall_app. split; [|exact F]. unfold log_pending. destruct (nonempty pend) eqn:Ne; constructor; [|constructor].
      split; [exact Hp|]. intros ->. discriminate.
    + apply IH. intros H. apply in_app_or in H. destruct H as [H|[H|[]]]; [now apply Hp|].
      subst c. now rewrite Z.eqb_refl in E.
Qed.

(* ---------- the adapter before the fix: exact only when chunks end at line boundaries ---------- *)

Lemma feed_cons_sep : forall pend b,
  feed pend (sp :: b) = let '(o, p) := feed [] b in (log_pending pend ++ o, p).
Proof. intros. simpl. now rewrite Z.eqb_refl. Qed.

Lemma linesof_app_nl : forall a b, lines_of sp (a ++ sp :: b) = lines_of sp a ++ lines_of sp b.
Proof.
  intros a b. unfold lines_of.
  pose proof (feed_lines (a ++ sp :: b) []) as H. rewrite prepend_nil in H. rewrite <- H. clear H.
  rewrite feed_app.
  pose proof (feed_lines a []) as Ha. rewrite prepend_nil in Ha.
  pose proof (feed_lines b []) as Hb. rewrite prepend_nil in Hb.
  destruct (feed [] a) as [o1 p1]. rewrite feed_cons_sep. destruct (feed [] b) as [o2 p2]. simpl in *.
  rewrite <- Ha, <- Hb. now rewrite <- !app_assoc.
Qed.

Definition aligned (c : bytes) : Prop := c = [] \/ exists a, c = a ++ [sp].

Lemma linesof_nil : lines_of sp [] = [].
Proof. reflexivity. Qed.

Lemma nocarry_aligned_l : forall chunks, Forall aligned chunks ->
  stream_log_nocarry sp chunks = lines_of sp (concat chunks).
Proof.
  induction 1 as [|c cs Hc _ IH]; [reflexivity|].
  simpl. rewrite IH. 
  destruct Hc as [->|[a ->]]; [reflexivity|].
  rewrite <- app_assoc. simpl. rewrite !linesof_app_nl. simpl. now rewrite app_nil_r.
Qed.


Lemma spliton_line : forall m rest, no_nl m ->
  split_on sp (m ++ sp :: rest) = m :: split_on sp rest.
Proof.
  induction m as [|c r IH]; intros rest H; [simpl; now rewrite Z.eqb_refl|].
  assert (E : (c =? sp) = false). { apply Z.eqb_neq. intros ->. apply H. now left. }
  simpl. rewrite E. rewrite IH; [reflexivity|]. intros X. apply H. now right.
Qed.

End Ref.

Definition line_text (e : entry) : list bytes := match e with ELine _ m => [m] | _ => [] end.

Lemma linesof_output_text : forall log,
  Forall (fun m => no_nl 10 m /\ m <> []) (flat_map line_text log) ->
  lines_of 10 (output_text log) = flat_map line_text log.
Proof.
  induction log as [|e r IH]; intros H; [reflexivity|].
  destruct e as [|s m| |]; simpl in *; try (now apply IH).
  inversion H as [|x l [Hn Hne] Hr]; subst. rewrite <- app_assoc. simpl.
  unfold lines_of. rewrite (spliton_line 10) by exact Hn. simpl.
  destruct m; [congruence|]. simpl. f_equal. now apply IH.
Qed.



(* ====================================================================================================================
   Part 2: the interpreted adapter of a record of facts satisfying adapter_ok is the byte machine *)

Lemma wops_eqb_eq : forall a b, wops_eqb a b = true -> a = b.
Proof.
  induction a as [|x xs IH]; destruct b as [|y ys]; simpl; intros H; try discriminate; [reflexivity|].
  apply andb_prop in H. destruct H as [H1 H2]. f_equal; [destruct x, y; simpl in H1; congruence | now apply IH].
Qed.

Section Bridge.
Variable F : facts.
Hypothesis HA : adapter_ok F = true.

Lemma adapter_fields :
  loop_ops F = [WAppend; WLogPending] /\ tail_ops F = [WAppend] /\ flush_ops F = [WLogPending] /\
  lp_resets F = true /\ lp_drops_empty F = true.
Proof.
  pose proof HA as H. unfold adapter_ok in H. repeat (apply andb_prop in H; destruct H as [H ?]).
  repeat split; first [assumption | apply wops_eqb_eq; assumption].
Qed.

Lemma lp_msgs_eq : forall pend, lp_msgs F pend = log_pending pend.
Proof.
  intros pend. destruct adapter_fields as (_ & _ & _ & _ & D). unfold lp_msgs, log_pending. rewrite D.
  now destruct pend.
Qed.

Lemma lp_next_eq : forall pend, lp_next F pend = [].
Proof. intros. destruct adapter_fields as (_ & _ & _ & R & _). unfold lp_next. now rewrite R. Qed.

Lemma loop_step : forall p out pend,
  run_ops F (loop_ops F) p (out, pend) = (out ++ log_pending (pend ++ p), []).
Proof.
  intros. destruct adapter_fields as (L & _). rewrite L. simpl. now rewrite lp_msgs_eq, lp_next_eq.
Qed.

Lemma tail_step : forall p out pend, run_ops F (tail_ops F) p (out, pend) = (out, pend ++ p).
Proof. intros. destruct adapter_fields as (_ & T & _). rewrite T. reflexivity. Qed.

Lemma flush_eq : forall pend, flush F pend = (log_pending pend, []).
Proof.
  intros. destruct adapter_fields as (_ & _ & Fl & _). unfold flush. rewrite Fl. simpl.
  now rewrite lp_msgs_eq, lp_next_eq.
Qed.

Lemma write_pieces_feed : forall s out pend,
  write_pieces F (out, pend) (split_on (sep F) s) =
  (out ++ fst (feed (sep F) pend s), snd (feed (sep F) pend s)).
Proof.
  induction s as [|c r IH]; intros out pend.
  - simpl. rewrite tail_step. now rewrite !app_nil_r.
  - destruct (c =? sep F) eqn:E.
    + apply Z.eqb_eq in E. subst c. rewrite spliton_cons_nl, feed_cons_sep.
      destruct (split_on (sep F) r) as [|q qs] eqn:S; [exfalso; eapply spliton_nonnil; eauto|].
      change (write_pieces F (out, pend) ([] :: q :: qs)) with
        (write_pieces F (run_ops F (loop_ops F) [] (out, pend)) (q :: qs)).
      rewrite loop_step, app_nil_r, IH. destruct (feed (sep F) [] r). simpl. now rewrite app_assoc.
    + destruct (spliton_cons_other (sep F) c r E) as (q & qs & S & S'). rewrite S'.
      simpl feed. rewrite E. specialize (IH out (pend ++ [c])). rewrite S in IH. rewrite <- IH.
      destruct qs as [|q' qs'].
      * simpl. rewrite !tail_step. now rewrite <- app_assoc.
      * change (write_pieces F (out, pend) ((c :: q) :: q' :: qs')) with
          (write_pieces F (run_ops F (loop_ops F) (c :: q) (out, pend)) (q' :: qs')).
        change (write_pieces F (out, pend ++ [c]) (q :: q' :: qs')) with
          (write_pieces F (run_ops F (loop_ops F) q (out, pend ++ [c])) (q' :: qs')).
        rewrite !loop_step. now rewrite <- app_assoc.
Qed.

(* logStreamer.Write is the byte-by-byte machine run over the chunk. *)
Lemma write_chunk_feed : forall p pend, write_chunk F pend p = feed (sep F) pend p.
Proof. intros. unfold write_chunk. rewrite write_pieces_feed. now destruct (feed (sep F) pend p). Qed.

Lemma write_stream_feed : forall chunks pend, write_stream F pend chunks = feed (sep F) pend (concat chunks).
Proof.
  induction chunks as [|c cs IH]; intros pend; simpl; [reflexivity|].
  rewrite feed_app, write_chunk_feed. destruct (feed (sep F) pend c) as [o1 p1]. now rewrite IH.
Qed.

Lemma stream_log_feed : forall chunks,
  stream_log F chunks = fst (feed (sep F) [] (concat chunks)) ++ log_pending (snd (feed (sep F) [] (concat chunks))).
Proof.
  intros. unfold stream_log. rewrite write_stream_feed. destruct (feed (sep F) [] (concat chunks)).
  now rewrite flush_eq.
Qed.

(* THE property of the adapter: whatever the chunking, exactly the non-empty lines, complete, in order. *)
Lemma stream_lines_exact_g : forall chunks, stream_log F chunks = lines_of (sep F) (concat chunks).
Proof. intros. rewrite stream_log_feed, feed_lines, prepend_nil. reflexivity. Qed.

Lemma chunking_irrelevant_g : forall c1 c2, concat c1 = concat c2 -> stream_log F c1 = stream_log F c2.
Proof. intros. rewrite !stream_lines_exact_g. now f_equal. Qed.

Lemma stream_no_byte_lost_g : forall chunks, concat (stream_log F chunks) = strip_nl (sep F) (concat chunks).
Proof. intros. rewrite stream_log_feed, concat_app, log_pending_concat. now rewrite feed_bytes. Qed.

Lemma stream_msgs_ok_g : forall chunks, Forall (fun m => no_nl (sep F) m /\ m <> []) (stream_log F chunks).
Proof.
  intros. rewrite stream_log_feed. destruct (feed_msgs_ok (sep F) (concat chunks) [] (fun H => H)) as [Fo N].
  apply Forall_app. split; [exact Fo|]. unfold log_pending.
  destruct (nonempty (snd (feed (sep F) [] (concat chunks)))) eqn:E; constructor; [|constructor].
  split; [exact N|]. intros H. rewrite H in E. discriminate.
Qed.

Lemma lines_of_ok : forall s, Forall (fun m => no_nl (sep F) m /\ m <> []) (lines_of (sep F) s).
Proof.
  intros s. replace s with (concat [s]) by (simpl; apply app_nil_r).
  rewrite <- stream_lines_exact_g. apply stream_msgs_ok_g.
Qed.

(* ---------- the two adapters of a command ---------- *)

Hypothesis HW : wiring_ok F = true.

Lemma wiring_fields :
  out_route F = SOut /\ err_route F = SErr /\ run_flush F = true /\
  (flush_streams F = [SOut; SErr] \/ flush_streams F = [SErr; SOut]).
Proof.
  pose proof HW as H. unfold wiring_ok in H. repeat (apply andb_prop in H; destruct H as [H ?]).
  unfold out_route, err_route, route. rewrite H.
  destruct (stdout_flag F); [discriminate|]. destruct (stderr_flag F); [|discriminate].
  repeat split; try assumption.
  destruct (flush_streams F) as [|[|] [|[|] [|? ?]]]; try discriminate; auto.
Qed.

Lemma proj_app : forall s a b, proj s (a ++ b) = proj s a ++ proj s b.
Proof. intros. unfold proj. now rewrite flat_map_app. Qed.

Lemma proj_tag_same : forall s ms, proj s (tag s ms) = ms.
Proof. intros s ms. induction ms as [|m r IH]; [reflexivity|]. destruct s; simpl in *; now rewrite IH. Qed.

Lemma proj_tag_other : forall s t ms, s <> t -> proj s (tag t ms) = [].
Proof.
  intros s t ms H. induction ms as [|m r IH]; [reflexivity|].
  destruct s, t; simpl in *; try congruence; exact IH.
Qed.

Lemma run_events_out : forall evs a,
  proj SOut (fst (run_events F a evs)) = fst (feed (sep F) (fst a) (stream_bytes SOut evs)) /\
  fst (snd (run_events F a evs)) = snd (feed (sep F) (fst a) (stream_bytes SOut evs)).
Proof.
  destruct wiring_fields as (Ro & Re & _).
  induction evs as [|[s p] r IH]; intros [po pe]; [simpl; auto|].
  simpl run_events. destruct s; simpl write_event; rewrite ?Ro, ?Re.
  - rewrite write_chunk_feed. simpl stream_bytes. rewrite feed_app. cbn [fst snd].
    destruct (feed (sep F) po p) as [ms po'] eqn:Fe. specialize (IH (po', pe)). simpl in IH.
    destruct (run_events F (po', pe) r) as [o2 a2]. simpl in *.
    destruct (feed (sep F) po' (stream_bytes SOut r)) as [o3 p3]. simpl in *. destruct IH as [I1 I2].
    rewrite proj_app, proj_tag_same, I1. auto.
  - rewrite write_chunk_feed. simpl stream_bytes.
    destruct (feed (sep F) pe p) as [ms pe'] eqn:Fe. specialize (IH (po, pe')). simpl in IH.
    destruct (run_events F (po, pe') r) as [o2 a2]. simpl in *. destruct IH as [I1 I2].
    rewrite proj_app, proj_tag_other by discriminate. auto.
Qed.

Lemma run_events_err : forall evs a,
  proj SErr (fst (run_events F a evs)) = fst (feed (sep F) (snd a) (stream_bytes SErr evs)) /\
  snd (snd (run_events F a evs)) = snd (feed (sep F) (snd a) (stream_bytes SErr evs)).
Proof.
  destruct wiring_fields as (Ro & Re & _).
  induction evs as [|[s p] r IH]; intros [po pe]; [simpl; auto|].
  simpl run_events. destruct s; simpl write_event; rewrite ?Ro, ?Re.
  - rewrite write_chunk_feed. simpl stream_bytes.
    destruct (feed (sep F) po p) as [ms po'] eqn:Fe. specialize (IH (po', pe)). simpl in IH.
    destruct (run_events F (po', pe) r) as [o2 a2]. simpl in *. destruct IH as [I1 I2].
    rewrite proj_app, proj_tag_other by discriminate. auto.
  - rewrite write_chunk_feed. simpl stream_bytes. rewrite feed_app. cbn [fst snd].
    destruct (feed (sep F) pe p) as [ms pe'] eqn:Fe. specialize (IH (po, pe')). simpl in IH.
    destruct (run_events F (po, pe') r) as [o2 a2]. simpl in *.
    destruct (feed (sep F) pe' (stream_bytes SErr r)) as [o3 p3]. simpl in *. destruct IH as [I1 I2].
    rewrite proj_app, proj_tag_same, I1. auto.
Qed.

Lemma flush_output_out : forall a, proj SOut (flush_output F a) = log_pending (fst a).
Proof.
  intros a. destruct wiring_fields as (Ro & Re & Rf & [S|S]); unfold flush_output; rewrite Rf, S; simpl;
    rewrite Ro, Re, !flush_eq; simpl; rewrite ?app_nil_r, proj_app, proj_tag_same, proj_tag_other by discriminate;
    now rewrite ?app_nil_r.
Qed.

Lemma flush_output_err : forall a, proj SErr (flush_output F a) = log_pending (snd a).
Proof.
  intros a. destruct wiring_fields as (Ro & Re & Rf & [S|S]); unfold flush_output; rewrite Rf, S; simpl;
    rewrite Ro, Re, !flush_eq; simpl; rewrite ?app_nil_r, proj_app, proj_tag_same, proj_tag_other by discriminate;
    now rewrite ?app_nil_r.
Qed.

(* Everything the two adapters log during one run, flushed: per stream exactly the non-empty lines of that stream,
   for every interleaving of the reads of the two pipes and every chunking. *)
Lemma child_log_out : forall evs, proj SOut (child_log F evs) = lines_of (sep F) (stream_bytes SOut evs).
Proof.
  intros. unfold child_log. destruct (run_events_out evs ([], [])) as [H1 H2].
  destruct (run_events F ([], []) evs) as [logged a]. simpl in *.
  rewrite proj_app, flush_output_out, H1, H2, feed_lines, prepend_nil. reflexivity.
Qed.

Lemma child_log_err : forall evs, proj SErr (child_log F evs) = lines_of (sep F) (stream_bytes SErr evs).
Proof.
  intros. unfold child_log. destruct (run_events_err evs ([], [])) as [H1 H2].
  destruct (run_events F ([], []) evs) as [logged a]. simpl in *.
  rewrite proj_app, flush_output_err, H1, H2, feed_lines, prepend_nil. reflexivity.
Qed.

Lemma tag_is_line : forall s ms, forallb is_line (tag s ms) = true.
Proof. induction ms; simpl; auto. Qed.

Lemma run_events_lines : forall evs a, forallb is_line (fst (run_events F a evs)) = true.
Proof.
  induction evs as [|[s p] r IH]; intros a; [reflexivity|]. simpl run_events.
  destruct s; simpl write_event.
  - destruct (write_chunk F (fst a) p) as [ms po]. specialize (IH (po, snd a)).
    destruct (run_events F (po, snd a) r). simpl in *. now rewrite forallb_app, tag_is_line.
  - destruct (write_chunk F (snd a) p) as [ms pe]. specialize (IH (fst a, pe)).
    destruct (run_events F (fst a, pe) r). simpl in *. now rewrite forallb_app, tag_is_line.
Qed.

Lemma flush_output_lines : forall a, forallb is_line (flush_output F a) = true.
Proof.
  intros a. unfold flush_output. destruct (run_flush F); [|reflexivity].
  induction (flush_streams F) as [|s r IH]; [reflexivity|]. simpl. rewrite forallb_app, IH.
  destruct s; simpl; now rewrite tag_is_line.
Qed.

Lemma child_log_lines : forall evs, forallb is_line (child_log F evs) = true.
Proof.
  intros. unfold child_log. pose proof (run_events_lines evs ([], [])) as H.
  destruct (run_events F ([], []) evs) as [logged a]. simpl in *.
  now rewrite forallb_app, H, flush_output_lines.
Qed.

Lemma in_line_proj : forall log s m, In (ELine s m) log -> In m (proj s log).
Proof.
  induction log as [|e r IH]; intros s m H; [destruct H|].
  unfold proj. cbn [flat_map]. apply in_or_app.
  destruct H as [->|H]; [left; destruct s; simpl; auto|right; apply IH; exact H].
Qed.

Lemma child_log_texts_ok : forall evs,
  Forall (fun m => no_nl (sep F) m /\ m <> []) (flat_map line_text (child_log F evs)).
Proof.
  intros evs. apply Forall_forall. intros m H. apply in_flat_map in H. destruct H as (e & He & Hm).
  destruct e as [|s x| |]; simpl in Hm; try contradiction. destruct Hm as [->|[]].
  apply in_line_proj in He.
  destruct s; [rewrite child_log_out in He | rewrite child_log_err in He];
    eapply Forall_forall in He; try apply lines_of_ok; exact He.
Qed.

End Bridge.

(* ====================================================================================================================
   Part 3: Execute, exit status, Output *)

Lemma xops_eqb_eq : forall a b, xops_eqb a b = true -> a = b.
Proof.
  induction a as [|x xs IH]; destruct b as [|y ys]; simpl; intros H; try discriminate; [reflexivity|].
  apply andb_prop in H. destruct H as [H1 H2]. f_equal; [|now apply IH].
  destruct x as [| |[|]|], y as [| |[|]|]; simpl in H1; congruence.
Qed.

Section Exec.
Variable F : facts.
Hypothesis HI : io_ok F = true.

Lemma no_wait_delay : wait_delay_set F = false.
Proof. pose proof HI as H. unfold io_ok in H. now destruct (wait_delay_set F). Qed.

Lemma delivered_eq : forall o evs, delivered F o evs = if ran o then evs else [].
Proof. intros. unfold delivered. rewrite no_wait_delay. now destruct (ran o). Qed.

(* ---------- exit status: ConvertProcessError ---------- *)

Lemma base_kind_nil_iff : forall o, base_kind F o = ENil <-> o = Exited 0.
Proof.
  intros o; split.
  - destruct o as [c|s|k| |]; simpl; rewrite ?no_wait_delay; try discriminate.
    + destruct (c =? 0) eqn:E; [apply Z.eqb_eq in E; now subst|discriminate].
    + destruct (conv_ctx_first F); [destruct k|]; discriminate.
  - intros ->. simpl. now rewrite no_wait_delay.
Qed.

Lemma apply_rules_nil_iff : forall rs o, forallb rule_ok rs = true ->
  (apply_rules F rs o = ENil <-> o = Exited 0).
Proof.
  induction rs as [|[c a] r IH]; intros o H; [apply base_kind_nil_iff|].
  simpl in H. apply andb_prop in H. destruct H as [Hr H]. simpl.
  destruct (cond_holds F c o) eqn:C; [|now apply IH].
  destruct c, o; simpl in C; rewrite ?no_wait_delay, ?andb_false_r, ?andb_true_r in C; try discriminate.
  - (* err == nil, Exited with status 0 *)
    apply Z.eqb_eq in C. subst code.
    destruct a; simpl in Hr; try discriminate; simpl; rewrite ?no_wait_delay; split; auto.
  - (* signal text *)
    destruct a; simpl in Hr; try discriminate; simpl; split; intros X; discriminate.
  - (* exec.ErrNotFound *)
    destruct a; simpl in Hr; try discriminate; simpl; split; intros X; discriminate.
Qed.

Hypothesis HX : exit_ok F = true.

Lemma convert_nil_iff : forall o, convert_process_error F o = ENil <-> o = Exited 0.
Proof.
  intros o. unfold convert_process_error. destruct (run_converts F); [|apply base_kind_nil_iff].
  apply apply_rules_nil_iff. exact HX.
Qed.

(* ---------- Execute ---------- *)

Hypothesis HE : exec_ok F = true.

Lemma exec_fields : exec_seq F = [XLogStart; XRun; XCtxOverride CtxProcess; XLogEnd] /\ end_ok_iff_nil F = true.
Proof.
  pose proof HE as H. unfold exec_ok in H. apply andb_prop in H. destruct H as [H1 H2].
  split; [now apply xops_eqb_eq|assumption].
Qed.

(* the error Execute returns *)
Definition exec_err (ctx : option ctxk) (o : outcome) : errk :=
  match convert_process_error F o with
  | ENil => ENil
  | e => match ctx with Some k => ctx_kind k | None => e end
  end.

Lemma execute_shape : forall wm ctx pctx o evs,
  execute F wm ctx pctx o evs =
  ((if wm then [EStart] else []) ++ child_log F (if ran o then evs else []) ++
   (if wm then [end_entry F (exec_err ctx o)] else []), exec_err ctx o).
Proof.
  intros. destruct exec_fields as [S _]. unfold execute. rewrite S. simpl. unfold exec_err.
  now rewrite delivered_eq, <- app_assoc.
Qed.

Lemma execute_error_eq : forall ctx pctx o, execute_error F ctx pctx o = exec_err ctx o.
Proof. intros. unfold execute_error. now rewrite execute_shape. Qed.

Lemma exec_err_nil_iff : forall ctx o, exec_err ctx o = ENil <-> o = Exited 0.
Proof.
  intros ctx o. rewrite <- convert_nil_iff. unfold exec_err.
  destruct (convert_process_error F o) eqn:E; split; intros H; try reflexivity; try discriminate;
    destruct ctx as [[|]|]; discriminate.
Qed.

Lemma exec_err_ctx : forall k o, o <> Exited 0 -> exec_err (Some k) o = ctx_kind k.
Proof.
  intros k o H. unfold exec_err.
  destruct (convert_process_error F o) eqn:E; try reflexivity.
  apply convert_nil_iff in E. contradiction.
Qed.

Lemma exec_err_noctx : forall o, exec_err None o = convert_process_error F o.
Proof. intros o. unfold exec_err. now destruct (convert_process_error F o). Qed.

Lemma end_entry_ok_iff : forall e, end_entry F e = EEndOk <-> e = ENil.
Proof.
  intros e. destruct exec_fields as [_ N]. unfold end_entry. rewrite N.
  destruct e; simpl; split; intros H; try reflexivity; discriminate.
Qed.

(* ---------- Output ---------- *)

Hypothesis HO : output_ok F = true.

Lemma output_shape : forall ctx pctx o evs,
  output F ctx pctx o evs =
  (output_text (child_log F (if ran o then evs else [])), child_log F (if ran o then evs else []), exec_err ctx o).
Proof.
  intros. pose proof HO as H. unfold output_ok in H. apply andb_prop in H. destruct H as [H1 H2].
  unfold output. rewrite execute_shape, H1, H2. simpl. now rewrite app_nil_r.
Qed.

End Exec.
