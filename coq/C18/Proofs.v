(* C18 — lemmas about the model of the subprocess output adapter and of Execute / Output (GU.C18.Model).
   Route: the adapter's Write (split the chunk on '\n', complete the pending line with the first piece, log every
   terminated piece, carry the last one) is shown equal to a byte-by-byte machine [feed]; [feed] trivially does not see
   chunk boundaries; and [feed] followed by the final flush yields exactly the non-empty lines of the stream. *)
From Coq Require Import List ZArith Bool Lia.
Import ListNotations.
From GU Require Import C18.Model.
Local Open Scope Z_scope.

(* ---------- split_nl ---------- *)

Lemma split_nl_nonnil : forall s, split_nl s <> [].
Proof.
  induction s as [|c r IH]; simpl; [discriminate|].
  destruct (c =? NL); [discriminate|]. destruct (split_nl r); discriminate.
Qed.

Lemma split_nl_cons_nl : forall r, split_nl (NL :: r) = [] :: split_nl r.
Proof. reflexivity. Qed.

Lemma split_nl_cons_other : forall c r, (c =? NL) = false ->
  exists p ps, split_nl r = p :: ps /\ split_nl (c :: r) = (c :: p) :: ps.
Proof.
  intros c r H. simpl. rewrite H. destruct (split_nl r) as [|p ps] eqn:E.
  - exfalso. eapply split_nl_nonnil; eauto.
  - eauto.
Qed.

(* ---------- the byte-by-byte machine ---------- *)

Fixpoint feed (pend : bytes) (s : bytes) : list bytes * bytes :=
  match s with
  | [] => ([], pend)
  | c :: r => if c =? NL then let '(o, p) := feed [] r in (log_pending pend ++ o, p)
              else feed (pend ++ [c]) r
  end.

Lemma feed_app : forall a b pend,
  feed pend (a ++ b) = let '(o1, p1) := feed pend a in let '(o2, p2) := feed p1 b in (o1 ++ o2, p2).
Proof.
  induction a as [|c r IH]; intros b pend; simpl.
  - destruct (feed pend b); reflexivity.
  - destruct (c =? NL).
    + rewrite IH. destruct (feed [] r) as [o1 p1]. destruct (feed p1 b) as [o2 p2]. now rewrite app_assoc.
    + apply IH.
Qed.

(* logStreamer.Write is the byte-by-byte machine run over the chunk. *)
Lemma write_chunk_feed : forall p pend, write_chunk pend p = feed pend p.
Proof.
  unfold write_chunk. induction p as [|c r IH]; intros pend.
  - simpl. now rewrite app_nil_r.
  - destruct (c =? NL) eqn:E.
    + apply Z.eqb_eq in E. subst c. rewrite split_nl_cons_nl. simpl feed.
      destruct (split_nl r) as [|q qs] eqn:S; [exfalso; eapply split_nl_nonnil; eauto|].
      change (write_pieces pend ([] :: q :: qs)) with
        (let '(out, pend') := write_pieces [] (q :: qs) in (log_pending (pend ++ []) ++ out, pend')).
      rewrite IH. destruct (feed [] r). now rewrite app_nil_r.
    + destruct (split_nl_cons_other c r E) as (q & qs & S & S'). rewrite S'. simpl feed. rewrite E.
      rewrite <- IH, S. destruct qs as [|q' qs'].
      * simpl. now rewrite <- app_assoc.
      * change (write_pieces pend ((c :: q) :: q' :: qs')) with
          (let '(out, pend') := write_pieces [] (q' :: qs') in (log_pending (pend ++ c :: q) ++ out, pend')).
        change (write_pieces (pend ++ [c]) (q :: q' :: qs')) with
          (let '(out, pend') := write_pieces [] (q' :: qs') in (log_pending ((pend ++ [c]) ++ q) ++ out, pend')).
        now rewrite <- app_assoc.
Qed.

Lemma write_stream_feed : forall chunks pend, write_stream pend chunks = feed pend (concat chunks).
Proof.
  induction chunks as [|c cs IH]; intros pend; simpl; [reflexivity|].
  rewrite feed_app, write_chunk_feed. destruct (feed pend c) as [o1 p1]. now rewrite IH.
Qed.

(* ---------- feed + flush = the non-empty lines ---------- *)

Definition prepend (pend : bytes) (ps : list bytes) : list bytes :=
  match ps with [] => [pend] | p :: r => (pend ++ p) :: r end.

Lemma log_pending_filter : forall p, log_pending p = filter nonempty [p].
Proof. intros p. unfold log_pending. simpl. now destruct (nonempty p). Qed.

Lemma feed_lines : forall s pend,
  fst (feed pend s) ++ log_pending (snd (feed pend s)) = filter nonempty (prepend pend (split_nl s)).
Proof.
  induction s as [|c r IH]; intros pend.
  - simpl. rewrite app_nil_r. unfold log_pending. now destruct (nonempty pend).
  - destruct (c =? NL) eqn:E.
    + apply Z.eqb_eq in E. subst c. rewrite split_nl_cons_nl. simpl.
      specialize (IH []). destruct (feed [] r) as [o p]. simpl in *.
      rewrite app_nil_r, <- app_assoc, IH.
      destruct (split_nl r) as [|q qs] eqn:S; [exfalso; eapply split_nl_nonnil; eauto|].
      simpl. unfold log_pending. now destruct (nonempty pend).
    + destruct (split_nl_cons_other c r E) as (q & qs & S & S'). rewrite S'. simpl feed. rewrite E.
      rewrite IH, S. simpl. now rewrite <- app_assoc.
Qed.

Lemma prepend_nil : forall s, prepend [] (split_nl s) = split_nl s.
Proof. intros s. destruct (split_nl s) eqn:E; [exfalso; eapply split_nl_nonnil; eauto|reflexivity]. Qed.

Lemma stream_log_feed : forall chunks,
  stream_log chunks = fst (feed [] (concat chunks)) ++ log_pending (snd (feed [] (concat chunks))).
Proof. intros. unfold stream_log, flush. rewrite write_stream_feed. now destruct (feed [] (concat chunks)). Qed.

(* THE property of the adapter: whatever the chunking, exactly the non-empty lines, complete, in order. *)
Lemma stream_lines_exact_l : forall chunks, stream_log chunks = lines_of (concat chunks).
Proof. intros. rewrite stream_log_feed, feed_lines, prepend_nil. reflexivity. Qed.

Lemma chunking_irrelevant_l : forall c1 c2, concat c1 = concat c2 -> stream_log c1 = stream_log c2.
Proof. intros. rewrite !stream_lines_exact_l. now f_equal. Qed.

(* ---------- no byte lost, no separator inside a message, no empty message ---------- *)

Definition no_nl (b : bytes) : Prop := ~ In NL b.
Definition strip_nl (s : bytes) : bytes := filter (fun c => negb (c =? NL)) s.

Lemma feed_bytes : forall s pend,
  concat (fst (feed pend s)) ++ snd (feed pend s) = pend ++ strip_nl s.
Proof.
  induction s as [|c r IH]; intros pend; simpl.
  - now rewrite app_nil_r.
  - destruct (c =? NL) eqn:E; simpl.
    + specialize (IH []). destruct (feed [] r) as [o p]. simpl in *.
      rewrite concat_app, <- app_assoc, IH. unfold log_pending. destruct (nonempty pend) eqn:N; simpl.
      * now rewrite app_nil_r.
      * destruct pend; [reflexivity|discriminate].
    + rewrite IH, <- app_assoc. reflexivity.
Qed.

Lemma log_pending_concat : forall p, concat (log_pending p) = p.
Proof. intros [|x p]; simpl; [reflexivity|now rewrite app_nil_r]. Qed.

Lemma stream_no_byte_lost_l : forall chunks, concat (stream_log chunks) = strip_nl (concat chunks).
Proof.
  intros. rewrite stream_log_feed, concat_app, log_pending_concat. now rewrite feed_bytes.
Qed.

Lemma feed_msgs_ok : forall s pend, no_nl pend ->
  Forall (fun m => no_nl m /\ m <> []) (fst (feed pend s)) /\ no_nl (snd (feed pend s)).
Proof.
  induction s as [|c r IH]; intros pend Hp; simpl.
  - split; [constructor|exact Hp].
  - destruct (c =? NL) eqn:E.
    + destruct (IH [] (fun H => H)) as [F N]. destruct (feed [] r) as [o p]. simpl in *. split; [|exact N].
      apply Forall_app. split; [|exact F]. unfold log_pending. destruct (nonempty pend) eqn:Ne; constructor; [|constructor].
      split; [exact Hp|]. intros ->. discriminate.
    + apply IH. intros H. apply in_app_or in H. destruct H as [H|[H|[]]]; [now apply Hp|].
      subst c. now rewrite Z.eqb_refl in E.
Qed.

Lemma stream_msgs_ok_l : forall chunks, Forall (fun m => no_nl m /\ m <> []) (stream_log chunks).
Proof.
  intros. rewrite stream_log_feed. destruct (feed_msgs_ok (concat chunks) [] (fun H => H)) as [F N].
  apply Forall_app. split; [exact F|]. unfold log_pending.
  destruct (nonempty (snd (feed [] (concat chunks)))) eqn:E; constructor; [|constructor].
  split; [exact N|]. intros H. rewrite H in E. discriminate.
Qed.

(* ---------- the adapter before the fix: exact only when chunks end at line boundaries ---------- *)

Lemma lines_of_app_nl : forall a b, lines_of (a ++ NL :: b) = lines_of a ++ lines_of b.
Proof.
  intros a b. unfold lines_of.
  pose proof (feed_lines (a ++ NL :: b) []) as H. rewrite prepend_nil in H. rewrite <- H. clear H.
  rewrite feed_app. simpl.
  pose proof (feed_lines a []) as Ha. rewrite prepend_nil in Ha.
  pose proof (feed_lines b []) as Hb. rewrite prepend_nil in Hb.
  destruct (feed [] a) as [o1 p1]. destruct (feed [] b) as [o2 p2]. simpl in *.
  rewrite <- Ha, <- Hb. now rewrite <- !app_assoc.
Qed.

Definition aligned (c : bytes) : Prop := c = [] \/ exists a, c = a ++ [NL].

Lemma lines_of_nil : lines_of [] = [].
Proof. reflexivity. Qed.

Lemma nocarry_aligned_l : forall chunks, Forall aligned chunks ->
  stream_log_nocarry chunks = lines_of (concat chunks).
Proof.
  induction 1 as [|c cs Hc _ IH]; [reflexivity|].
  simpl. rewrite IH. unfold write_chunk_nocarry. fold (lines_of c).
  destruct Hc as [->|[a ->]]; [reflexivity|].
  rewrite <- app_assoc. simpl. rewrite !lines_of_app_nl. simpl. now rewrite app_nil_r.
Qed.

(* ---------- Execute ---------- *)

Lemma proj_app : forall s a b, proj s (a ++ b) = proj s a ++ proj s b.
Proof. intros. unfold proj. now rewrite flat_map_app. Qed.

Lemma proj_tag_same : forall s ms, proj s (tag s ms) = ms.
Proof. intros s ms. induction ms as [|m r IH]; [reflexivity|]. destruct s; simpl in *; now rewrite IH. Qed.

Lemma proj_tag_other : forall s t ms, s <> t -> proj s (tag t ms) = [].
Proof.
  intros s t ms H. induction ms as [|m r IH]; [reflexivity|].
  destruct s, t; simpl in *; try congruence; exact IH.
Qed.

Lemma run_events_out : forall evs a,
  proj SOut (fst (run_events a evs)) = fst (feed (fst a) (stream_bytes SOut evs)) /\
  fst (snd (run_events a evs)) = snd (feed (fst a) (stream_bytes SOut evs)).
Proof.
  induction evs as [|[s p] r IH]; intros [po pe]; [simpl; auto|].
  simpl run_events. destruct s; simpl write_event.
  - rewrite write_chunk_feed. simpl stream_bytes. rewrite feed_app. cbn [fst snd].
    destruct (feed po p) as [ms po'] eqn:F. specialize (IH (po', pe)). simpl in IH.
    destruct (run_events (po', pe) r) as [o2 a2]. simpl in *.
    destruct (feed po' (stream_bytes SOut r)) as [o3 p3]. simpl in *. destruct IH as [I1 I2].
    rewrite proj_app, proj_tag_same, I1. auto.
  - rewrite write_chunk_feed. simpl stream_bytes.
    destruct (feed pe p) as [ms pe'] eqn:F. specialize (IH (po, pe')). simpl in IH.
    destruct (run_events (po, pe') r) as [o2 a2]. simpl in *. destruct IH as [I1 I2].
    rewrite proj_app, proj_tag_other by discriminate. auto.
Qed.

Lemma run_events_err : forall evs a,
  proj SErr (fst (run_events a evs)) = fst (feed (snd a) (stream_bytes SErr evs)) /\
  snd (snd (run_events a evs)) = snd (feed (snd a) (stream_bytes SErr evs)).
Proof.
  induction evs as [|[s p] r IH]; intros [po pe]; [simpl; auto|].
  simpl run_events. destruct s; simpl write_event.
  - rewrite write_chunk_feed. simpl stream_bytes.
    destruct (feed po p) as [ms po'] eqn:F. specialize (IH (po', pe)). simpl in IH.
    destruct (run_events (po', pe) r) as [o2 a2]. simpl in *. destruct IH as [I1 I2].
    rewrite proj_app, proj_tag_other by discriminate. auto.
  - rewrite write_chunk_feed. simpl stream_bytes. rewrite feed_app. cbn [fst snd].
    destruct (feed pe p) as [ms pe'] eqn:F. specialize (IH (po, pe')). simpl in IH.
    destruct (run_events (po, pe') r) as [o2 a2]. simpl in *.
    destruct (feed pe' (stream_bytes SErr r)) as [o3 p3]. simpl in *. destruct IH as [I1 I2].
    rewrite proj_app, proj_tag_same, I1. auto.
Qed.

(* Everything the two adapters log during one run, flushed: per stream exactly the non-empty lines of that stream,
   for every interleaving of the reads of the two pipes and every chunking. *)
Definition child_log (evs : list (stream * bytes)) : list entry :=
  let '(logged, a) := run_events ([], []) evs in logged ++ flush_output a.

Lemma child_log_out : forall evs, proj SOut (child_log evs) = lines_of (stream_bytes SOut evs).
Proof.
  intros. unfold child_log. destruct (run_events_out evs ([], [])) as [H1 H2].
  destruct (run_events ([], []) evs) as [logged a]. simpl in *.
  unfold flush_output. rewrite !proj_app, proj_tag_same, proj_tag_other, app_nil_r by discriminate.
  rewrite H1, H2. unfold flush. rewrite feed_lines, prepend_nil. reflexivity.
Qed.

Lemma child_log_err : forall evs, proj SErr (child_log evs) = lines_of (stream_bytes SErr evs).
Proof.
  intros. unfold child_log. destruct (run_events_err evs ([], [])) as [H1 H2].
  destruct (run_events ([], []) evs) as [logged a]. simpl in *.
  unfold flush_output. rewrite !proj_app, proj_tag_same, proj_tag_other by discriminate. simpl.
  rewrite H1, H2. unfold flush. rewrite feed_lines, prepend_nil. reflexivity.
Qed.

Lemma tag_is_line : forall s ms, forallb is_line (tag s ms) = true.
Proof. induction ms; simpl; auto. Qed.

Lemma run_events_lines : forall evs a, forallb is_line (fst (run_events a evs)) = true.
Proof.
  induction evs as [|[s p] r IH]; intros a; [reflexivity|]. simpl run_events.
  destruct s; simpl write_event.
  - destruct (write_chunk (fst a) p) as [ms po]. specialize (IH (po, snd a)).
    destruct (run_events (po, snd a) r). simpl in *. now rewrite forallb_app, tag_is_line.
  - destruct (write_chunk (snd a) p) as [ms pe]. specialize (IH (fst a, pe)).
    destruct (run_events (fst a, pe) r). simpl in *. now rewrite forallb_app, tag_is_line.
Qed.

Lemma child_log_lines : forall evs, forallb is_line (child_log evs) = true.
Proof.
  intros. unfold child_log. pose proof (run_events_lines evs ([], [])) as H.
  destruct (run_events ([], []) evs) as [logged a]. simpl in *.
  unfold flush_output. now rewrite !forallb_app, H, !tag_is_line.
Qed.

Definition ran (o : outcome) : bool := match o with Exited _ | Signaled _ => true | _ => false end.

Lemma execute_shape : forall wm ctx o evs,
  execute wm ctx o evs =
  ((if wm then [EStart] else []) ++ child_log (if ran o then evs else []) ++
   (if wm then [end_entry (execute_error ctx o)] else []), execute_error ctx o).
Proof.
  intros. unfold execute, child_log.
  assert (E : match o with Exited _ | Signaled _ => evs | _ => [] end = if ran o then evs else [])
    by (destruct o; reflexivity).
  rewrite E. destruct (run_events ([], []) (if ran o then evs else [])). reflexivity.
Qed.

(* ---------- exit status ---------- *)

Lemma convert_nil_iff : forall o, convert_process_error o = ENil <-> o = Exited 0.
Proof.
  intros o; split.
  - destruct o as [c|s|k| |]; simpl; try discriminate.
    + destruct (c =? 0) eqn:E; [apply Z.eqb_eq in E; now subst|discriminate].
    + destruct ((s =? 9) || (s =? 15)); discriminate.
    + destruct k; discriminate.
  - intros ->. reflexivity.
Qed.

Lemma execute_error_nil_iff : forall ctx o, execute_error ctx o = ENil <-> o = Exited 0.
Proof.
  intros ctx o. rewrite <- convert_nil_iff. unfold execute_error.
  destruct (convert_process_error o) eqn:E; split; intros H; try reflexivity; try discriminate;
    destruct ctx as [[|]|]; discriminate.
Qed.

Lemma execute_error_ctx : forall k o, o <> Exited 0 ->
  execute_error (Some k) o = match k with CtxCancelled => ECancelled | CtxDeadline => ETimeout end.
Proof.
  intros k o H. unfold execute_error.
  destruct (convert_process_error o) eqn:E; try (destruct k; reflexivity).
  apply convert_nil_iff in E. contradiction.
Qed.

Lemma execute_error_noctx : forall o, execute_error None o = convert_process_error o.
Proof. intros o. unfold execute_error. now destruct (convert_process_error o). Qed.

(* ---------- Output ---------- *)

Definition line_text (e : entry) : list bytes := match e with ELine _ m => [m] | _ => [] end.

Lemma split_nl_line : forall m rest, no_nl m ->
  split_nl (m ++ NL :: rest) = m :: split_nl rest.
Proof.
  induction m as [|c r IH]; intros rest H; [reflexivity|].
  assert (E : (c =? NL) = false). { apply Z.eqb_neq. intros ->. apply H. now left. }
  simpl. rewrite E. rewrite IH; [reflexivity|]. intros X. apply H. now right.
Qed.

Lemma lines_of_output_text : forall log,
  Forall (fun m => no_nl m /\ m <> []) (flat_map line_text log) ->
  lines_of (output_text log) = flat_map line_text log.
Proof.
  induction log as [|e r IH]; intros H; [reflexivity|].
  destruct e as [|s m| |]; simpl in *; try (now apply IH).
  inversion H as [|x l [Hn Hne] Hr]; subst. rewrite <- app_assoc. simpl.
  unfold lines_of. rewrite split_nl_line by exact Hn. simpl.
  destruct m; [congruence|]. simpl. f_equal. now apply IH.
Qed.

Lemma in_line_proj : forall log s m, In (ELine s m) log -> In m (proj s log).
Proof.
  induction log as [|e r IH]; intros s m H; [destruct H|].
  unfold proj. cbn [flat_map]. apply in_or_app.
  destruct H as [->|H]; [left; destruct s; simpl; auto|right; apply IH; exact H].
Qed.

Lemma lines_of_ok : forall s, Forall (fun m => no_nl m /\ m <> []) (lines_of s).
Proof.
  intros s. replace s with (concat [s]) by (simpl; apply app_nil_r).
  rewrite <- stream_lines_exact_l. apply stream_msgs_ok_l.
Qed.

Lemma child_log_texts_ok : forall evs, Forall (fun m => no_nl m /\ m <> []) (flat_map line_text (child_log evs)).
Proof.
  intros evs. apply Forall_forall. intros m H. apply in_flat_map in H. destruct H as (e & He & Hm).
  destruct e as [|s x| |]; simpl in Hm; try contradiction. destruct Hm as [->|[]].
  apply in_line_proj in He.
  destruct s; [rewrite child_log_out in He | rewrite child_log_err in He];
    eapply Forall_forall in He; try apply lines_of_ok; exact He.
Qed.

Lemma execute_middle : forall ctx o evs,
  let e := execute_error ctx o in
  let middle := child_log (if ran o then evs else []) in
  execute true ctx o evs = (EStart :: middle ++ [end_entry e], e).
Proof. intros. rewrite execute_shape. reflexivity. Qed.

Lemma end_entry_ok_iff : forall e, end_entry e = EEndOk <-> e = ENil.
Proof. intros e; destruct e; simpl; split; intros H; try reflexivity; discriminate. Qed.

Lemma output_shape : forall ctx o evs,
  output ctx o evs = (output_text (child_log (if ran o then evs else [])),
                      child_log (if ran o then evs else []), execute_error ctx o).
Proof. intros. unfold output. rewrite execute_shape. simpl. now rewrite app_nil_r. Qed.
