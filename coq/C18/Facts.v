(* C18 — the FACTS about utils/subprocess and utils/proc which the model depends on, as a record. The value
   [gen_facts] of this type is written into Gen.v by translator-c18 (go/ast) from the working tree on every run;
   Model.v interprets a record of this type, Proofs.v proves the property for every record satisfying the conditions
   [*_ok] below, and Props.v checks by computation that the generated record satisfies them. Definitions only. *)
From Coq Require Import List ZArith Bool.
Import ListNotations.
Local Open Scope Z_scope.

Inductive stream := SOut | SErr.

(* Statements of logStreamer.Write / Flush on the current element of strings.Split and the pending buffer. *)
Inductive wop :=
  | WAppend       (* l.pending.WriteString(<current element>) *)
  | WLogPending   (* l.logPending() *)
  | WReset        (* l.pending.Reset() *)
  | WSkipEmpty.   (* if <current element> == "" { continue } *)

(* Which context Execute asks for the kind of an interruption. *)
Inductive ctxsrc := CtxProcess (* s.processMonitoring.ProcessContext() *) | CtxParent (* the context given to New / Setup *).

(* The events of Subprocess.Execute, in source order. *)
Inductive xop :=
  | XLogStart                    (* s.messaging.LogStart() *)
  | XRun                         (* err = cmd.Run() *)
  | XCtxOverride (src : ctxsrc)  (* if err != nil { if the context [src] is done and err is not of its kind: err = its kind } *)
  | XLogEnd.                     (* s.messaging.LogEnd(err) *)

(* ConvertProcessError: one switch case = condition on the error, result. *)
Inductive rcond :=
  | RcNil                        (* err == nil *)
  | RcSignalText (sigs : list Z) (* CorrespondTo(err, "signal: killed" [9], "signal: terminated" [15]) *)
  | RcErrno                      (* Any(err, syscall.ESRCH) *)
  | RcWaitDelay                  (* Any(err, exec.ErrWaitDelay) *)
  | RcExecNotFound               (* Any(err, ..., exec.ErrNotFound) *)
  | RcNever                      (* Any(x) with no candidate: never true *)
  | RcOtherText.                 (* CorrespondTo(err, <some other text>) *)
Inductive ract :=
  | RaReturn | RaProcessDone | RaNil | RaTimeout | RaNotFound | RaForbidden | RaNotImplemented.

Record facts := {
  (* logging.go *)
  sep : Z;                     (* the separator given to strings.Split in Write (lineSep) *)
  loop_ops : list wop;         (* body of  for i := 0; i < last; i++  over lines[i] *)
  tail_ops : list wop;         (* statements after the loop, over lines[last] *)
  flush_ops : list wop;        (* body of Flush *)
  lp_resets : bool;            (* logPending resets pending after reading it *)
  lp_drops_empty : bool;       (* logPending returns without logging when the line is "" *)
  lp_by_stream : bool;         (* logPending: IsStdErr -> LogError, else Log *)
  stdout_flag : bool;          (* isStdErr of the adapter createCommand installs on cmd.Stdout *)
  stderr_flag : bool;          (* ... on cmd.Stderr *)
  (* command_wrapper.go *)
  run_flush : bool;            (* cmdWrapper.Run calls flushOutput, unconditionally, after Wait and before returning *)
  stop_flush : bool;           (* cmdWrapper.Stop calls flushOutput, unconditionally, after Wait *)
  flush_streams : list stream; (* flushOutput: which of cmd.Stdout / cmd.Stderr are flushed, in order *)
  run_converts : bool;         (* Run returns ConvertCommandError(err) = proc.ConvertProcessError(err) *)
  wait_delay_set : bool;       (* some statement of the package sets exec.Cmd.WaitDelay: os/exec then stops waiting for the
                                  goroutines copying the output that long after the child has exited, closes the pipes
                                  and Wait reports exec.ErrWaitDelay for a child which exited with status 0 *)
  cancel_hook : bool;          (* setGroupAttrToCmd installs cmd.Cancel = kill the process group (recorded, not needed) *)
  own_group : bool;            (* SysProcAttr{Setpgid: true} (recorded, not needed) *)
  (* executor.go, messaging.go *)
  exec_seq : list xop;         (* Execute *)
  end_ok_iff_nil : bool;       (* LogEnd: err == nil -> Log(success), else LogError(failure, err) *)
  output_plain : bool;         (* Output...: newPlainSubProcess (no start / end messages) *)
  output_reads_always : bool;  (* Output...: output = stringLogger.GetLogContent() follows p.Execute() on every path *)
  (* proc/errors.go *)
  conv_ctx_first : bool;       (* err = commonerrors.ConvertContextError(err) before the switch *)
  rules : list (rcond * ract)  (* the switch, in order; default: return err *)
}.

Definition wop_eqb (a b : wop) : bool :=
  match a, b with WAppend, WAppend | WLogPending, WLogPending | WReset, WReset | WSkipEmpty, WSkipEmpty => true | _, _ => false end.
Fixpoint wops_eqb (a b : list wop) : bool :=
  match a, b with [], [] => true | x :: xs, y :: ys => wop_eqb x y && wops_eqb xs ys | _, _ => false end.
Definition stream_eqb (a b : stream) : bool :=
  match a, b with SOut, SOut | SErr, SErr => true | _, _ => false end.
Definition xop_eqb (a b : xop) : bool :=
  match a, b with
  | XLogStart, XLogStart | XRun, XRun | XLogEnd, XLogEnd => true
  | XCtxOverride CtxProcess, XCtxOverride CtxProcess | XCtxOverride CtxParent, XCtxOverride CtxParent => true
  | _, _ => false
  end.
Fixpoint xops_eqb (a b : list xop) : bool :=
  match a, b with [], [] => true | x :: xs, y :: ys => xop_eqb x y && xops_eqb xs ys | _, _ => false end.

(* ---- the conditions the theorems need ---- *)

(* the adapter: terminated elements complete the pending line and are logged, the last one is carried over, Flush logs
   what is pending, logPending empties the buffer and drops the empty line. The separator is free. *)
Definition adapter_ok (F : facts) : bool :=
  wops_eqb (loop_ops F) [WAppend; WLogPending] && wops_eqb (tail_ops F) [WAppend] && wops_eqb (flush_ops F) [WLogPending]
  && lp_resets F && lp_drops_empty F.

(* the wiring: stdout's adapter logs to the output logger, stderr's to the error logger, and Run flushes both. *)
Definition wiring_ok (F : facts) : bool :=
  lp_by_stream F && negb (stdout_flag F) && stderr_flag F && run_flush F
  && match flush_streams F with [SOut; SErr] | [SErr; SOut] => true | _ => false end.

(* Execute: start message, run, context kind from the process context, one end message chosen by err == nil. *)
Definition exec_ok (F : facts) : bool :=
  xops_eqb (exec_seq F) [XLogStart; XRun; XCtxOverride CtxProcess; XLogEnd] && end_ok_iff_nil F.

(* ConvertProcessError: a rule may answer nil only under a condition which no failed run satisfies, and the
   rule for err == nil answers nil. *)
Definition rule_ok (r : rcond * ract) : bool :=
  match r with
  | (RcNil, RaReturn) | (RcNil, RaNil) => true
  | (RcNil, _) => false
  | (RcSignalText _, RaNil) | (RcExecNotFound, RaNil) => false
  | _ => true
  end.
Definition exit_ok (F : facts) : bool := forallb rule_ok (rules F).

(* os/exec waits for the copying goroutines without limit: every chunk write has happened when Wait returns. *)
Definition io_ok (F : facts) : bool := negb (wait_delay_set F).

Definition output_ok (F : facts) : bool := output_plain F && output_reads_always F.
