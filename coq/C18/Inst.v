(* C18 — the model instantiated with the record of facts generated from the working tree: this is what the
   correspondence cases are evaluated with. *)
From GU Require Import C18.Model C18.Gen.

Definition check_case : case -> bool := Model.check_case gen_facts.
