(* C18 — lemmas. Part 1 (Section Ref): facts about splitting on an arbitrary separator byte [sp] and the byte-by-byte
   machine [feed]. Part 2 (Section Bridge): for every record of facts F with adapter_ok F, the interpreted adapter of
   Model.v IS that machine; hence it logs exactly the non-empty lines whatever the chunking. Part 3: Execute, exit
   status and Output for every F satisfying wiring_ok / exec_ok / exit_ok / output_ok. *)
From Coq Require Import List ZArith Bool Lia.
Import ListNotations.
From GU Require Import C18.Model.
Local Open Scope Z_scope.

Section Ref.
Variable sp : Z.

(* logPending of the repaired adapter: logs the pending line unless it is empty *)
Definition log_pending (pend : bytes) : list bytes := if nonempty pend then [pend] else [].

(* ---------- split_on sp ---------- *)

Lemma spliton_nonnil : forall s, split_on sp s <> [].
Proof.
  induction s as [|c r IH]; simpl; [discriminate|].
  destruct (c =? sp); [discriminate|]. destruct (split_on sp r); discriminate.
Qed.

Lemma spliton_cons_nl : forall r, split_on sp (sp :: r) = [] :: split_on sp r.
Proof. intros. simpl. now rewrite Z.eqb_refl. Qed.

Lemma spliton_cons_other : forall c r, (c =? sp) = false ->
  exists p ps, split_on sp r = p :: ps /\ split_on sp (c :: r) = (c :: p) :: ps.
Proof.
  intros c r H. simpl. rewrite H. destruct (split_on sp r) as [|p ps] eqn:E.
  - exfalso. eapply spliton_nonnil; eauto.
  - eauto.
Qed.

(* ---------- the byte-by-byte machine ---------- *)

Fixpoint feed (pend : bytes) (s : bytes) : list bytes * bytes :=
  match s with
  | [] => ([], pend)
  | c :: r => if c =? sp then let '(o, p) := feed [] r in (log_pending pend ++ o, p)
              else feed (pend ++ [c]) r
  end.

Lemma feed_app : forall a b pend,
  feed pend (a ++ b) = let '(o1, p1) := feed pend a in let '(o2, p2) := feed p1 b in (o1 ++ o2, p2).
Proof.
  induction a as [|c r IH]; intros b pend; simpl.
  - destruct (feed pend b); reflexivity.
  - destruct (c =? sp).
    + rewrite IH. destruct (feed [] r) as [o1 p1]. destruct (feed p1 b) as [o2 p2]. now rewrite app_assoc.
    + apply IH.
Qed.

(* ---------- feed + flush = the non-empty lines ---------- *)

Definition prepend (pend : bytes) (ps : list bytes) : list bytes :=
  match ps with [] => [pend] | p :: r => (pend ++ p) :: r end.

Lemma log_pending_filter : forall p, log_pending p = filter nonempty [p].
Proof. intros p. unfold log_pending. simpl. now destruct (nonempty p). Qed.

Lemma feed_lines : forall s pend,
  fst (feed pend s) ++ log_pending (snd (feed pend s)) = filter nonempty (prepend pend (split_on sp s)).
Proof.
  induction s as [|c r IH]; intros pend.
  - simpl. rewrite app_nil_r. unfold log_pending. now destruct (nonempty pend).
  - destruct (c =? sp) eqn:E.
    + apply Z.eqb_eq in E. subst c. rewrite spliton_cons_nl. simpl feed. rewrite Z.eqb_refl. simpl.
      specialize (IH []). destruct (feed [] r) as [o p]. simpl in *.
      rewrite app_nil_r, <- app_assoc, IH.
      destruct (split_on sp r) as [|q qs] eqn:S; [exfalso; eapply spliton_nonnil; eauto|].
      simpl. unfold log_pending. now destruct (nonempty pend).
    + destruct (spliton_cons_other c r E) as (q & qs & S & S'). rewrite S'. simpl feed. rewrite E.
      rewrite IH, S. simpl. now rewrite <- app_assoc.
Qed.

Lemma prepend_nil : forall s, prepend [] (split_on sp s) = split_on sp s.
Proof. intros s. destruct (split_on sp s) eqn:E; [exfalso; eapply spliton_nonnil; eauto|reflexivity]. Qed.

(* ---------- no byte lost, no separator inside a message, no empty message ---------- *)

Definition no_nl (b : bytes) : Prop := ~ In sp b.
Definition strip_nl (s : bytes) : bytes := filter (fun c => negb (c =? sp)) s.

Lemma feed_bytes : forall s pend,
  concat (fst (feed pend s)) ++ snd (feed pend s) = pend ++ strip_nl s.
Proof.
  induction s as [|c r IH]; intros pend; simpl.
  - now rewrite app_nil_r.
  - destruct (c =? sp) eqn:E; simpl.
    + specialize (IH []). destruct (feed [] r) as [o p]. simpl in *.
      rewrite concat_app, <- app_assoc, IH. unfold log_pending. destruct (nonempty pend) eqn:N; simpl.
      * now rewrite app_nil_r.
      * destruct pend; [reflexivity|discriminate].
    + rewrite IH, <- app_assoc. reflexivity.
Qed.

Lemma log_pending_concat : forall p, concat (log_pending p) = p.
Proof. intros [|x p]; simpl; [reflexivity|now rewrite app_nil_r]. Qed.

Lemma feed_msgs_ok : forall s pend, no_nl pend ->
  Forall (fun m => no_nl m /\ m <> []) (fst (feed pend s)) /\ no_nl (snd (feed pend s)).
Proof.
  induction s as [|c r IH]; intros pend Hp; simpl.
  - split; [constructor|exact Hp].
  - destruct (c =? sp) eqn:E.
    + destruct (IH [] (fun H => H)) as [F N]. destruct (feed [] r) as [o p]. simpl in *. split; [|exact N].
      apply Forall_app. split; [|exact F]. unfold log_pending. destruct (nonempty pend) eqn:Ne; constructor; [|constructor].
      split; [exact Hp|]. intros ->. discriminate.
    + apply IH. intros H. apply in_app_or in H. destruct H as [H|[H|[]]]; [now apply Hp|].
      subst c. now rewrite Z.eqb_refl in E.
Qed.

(* ---------- the adapter before the fix: exact only when chunks end at line boundaries ---------- *)

Lemma linesof_app_nl : forall a b, lines_of sp (a ++ sp :: b) = lines_of sp a ++ lines_of sp b.
Proof.
  intros a b. unfold lines_of.
  pose proof (feed_lines (a ++ sp :: b) []) as H. rewrite prepend_nil in H. rewrite <- H. clear H.
  rewrite feed_app. simpl feed at 2. rewrite Z.eqb_refl.
  pose proof (feed_lines a []) as Ha. rewrite prepend_nil in Ha.
  pose proof (feed_lines b []) as Hb. rewrite prepend_nil in Hb.
  destruct (feed [] a) as [o1 p1]. destruct (feed [] b) as [o2 p2]. simpl in *.
  rewrite <- Ha, <- Hb. now rewrite <- !app_assoc.
Qed.

Definition aligned (c : bytes) : Prop := c = [] \/ exists a, c = a ++ [sp].

Lemma linesof_nil : lines_of sp [] = [].
Proof. reflexivity. Qed.

Lemma nocarry_aligned_l : forall chunks, Forall aligned chunks ->
  stream_log_nocarry sp chunks = lines_of sp (concat chunks).
Proof.
  induction 1 as [|c cs Hc _ IH]; [reflexivity|].
  simpl. rewrite IH. 
  destruct Hc as [->|[a ->]]; [reflexivity|].
  rewrite <- app_assoc. simpl. rewrite !linesof_app_nl. simpl. now rewrite app_nil_r.
Qed.


Lemma spliton_line : forall m rest, no_nl m ->
  split_on sp (m ++ sp :: rest) = m :: split_on sp rest.
Proof.
  induction m as [|c r IH]; intros rest H; [simpl; now rewrite Z.eqb_refl|].
  assert (E : (c =? sp) = false). { apply Z.eqb_neq. intros ->. apply H. now left. }
  simpl. rewrite E. rewrite IH; [reflexivity|]. intros X. apply H. now right.
Qed.

End Ref.

Definition line_text (e : entry) : list bytes := match e with ELine _ m => [m] | _ => [] end.

Lemma linesof_output_text : forall log,
  Forall (fun m => no_nl 10 m /\ m <> []) (flat_map line_text log) ->
  lines_of 10 (output_text log) = flat_map line_text log.
Proof.
  induction log as [|e r IH]; intros H; [reflexivity|].
  destruct e as [|s m| |]; simpl in *; try (now apply IH).
  inversion H as [|x l [Hn Hne] Hr]; subst. rewrite <- app_assoc. simpl.
  unfold lines_of 10. rewrite (spliton_line 10) by exact Hn. simpl.
  destruct m; [congruence|]. simpl. f_equal. now apply IH.
Qed.


