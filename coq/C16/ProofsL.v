(* C16 — lemmas, part L: a fault-free Fetch of a complete cache.zip succeeds (mutable cache) *)
From Coq Require Import List Arith Bool Lia.
Import ListNotations.
From GU Require Import C16.Model C16.ProofsBase.

Section FetchLive.
Variable P : params.
Variable v : ver.
Hypothesis HK : p_kind P = Mutable.
Hypothesis HR : p_rehash P = true.

Ltac go := repeat (cbn -[full data_eqb unzip]; unfold content, lock_step, unlock_step, hash_write, ffail; rewrite ?HK, ?HR, ?data_eqb_refl, ?unzip_full;
                   repeat match goal with E : _ = _ |- _ => rewrite E end).

(* a fault-free Fetch of an entry whose cache.zip is the complete package of v, lock free: succeeds and installs v,
   WHATEVER the side file says (absent, invalid, stale, right) *)
Lemma fetch_live : forall c R,
  r_dir R = true -> content Cache R = Some (full P v) -> r_lock R = LFree ->
  let L' := snd (run_faults P c (repeat NoF 12) R (new_client P OFetch)) in
  c_pc L' = Done Ok /\ c_dest L' = DInst v.
Proof.
  intros c R Hd Hc Hl. unfold content in Hc.
  destruct (aget Cache (r_files R)) as [[d t]|] eqn:G; simpl in Hc; inversion Hc; subst d; clear Hc.
  destruct (aget Cache (r_hash R)) as [[d|]|] eqn:GH.
  - destruct (data_eqb d (full P v)) eqn:E; go; split; reflexivity.
  - go. split; reflexivity.
  - go. split; reflexivity.
Qed.
End FetchLive.
