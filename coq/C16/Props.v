(* C16 — Shared cache: a successful Fetch installs one complete stored version.
   Property theorems only (each closed by a lemma of Proofs.v, followed by Print Assumptions).
   Model: GU.C16.Model (mirrors utils/sharedcache and the anchored parts of utils/filesystem), tied to the code by the
   correspondence runs of harness/cmd/c16. *)
From Coq Require Import List Arith Bool.
Import ListNotations.
From GU Require Import C16.Facts C16.Gen C16.Model C16.ProofsBase C16.ProofsA C16.ProofsS C16.ProofsF C16.ProofsL C16.ProofsI C16.ProofsJ C16.ProofsK C16.Proofs.

(* Both cache kinds (p_kind), any number of clients and of stored versions (ops), EVERY schedule at backend micro-step
   granularity, with any fault (error / short write / crash / crash after a partial write) at any step of any client and
   any number of lock break-ins (label BreakLock: C01's unsound schedules, premature stale release), before or after the
   fixes (p_defer_first, p_rehash arbitrary):
   a Fetch that reports success has installed exactly the tree of ONE version v, and a Store of v had begun.
   Hypothesis (zip integrity): a file that is not a complete package does not unzip. *)
Theorem fetch_installs_stored_version : forall (P : params) (ops : list opk) (sched : list label),
  (forall d, p_unzip_other P d = None) ->
  let st := run P (init_state P ops) sched in
  forall n L, nth_error (s_cl st) n = Some L -> fetch_ok L = true ->
  exists v, c_dest L = DInst v /\ In v (stored (s_cl st)).
Proof. exact fetch_installs_stored_version_l. Qed.
Print Assumptions fetch_installs_stored_version.
(* Several keys.  The store is key-indexed: one entry and its clients per key, every step tagged with the key of its call
   and acting on that key's component (the entry directory is <root>/<whole key>: generated fact f_entry_is_whole_key, part
   of generated_model_applies; keys of which one is a path prefix of another are outside this model).  For EVERY key-tagged
   schedule with any faults: a Fetch under key k that reports success has installed one version whose Store had begun UNDER
   THAT KEY — never a version stored under another key, and nothing at all when no Store under k ever began. *)
Theorem fetch_installs_stored_version_keyed : forall (P : params) (ops : nat -> list opk) (sched : list (nat * label)),
  (forall d, p_unzip_other P d = None) ->
  forall k, let st := krun P (kinit P ops) sched k in
  forall n L, nth_error (s_cl st) n = Some L -> fetch_ok L = true ->
  exists v, c_dest L = DInst v /\ In v (stored (s_cl st)).
Proof. exact fetch_installs_stored_version_keyed_l. Qed.
Print Assumptions fetch_installs_stored_version_keyed.

(* Cancellation / deadline of the caller's context inside a micro-step is covered by the same quantification: from then on
   every context check fails, i.e. the current and every later micro-step of THAT client carries the fault FErr (the schedule
   is arbitrary, so this fault pattern is among those quantified over); the client's deferred clean-ups (Rm with a background
   context) still run, Unlock(ctx) fails (FErr at SUnlock / FUnlock: the lock is left behind and goes stale).  The harness
   injects exactly this ("the context ends from inside the k-th backend operation", cancelled and timed out) at the
   operations of Fetch, Store and CleanEntry. *)
(* crash_then_fetch is the instance of this theorem in which the schedule gives some Store client the fault FCrash /
   FCrashShort at any of its steps (then possibly a CleanEntry client) and then runs a Fetch client: the Fetch either does not
   report success or has installed a complete version whose Store had begun (the interrupted one or an earlier one). *)

(* The mechanism behind the mutable cache ("transfer and unpack under the entry lock"), for the repaired code and a sound
   lock (no BreakLock label): under EVERY schedule with any faults and crashes, two clients are never inside a transfer
   at the same time, and whoever is inside holds the lock with a live heart beat. *)
Theorem mutable_transfers_exclusive : forall (P : params) (ops : list opk) (sched : list label),
  p_kind P = Mutable -> p_defer_first P = false -> ~ In BreakLock sched ->
  let st := run P (init_state P ops) sched in
  forall n m Ln Lm, nth_error (s_cl st) n = Some Ln -> nth_error (s_cl st) m = Some Lm ->
    in_critical Ln = true -> in_critical Lm = true -> n = m /\ r_lock (s_rem st) = LHeld n true.
Proof. exact mutable_transfers_exclusive_l. Qed.
Print Assumptions mutable_transfers_exclusive.

(* store_success_visible, mutable cache (repaired code: re-hash on mismatch).  For EVERY entry state R, every client and
   EVERY sequence of faults fs (an arbitrary fault or none at each micro-step) under which a Store of v reports success:
     - the lock is free again, and
     - for EVERY sequence of later Fetch / CleanEntry calls (each by a fresh client, each with an arbitrary fault or crash at
       every micro-step): every Fetch among them that reports success has installed v, and
     - afterwards, provided the lock is free (it is not if one of those calls died or failed while holding it: then after
       CleanEntry), a fault-free Fetch DOES report success and installs v — whatever the side file says.
   "Until the next Store": the later calls contain no Store. *)
Theorem store_success_visible_mutable : forall (P : params) (v : ver) (u c : nat) (fs : list fault) (R : remote) (calls : list call),
  p_kind P = Mutable -> p_rehash P = true ->
  let '(R1, L1) := run_faults P c fs R (new_client P (OStore v u)) in
  c_pc L1 = Done Ok ->
  r_lock R1 = LFree /\
  let '(R2, Ls) := run_calls P R1 calls in
  (forall L, In L Ls -> fetch_ok L = true -> c_dest L = DInst v) /\
  (r_lock R2 = LFree -> forall c',
     let L' := snd (run_faults P c' (repeat NoF 12) R2 (new_client P OFetch)) in
     c_pc L' = Done Ok /\ c_dest L' = DInst v).
Proof. exact store_success_visible_mutable_l. Qed.
Print Assumptions store_success_visible_mutable.

(* store_success_visible, immutable cache.  For every entry state, client and EVERY sequence of faults under which a Store
   of v (package name u) reports success: the complete package of v is in place under its final name; and IF it is then the
   most recent package in the listing by modification time and listed once (explicit hypothesis [newest1]: modification
   times follow real time — they are the back end's, not the library's), then for EVERY sequence of later Fetch and
   CleanEntry calls (fresh clients, arbitrary fault or crash at every micro-step) every Fetch that reports success has
   installed v, and afterwards a fault-free Fetch does report success and installs v. *)
Theorem store_success_visible_immutable : forall (P : params) (v : ver) (u c : nat) (fs : list fault) (R : remote)
    (calls : list call),
  p_kind P = Immutable -> p_rehash P = true ->
  let '(R1, L1) := run_faults P c fs R (new_client P (OStore v u)) in
  c_pc L1 = Done Ok ->
  content (Pkg u) R1 = Some (full P v) /\
  (newest1 u R1 ->
   let '(R2, Ls) := run_calls P R1 calls in
   (forall L, In L Ls -> fetch_ok L = true -> c_dest L = DInst v) /\
   (forall c', let L' := snd (run_faults P c' (repeat NoF 12) R2 (new_client P OFetch)) in
               c_pc L' = Done Ok /\ c_dest L' = DInst v)).
Proof. exact store_success_visible_immutable_l. Qed.
Print Assumptions store_success_visible_immutable.
(* ---- the theorems that depend on facts about the source, for the instance GENERATED from the current source ----
   coq/C16/Gen.v is rewritten by translator-c16 on every run.  [P_gen] is the model whose flags are read from it; the side
   conditions below are closed by computation on the generated record, so they BREAK when an edit of the source changes a fact
   (deferred unlock moved before the acquisition, re-hash taken from the destination, recursive unzip, ...). *)
Definition P_gen (k : kind) (more : ver -> nat) : params := params_of_facts gen_facts k more (fun _ => None).

Theorem generated_model_applies : facts_model_applies gen_facts = true.
Proof. reflexivity. Qed.
Print Assumptions generated_model_applies.

Theorem mutable_transfers_exclusive_generated : forall (more : ver -> nat) (ops : list opk) (sched : list label),
  ~ In BreakLock sched ->
  let P := P_gen Mutable more in
  let st := run P (init_state P ops) sched in
  forall n m Ln Lm, nth_error (s_cl st) n = Some Ln -> nth_error (s_cl st) m = Some Lm ->
    in_critical Ln = true -> in_critical Lm = true -> n = m /\ r_lock (s_rem st) = LHeld n true.
Proof. intros more ops sched H. apply mutable_transfers_exclusive; [reflexivity | reflexivity | exact H]. Qed.
Print Assumptions mutable_transfers_exclusive_generated.

Theorem store_success_visible_mutable_generated : forall (more : ver -> nat) (v : ver) (u c : nat) (fs : list fault) (R : remote) (calls : list call),
  let P := P_gen Mutable more in
  let '(R1, L1) := run_faults P c fs R (new_client P (OStore v u)) in
  c_pc L1 = Done Ok ->
  r_lock R1 = LFree /\
  let '(R2, Ls) := run_calls P R1 calls in
  (forall L, In L Ls -> fetch_ok L = true -> c_dest L = DInst v) /\
  (r_lock R2 = LFree -> forall c',
     let L' := snd (run_faults P c' (repeat NoF 12) R2 (new_client P OFetch)) in
     c_pc L' = Done Ok /\ c_dest L' = DInst v).
Proof. intros more v u c fs R calls. apply store_success_visible_mutable; reflexivity. Qed.
Print Assumptions store_success_visible_mutable_generated.

Theorem store_success_visible_immutable_generated : forall (more : ver -> nat) (v : ver) (u c : nat) (fs : list fault) (R : remote) (calls : list call),
  let P := P_gen Immutable more in
  let '(R1, L1) := run_faults P c fs R (new_client P (OStore v u)) in
  c_pc L1 = Done Ok ->
  content (Pkg u) R1 = Some (full P v) /\
  (newest1 u R1 ->
   let '(R2, Ls) := run_calls P R1 calls in
   (forall L, In L Ls -> fetch_ok L = true -> c_dest L = DInst v) /\
   (forall c', let L' := snd (run_faults P c' (repeat NoF 12) R2 (new_client P OFetch)) in
               c_pc L' = Done Ok /\ c_dest L' = DInst v)).
Proof. intros more v u c fs R calls. apply store_success_visible_immutable; reflexivity. Qed.
Print Assumptions store_success_visible_immutable_generated.

(* The hypothesis cannot be dropped: if a proper prefix of a package unzips, a crash of the first Store right after that
   prefix lets a later Fetch report success with a tree that was never stored. *)
Theorem zip_integrity_hypothesis_is_necessary :
  exists (P : params) (ops : list (opk * option (lbl * fkind))),
    In (ROk, DInst 7) (seq_results P 0 remote0 ops) /\
    forall o t, In (o, t) ops -> forall u, o <> OStore 7 u.
Proof.
  exists P_prefix_unzips, [(OStore 0 0, Some (LWrite 1, KCrash)); (OClean, None); (OFetch, None)].
  rewrite prefix_unzips_witness. split; [simpl; auto|].
  intros o t [E|[E|[E|[]]]] u; inversion E; subst; discriminate.
Qed.
Print Assumptions zip_integrity_hypothesis_is_necessary.

(* Defects repaired by /verif/fixes/C16-*.patch, kept as statements about the code BEFORE the fix; the harness replays both
   witnesses on the implementation on every run (they must not reproduce). *)
Theorem store_success_stale_hash_refuted_without_rehash :
  exists ops, map fst (seq_results (P_of Mutable false false) 0 remote0 ops) = [ROk; ROk; RErr]
              /\ map fst ops = [OStore 0 0; OStore 1 1; OFetch].
Proof. eexists. split; [exact stale_hash_without_rehash | reflexivity]. Qed.
Print Assumptions store_success_stale_hash_refuted_without_rehash.

Theorem fetch_timeout_destroys_foreign_lock_refuted_with_defer_first :
  exists ops sched,
    ~ In BreakLock sched /\
    let st := run (P_of Mutable true true) (init_state (P_of Mutable true true) ops) sched in
    option_map in_critical (nth_error (s_cl st) 1) = Some true /\ r_lock (s_rem st) = LFree.
Proof.
  exists d15_ops, d15_sched. split; [|exact defer_first_frees_foreign_lock].
  vm_compute. intuition discriminate.
Qed.
Print Assumptions fetch_timeout_destroys_foreign_lock_refuted_with_defer_first.

(* non-vacuity of the hypothesis [newest1]: after two fault-free Stores the second package is first in the listing *)
Example c16_newest_satisfiable :
  let P := P_of Immutable false true in
  let R1 := fst (run_faults P 0 (repeat NoF 30) remote0 (new_client P (OStore 0 0))) in
  let R2 := fst (run_faults P 1 (repeat NoF 30) R1 (new_client P (OStore 1 1))) in
  newest1 1 R2.
Proof. vm_compute. eexists. eexists. split; [reflexivity|]. simpl. intuition discriminate. Qed.

(* non-vacuity *)
Example c16_nonvacuous :
  let P := P_of Immutable false true in
  let st := run P (init_state P nv_ops) nv_sched in
  map c_pc (s_cl st) = [Done Ok; Done Ok; Done Ok] /\ option_map c_dest (nth_error (s_cl st) 2) = Some (DInst 0).
Proof. exact nonvacuous_interleaving. Qed.

Example c16_fixed_code_recovers_from_stale_hash :
  seq_results (P_of Mutable false true) 0 remote0
             [(OStore 0 0, None); (OStore 1 1, Some (LHashOpen, KErr)); (OFetch, None)]
  = [(ROk, DUntouched); (ROk, DUntouched); (ROk, DInst 1)].
Proof. exact stale_hash_with_rehash. Qed.
