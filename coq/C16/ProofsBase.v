(* C16 — lemmas, base: association lists, the case-analysis tactic for one micro-step, facts about [full], [content],
   [unzip], runs of one client with an arbitrary fault at every step *)
From Coq Require Import List Arith Bool Lia.
Import ListNotations.
From GU Require Import C16.Model.

Lemma fname_eqb_refl : forall k, fname_eqb k k = true.
Proof. destruct k; simpl; auto using Nat.eqb_refl. Qed.

Lemma fname_eqb_eq : forall a b, fname_eqb a b = true -> a = b.
Proof. destruct a, b; simpl; intros H; try discriminate; auto; apply Nat.eqb_eq in H; subst; auto. Qed.

Lemma aget_adel {V} : forall k k' (l : list (fname * V)),
  aget k (adel k' l) = if fname_eqb k k' then None else aget k l.
Proof.
  intros k k' l. induction l as [|[k0 v] r IH]; simpl.
  - destruct (fname_eqb k k'); auto.
  - destruct (fname_eqb k' k0) eqn:E0.
    + apply fname_eqb_eq in E0. subst k0. rewrite IH. destruct (fname_eqb k k'); auto.
    + simpl. destruct (fname_eqb k k0) eqn:E1.
      * apply fname_eqb_eq in E1. subst k0. destruct (fname_eqb k k') eqn:E2; auto.
        apply fname_eqb_eq in E2. subst k'. rewrite fname_eqb_refl in E0. discriminate.
      * exact IH.
Qed.

Lemma aget_aset {V} : forall k k' (v : V) l,
  aget k (aset k' v l) = if fname_eqb k k' then Some v else aget k l.
Proof. intros. unfold aset. simpl. rewrite aget_adel. destruct (fname_eqb k k'); auto. Qed.

Ltac break_in H :=
  match type of H with
  | context [match ?x with _ => _ end] =>
      lazymatch x with
      | context [match _ with _ => _ end] => fail
      | _ => destruct x eqn:?
      end
  end.

Ltac step_cases H :=
  unfold step in H;
  match type of H with context [finished ?L] => destruct (finished L) eqn:? end;
  [ | match type of H with context [match ?f with NoF => _ | _ => _ end] => destruct f end;
      unfold die, store_step, fetch_step, clean_step, lock_step, unlock_step, hash_write, ffail in H;
      repeat (break_in H; simpl in H) ];
  inversion H; subst; clear H.


Lemma full_length : forall P v, length (full P v) = S (p_more P v).
Proof. intros. unfold full. rewrite map_length, seq_length. reflexivity. Qed.

Lemma full_nth : forall P v i, i < S (p_more P v) -> nth_error (full P v) i = Some (v, i, true).
Proof.
  intros P v i H. unfold full. rewrite nth_error_map. rewrite nth_error_nth' with (d := 0) by (rewrite seq_length; lia).
  rewrite seq_nth by lia. reflexivity.
Qed.

Lemma firstn_snoc {A} : forall (d : list A) i x, nth_error d i = Some x -> firstn i d ++ [x] = firstn (S i) d.
Proof.
  induction d as [|y r IH]; intros i x H; destruct i; simpl in *; try discriminate.
  - inversion H; auto.
  - f_equal. apply IH; auto.
Qed.

Lemma write_at_next : forall P v i, i < S (p_more P v) ->
  write_at i (v, i, true) (firstn i (full P v)) = firstn (S i) (full P v).
Proof.
  intros P v i H. unfold write_at.
  assert (L : length (firstn i (full P v)) = i) by (rewrite firstn_length, full_length; lia).
  rewrite firstn_all2 by lia. rewrite skipn_all2 by lia.
  apply firstn_snoc. apply full_nth; auto.
Qed.

Lemma content_put : forall k d R, content k (put_file k d R) = Some d.
Proof. intros. unfold content, put_file. cbn [r_files]. rewrite aget_aset, fname_eqb_refl. reflexivity. Qed.

Lemma content_set_hash : forall k k' h R, content k (set_hash k' h R) = content k R. Proof. reflexivity. Qed.
Lemma content_del_hash : forall k k' R, content k (del_hash k' R) = content k R. Proof. reflexivity. Qed.
Lemma content_set_lock : forall k l R, content k (set_lock l R) = content k R. Proof. reflexivity. Qed.
Lemma content_set_dir : forall k R, content k (set_dir R) = content k R. Proof. reflexivity. Qed.

Lemma step_op : forall P c f R L R' L', step P c f R L = (R', L') -> c_op L' = c_op L.
Proof. intros P c f R L R' L' H. step_cases H; cbn [c_op at_pc with_src with_tmp with_dest]; first [reflexivity | congruence]. Qed.

(* a call executed alone, with an arbitrary fault (or none) at EVERY micro-step *)
Fixpoint run_faults (P : params) (c : nat) (fs : list fault) (R : remote) (L : client) : remote * client :=
  match fs with
  | [] => (R, L)
  | f :: r => let '(R', L') := step P c f R L in run_faults P c r R' L'
  end.

Lemma chunk_eqb_refl : forall c, chunk_eqb c c = true.
Proof. intros [[v i] w]. simpl. rewrite !Nat.eqb_refl. destruct w; reflexivity. Qed.

Lemma data_eqb_refl : forall d, data_eqb d d = true.
Proof. induction d; simpl; auto. rewrite chunk_eqb_refl. auto. Qed.

Lemma unzip_full : forall P v, unzip P (full P v) = Some v.
Proof.
  intros. assert (E : exists r, full P v = (v, 0, true) :: r) by (unfold full; simpl; eexists; reflexivity).
  destruct E as [r E]. unfold unzip. rewrite E. rewrite <- E. rewrite data_eqb_refl. reflexivity.
Qed.

