(* C16 — lemmas, part F: the Fetch half of "a successful Store is what later Fetches return" for the mutable cache. *)
From Coq Require Import List Arith Bool Lia.
Import ListNotations.
From GU Require Import C16.Model C16.ProofsBase.

Section FetchMutable.
Variable P : params.
Variable v : ver.
Hypothesis HK : p_kind P = Mutable.

(* while cache.zip holds the complete package of v: what a Fetch client knows at each point *)
Definition FI (L : client) (R : remote) : Prop :=
  content Cache R = Some (full P v) /\ c_src L = Cache /\ c_pc L <> FList /\
  (match c_pc L with FUnzip | FRehash | FRehashW _ => c_tmp L = full P v | _ => True end) /\
  (match c_pc L with FUnlock Ok | Done Ok => c_dest L = DInst v | _ => True end).

Lemma fetch_step_FI : forall c f R L R' L',
  c_op L = OFetch -> step P c f R L = (R', L') -> FI L R -> FI L' R'.
Proof.
  intros c f R L R' L' Ho H (Hc & Hs & Hn & Ht & Hd).
  step_cases H; try congruence.
  all: unfold FI; rewrite ?HK in *; cbn [c_pc c_src c_tmp c_dest at_pc with_src with_tmp with_dest] in *;
       repeat match goal with E : c_pc _ = _ |- _ => rewrite E in * end;
       rewrite ?Hs in *;
       rewrite ?content_set_hash, ?content_set_lock in *;
       repeat match goal with E : content Cache ?R = Some _, E' : content Cache ?R = Some _ |- _ => rewrite E in E'; inversion E'; subst; clear E' end;
       repeat match goal with E : unzip P (c_tmp _) = Some _ |- _ => rewrite Ht, unzip_full in E; inversion E; subst; clear E end.
  all: repeat split; auto; try congruence.
Qed.

Lemma fetch_run_FI : forall c fs R L,
  c_op L = OFetch -> FI L R -> FI (snd (run_faults P c fs R L)) (fst (run_faults P c fs R L)).
Proof.
  intros c fs. induction fs as [|f r IH]; intros R L Ho HI; simpl; auto.
  destruct (step P c f R L) as [R' L'] eqn:Hs. apply IH.
  - rewrite (step_op _ _ _ _ _ _ _ Hs). exact Ho.
  - eapply fetch_step_FI; eauto.
Qed.

Lemma FI_init : forall R, content Cache R = Some (full P v) -> FI (new_client P OFetch) R.
Proof. intros R H. unfold FI, new_client. simpl. repeat split; auto; congruence. Qed.

(* CleanEntry of the mutable cache never touches the package *)
Lemma clean_step_keeps : forall c f R L R' L',
  c_op L = OClean -> step P c f R L = (R', L') -> content Cache R' = content Cache R /\ r_dir R' = r_dir R.
Proof.
  intros c f R L R' L' Ho H. step_cases H; try congruence; split; try reflexivity; try congruence;
  unfold content, del_hash, del_file; cbn [r_files]; rewrite ?aget_adel; reflexivity.
Qed.

Lemma fetch_step_keeps : forall c f R L R' L',
  c_op L = OFetch -> step P c f R L = (R', L') -> r_files R' = r_files R /\ r_dir R' = r_dir R.
Proof. intros c f R L R' L' Ho H. step_cases H; try congruence; split; first [reflexivity | congruence]. Qed.

Lemma run_keeps : forall c fs R L,
  (c_op L = OFetch \/ c_op L = OClean) ->
  content Cache (fst (run_faults P c fs R L)) = content Cache R /\ r_dir (fst (run_faults P c fs R L)) = r_dir R.
Proof.
  intros c fs. induction fs as [|f r IH]; intros R L Ho; simpl; auto.
  destruct (step P c f R L) as [R' L'] eqn:Hs.
  assert (K : content Cache R' = content Cache R /\ r_dir R' = r_dir R).
  { destruct Ho as [Ho|Ho].
    - destruct (fetch_step_keeps _ _ _ _ _ _ Ho Hs) as [A B]. split; auto. unfold content. rewrite A. reflexivity.
    - exact (clean_step_keeps _ _ _ _ _ _ Ho Hs). }
  destruct K as [K1 K2]. rewrite <- K1, <- K2. apply IH. rewrite (step_op _ _ _ _ _ _ _ Hs). exact Ho.
Qed.

End FetchMutable.
