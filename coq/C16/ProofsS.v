(* C16 — lemmas, part S: a Store of the mutable cache that reports success leaves exactly the complete package
   (any fault at any step). *)
From Coq Require Import List Arith Bool Lia.
Import ListNotations.
From GU Require Import C16.Model C16.ProofsA.

Lemma full_length : forall P v, length (full P v) = S (p_more P v).
Proof. intros. unfold full. rewrite map_length, seq_length. reflexivity. Qed.

Lemma full_nth : forall P v i, i < S (p_more P v) -> nth_error (full P v) i = Some (v, i, true).
Proof.
  intros P v i H. unfold full. rewrite nth_error_map. rewrite nth_error_nth' with (d := 0) by (rewrite seq_length; lia).
  rewrite seq_nth by lia. reflexivity.
Qed.

Lemma firstn_snoc {A} : forall (d : list A) i x, nth_error d i = Some x -> firstn i d ++ [x] = firstn (S i) d.
Proof.
  induction d as [|y r IH]; intros i x H; destruct i; simpl in *; try discriminate.
  - inversion H; auto.
  - f_equal. apply IH; auto.
Qed.

Lemma write_at_next : forall P v i, i < S (p_more P v) ->
  write_at i (v, i, true) (firstn i (full P v)) = firstn (S i) (full P v).
Proof.
  intros P v i H. unfold write_at.
  assert (L : length (firstn i (full P v)) = i) by (rewrite firstn_length, full_length; lia).
  rewrite firstn_all2 by lia. rewrite skipn_all2 by lia.
  apply firstn_snoc. apply full_nth; auto.
Qed.

Lemma content_put : forall k d R, content k (put_file k d R) = Some d.
Proof. intros. unfold content, put_file. cbn [r_files]. rewrite aget_aset, fname_eqb_refl. reflexivity. Qed.

Lemma content_set_hash : forall k k' h R, content k (set_hash k' h R) = content k R. Proof. reflexivity. Qed.
Lemma content_del_hash : forall k k' R, content k (del_hash k' R) = content k R. Proof. reflexivity. Qed.
Lemma content_set_lock : forall k l R, content k (set_lock l R) = content k R. Proof. reflexivity. Qed.
Lemma content_set_dir : forall k R, content k (set_dir R) = content k R. Proof. reflexivity. Qed.

Section StoreAlone.
Variable P : params.
Variable v : ver.
Hypothesis HK : p_kind P = Mutable.

(* what is known about cache.zip at each point of the Store of version v *)
Definition SI (p : pc) (R : remote) : Prop :=
  match p with
  | SWrite i => i < S (p_more P v) /\ content Cache R = Some (firstn i (full P v))
  | SClose | SHash2 | SUnlock Ok | Done Ok => content Cache R = Some (full P v)
  | SHashW h => hval_eqb h (HV (full P v)) = true -> content Cache R = Some (full P v)
  | SRename | SFbCreate | SFbWrite _ _ | SFbRemove | SHashMove _ | SHashFbCopy _ | SHashFbRm _ => False  (* immutable only *)
  | _ => True
  end.

Lemma store_step_SI : forall c f u R L R' L',
  c_op L = OStore v u -> step P c f R L = (R', L') -> SI (c_pc L) R -> SI (c_pc L') R'.
Proof.
  intros c f u R L R' L' Ho H HI.
  step_cases H; try congruence.
  all: unfold tgt in *; rewrite ?HK in *; cbn [c_pc at_pc with_src with_tmp with_dest] in *;
       repeat match goal with E : c_pc _ = _ |- _ => rewrite E in * end;
       repeat match goal with E : c_op _ = _ |- _ => rewrite E in * end;
       try match goal with E : OStore _ _ = OStore _ _ |- _ => inversion E; subst; clear E end;
       unfold SI in *; rewrite ?content_set_hash, ?content_del_hash, ?content_set_lock, ?content_set_dir in *; try exact I; try assumption.
  all: try contradiction.
  all: try congruence.
  all: try (destruct HI as [Hi Hc]).
  all: try congruence.
  all: try (rewrite ?content_put; auto; fail).
  all: try (split; [lia | ]).
  all: try (match goal with E : Nat.ltb _ _ = true |- _ => apply Nat.ltb_lt in E end).
  all: try (match goal with E : Nat.ltb _ _ = false |- _ => apply Nat.ltb_ge in E end).
  all: try (rewrite content_put).
  all: try (match goal with Hc : content Cache ?R = Some _, E : content Cache ?R = Some _ |- _ => rewrite Hc in E; inversion E; subst; clear E end).
  all: try (rewrite write_at_next by lia).
  all: try reflexivity.
  all: try (f_equal; rewrite <- (firstn_all (full P v)) at 2; rewrite full_length; f_equal; lia).
  all: try (intros; assumption).
  all: try (split; [lia | reflexivity]).
Qed.

End StoreAlone.

Lemma step_op : forall P c f R L R' L', step P c f R L = (R', L') -> c_op L' = c_op L.
Proof. intros P c f R L R' L' H. step_cases H; cbn [c_op at_pc with_src with_tmp with_dest]; first [reflexivity | congruence]. Qed.

(* a call executed alone, with an arbitrary fault (or none) at EVERY micro-step *)
Fixpoint run_faults (P : params) (c : nat) (fs : list fault) (R : remote) (L : client) : remote * client :=
  match fs with
  | [] => (R, L)
  | f :: r => let '(R', L') := step P c f R L in run_faults P c r R' L'
  end.

Lemma run_faults_SI : forall P v u c fs R L,
  p_kind P = Mutable -> c_op L = OStore v u -> SI P v (c_pc L) R ->
  SI P v (c_pc (snd (run_faults P c fs R L))) (fst (run_faults P c fs R L)).
Proof.
  intros P v u c fs. induction fs as [|f r IH]; intros R L HK Ho HI; simpl; auto.
  destruct (step P c f R L) as [R' L'] eqn:Hs.
  apply IH; auto.
  - rewrite (step_op _ _ _ _ _ _ _ Hs). exact Ho.
  - eapply store_step_SI; eauto.
Qed.

Lemma store_success_leaves_complete_package_l : forall P v u c fs R,
  p_kind P = Mutable ->
  let '(R', L') := run_faults P c fs R (new_client P (OStore v u)) in
  c_pc L' = Done Ok -> content Cache R' = Some (full P v).
Proof.
  intros P v u c fs R HK.
  pose proof (run_faults_SI P v u c fs R (new_client P (OStore v u)) HK eq_refl I) as H.
  destruct (run_faults P c fs R (new_client P (OStore v u))) as [R' L']. simpl in H.
  intros E. rewrite E in H. exact H.
Qed.
