(* C16 — lemmas, part S: a Store of the mutable cache that reports success leaves exactly the complete package
   (any fault at any step). *)
From Coq Require Import List Arith Bool Lia.
Import ListNotations.
From GU Require Import C16.Model C16.ProofsBase.

Section StoreAlone.
Variable P : params.
Variable v : ver.
Hypothesis HK : p_kind P = Mutable.

(* what is known about cache.zip at each point of the Store of version v *)
Definition SI (p : pc) (R : remote) : Prop :=
  match p with
  | SInit | Done Err | Crashed => True
  | SWrite i => r_dir R = true /\ i < S (p_more P v) /\ content Cache R = Some (firstn i (full P v))
  | SClose | SHash2 | SUnlock Ok => r_dir R = true /\ content Cache R = Some (full P v)
  | Done Ok => r_dir R = true /\ content Cache R = Some (full P v) /\ r_lock R = LFree
  | SHashW h => r_dir R = true /\ (hval_eqb h (HV (full P v)) = true -> content Cache R = Some (full P v))
  | SRename | SFbCreate | SFbWrite _ _ | SFbRemove | SHashMove _ | SHashFbCopy _ | SHashFbRm _ => False  (* immutable only *)
  | SPrep | SLock | SSrc | SCreate | SFailRm | SUnlock Err => r_dir R = true
  | _ => True
  end.

Lemma r_dir_put : forall k d R, r_dir (put_file k d R) = r_dir R. Proof. reflexivity. Qed.

Lemma store_step_SI : forall c f u R L R' L',
  c_op L = OStore v u -> step P c f R L = (R', L') -> SI (c_pc L) R -> SI (c_pc L') R'.
Proof.
  intros c f u R L R' L' Ho H HI.
  step_cases H; try congruence.
  all: unfold tgt in *; rewrite ?HK in *; cbn [c_pc at_pc with_src with_tmp with_dest] in *;
       repeat match goal with E : c_pc _ = _ |- _ => rewrite E in * end;
       repeat match goal with E : c_op _ = _ |- _ => rewrite E in * end;
       try match goal with E : OStore _ _ = OStore _ _ |- _ => inversion E; subst; clear E end;
       unfold SI in *; rewrite ?content_set_hash, ?content_del_hash, ?content_set_lock, ?content_set_dir in *; try exact I; try assumption.
  all: try contradiction.
  all: try congruence.
  all: try match goal with r : result |- _ => destruct r end.
  all: cbn [r_dir r_lock set_dir set_lock set_hash del_hash del_file put_file] in *.
  all: repeat match goal with H : _ /\ _ |- _ => destruct H end.
  all: try congruence.
  all: try (match goal with E : Nat.ltb _ _ = true |- _ => apply Nat.ltb_lt in E end).
  all: try (match goal with E : Nat.ltb _ _ = false |- _ => apply Nat.ltb_ge in E end).
  all: rewrite ?content_put.
  all: repeat match goal with Hc : content Cache ?R = Some _, E : content Cache ?R = Some _ |- _ => rewrite Hc in E; inversion E; subst; clear E end.
  all: rewrite ?write_at_next by lia.
  all: repeat split; auto; try lia; try congruence.
  all: try (f_equal; rewrite <- (firstn_all (full P v)) at 2; rewrite full_length; f_equal; lia).
Qed.

End StoreAlone.

Lemma run_faults_SI : forall P v u c fs R L,
  p_kind P = Mutable -> c_op L = OStore v u -> SI P v (c_pc L) R ->
  SI P v (c_pc (snd (run_faults P c fs R L))) (fst (run_faults P c fs R L)).
Proof.
  intros P v u c fs. induction fs as [|f r IH]; intros R L HK Ho HI; simpl; auto.
  destruct (step P c f R L) as [R' L'] eqn:Hs.
  apply IH; auto.
  - rewrite (step_op _ _ _ _ _ _ _ Hs). exact Ho.
  - eapply store_step_SI; eauto.
Qed.

Lemma store_success_leaves_complete_package_l : forall P v u c fs R,
  p_kind P = Mutable ->
  let '(R', L') := run_faults P c fs R (new_client P (OStore v u)) in
  c_pc L' = Done Ok -> r_dir R' = true /\ content Cache R' = Some (full P v) /\ r_lock R' = LFree.
Proof.
  intros P v u c fs R HK.
  pose proof (run_faults_SI P v u c fs R (new_client P (OStore v u)) HK eq_refl I) as H.
  destruct (run_faults P c fs R (new_client P (OStore v u))) as [R' L']. simpl in H.
  intros E. rewrite E in H. exact H.
Qed.

Lemma fetch_step_same : forall P c f R L R' L',
  c_op L = OFetch -> step P c f R L = (R', L') -> r_files R' = r_files R /\ r_dir R' = r_dir R.
Proof. intros P c f R L R' L' Ho H. step_cases H; try congruence; split; first [reflexivity | congruence]. Qed.
