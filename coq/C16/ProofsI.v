(* C16 — lemmas, part I: the immutable cache.  A Store that reports success has put the complete package under its
   final name; while that package is the most recent one, Fetches return it. *)
From Coq Require Import List Arith Bool Lia.
Import ListNotations.
From GU Require Import C16.Model C16.ProofsBase.

Lemma content_put_other : forall k k' d R, fname_eqb k k' = false -> content k (put_file k' d R) = content k R.
Proof. intros. unfold content, put_file. cbn [r_files]. rewrite aget_aset, H. reflexivity. Qed.

Lemma content_del_other : forall k k' R, fname_eqb k k' = false -> content k (del_file k' R) = content k R.
Proof. intros. unfold content, del_file. cbn [r_files]. rewrite aget_adel, H. reflexivity. Qed.

Lemma content_put_at : forall k d t R, content k (put_file_at k d t R) = Some d.
Proof. intros. unfold content, put_file_at. cbn [r_files]. rewrite aget_aset, fname_eqb_refl. reflexivity. Qed.

Lemma content_aget : forall k R d t, aget k (r_files R) = Some (d, t) -> content k R = Some d.
Proof. intros. unfold content. rewrite H. reflexivity. Qed.

Lemma write_at_next' : forall P v i ch, nth_error (full P v) i = Some ch ->
  write_at i ch (firstn i (full P v)) = firstn (S i) (full P v).
Proof.
  intros P v i ch H. assert (Hi : i < length (full P v)) by (apply nth_error_Some; congruence).
  unfold write_at.
  assert (L : length (firstn i (full P v)) = i) by (rewrite firstn_length; lia).
  rewrite firstn_all2 by lia. rewrite skipn_all2 by lia. apply firstn_snoc. auto.
Qed.

Section StoreImmutable.
Variable P : params.
Variable v : ver.
Variable u : nat.
Hypothesis HK : p_kind P = Immutable.

Definition SIi (p : pc) (R : remote) : Prop :=
  match p with
  | SWrite i => i < S (p_more P v) /\ content (PartF u) R = Some (firstn i (full P v))
  | SClose | SHash2 | SRename | SFbCreate => content (PartF u) R = Some (full P v)
  | SHashW h => hval_eqb h (HV (full P v)) = true -> content (PartF u) R = Some (full P v)
  | SFbWrite i d => d = full P v /\ i < length d /\ content (Pkg u) R = Some (firstn i (full P v))
  | SFbRemove | SHashMove Ok | SHashFbCopy Ok | SHashFbRm Ok | Done Ok => content (Pkg u) R = Some (full P v)
  | SLock | SUnlock _ => False   (* mutable only *)
  | _ => True
  end.

Lemma store_step_SIi : forall c f R L R' L',
  c_op L = OStore v u -> step P c f R L = (R', L') -> SIi (c_pc L) R -> SIi (c_pc L') R'.
Proof.
  intros c f R L R' L' Ho H HI.
  step_cases H; try congruence.
  all: unfold tgt in *; rewrite ?HK in *; cbn [c_pc at_pc with_src with_tmp with_dest] in *;
       repeat match goal with E : c_pc _ = _ |- _ => rewrite E in * end;
       repeat match goal with E : c_op _ = _ |- _ => rewrite E in * end;
       try match goal with E : OStore _ _ = OStore _ _ |- _ => inversion E; subst; clear E end;
       unfold SIi in *; rewrite ?content_set_hash, ?content_del_hash, ?content_set_lock, ?content_set_dir in *; try exact I; try assumption.
  all: try contradiction.
  all: try congruence.
  all: try match goal with r : result |- _ => destruct r end; try exact I.
  all: repeat match goal with H : _ /\ _ |- _ => destruct H end; subst.
  all: try (match goal with E : Nat.ltb _ _ = true |- _ => apply Nat.ltb_lt in E end).
  all: try (match goal with E : Nat.ltb _ _ = false |- _ => apply Nat.ltb_ge in E end).
  all: repeat match goal with E : aget ?k (r_files ?R) = Some (_, _) |- _ => apply content_aget in E end.
  all: rewrite ?content_put, ?content_put_at, ?content_put_other, ?content_del_other by reflexivity.
  all: repeat match goal with Hc : content ?k ?R = Some _, E : content ?k ?R = Some _ |- _ => rewrite Hc in E; inversion E; subst; clear E end.
  all: try congruence.
  all: rewrite ?write_at_next by lia.
  all: try (erewrite write_at_next' by eassumption).
  all: try (exfalso; match goal with E : nth_error ?d ?i = None, H : ?i < length ?d |- _ => apply nth_error_None in E; lia end).
  all: repeat split; auto; try lia; try congruence.
  all: try (simpl; lia).
  all: try (rewrite firstn_all2 by (rewrite full_length; lia); reflexivity).
  all: try (rewrite full_length in *; f_equal; rewrite <- (firstn_all (full P v)) at 2; rewrite full_length; f_equal; lia).
Qed.

End StoreImmutable.

Lemma run_faults_SIi : forall P v u c fs R L,
  p_kind P = Immutable -> c_op L = OStore v u -> SIi P v u (c_pc L) R ->
  SIi P v u (c_pc (snd (run_faults P c fs R L))) (fst (run_faults P c fs R L)).
Proof.
  intros P v u c fs. induction fs as [|f r IH]; intros R L HK Ho HI; simpl; auto.
  destruct (step P c f R L) as [R' L'] eqn:Hs.
  apply IH; auto.
  - rewrite (step_op _ _ _ _ _ _ _ Hs). exact Ho.
  - eapply store_step_SIi; eauto.
Qed.

Lemma immutable_store_success_leaves_complete_package : forall P v u c fs R,
  p_kind P = Immutable ->
  let '(R', L') := run_faults P c fs R (new_client P (OStore v u)) in
  c_pc L' = Done Ok -> content (Pkg u) R' = Some (full P v).
Proof.
  intros P v u c fs R HK.
  pose proof (run_faults_SIi P v u c fs R (new_client P (OStore v u)) HK eq_refl I) as H.
  destruct (run_faults P c fs R (new_client P (OStore v u))) as [R' L']. simpl in H.
  intros E. rewrite E in H. exact H.
Qed.

(* the entry directory exists once a Store is past its first step *)
Definition SD (p : pc) (R : remote) : Prop :=
  match p with SInit | Done Err | Crashed => True | _ => r_dir R = true end.

Lemma store_step_SD : forall P c f v u R L R' L',
  c_op L = OStore v u -> step P c f R L = (R', L') -> SD (c_pc L) R -> SD (c_pc L') R'.
Proof.
  intros P c f v u R L R' L' Ho H HI.
  step_cases H; try congruence.
  all: cbn [c_pc at_pc with_src with_tmp with_dest] in *;
       repeat match goal with E : c_pc _ = _ |- _ => rewrite E in * end;
       unfold SD in *; cbn [r_dir set_dir set_lock set_hash del_hash del_file put_file put_file_at] in *;
       try exact I; try assumption; try reflexivity.
  all: repeat match goal with |- context [match ?x with _ => _ end] => destruct x end; try exact I; try assumption; try reflexivity.
Qed.

Lemma store_success_dir : forall P v u c fs R,
  let '(R', L') := run_faults P c fs R (new_client P (OStore v u)) in
  c_pc L' = Done Ok -> r_dir R' = true.
Proof.
  intros P v u c fs R.
  assert (G : forall fs R L, c_op L = OStore v u -> SD (c_pc L) R ->
              SD (c_pc (snd (run_faults P c fs R L))) (fst (run_faults P c fs R L))).
  { clear. induction fs as [|f r IH]; intros R L Ho HI; simpl; auto.
    destruct (step P c f R L) as [R' L'] eqn:Hs. apply IH.
    - rewrite (step_op _ _ _ _ _ _ _ Hs). exact Ho.
    - eapply store_step_SD; eauto. }
  specialize (G fs R (new_client P (OStore v u)) eq_refl I).
  destruct (run_faults P c fs R (new_client P (OStore v u))) as [R' L']. simpl in G.
  intros E. rewrite E in G. exact G.
Qed.
