(* C16 — lemmas about coq/C16/Model.v, part B: global invariants over every schedule, sequential runs, witnesses *)
From Coq Require Import List Arith Bool Lia.
Import ListNotations.
From GU Require Import C16.Model C16.ProofsBase C16.ProofsA C16.ProofsS C16.ProofsF C16.ProofsL C16.ProofsI C16.ProofsJ C16.ProofsK.

(* ------------------------------------------------------------------------------------------------ *)
(* global invariant over every schedule                                                               *)

Definition Sv (cl : list client) (v : ver) : Prop :=
  exists n L, nth_error cl n = Some L /\ started_ver L = Some v.

Lemma nth_error_upd {A} : forall (l : list A) c x n,
  nth_error (upd c x l) n =
  if Nat.eqb n c then match nth_error l c with Some _ => Some x | None => None end else nth_error l n.
Proof.
  induction l as [|y r IH]; intros c x n.
  - simpl. destruct c; simpl; destruct n; simpl; auto; destruct (Nat.eqb _ _); auto.
  - destruct c, n; simpl; auto.
Qed.

Lemma started_keep : forall L L' v,
  c_op L' = c_op L -> (c_pc L <> SInit -> c_pc L' <> SInit) -> started_ver L = Some v -> started_ver L' = Some v.
Proof.
  unfold started_ver. intros L L' v Eo Ep E. rewrite Eo. destruct (c_op L); try discriminate.
  destruct (c_pc L) eqn:Ec; try discriminate;
  (assert (Hn : c_pc L' <> SInit) by (apply Ep; congruence); destruct (c_pc L'); congruence).
Qed.

Lemma Sv_mono : forall cl c L L' v,
  nth_error cl c = Some L -> c_op L' = c_op L -> (c_pc L <> SInit -> c_pc L' <> SInit) ->
  Sv cl v -> Sv (upd c L' cl) v.
Proof.
  intros cl c L L' v Hc Eo Ep (n & L0 & Hn & Hs).
  destruct (Nat.eqb n c) eqn:E.
  - apply Nat.eqb_eq in E; subst n. exists c, L'. rewrite nth_error_upd, Nat.eqb_refl, Hc. split; auto.
    rewrite Hc in Hn. inversion Hn; subst. eapply started_keep; eauto.
  - exists n, L0. rewrite nth_error_upd, E. auto.
Qed.

Definition Inv (st : state) : Prop :=
  files_ok (Sv (s_cl st)) (s_rem st) /\
  forall n L, nth_error (s_cl st) n = Some L -> client_ok (Sv (s_cl st)) L.

Lemma started_own_Sv : forall cl n L, nth_error cl n = Some L -> started_own (Sv cl) L.
Proof.
  intros cl n L Hn v u Eo Ep. exists n, L. split; auto. unfold started_ver. rewrite Eo.
  destruct (c_pc L); congruence.
Qed.

Lemma Inv_gstep : forall P st l, (forall d, p_unzip_other P d = None) -> Inv st -> Inv (gstep P st l).
Proof.
  intros P [R cl] l Hz [HF HC]. simpl in *. destruct l as [c f|]; simpl.
  - destruct (nth_error cl c) as [L|] eqn:Hc; [|split; auto].
    destruct (step P c f R L) as [R' L'] eqn:Hs.
    destruct (step_prov (Sv cl) P c f R L R' L' Hz Hs HF (HC _ _ Hc) (started_own_Sv _ _ _ Hc)) as (F' & C' & Eo & Ep).
    assert (M : forall v, Sv cl v -> Sv (upd c L' cl) v) by (intros; eapply Sv_mono; eauto).
    split; simpl.
    + eapply files_ok_mono; eauto.
    + intros n L0 Hn. rewrite nth_error_upd in Hn. destruct (Nat.eqb n c) eqn:E.
      * rewrite Hc in Hn. inversion Hn; subst. eapply client_ok_mono; eauto.
      * eapply client_ok_mono; eauto.
  - split; simpl; auto.
Qed.

Lemma Inv_init : forall P ops, Inv (init_state P ops).
Proof.
  intros P ops. split; simpl.
  - intros k d t E. discriminate.
  - intros n L Hn. apply nth_error_In in Hn. apply in_map_iff in Hn. destruct Hn as (o & <- & _).
    unfold client_ok, new_client; simpl. repeat split; try (intros; discriminate).
    + constructor.
    + intros i d E. destruct o; simpl in E; try discriminate. destruct (p_kind P); discriminate.
    + intros [E|[_ E]]; destruct o; simpl in E; try discriminate; destruct (p_kind P); discriminate.
Qed.

Lemma Inv_run : forall P sched st, (forall d, p_unzip_other P d = None) -> Inv st -> Inv (run P st sched).
Proof.
  intros P sched. induction sched as [|l r IH]; intros st Hz HI; simpl; auto.
  apply IH; auto. apply Inv_gstep; auto.
Qed.

Lemma Sv_stored : forall cl v, Sv cl v -> In v (stored cl).
Proof.
  induction cl as [|L r IH]; intros v (n & L0 & Hn & Hs).
  - destruct n; discriminate.
  - simpl. destruct n; simpl in Hn.
    + inversion Hn; subst. rewrite Hs. left; auto.
    + destruct (started_ver L); [right|]; apply IH; exists n, L0; auto.
Qed.

Lemma fetch_installs_stored_version_l : forall P ops sched,
  (forall d, p_unzip_other P d = None) ->
  let st := run P (init_state P ops) sched in
  forall n L, nth_error (s_cl st) n = Some L -> fetch_ok L = true ->
  exists v, c_dest L = DInst v /\ In v (stored (s_cl st)).
Proof.
  intros P ops sched Hz st n L Hn Hf.
  destruct (Inv_run P sched (init_state P ops) Hz (Inv_init P ops)) as [_ HC].
  destruct (HC n L Hn) as (_ & _ & Hd & Hok).
  unfold fetch_ok in Hf. destruct (c_op L) eqn:Eo; try discriminate. destruct (c_pc L) eqn:Ep; try discriminate.
  destruct r; try discriminate.
  destruct Hok as [v Ev]; [right; auto|]. exists v. split; auto. apply Sv_stored. auto.
Qed.

(* ------------------------------------------------------------------------------------------------ *)
(* the entry lock serialises the transfers of the mutable cache (repaired code, sound lock)           *)

Definition LockInv (st : state) : Prop :=
  forall n L, nth_error (s_cl st) n = Some L ->
    (in_critical L = true -> r_lock (s_rem st) = LHeld n true) /\ c_pc L <> FList.

Lemma LockInv_gstep : forall P st c f,
  p_kind P = Mutable -> p_defer_first P = false -> LockInv st -> LockInv (gstep P st (Step c f)).
Proof.
  intros P [R cl] c f HK HD HI. unfold LockInv in *. simpl in *.
  destruct (nth_error cl c) as [L|] eqn:Hc; [|exact HI].
  destruct (step P c f R L) as [R' L'] eqn:Hs. simpl.
  destruct (HI c L Hc) as [Hcr HnL].
  destruct (step_lock P c f R L R' L' HK HD Hs Hcr HnL) as (A & B & C).
  intros n L0 Hn. rewrite nth_error_upd in Hn. destruct (Nat.eqb n c) eqn:E.
  - apply Nat.eqb_eq in E; subst n. rewrite Hc in Hn. inversion Hn; subst. auto.
  - apply Nat.eqb_neq in E. destruct (HI n L0 Hn) as [Hcr0 Hn0]. split; auto.
Qed.

Lemma LockInv_init : forall P ops, p_kind P = Mutable -> LockInv (init_state P ops).
Proof.
  intros P ops HK n L Hn. simpl in Hn. apply nth_error_In in Hn. apply in_map_iff in Hn. destruct Hn as (o & <- & _).
  destruct o; unfold new_client, init_pc, in_critical; cbn [c_pc]; rewrite ?HK; split; intros; congruence.
Qed.

Lemma LockInv_run : forall P sched st,
  p_kind P = Mutable -> p_defer_first P = false -> ~ In BreakLock sched -> LockInv st -> LockInv (run P st sched).
Proof.
  intros P sched. induction sched as [|l r IH]; intros st HK HD Hnb HI; simpl; auto.
  apply IH; auto.
  - intro X. apply Hnb. right. exact X.
  - destruct l as [c f|]; [apply LockInv_gstep; auto | exfalso; apply Hnb; left; reflexivity].
Qed.

Lemma mutable_transfers_exclusive_l : forall P ops sched,
  p_kind P = Mutable -> p_defer_first P = false -> ~ In BreakLock sched ->
  let st := run P (init_state P ops) sched in
  forall n m Ln Lm, nth_error (s_cl st) n = Some Ln -> nth_error (s_cl st) m = Some Lm ->
    in_critical Ln = true -> in_critical Lm = true -> n = m /\ r_lock (s_rem st) = LHeld n true.
Proof.
  intros P ops sched HK HD Hnb st n m Ln Lm Hn Hm Cn Cm.
  pose proof (LockInv_run P sched (init_state P ops) HK HD Hnb (LockInv_init P ops HK)) as HI.
  destruct (HI n Ln Hn) as [A _]. destruct (HI m Lm Hm) as [B _].
  specialize (A Cn). specialize (B Cm). fold st in A, B. rewrite A in B. inversion B. subst. split; auto.
Qed.

(* ------------------------------------------------------------------------------------------------ *)
(* sequential use and concrete witnesses                                                              *)

Fixpoint seq_results (P : params) (n : nat) (R : remote) (ops : list (opk * option (lbl * fkind))) : list (ores * dest) :=
  match ops with
  | [] => []
  | (o, t) :: r => let '(R', L') := run_alone P n t 200 R (new_client P o) in (res_of L', c_dest L') :: seq_results P (S n) R' r
  end.

Definition P_of (k : kind) (defer_first rehash : bool) : params := mkParams k (fun _ => 1) defer_first rehash (fun _ => None).

(* D21: the code before the fix (no re-hash).  Store(v1) over v0 while the side file cannot be opened: Store reports
   success, the following fault-free Fetch fails. *)
Lemma stale_hash_without_rehash :
  map fst (seq_results (P_of Mutable false false) 0 remote0
             [(OStore 0 0, None); (OStore 1 1, Some (LHashOpen, KErr)); (OFetch, None)]) = [ROk; ROk; RErr].
Proof. vm_compute. reflexivity. Qed.

Lemma stale_hash_with_rehash :
  seq_results (P_of Mutable false true) 0 remote0
             [(OStore 0 0, None); (OStore 1 1, Some (LHashOpen, KErr)); (OFetch, None)]
  = [(ROk, DUntouched); (ROk, DUntouched); (ROk, DInst 1)].
Proof. vm_compute. reflexivity. Qed.

Definition steps (c k : nat) : list label := repeat (Step c NoF) k.

(* D15: the code before the fix.  Client 1 (Store v1) is inside its critical section; client 2 (Fetch) times out on
   the lock and its deferred Unlock removes client 1's lock. *)
Definition d15_sched : list label := steps 0 30 ++ steps 1 5 ++ steps 2 3 ++ [Step 2 FErr].
Definition d15_ops : list opk := [OStore 0 0; OStore 1 1; OFetch].

Lemma defer_first_frees_foreign_lock :
  let st := run (P_of Mutable true true) (init_state (P_of Mutable true true) d15_ops) d15_sched in
  option_map in_critical (nth_error (s_cl st) 1) = Some true /\ r_lock (s_rem st) = LFree.
Proof. vm_compute. split; reflexivity. Qed.

Lemma defer_after_keeps_foreign_lock :
  let st := run (P_of Mutable false true) (init_state (P_of Mutable false true) d15_ops) d15_sched in
  option_map in_critical (nth_error (s_cl st) 1) = Some true /\ r_lock (s_rem st) = LHeld 1 true.
Proof. vm_compute. split; reflexivity. Qed.

(* the zip-integrity hypothesis is necessary: if some proper prefix of a package happens to unzip (here: the first of
   the two writes of package 0 unzips to a tree 7), a crash of the FIRST Store after that write lets Fetch succeed with 7 *)
Definition P_prefix_unzips : params :=
  mkParams Mutable (fun _ => 1) false true
    (fun d => match d with [(0, 0, true)] => Some 7 | _ => None end).

Lemma prefix_unzips_witness :
  seq_results P_prefix_unzips 0 remote0 [(OStore 0 0, Some (LWrite 1, KCrash)); (OClean, None); (OFetch, None)]
  = [(RCrashed, DUntouched); (ROk, DUntouched); (ROk, DInst 7)].
Proof. vm_compute. reflexivity. Qed.

(* non-vacuity: three clients interleaved at micro-step granularity in the immutable cache; the Fetch succeeds *)
Definition nv_ops : list opk := [OStore 0 0; OStore 1 1; OFetch].
Definition nv_sched : list label :=
  steps 0 4 ++ steps 1 3 ++ steps 0 20 ++ steps 2 3 ++ steps 1 2 ++ steps 2 20 ++ steps 1 20.
Lemma nonvacuous_interleaving :
  let P := P_of Immutable false true in
  let st := run P (init_state P nv_ops) nv_sched in
  map c_pc (s_cl st) = [Done Ok; Done Ok; Done Ok] /\ option_map c_dest (nth_error (s_cl st) 2) = Some (DInst 0).
Proof. vm_compute. split; reflexivity. Qed.

(* ------------------------------------------------------------------------------------------------ *)
(* a successful Store is what later Fetches return (mutable cache)                                    *)

Inductive call := CFetch (c : nat) (fs : list fault) | CClean (c : nat) (fs : list fault).

(* later calls, one after the other, each by a fresh client and with an arbitrary fault (or none) at every step *)
Fixpoint run_calls (P : params) (R : remote) (calls : list call) : remote * list client :=
  match calls with
  | [] => (R, [])
  | k :: r =>
      let '(R', L') := match k with
                       | CFetch c fs => run_faults P c fs R (new_client P OFetch)
                       | CClean c fs => run_faults P c fs R (new_client P OClean)
                       end in
      let '(R'', ls) := run_calls P R' r in (R'', L' :: ls)
  end.

Lemma run_calls_visible : forall P v calls R,
  p_kind P = Mutable -> content Cache R = Some (full P v) -> r_dir R = true ->
  let '(R2, Ls) := run_calls P R calls in
  content Cache R2 = Some (full P v) /\ r_dir R2 = true /\
  forall L, In L Ls -> fetch_ok L = true -> c_dest L = DInst v.
Proof.
  intros P v calls. induction calls as [|k r IH]; intros R HK Hc Hd; simpl.
  - repeat split; auto. intros L [].
  - destruct k as [c fs|c fs].
    + pose proof (fetch_run_FI P v HK c fs R (new_client P OFetch) eq_refl (FI_init P v R Hc)) as HF.
      pose proof (run_keeps P HK c fs R (new_client P OFetch) (or_introl eq_refl)) as [K1 K2].
      destruct (run_faults P c fs R (new_client P OFetch)) as [R' L'] eqn:E. simpl in *.
      specialize (IH R' HK). rewrite K1, K2 in IH. specialize (IH Hc Hd).
      destruct (run_calls P R' r) as [R'' ls]. destruct IH as (A & B & C). repeat split; auto.
      intros L [<-|HL] Hf; [|auto].
      destruct HF as (_ & _ & _ & _ & HD). unfold fetch_ok in Hf.
      destruct (c_op L'); try discriminate. destruct (c_pc L') as [| | | | | | | | | | | | | | | | | | | | | | | | | | | | | | | | | | | [|] | ]; try discriminate. exact HD.
    + pose proof (run_keeps P HK c fs R (new_client P OClean) (or_intror eq_refl)) as [K1 K2].
      assert (Ho : c_op (snd (run_faults P c fs R (new_client P OClean))) = OClean).
      { clear. generalize (new_client P OClean) (eq_refl : c_op (new_client P OClean) = OClean). revert R.
        induction fs as [|f r' IHf]; intros R L Ho; simpl; auto.
        destruct (step P c f R L) as [R' L'] eqn:Hs. apply IHf. rewrite (step_op _ _ _ _ _ _ _ Hs). exact Ho. }
      destruct (run_faults P c fs R (new_client P OClean)) as [R' L'] eqn:E. simpl in *.
      specialize (IH R' HK). rewrite K1, K2 in IH. specialize (IH Hc Hd).
      destruct (run_calls P R' r) as [R'' ls]. destruct IH as (A & B & C). repeat split; auto.
      intros L [<-|HL] Hf; [|auto]. unfold fetch_ok in Hf. rewrite Ho in Hf. discriminate.
Qed.

Lemma store_success_visible_mutable_l : forall P v u c fs R calls,
  p_kind P = Mutable -> p_rehash P = true ->
  let '(R1, L1) := run_faults P c fs R (new_client P (OStore v u)) in
  c_pc L1 = Done Ok ->
  r_lock R1 = LFree /\
  let '(R2, Ls) := run_calls P R1 calls in
  (forall L, In L Ls -> fetch_ok L = true -> c_dest L = DInst v) /\
  (r_lock R2 = LFree -> forall c',
     let L' := snd (run_faults P c' (repeat NoF 12) R2 (new_client P OFetch)) in
     c_pc L' = Done Ok /\ c_dest L' = DInst v).
Proof.
  intros P v u c fs R calls HK HR.
  pose proof (store_success_leaves_complete_package_l P v u c fs R HK) as HS.
  destruct (run_faults P c fs R (new_client P (OStore v u))) as [R1 L1].
  intros E. destruct (HS E) as (Hd & Hc & Hl). split; auto.
  pose proof (run_calls_visible P v calls R1 HK Hc Hd) as HV.
  destruct (run_calls P R1 calls) as [R2 Ls]. destruct HV as (A & B & C). split; auto.
  intros Hf c'. apply (fetch_live P v HK HR c' R2); auto.
Qed.

(* ------------------------------------------------------------------------------------------------ *)
(* a successful Store is what later Fetches return (immutable cache)                                  *)

Lemma fetch_run_same : forall P c fs R L, c_op L = OFetch ->
  r_files (fst (run_faults P c fs R L)) = r_files R /\ r_dir (fst (run_faults P c fs R L)) = r_dir R.
Proof.
  intros P c fs. induction fs as [|f r IH]; intros R L Ho; simpl; auto.
  destruct (step P c f R L) as [R' L'] eqn:Hs.
  destruct (fetch_step_same P c f R L R' L' Ho Hs) as [A B]. rewrite <- A, <- B. apply IH.
  rewrite (step_op _ _ _ _ _ _ _ Hs). exact Ho.
Qed.

Lemma newest1_newest : forall u R, newest1 u R -> newest u R.
Proof. intros u R (t & rest & H & _). exists t, rest. exact H. Qed.

Lemma run_op_clean : forall P c fs R L, c_op L = OClean -> c_op (snd (run_faults P c fs R L)) = OClean.
Proof.
  intros P c fs. induction fs as [|f r IH]; intros R L Ho; simpl; auto.
  destruct (step P c f R L) as [R' L'] eqn:Hs. apply IH. rewrite (step_op _ _ _ _ _ _ _ Hs). exact Ho.
Qed.

Lemma run_calls_visible_imm : forall P v u calls R,
  p_kind P = Immutable -> content (Pkg u) R = Some (full P v) -> newest1 u R -> r_dir R = true ->
  let '(R2, Ls) := run_calls P R calls in
  content (Pkg u) R2 = Some (full P v) /\ newest1 u R2 /\ r_dir R2 = true /\
  forall L, In L Ls -> fetch_ok L = true -> c_dest L = DInst v.
Proof.
  intros P v u calls. induction calls as [|k r IH]; intros R HK Hc Hn Hd; simpl.
  - repeat split; auto. intros L [].
  - destruct k as [c fs|c fs].
    + pose proof (fetch_run_FIi P v u HK c fs R (new_client P OFetch) eq_refl
                    (FIi_init P v u R Hc (newest1_newest u R Hn))) as HF.
      pose proof (fetch_run_same P c fs R (new_client P OFetch) eq_refl) as [K1 K2].
      destruct (run_faults P c fs R (new_client P OFetch)) as [R' L'] eqn:E. simpl in *.
      destruct HF as (A1 & _ & _ & _ & _ & _ & HD).
      assert (Hn' : newest1 u R') by (unfold newest1 in *; rewrite K1; exact Hn).
      specialize (IH R' HK A1 Hn'). rewrite K2 in IH. specialize (IH Hd).
      destruct (run_calls P R' r) as [R'' ls]. destruct IH as (A & B & C & D). repeat split; auto.
      intros L [<-|HL] Hf; [|auto]. unfold fetch_ok in Hf.
      destruct (c_op L'); try discriminate. destruct (c_pc L') as [| | | | | | | | | | | | | | | | | | | | | | | | | | | | | | | | | | | [|] | ]; try discriminate. exact HD.
    + pose proof (clean_run_CIi P v u HK c fs R (new_client P OClean) eq_refl (CIi_init P v u HK R Hc Hn Hd)) as HC.
      pose proof (run_op_clean P c fs R (new_client P OClean) eq_refl) as Ho.
      destruct (run_faults P c fs R (new_client P OClean)) as [R' L'] eqn:E. simpl in *.
      destruct HC as (A1 & A2 & A3 & _).
      specialize (IH R' HK A1 A2 A3).
      destruct (run_calls P R' r) as [R'' ls]. destruct IH as (A & B & C & D). repeat split; auto.
      intros L [<-|HL] Hf; [|auto]. unfold fetch_ok in Hf. rewrite Ho in Hf. discriminate.
Qed.

Lemma store_success_visible_immutable_l : forall P v u c fs R calls,
  p_kind P = Immutable -> p_rehash P = true ->
  let '(R1, L1) := run_faults P c fs R (new_client P (OStore v u)) in
  c_pc L1 = Done Ok ->
  content (Pkg u) R1 = Some (full P v) /\
  (newest1 u R1 ->
   let '(R2, Ls) := run_calls P R1 calls in
   (forall L, In L Ls -> fetch_ok L = true -> c_dest L = DInst v) /\
   (forall c', let L' := snd (run_faults P c' (repeat NoF 12) R2 (new_client P OFetch)) in
               c_pc L' = Done Ok /\ c_dest L' = DInst v)).
Proof.
  intros P v u c fs R calls HK HR.
  pose proof (immutable_store_success_leaves_complete_package P v u c fs R HK) as HS.
  pose proof (store_success_dir P v u c fs R) as HD.
  destruct (run_faults P c fs R (new_client P (OStore v u))) as [R1 L1].
  intros E. specialize (HS E). specialize (HD E). split; auto.
  intros Hn.
  pose proof (run_calls_visible_imm P v u calls R1 HK HS Hn HD) as HV.
  destruct (run_calls P R1 calls) as [R2 Ls]. destruct HV as (A & B & C & D). split; auto.
  intros c'. apply (fetch_live_imm P v u HK HR c' R2); auto. apply newest1_newest. exact B.
Qed.

(* ------------------------------------------------------------------------------------------------ *)
(* several keys: a key-indexed store                                                                  *)

(* One entry (and the clients working on it) per key.  A step is tagged with the key of the call it belongs to and acts on
   that key's component only: this independence is what the generated fact [f_entry_is_whole_key] (the entry directory is
   <root>/<whole key>) gives for keys none of which is a path prefix of another. *)
Definition kstate := nat -> state.
Definition kinit (P : params) (ops : nat -> list opk) : kstate := fun k => init_state P (ops k).
Definition kstep (P : params) (ks : kstate) (kl : nat * label) : kstate :=
  fun k => if Nat.eqb k (fst kl) then gstep P (ks k) (snd kl) else ks k.
Definition krun (P : params) (ks : kstate) (sched : list (nat * label)) : kstate := fold_left (kstep P) sched ks.

Lemma krun_proj : forall P sched ks k,
  krun P ks sched k = run P (ks k) (map snd (filter (fun kl => Nat.eqb k (fst kl)) sched)).
Proof.
  intros P sched. induction sched as [|kl r IH]; intros ks k; simpl; auto.
  change (krun P ks (kl :: r) k) with (krun P (kstep P ks kl) r k). rewrite IH. unfold kstep.
  destruct (Nat.eqb k (fst kl)); simpl; reflexivity.
Qed.

Lemma fetch_installs_stored_version_keyed_l : forall P (ops : nat -> list opk) (sched : list (nat * label)),
  (forall d, p_unzip_other P d = None) ->
  forall k, let st := krun P (kinit P ops) sched k in
  forall n L, nth_error (s_cl st) n = Some L -> fetch_ok L = true ->
  exists v, c_dest L = DInst v /\ In v (stored (s_cl st)).
Proof.
  intros P ops sched Hz k. rewrite krun_proj. unfold kinit. apply fetch_installs_stored_version_l. exact Hz.
Qed.
