(* C16 — lemmas, part J: Fetch in the immutable cache while the complete package of v is the most recent one. *)
From Coq Require Import List Arith Bool Lia.
Import ListNotations.
From GU Require Import C16.Model C16.ProofsBase.

Section FetchImmutable.
Variable P : params.
Variable v : ver.
Variable u : nat.
Hypothesis HK : p_kind P = Immutable.

(* the listing by modification time puts package u first *)
Definition newest (R : remote) : Prop := exists t rest, pkgs_by_mtime (r_files R) = (u, t) :: rest.

Definition hold (X : Prop) : Prop := X.

Definition uses_src (p : pc) : bool :=
  match p with
  | FExists | FHash1 | FHash1c | FHash1w _ | FCopy _ | FRehash | FRehashW _ | FUnzip => true
  | _ => false
  end.

Definition FIi (L : client) (R : remote) : Prop :=
  content (Pkg u) R = Some (full P v) /\ newest R /\
  c_pc L <> FFind /\ c_pc L <> FLock /\
  (uses_src (c_pc L) = true -> c_src L = Pkg u) /\
  (match c_pc L with FUnzip | FRehash | FRehashW _ => c_tmp L = full P v | _ => True end) /\
  (match c_pc L with FUnlock Ok | Done Ok => c_dest L = DInst v | _ => True end).

Lemma fetch_step_FIi : forall c f R L R' L',
  c_op L = OFetch -> step P c f R L = (R', L') -> FIi L R -> FIi L' R'.
Proof.
  intros c f R L R' L' Ho H (Hc & [t [rest Hn]] & Hn1 & Hn2 & Hs & Ht & Hd).
  assert (HN : hold (pkgs_by_mtime (r_files R) = (u, t) :: rest)) by exact Hn.
  step_cases H; try congruence.
  all: unfold FIi, newest; rewrite ?HK in *; cbn [c_pc c_src c_tmp c_dest at_pc with_src with_tmp with_dest uses_src] in *;
       repeat match goal with E : c_pc _ = _ |- _ => rewrite E in * end;
       cbn [uses_src] in *;
       try (rewrite Hs in * by reflexivity);
       rewrite ?content_set_hash, ?content_set_lock in *;
       cbn [r_files set_hash set_lock] in *;
       try match goal with E : pkgs_by_mtime _ = (_, _) :: _ |- _ => rewrite Hn in E; inversion E; subst; clear E end;
       repeat match goal with E : content (Pkg u) ?R = Some _, E' : content (Pkg u) ?R = Some _ |- _ => rewrite E in E'; inversion E'; subst; clear E' end;
       repeat match goal with E : unzip P (c_tmp _) = Some _ |- _ => rewrite Ht, unzip_full in E; inversion E; subst; clear E end.
  all: unfold hold in HN; repeat split; eauto; try congruence.
Qed.

Lemma fetch_run_FIi : forall c fs R L,
  c_op L = OFetch -> FIi L R -> FIi (snd (run_faults P c fs R L)) (fst (run_faults P c fs R L)).
Proof.
  intros c fs. induction fs as [|f r IH]; intros R L Ho HI; simpl; auto.
  destruct (step P c f R L) as [R' L'] eqn:Hs. apply IH.
  - rewrite (step_op _ _ _ _ _ _ _ Hs). exact Ho.
  - eapply fetch_step_FIi; eauto.
Qed.

Lemma FIi_init : forall R, content (Pkg u) R = Some (full P v) -> newest R -> FIi (new_client P OFetch) R.
Proof. intros R H N. unfold FIi, new_client. simpl. repeat split; auto; congruence. Qed.

Hypothesis HR : p_rehash P = true.

Ltac goi := repeat (cbn -[full data_eqb unzip]; unfold content, hash_write, ffail; rewrite ?HK, ?HR, ?data_eqb_refl, ?unzip_full;
                    repeat match goal with E : _ = _ |- _ => rewrite E end).

Lemma fetch_live_imm : forall c R,
  r_dir R = true -> content (Pkg u) R = Some (full P v) -> newest R ->
  let L' := snd (run_faults P c (repeat NoF 12) R (new_client P OFetch)) in
  c_pc L' = Done Ok /\ c_dest L' = DInst v.
Proof.
  intros c R Hd Hc [t [rest Hn]]. unfold content in Hc.
  destruct (aget (Pkg u) (r_files R)) as [[d t']|] eqn:G; simpl in Hc; inversion Hc; subst d; clear Hc.
  destruct (aget (Pkg u) (r_hash R)) as [[d|]|] eqn:GH.
  - destruct (data_eqb d (full P v)) eqn:E; goi; split; reflexivity.
  - goi. split; reflexivity.
  - goi. split; reflexivity.
Qed.

End FetchImmutable.
