(* C16 — executable model of the shared cache (utils/sharedcache): both cache kinds, backend micro-steps, faults,
   crashes, interleavings.  Definitions only.

   Mirrors (after the fixes proposed in /verif/fixes/C16-*.patch; the flags [p_defer_first] and [p_rehash] switch back
   to the code before the fixes):
     common.go:33-56   getHash           (side file trusted unless forced; failed side-file write IGNORED)
     common.go:70-138  TransferFiles     (hash1 of source, copy, hash2 of copy, compare, [fix: re-hash the source once])
     common.go:206-227 unpackPackageToLocalDestination (temporary copy, then unzip)
     sharedcache_mutable.go:41-122    Fetch / Store under the entry lock, :124-127 CleanEntry = ReleaseIfStale
     sharedcache_immutable.go:43-93   listing by modification time ignoring .part/.hash, :95-122 Fetch,
                                      :124-169 Store (upload as .part, Move, move side file), :179-213 CleanEntry
     filesystem/files.go:1366-1401    Move = Rename, falling back to copy + remove when Rename fails
     filesystem/lockfile.go           the entry lock, ABSTRACT here: free / held by c with live heart beat / held by a
                                      dead client (stale); the label [BreakLock] stands for C01's known unsound schedules.

   A package file is a list of chunks; chunk (v,i,w) = the i-th backend write of the package of version v, w = whether
   it arrived whole (false: short write).  The xxhash of a file is modelled by the file content itself (injective:
   collision-freeness is an assumption); a side file holds [HV d] (the hash of content d) or [HBad] (not 16 characters). *)
From Coq Require Import List Arith Bool.
Import ListNotations.
From GU Require Import C16.Facts C16.Gen.

Inductive kind := Mutable | Immutable.
Definition ver := nat.
Definition chunk := (ver * nat * bool)%type.
Definition data := list chunk.

Definition chunk_eqb (a b : chunk) : bool :=
  match a, b with (v, i, w), (v', i', w') => Nat.eqb v v' && Nat.eqb i i' && Bool.eqb w w' end.
Fixpoint data_eqb (a b : data) : bool :=
  match a, b with
  | [], [] => true
  | x :: xs, y :: ys => chunk_eqb x y && data_eqb xs ys
  | _, _ => false
  end.

Record params := mkParams {
  p_kind : kind;
  p_more : ver -> nat;            (* the package of version v travels in S (p_more v) backend writes *)
  p_defer_first : bool;           (* true = code before the fix: defer Unlock registered BEFORE acquiring (D15) *)
  p_rehash : bool;                (* true = fixed code: on mismatch the source hash is recalculated once (D21) *)
  p_unzip_other : data -> option ver  (* what unzipping a file that is NOT a complete package yields (None = error) *)
}.

Definition full (P : params) (v : ver) : data := map (fun i => (v, i, true)) (seq 0 (S (p_more P v))).

(* filesystem/zip.go UnzipWithContext on the temporary copy *)
Definition unzip (P : params) (d : data) : option ver :=
  match d with
  | (v, _, _) :: _ => if data_eqb d (full P v) then Some v else p_unzip_other P d
  | [] => p_unzip_other P d
  end.

(* ---- the remote entry directory <remote>/<key>/ ---- *)
Inductive fname := Cache | Pkg (u : nat) | PartF (u : nat).   (* cache.zip | <uuid>-cache.zip | <uuid>-cache.zip.part *)
Definition fname_eqb (a b : fname) : bool :=
  match a, b with
  | Cache, Cache => true
  | Pkg u, Pkg u' => Nat.eqb u u'
  | PartF u, PartF u' => Nat.eqb u u'
  | _, _ => false
  end.
Inductive hval := HV (d : data) | HBad.
Definition hval_eqb (a b : hval) : bool :=
  match a, b with HV d, HV d' => data_eqb d d' | _, _ => false end.   (* an invalid side file never equals anything *)
Inductive lockst := LFree | LHeld (c : nat) (alive : bool).

Section Assoc.
  Context {V : Type}.
  Fixpoint aget (k : fname) (l : list (fname * V)) : option V :=
    match l with [] => None | (k', v) :: r => if fname_eqb k k' then Some v else aget k r end.
  Fixpoint adel (k : fname) (l : list (fname * V)) : list (fname * V) :=
    match l with [] => [] | (k', v) :: r => if fname_eqb k k' then adel k r else (k', v) :: adel k r end.
  Definition aset (k : fname) (v : V) (l : list (fname * V)) : list (fname * V) := (k, v) :: adel k l.
End Assoc.

Record remote := mkRemote {
  r_dir : bool;                               (* the entry directory exists *)
  r_files : list (fname * (data * nat));      (* package files: content, modification time *)
  r_hash : list (fname * hval);               (* side files *)
  r_lock : lockst;
  r_clock : nat
}.
Definition remote0 : remote := mkRemote false [] [] LFree 1.

Definition set_dir R := mkRemote true (r_files R) (r_hash R) (r_lock R) (r_clock R).
Definition set_lock l R := mkRemote (r_dir R) (r_files R) (r_hash R) l (r_clock R).
Definition set_hash k h R := mkRemote (r_dir R) (r_files R) (aset k h (r_hash R)) (r_lock R) (r_clock R).
Definition del_hash k R := mkRemote (r_dir R) (r_files R) (adel k (r_hash R)) (r_lock R) (r_clock R).
Definition del_file k R := mkRemote (r_dir R) (adel k (r_files R)) (r_hash R) (r_lock R) (r_clock R).
(* create / write: the modification time becomes "now" *)
Definition put_file k d R := mkRemote (r_dir R) (aset k (d, r_clock R) (r_files R)) (r_hash R) (r_lock R) (S (r_clock R)).
(* rename keeps the modification time *)
Definition put_file_at k d t R := mkRemote (r_dir R) (aset k (d, t) (r_files R)) (r_hash R) (r_lock R) (r_clock R).
Definition content k R : option data := option_map fst (aget k (r_files R)).

(* write through an open handle at the handle's own offset i *)
Definition write_at (i : nat) (ch : chunk) (d : data) : data := firstn i d ++ ch :: skipn (S i) d.

(* listCompleteFilesByModTime: the final package names, most recent first *)
Fixpoint ins_desc (x : nat * nat) (l : list (nat * nat)) : list (nat * nat) :=
  match l with
  | [] => [x]
  | y :: r => if Nat.ltb (snd y) (snd x) then x :: y :: r else y :: ins_desc x r
  end.
Fixpoint pkgs_by_mtime (l : list (fname * (data * nat))) : list (nat * nat) :=
  match l with
  | [] => []
  | (Pkg u, (_, t)) :: r => ins_desc (u, t) (pkgs_by_mtime r)
  | _ :: r => pkgs_by_mtime r
  end.

(* ---- clients ---- *)
Inductive result := Ok | Err.
Inductive opk := OStore (v : ver) (u : nat) | OFetch | OClean.
Inductive dest := DUntouched | DEmpty | DInst (v : ver) | DJunk.

Inductive pc :=
  (* Store *)
  | SInit | SPrep | SLock | SSrc | SCreate | SWrite (i : nat) | SClose | SHash2 | SHashW (h : hval) | SFailRm
  | SUnlock (r : result)
  | SRename | SFbCreate | SFbWrite (i : nat) (d : data) | SFbRemove
  | SHashMove (r : result) | SHashFbCopy (r : result) | SHashFbRm (r : result)
  (* Fetch *)
  | FDir | FFind | FSetup | FList | FLock | FExists | FHash1 | FHash1c | FHash1w (h : hval)
  | FCopy (h1 : hval) | FRehash | FRehashW (h : hval) | FUnzip | FUnlock (r : result)
  (* CleanEntry *)
  | CStale | CList | CRm (l : list nat)
  | Done (r : result) | Crashed.

Record client := mkClient { c_op : opk; c_pc : pc; c_src : fname; c_tmp : data; c_dest : dest }.

Definition init_pc (P : params) (o : opk) : pc :=
  match o with
  | OStore _ _ => SInit
  | OFetch => FDir
  | OClean => match p_kind P with Mutable => CStale | Immutable => CList end
  end.
Definition new_client (P : params) (o : opk) : client := mkClient o (init_pc P o) Cache [] DUntouched.

Inductive fault := NoF | FErr | FShort | FCrash | FCrashShort.

Definition at_pc (L : client) (p : pc) : client := mkClient (c_op L) p (c_src L) (c_tmp L) (c_dest L).
Definition with_src (L : client) (s : fname) : client := mkClient (c_op L) (c_pc L) s (c_tmp L) (c_dest L).
Definition with_tmp (L : client) (d : data) : client := mkClient (c_op L) (c_pc L) (c_src L) d (c_dest L).
Definition with_dest (L : client) (d : dest) : client := mkClient (c_op L) (c_pc L) (c_src L) (c_tmp L) d.

(* the client dies: no further step; its heart beat stops, so a lock it holds becomes stale *)
Definition die (c : nat) (R : remote) (L : client) : remote * client :=
  (match r_lock R with
   | LHeld c' true => if Nat.eqb c c' then set_lock (LHeld c' false) R else R
   | _ => R
   end, at_pc L Crashed).

(* RemoteLockFile.Unlock: stops the heart beat and removes the lock directory — whoever created it *)
Definition unlock_step (c : nat) (f : fault) (r : result) (R : remote) (L : client) : remote * client :=
  match f with
  | NoF => (set_lock LFree R, at_pc L (Done r))
  | _ => (match r_lock R with LHeld c' _ => if Nat.eqb c c' then set_lock (LHeld c' false) R else R | LFree => R end,
          at_pc L (Done Err))
  end.

(* LockWithTimeout (sharedcache_mutable.go:66-73, 107-114).  A live foreign holder: keep trying (NoF) or time out (FErr). *)
Definition lock_step (P : params) (c : nat) (f : fault) (next : pc) (R : remote) (L : client) : remote * client :=
  let no_acquire := ((if p_defer_first P then set_lock LFree R else R), at_pc L (Done Err)) in
  match r_lock R, f with
  | LFree, NoF => (set_lock (LHeld c true) R, at_pc L next)
  | LFree, _ => no_acquire                         (* Mkdir of the lock directory fails *)
  | LHeld _ true, NoF => (R, L)                 (* locked: wait and retry *)
  | LHeld _ true, _ => no_acquire                  (* timeout *)
  | LHeld _ false, _ => no_acquire                 (* ErrStaleLock *)
  end.

Definition tgt (P : params) (u : nat) : fname := match p_kind P with Mutable => Cache | Immutable => PartF u end.

Definition half (ch : chunk) : chunk := match ch with (v, i, _) => (v, i, false) end.

(* side-file write of getHash: failure ignored.  FErr = the file could not be opened (old content stays);
   FShort = opened (truncated) but the write failed (invalid content). *)
Definition hash_write (k : fname) (h : hval) (f : fault) (R : remote) : remote :=
  match f with
  | NoF => set_hash k h R
  | FErr => R
  | _ => set_hash k HBad R
  end.

Definition store_step (P : params) (c : nat) (f : fault) (v : ver) (u : nat) (R : remote) (L : client) : remote * client :=
  let t := tgt P u in
  let fail := (R, at_pc L SFailRm) in
  match c_pc L with
  | SInit => match f with NoF => (set_dir R, at_pc L SPrep) | _ => (R, at_pc L (Done Err)) end
  | SPrep => (* temporary directory + ZipWithContext (zip.go:73-176; close errors reported since the fix) *)
      match f with
      | NoF => (R, at_pc L (match p_kind P with Mutable => SLock | Immutable => SSrc end))
      | _ => (R, at_pc L (Done Err))
      end
  | SLock => lock_step P c f SSrc R L
  | SSrc => (* TransferFiles: checks and hash of the local source; destFile is already the remote name *)
      match f with NoF => (R, at_pc L SCreate) | _ => fail end
  | SCreate => match f with NoF => (put_file t [] R, at_pc L (SWrite 0)) | _ => fail end
  | SWrite i =>
      let nxt := if Nat.ltb (S i) (S (p_more P v)) then SWrite (S i) else SClose in
      match f, content t R with
      | NoF, Some d => (put_file t (write_at i (v, i, true) d) R, at_pc L nxt)
      | NoF, None => (R, at_pc L nxt)               (* unlinked meanwhile: the handle still accepts the write *)
      | FShort, Some d => (put_file t (write_at i (v, i, false) d) R, at_pc L SFailRm)
      | _, _ => fail
      end
  | SClose => match f with NoF => (R, at_pc L SHash2) | _ => fail end
  | SHash2 => match f, content t R with
              | NoF, Some d => (R, at_pc L (SHashW (HV d)))
              | _, _ => fail
              end
  | SHashW h =>
      (hash_write t h f R,
       at_pc L (if hval_eqb h (HV (full P v))
                then match p_kind P with Mutable => SUnlock Ok | Immutable => SRename end
                else SFailRm))
  | SFailRm => (* TransferFiles' and Store's Rm of the destination file (the side file stays) *)
      ((match f with NoF => del_file t R | _ => R end),
       at_pc L (match p_kind P with Mutable => SUnlock Err | Immutable => Done Err end))
  | SUnlock r => unlock_step c f r R L
  | SRename =>
      match f, aget (PartF u) (r_files R) with
      | NoF, Some (d, tm) => (put_file_at (Pkg u) d tm (del_file (PartF u) R), at_pc L (SHashMove Ok))
      | NoF, None => (R, at_pc L (SHashMove Err))
      | _, _ => (R, at_pc L SFbCreate)            (* Rename failed: Move falls back to copy + remove *)
      end
  | SFbCreate =>
      match f, content (PartF u) R with
      | NoF, Some d => (put_file (Pkg u) [] R, at_pc L (match d with [] => SFbRemove | _ => SFbWrite 0 d end))
      | _, _ => (R, at_pc L (SHashMove Err))
      end
  | SFbWrite i d =>
      let nxt := if Nat.ltb (S i) (length d) then SFbWrite (S i) d else SFbRemove in
      match f, nth_error d i, content (Pkg u) R with
      | NoF, Some ch, Some cur => (put_file (Pkg u) (write_at i ch cur) R, at_pc L nxt)
      | NoF, _, _ => (R, at_pc L nxt)
      | FShort, Some ch, Some cur => (put_file (Pkg u) (write_at i (half ch) cur) R, at_pc L (SHashMove Err))
      | _, _, _ => (R, at_pc L (SHashMove Err))
      end
  | SFbRemove => match f with
                 | NoF => (del_file (PartF u) R, at_pc L (SHashMove Ok))
                 | _ => (R, at_pc L (SHashMove Err))
                 end
  | SHashMove r =>
      match aget (PartF u) (r_hash R), f with
      | None, _ => (R, at_pc L (Done r))
      | Some h, NoF => (set_hash (Pkg u) h (del_hash (PartF u) R), at_pc L (Done r))
      | Some _, _ => (R, at_pc L (SHashFbCopy r))
      end
  | SHashFbCopy r =>
      match aget (PartF u) (r_hash R), f with
      | Some h, NoF => (set_hash (Pkg u) h R, at_pc L (SHashFbRm r))
      | Some _, FShort => (set_hash (Pkg u) HBad R, at_pc L (Done r))
      | _, _ => (R, at_pc L (Done r))
      end
  | SHashFbRm r => ((match f with NoF => del_hash (PartF u) R | _ => R end), at_pc L (Done r))
  | _ => (R, L)
  end.

Definition ffail (P : params) (L : client) : client :=
  at_pc L (match p_kind P with Mutable => FUnlock Err | Immutable => Done Err end).

Definition fetch_step (P : params) (c : nat) (f : fault) (R : remote) (L : client) : remote * client :=
  let src := c_src L in
  match c_pc L with
  | FDir => match f, r_dir R with
            | NoF, true => (R, at_pc L (match p_kind P with Mutable => FFind | Immutable => FSetup end))
            | _, _ => (R, at_pc L (Done Err))
            end
  | FFind => match f, content Cache R with
             | NoF, Some _ => (R, at_pc (with_src L Cache) FSetup)
             | _, _ => (R, at_pc L (Done Err))
             end
  | FSetup => match f with
              | NoF => (R, at_pc (with_dest L DEmpty) (match p_kind P with Mutable => FLock | Immutable => FList end))
              | _ => (R, at_pc (with_dest L DJunk) (Done Err))
              end
  | FList => match f, pkgs_by_mtime (r_files R) with
             | NoF, (u, _) :: _ => (R, at_pc (with_src L (Pkg u)) FExists)
             | _, _ => (R, at_pc L (Done Err))
             end
  | FLock => lock_step P c f FExists R L
  | FExists => match f, content src R with
               | NoF, Some _ => (R, at_pc L FHash1)
               | _, _ => (R, ffail P L)
               end
  | FHash1 => match f, aget src (r_hash R) with
              | NoF, Some (HV d) => (R, at_pc L (FCopy (HV d)))
              | _, _ => (R, at_pc L FHash1c)
              end
  | FHash1c => match f, content src R with
               | NoF, Some d => (R, at_pc L (FHash1w (HV d)))
               | _, _ => (R, ffail P L)
               end
  | FHash1w h => (hash_write src h f R, at_pc L (FCopy h))
  | FCopy h1 => match f, content src R with
                | NoF, Some d =>
                    let L' := with_tmp L d in
                    (R, if hval_eqb h1 (HV d) then at_pc L' FUnzip
                        else if p_rehash P then at_pc L' FRehash else ffail P L')
                | _, _ => (R, ffail P L)
                end
  | FRehash => match f, content src R with
               | NoF, Some d => (R, at_pc L (FRehashW (HV d)))
               | _, _ => (R, ffail P L)
               end
  | FRehashW h => (hash_write src h f R, if hval_eqb h (HV (c_tmp L)) then at_pc L FUnzip else ffail P L)
  | FUnzip => match f, unzip P (c_tmp L) with
              | NoF, Some v => (R, at_pc (with_dest L (DInst v))
                                     (match p_kind P with Mutable => FUnlock Ok | Immutable => Done Ok end))
              | _, _ => (R, ffail P (with_dest L DJunk))
              end
  | FUnlock r => unlock_step c f r R L
  | _ => (R, L)
  end.

Definition clean_step (P : params) (c : nat) (f : fault) (R : remote) (L : client) : remote * client :=
  match c_pc L with
  | CStale => match f, r_lock R with
              | NoF, LHeld _ false => (set_lock LFree R, at_pc L (Done Ok))
              | NoF, _ => (R, at_pc L (Done Ok))
              | _, _ => (R, at_pc L (Done Err))
              end
  | CList => if negb (r_dir R) then (R, at_pc L (Done Err)) else   (* Ls of a missing entry directory fails *)
             match f, pkgs_by_mtime (r_files R) with
             | NoF, _ :: u :: r => (R, at_pc L (CRm (map fst (u :: r))))
             | NoF, _ => (R, at_pc L (Done Ok))
             | _, _ => (R, at_pc L (Done Err))
             end
  | CRm (u :: l) => match f with
                    | NoF => (del_hash (Pkg u) (del_file (Pkg u) R), at_pc L (match l with [] => Done Ok | _ => CRm l end))
                    | _ => (R, at_pc L (Done Err))
                    end
  | CRm [] => (R, at_pc L (Done Ok))
  | _ => (R, L)
  end.

Definition finished (L : client) : bool := match c_pc L with Done _ | Crashed => true | _ => false end.

(* one micro-step of client c (its position in the client list) *)
Definition step (P : params) (c : nat) (f : fault) (R : remote) (L : client) : remote * client :=
  if finished L then (R, L) else
  match f with
  | FCrash => die c R L
  | _ =>
    let '(R', L') :=
      match c_op L with
      | OStore v u => store_step P c (match f with FCrashShort => FShort | x => x end) v u R L
      | OFetch => fetch_step P c (match f with FCrashShort => FShort | x => x end) R L
      | OClean => clean_step P c (match f with FCrashShort => FShort | x => x end) R L
      end in
    match f with FCrashShort => die c R' L' | _ => (R', L') end
  end.

(* ---- interleavings ---- *)
Record state := mkState { s_rem : remote; s_cl : list client }.
Inductive label := Step (c : nat) (f : fault) | BreakLock.

Fixpoint upd {A} (n : nat) (x : A) (l : list A) : list A :=
  match l, n with
  | [], _ => []
  | _ :: r, 0 => x :: r
  | y :: r, S n' => y :: upd n' x r
  end.

Definition gstep (P : params) (st : state) (l : label) : state :=
  match l with
  | BreakLock => mkState (set_lock LFree (s_rem st)) (s_cl st)
  | Step c f =>
      match nth_error (s_cl st) c with
      | Some L => let '(R', L') := step P c f (s_rem st) L in mkState R' (upd c L' (s_cl st))
      | None => st
      end
  end.

Definition run (P : params) (st : state) (sched : list label) : state := fold_left (gstep P) sched st.
Definition init_state (P : params) (ops : list opk) : state := mkState remote0 (map (new_client P) ops).

(* versions whose Store has begun *)
Definition started_ver (L : client) : option ver :=
  match c_op L, c_pc L with
  | OStore _ _, SInit => None
  | OStore v _, _ => Some v
  | _, _ => None
  end.
Fixpoint stored (cl : list client) : list ver :=
  match cl with
  | [] => []
  | L :: r => match started_ver L with Some v => v :: stored r | None => stored r end
  end.

Definition fetch_ok (L : client) : bool :=
  match c_op L, c_pc L with OFetch, Done Ok => true | _, _ => false end.

Definition in_critical (L : client) : bool :=
  match c_pc L with
  | SSrc | SCreate | SWrite _ | SClose | SHash2 | SHashW _ | SFailRm | SUnlock _
  | FExists | FHash1 | FHash1c | FHash1w _ | FCopy _ | FRehash | FRehashW _ | FUnzip | FUnlock _ => true
  | _ => false
  end.

(* ---- sequential use: one call at a time, each by a fresh client, with at most one fault at a labelled step ---- *)
Inductive lbl := LInit | LCreate | LWrite (i : nat) | LHashOpen | LHashWrite | LRename | LHashMove | LHashRead | LCopy | LUnzip | LLock.
Inductive fkind := KErr | KShort | KCrash | KCrashShort.

Definition lbl_matches (l : lbl) (p : pc) : bool :=
  match l, p with
  | LInit, SInit | LCreate, SCreate | LRename, SRename | LHashMove, SHashMove _
  | LHashRead, FHash1 | LCopy, FCopy _ | LUnzip, FUnzip | LLock, SLock | LLock, FLock => true
  | LWrite i, SWrite j => Nat.eqb i j
  | LHashOpen, SHashW _ | LHashOpen, FHash1w _ | LHashWrite, SHashW _ | LHashWrite, FHash1w _ => true
  | _, _ => false
  end.

Definition fault_of (l : lbl) (k : fkind) : fault :=
  match l, k with
  | LHashWrite, (KErr | KShort) => FShort
  | LHashWrite, _ => FCrashShort
  | _, KErr => FErr
  | _, KShort => FShort
  | _, KCrash => FCrash
  | _, KCrashShort => FCrashShort
  end.

Fixpoint run_alone (P : params) (c : nat) (target : option (lbl * fkind)) (fuel : nat) (R : remote) (L : client) : remote * client :=
  match fuel with
  | 0 => (R, L)
  | S n =>
      if finished L then (R, L) else
      match target with
      | Some (l, k) =>
          if lbl_matches l (c_pc L)
          then let '(R', L') := step P c (fault_of l k) R L in run_alone P c None n R' L'
          else let '(R', L') := step P c NoF R L in run_alone P c target n R' L'
      | None => let '(R', L') := step P c NoF R L in run_alone P c None n R' L'
      end
  end.

(* projection of the entry directory compared with the implementation *)
Inductive pclass := PFull (v : ver) | PPartial.
Inductive hclass := HOk | HStale | HBadC | HNone.
Definition pclass_of (P : params) (d : data) : pclass :=
  match d with
  | (v, _, _) :: _ => if data_eqb d (full P v) then PFull v else PPartial
  | [] => PPartial
  end.
Definition hclass_of (d : data) (h : option hval) : hclass :=
  match h with
  | None => HNone
  | Some HBad => HBadC
  | Some (HV d') => if data_eqb d d' then HOk else HStale
  end.
Fixpoint ins_asc (x : nat * (pclass * hclass)) (l : list (nat * (pclass * hclass))) :=
  match l with
  | [] => [x]
  | y :: r => if Nat.ltb (fst x) (fst y) then x :: y :: r else y :: ins_asc x r
  end.
Fixpoint visible (P : params) (R : remote) (l : list (fname * (data * nat))) : list (nat * (pclass * hclass)) :=
  match l with
  | [] => []
  | (PartF _, _) :: r => visible P R r
  | (k, (d, t)) :: r => ins_asc (t, (pclass_of P d, hclass_of d (aget k (r_hash R)))) (visible P R r)
  end.
Definition count_parts (R : remote) : nat :=
  length (filter (fun x => match fst x with PartF _ => true | _ => false end) (r_files R)).
Definition lock_present (R : remote) : bool := match r_lock R with LFree => false | _ => true end.

Record robs := mkRobs { ro_pkgs : list (pclass * hclass); ro_parts : nat; ro_lock : bool }.
Definition project (P : params) (R : remote) : robs :=
  mkRobs (map snd (visible P R (r_files R))) (count_parts R) (lock_present R).

Inductive sop := QStore (v : ver) | QFetch | QClean.
Inductive ores := ROk | RErr | RCrashed.
Record opcase := mkOp {
  oc_op : sop;
  oc_fault : option (lbl * fkind);
  oc_res : ores;
  oc_inst : option ver;            (* Fetch that reported success: the version installed *)
  oc_remote : option robs          (* observed entry directory after the call (when observed) *)
}.
Record case := mkCase {
  k_kind : kind;
  k_more : list nat;               (* per version: number of backend writes of its package, minus one *)
  k_ops : list opcase
}.

Definition pclass_eqb a b := match a, b with PFull v, PFull w => Nat.eqb v w | PPartial, PPartial => true | _, _ => false end.
Definition hclass_eqb a b := match a, b with HOk, HOk | HStale, HStale | HBadC, HBadC | HNone, HNone => true | _, _ => false end.
Fixpoint pk_eqb (a b : list (pclass * hclass)) : bool :=
  match a, b with
  | [], [] => true
  | (p, h) :: r, (p', h') :: r' => pclass_eqb p p' && hclass_eqb h h' && pk_eqb r r'
  | _, _ => false
  end.
Definition robs_eqb (a b : robs) : bool :=
  pk_eqb (ro_pkgs a) (ro_pkgs b) && Nat.eqb (ro_parts a) (ro_parts b) && Bool.eqb (ro_lock a) (ro_lock b).

Definition res_of (L : client) : ores :=
  match c_pc L with Done Ok => ROk | Crashed => RCrashed | _ => RErr end.
Definition ores_eqb a b := match a, b with ROk, ROk | RErr, RErr | RCrashed, RCrashed => true | _, _ => false end.

(* the model instance for the CURRENT source: its flags are read from the generated record of facts *)
Definition params_of_facts (F : facts) (k : kind) (more : ver -> nat) (other : data -> option ver) : params :=
  mkParams k more (facts_defer_first F) (facts_rehash F) other.

Definition params_of (c : case) : params :=
  params_of_facts gen_facts (k_kind c) (fun v => nth v (k_more c) 0) (fun _ => None).

Fixpoint check_ops (P : params) (n : nat) (R : remote) (ops : list opcase) : bool :=
  match ops with
  | [] => true
  | o :: r =>
      let op := match oc_op o with QStore v => OStore v n | QFetch => OFetch | QClean => OClean end in
      let '(R', L') := run_alone P n (oc_fault o) 200 R (new_client P op) in
      ores_eqb (res_of L') (oc_res o)
      && match oc_op o, oc_res o with
         | QFetch, ROk => match c_dest L', oc_inst o with DInst v, Some w => Nat.eqb v w | _, _ => false end
         | _, _ => true
         end
      && match oc_remote o with Some ob => robs_eqb (project P R') ob | None => true end
      && check_ops P (S n) R' r
  end.

(* the correspondence is evaluated on the generated instance; if one of the facts built into the micro-step order does not
   hold of the source, the model does not describe it and every case counts as a mismatch *)
Definition check_case (c : case) : bool :=
  facts_model_applies gen_facts && check_ops (params_of c) 0 remote0 (k_ops c).
