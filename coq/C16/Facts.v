(* C16 — the facts about utils/sharedcache that the model's flags and fixed micro-step order rest on.  The record TYPE is
   hand-written; its VALUE for the current source is generated on every run by translator-c16 into coq/C16/Gen.v. *)
From Coq Require Import Bool.

Record facts := mkFacts {
  (* sharedcache_mutable.go Fetch / Store: `defer Unlock` registered only after LockWithTimeout returned nil *)
  f_mut_fetch_defer_after_acquire : bool;
  f_mut_store_defer_after_acquire : bool;
  (* the error of the unpack / transfer call is returned; the deferred unlock does not overwrite it *)
  f_mut_fetch_returns_transfer_error : bool;
  f_mut_store_returns_transfer_error : bool;
  (* common.go TransferFiles: on a mismatch the hash of the SOURCE is recalculated (from src), exactly once, before the
     transfer is declared corrupt; the destination hash is computed from the transferred file *)
  f_rehash_from_source : bool;
  f_rehash_once : bool;
  f_dest_hash_from_transferred_file : bool;
  (* the copy is unconditional: never skipped on the word of a (best-effort, possibly stale) side file of the destination *)
  f_transfer_always_copies : bool;
  (* getCacheEntryPath: the entry directory is <remote storage path>/<key>, the whole key: distinct keys, distinct entries *)
  f_entry_is_whole_key : bool;
  (* setUpLocalDestination: CleanDir(dest), then the destination is listed and must be empty *)
  f_setup_clean_then_check : bool;
  (* unpackPackageToLocalDestination: plain unzip (archives inside the stored tree stay files) *)
  f_unzip_plain : bool;
  (* sharedcache_immutable.go Store: only the base name loses ".part"; zip -> transfer -> rename -> hash rename *)
  f_imm_part_base_only : bool;
  f_imm_store_order : bool;
  (* immutable Fetch: the most recent package by modification time *)
  f_imm_fetch_newest_first : bool
}.

(* the two facts the model has flags for *)
Definition facts_defer_first (F : facts) : bool :=
  negb (f_mut_fetch_defer_after_acquire F && f_mut_store_defer_after_acquire F).
Definition facts_rehash (F : facts) : bool :=
  f_rehash_from_source F && f_rehash_once F && f_dest_hash_from_transferred_file F.

(* the facts that are built into the model's micro-step order: the model speaks about the source only if they hold *)
Definition facts_model_applies (F : facts) : bool :=
  f_mut_fetch_returns_transfer_error F && f_mut_store_returns_transfer_error F &&
  f_transfer_always_copies F && f_entry_is_whole_key F && f_setup_clean_then_check F && f_unzip_plain F &&
  f_imm_part_base_only F && f_imm_store_order F && f_imm_fetch_newest_first F.
