(* C16 — lemmas about coq/C16/Model.v, part A: association lists, provenance of data, the local step lemma *)
From Coq Require Import List Arith Bool Lia.
Import ListNotations.
From GU Require Import C16.Model C16.ProofsBase.

(* ------------------------------------------------------------------------------------------------ *)
(* association lists                                                                                  *)

(* ------------------------------------------------------------------------------------------------ *)
(* provenance of data: every chunk stems from a version in S                                          *)

Section Provenance.
Variable S : ver -> Prop.

Definition ver_of (ch : chunk) : ver := fst (fst ch).
Definition data_ok (d : data) : Prop := Forall (fun ch => S (ver_of ch)) d.
Definition fl_ok (l : list (fname * (data * nat))) : Prop := forall k d t, aget k l = Some (d, t) -> data_ok d.
Definition files_ok (R : remote) : Prop := fl_ok (r_files R).
Definition client_ok (L : client) : Prop :=
  data_ok (c_tmp L)
  /\ (forall i d, c_pc L = SFbWrite i d -> data_ok d)
  /\ (forall v, c_dest L = DInst v -> S v)
  /\ ((c_pc L = FUnlock Ok \/ (c_op L = OFetch /\ c_pc L = Done Ok)) -> exists v, c_dest L = DInst v).

Lemma data_ok_nil : data_ok [].
Proof. constructor. Qed.

Lemma data_ok_firstn : forall n d, data_ok d -> data_ok (firstn n d).
Proof. unfold data_ok. induction n; destruct d; simpl; intros H; auto. inversion H; subst. constructor; auto. Qed.

Lemma data_ok_skipn : forall n d, data_ok d -> data_ok (skipn n d).
Proof. unfold data_ok. induction n; destruct d; simpl; intros H; auto. inversion H; subst. auto. Qed.

Lemma data_ok_write_at : forall i ch d, data_ok d -> S (ver_of ch) -> data_ok (write_at i ch d).
Proof.
  intros. unfold write_at, data_ok. apply Forall_app. split.
  - apply data_ok_firstn; auto.
  - constructor; auto. apply data_ok_skipn; auto.
Qed.

Lemma data_ok_nth : forall d i ch, data_ok d -> nth_error d i = Some ch -> S (ver_of ch).
Proof. unfold data_ok. intros d i ch H E. rewrite Forall_forall in H. eauto using nth_error_In. Qed.

Lemma ver_of_half : forall ch, ver_of (half ch) = ver_of ch.
Proof. intros [[v i] w]. reflexivity. Qed.

Lemma files_ok_content : forall R k d, files_ok R -> content k R = Some d -> data_ok d.
Proof.
  unfold files_ok, fl_ok, content. intros R k d H E. destruct (aget k (r_files R)) as [[d' t]|] eqn:G; simpl in E; inversion E; subst. eauto.
Qed.

Lemma fl_ok_aset : forall l k d t, fl_ok l -> data_ok d -> fl_ok (aset k (d, t) l).
Proof.
  unfold fl_ok. intros l k d t H Hd k' d' t' E. rewrite aget_aset in E.
  destruct (fname_eqb k' k); [inversion E; subst; auto | eauto].
Qed.

Lemma fl_ok_adel : forall l k, fl_ok l -> fl_ok (adel k l).
Proof.
  unfold fl_ok. intros l k H k' d' t' E. rewrite aget_adel in E.
  destruct (fname_eqb k' k); [discriminate | eauto].
Qed.

Lemma files_ok_aget : forall R k d t, files_ok R -> aget k (r_files R) = Some (d, t) -> data_ok d.
Proof. unfold files_ok, fl_ok. eauto. Qed.

Lemma unzip_prov : forall P d v, (forall d', p_unzip_other P d' = None) -> data_ok d -> unzip P d = Some v -> S v.
Proof.
  intros P d v Hz Hd E. unfold unzip in E. destruct d as [|[[v0 i0] w0] r].
  - rewrite Hz in E. discriminate.
  - destruct (data_eqb _ _).
    + inversion E; subst. inversion Hd; subst. auto.
    + rewrite Hz in E. discriminate.
Qed.

End Provenance.

Lemma data_ok_mono : forall (S S' : ver -> Prop) d, (forall v, S v -> S' v) -> data_ok S d -> data_ok S' d.
Proof. unfold data_ok. intros S S' d H Hd. eapply Forall_impl; [|exact Hd]. simpl. auto. Qed.

Lemma files_ok_mono : forall (S S' : ver -> Prop) R, (forall v, S v -> S' v) -> files_ok S R -> files_ok S' R.
Proof. unfold files_ok, fl_ok. intros. eauto using data_ok_mono. Qed.

Lemma client_ok_mono : forall (S S' : ver -> Prop) L, (forall v, S v -> S' v) -> client_ok S L -> client_ok S' L.
Proof. unfold client_ok. intros S S' L H (A & B & C & D). repeat split; eauto using data_ok_mono. Qed.

(* ------------------------------------------------------------------------------------------------ *)
(* case analysis of one micro-step                                                                    *)

Definition started_own (S : ver -> Prop) (L : client) : Prop :=
  forall v u, c_op L = OStore v u -> c_pc L <> SInit -> S v.

Ltac norm_files :=
  unfold files_ok; cbn [r_files put_file put_file_at del_file set_lock set_hash del_hash set_dir].

(* the local step lemma: data written or installed by a step stems from S *)
Lemma step_prov : forall (S : ver -> Prop) P c f R L R' L',
  (forall d, p_unzip_other P d = None) ->
  step P c f R L = (R', L') ->
  files_ok S R -> client_ok S L -> started_own S L ->
  files_ok S R' /\ client_ok S L' /\ c_op L' = c_op L /\ (c_pc L <> SInit -> c_pc L' <> SInit).
Proof.
  intros S P c f R L R' L' Hz H HF (Ht & Hfb & Hd & Hok) Hown.
  assert (HF' : fl_ok S (r_files R)) by exact HF.
  step_cases H.
  all: split; [ norm_files;
      repeat first [ assumption | apply fl_ok_adel | apply fl_ok_aset | apply data_ok_nil | apply data_ok_write_at
                   | (eapply files_ok_content; [exact HF | eassumption])
                   | (eapply files_ok_aget; [exact HF | eassumption])
                   | (rewrite ver_of_half)
                   | (eapply Hfb; reflexivity)
                   | (eapply data_ok_nth; [ | eassumption])
                   | (cbn [ver_of fst]; eapply Hown; [eassumption | congruence]) ] | ].
  all: split; [ unfold client_ok; cbn [c_tmp c_pc c_dest c_op at_pc with_src with_tmp with_dest];
      repeat split;
      first [ assumption
            | solve [intros; congruence]
            | solve [intros ? ? E; inversion E; subst; eapply files_ok_content; [exact HF | eassumption]]
            | solve [intros ? ? E; inversion E; subst; eapply Hfb; reflexivity]
            | solve [intros ? ? E; eapply Hfb; congruence]
            | solve [intros ? ? E; rewrite Heqp in E; inversion E; subst; eapply Hfb; reflexivity]
            | solve [intros ? E; inversion E; subst; eapply unzip_prov; eassumption]
            | solve [eapply files_ok_content; [exact HF | eassumption]]
            | solve [intros [E|[E1 E2]]; try congruence; eauto]
            | solve [intros [E|[E1 E2]]; apply Hok; first [left; congruence | right; split; congruence]]
            | idtac ] | ].
  all: try (split; [ cbn [c_op at_pc with_src with_tmp with_dest]; first [reflexivity | assumption | congruence]
                   | cbn [c_pc at_pc with_src with_tmp with_dest]; congruence ]).
Qed.


(* ------------------------------------------------------------------------------------------------ *)
(* the entry lock serialises the transfers of the mutable cache (repaired code, sound lock)           *)

Lemma step_lock : forall P c f R L R' L',
  p_kind P = Mutable -> p_defer_first P = false ->
  step P c f R L = (R', L') ->
  (in_critical L = true -> r_lock R = LHeld c true) -> c_pc L <> FList ->
  c_pc L' <> FList /\
  (in_critical L' = true -> r_lock R' = LHeld c true) /\
  (forall n, n <> c -> r_lock R = LHeld n true -> r_lock R' = LHeld n true).
Proof.
  intros P c f R L R' L' HK HD H Hcrit HnL.
  step_cases H.
  all: try congruence.
  all: unfold in_critical in *; cbn [c_pc at_pc with_src with_tmp with_dest] in *;
       repeat match goal with E : c_pc _ = _ |- _ => rewrite E in * end;
       repeat match goal with E : Nat.eqb _ _ = true |- _ => apply Nat.eqb_eq in E; subst end;
       cbn [r_lock set_lock set_hash del_hash del_file put_file put_file_at set_dir] in *;
       (split; [ congruence | ]);
       (split; [ intros; first [ discriminate | reflexivity | (apply Hcrit; reflexivity) | congruence | auto ]
               | intros n_ Hn Hl; first [ assumption | congruence
                                       | (exfalso; apply Hn; assert (r_lock _ = LHeld _ true) as X by (apply Hcrit; reflexivity); congruence) ] ]).
Qed.

