(* C16 — lemmas, part K: CleanEntry of the immutable cache keeps the most recent package (and keeps it the most recent). *)
From Coq Require Import List Arith Bool Lia.
Import ListNotations.
From GU Require Import C16.Model C16.ProofsBase.

(* the listing is sorted by decreasing modification time *)
Fixpoint sd (l : list (nat * nat)) : Prop :=
  match l with [] => True | x :: r => (forall y, In y r -> snd y <= snd x) /\ sd r end.

Lemma ins_desc_in : forall y r z, In z (ins_desc y r) <-> z = y \/ In z r.
Proof.
  induction r as [|w r IH]; intros z; simpl.
  - intuition.
  - destruct (snd w <? snd y); simpl; [intuition|]. rewrite IH. intuition.
Qed.

Lemma ins_desc_sd : forall y r, sd r -> sd (ins_desc y r).
Proof.
  induction r as [|w r IH]; intros H; simpl; auto.
  - split; auto. intros ? [].
  - destruct H as [H1 H2]. destruct (snd w <? snd y) eqn:E.
    + apply Nat.ltb_lt in E. simpl. split; [|split; auto].
      intros z [<-|Hz]; [lia|]. specialize (H1 z Hz). lia.
    + apply Nat.ltb_ge in E. simpl. split; auto.
      intros z Hz. apply ins_desc_in in Hz. destruct Hz as [->|Hz]; auto.
Qed.

Lemma pkgs_sd : forall l, sd (pkgs_by_mtime l).
Proof.
  induction l as [|[k [d t]] r IH]; simpl; auto.
  destruct k; auto. apply ins_desc_sd; auto.
Qed.

Lemma ins_desc_front : forall y l, (forall w, In w l -> snd w < snd y) -> ins_desc y l = y :: l.
Proof.
  intros y [|w r] H; simpl; auto.
  assert (E : snd w <? snd y = true) by (apply Nat.ltb_lt; apply H; left; auto). rewrite E. reflexivity.
Qed.

Lemma filter_ins_desc : forall (f : nat * nat -> bool) y r, sd r ->
  filter f (ins_desc y r) = if f y then ins_desc y (filter f r) else filter f r.
Proof.
  induction r as [|z r IH]; intros H.
  - simpl. destruct (f y); reflexivity.
  - destruct H as [H1 H2]. simpl ins_desc. destruct (snd z <? snd y) eqn:E.
    + apply Nat.ltb_lt in E. change (filter f (y :: z :: r)) with (if f y then y :: filter f (z :: r) else filter f (z :: r)).
      destruct (f y) eqn:Fy; [|reflexivity].
      symmetry. apply ins_desc_front. intros w Hw. apply filter_In in Hw. destruct Hw as [Hw _].
      destruct Hw as [<-|Hw]; [lia|]. specialize (H1 w Hw). lia.
    + simpl. rewrite (IH H2). destruct (f z) eqn:Fz; destruct (f y) eqn:Fy; auto.
      simpl. rewrite E. reflexivity.
Qed.

Lemma pkgs_adel : forall x l,
  pkgs_by_mtime (adel (Pkg x) l) = filter (fun p => negb (Nat.eqb (fst p) x)) (pkgs_by_mtime l).
Proof.
  intros x. induction l as [|[k [d t]] r IH]; simpl; auto.
  destruct k as [|u'|u']; simpl; auto.
  rewrite filter_ins_desc by apply pkgs_sd. simpl.
  destruct (Nat.eqb x u') eqn:E.
  - apply Nat.eqb_eq in E. subst. rewrite Nat.eqb_refl. simpl. exact IH.
  - rewrite Nat.eqb_sym in E. rewrite E. simpl. rewrite IH. reflexivity.
Qed.

Lemma content_del_hash' : forall k k' R, content k (del_hash k' R) = content k R. Proof. reflexivity. Qed.
Lemma content_del_other' : forall k k' R, fname_eqb k k' = false -> content k (del_file k' R) = content k R.
Proof. intros. unfold content, del_file. cbn [r_files]. rewrite aget_adel, H. reflexivity. Qed.

Section CleanImmutable.
Variable P : params.
Variable v : ver.
Variable u : nat.
Hypothesis HK : p_kind P = Immutable.

(* package u is first in the listing and listed once *)
Definition newest1 (R : remote) : Prop :=
  exists t rest, pkgs_by_mtime (r_files R) = (u, t) :: rest /\ ~ In u (map fst rest).

Lemma newest1_del : forall R x, x <> u -> newest1 R -> newest1 (del_hash (Pkg x) (del_file (Pkg x) R)).
Proof.
  intros R x Hx (t & rest & Hn & Hu). unfold newest1, del_hash, del_file. cbn [r_files].
  rewrite pkgs_adel, Hn. simpl. assert (E : Nat.eqb u x = false) by (apply Nat.eqb_neq; auto). rewrite E. simpl.
  eexists. eexists. split; [reflexivity|].
  intros Hin. apply Hu. apply in_map_iff in Hin. destruct Hin as (p & Hp & Hf). apply filter_In in Hf.
  apply in_map_iff. exists p. tauto.
Qed.

Definition CIi (L : client) (R : remote) : Prop :=
  content (Pkg u) R = Some (full P v) /\ newest1 R /\ r_dir R = true /\ c_pc L <> CStale /\
  (forall l, c_pc L = CRm l -> ~ In u l).

Lemma clean_step_CIi : forall c f R L R' L',
  c_op L = OClean -> step P c f R L = (R', L') -> CIi L R -> CIi L' R'.
Proof.
  intros c f R L R' L' Ho H (Hc & HN & Hdir & Hn1 & Hl).
  pose proof HN as HN'. destruct HN' as (t & rest & Hn & Hu).
  step_cases H; try congruence.
  all: unfold CIi; cbn [c_pc at_pc with_src with_tmp with_dest] in *;
       repeat match goal with E : c_pc _ = _ |- _ => rewrite E in * end.
  all: cbn [r_dir del_hash del_file]; repeat split; auto; try congruence.
  all: try (intros l' E; inversion E; subst; clear E;
            first [ (inversion Hn; subst; exact Hu) | (intro Hin; apply (Hl _ eq_refl); right; exact Hin) ]).
  all: try (rewrite content_del_hash', content_del_other'
              by (simpl; apply Nat.eqb_neq; intro; subst; apply (Hl _ eq_refl); left; auto); exact Hc).
  all: try (apply newest1_del; auto; intro; subst; apply (Hl _ eq_refl); left; auto).
Qed.

Lemma clean_run_CIi : forall c fs R L,
  c_op L = OClean -> CIi L R -> CIi (snd (run_faults P c fs R L)) (fst (run_faults P c fs R L)).
Proof.
  intros c fs. induction fs as [|f r IH]; intros R L Ho HI; simpl; auto.
  destruct (step P c f R L) as [R' L'] eqn:Hs. apply IH.
  - rewrite (step_op _ _ _ _ _ _ _ Hs). exact Ho.
  - eapply clean_step_CIi; eauto.
Qed.

Lemma CIi_init : forall R, content (Pkg u) R = Some (full P v) -> newest1 R -> r_dir R = true -> CIi (new_client P OClean) R.
Proof.
  intros R H N D. unfold CIi, new_client, init_pc. rewrite HK. simpl. repeat split; auto; try congruence.
Qed.

End CleanImmutable.
