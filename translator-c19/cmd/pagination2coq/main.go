// pagination2coq regenerates coq/C19/Gen.v from utils/collection/pagination/{pagination,stream}.go of $VERIF_REPO: the
// bodies of AbstractPaginator.HasNext / fetchNextPage / setCurrentPage / SetCurrentPage / GetNext / Stop / Close and of
// AbstractStreamPaginator.HasNext / DryUp as statement lists of a small IR (GU.C19.IR). Every statement must match a
// known shape EXACTLY (after removing white space); anything else is an error: the translator fails closed.
package main

import (
	"bytes"
	"fmt"
	"go/ast"
	"go/parser"
	"go/printer"
	"go/token"
	"os"
	"path/filepath"
	"strings"
)

func die(f string, a ...any) {
	fmt.Fprintf(os.Stderr, "pagination2coq: "+f+"\n", a...)
	os.Exit(1)
}

func norm(fset *token.FileSet, n ast.Node) string {
	var b bytes.Buffer
	_ = printer.Fprint(&b, fset, n)
	return strings.Join(strings.Fields(b.String()), "")
}

func findMethod(f *ast.File, recv, name string) *ast.FuncDecl {
	for _, d := range f.Decls {
		fd, ok := d.(*ast.FuncDecl)
		if !ok || fd.Name.Name != name || fd.Recv == nil || len(fd.Recv.List) != 1 {
			continue
		}
		t := fd.Recv.List[0].Type
		if s, ok := t.(*ast.StarExpr); ok {
			t = s.X
		}
		if id, ok := t.(*ast.Ident); ok && id.Name == recv {
			return fd
		}
	}
	return nil
}

type shape struct{ src, coq string }

func translate(fset *token.FileSet, what string, stmts []ast.Stmt, shapes []shape) []string {
	var out []string
	for _, st := range stmts {
		s := norm(fset, st)
		found := ""
		for _, sh := range shapes {
			if sh.src == s {
				found = sh.coq
			}
		}
		if found == "" {
			die("%s: statement outside the translated fragment: %s", what, s)
		}
		out = append(out, found)
	}
	return out
}

func method(fset *token.FileSet, f *ast.File, recv, name, sig string) *ast.FuncDecl {
	m := findMethod(f, recv, name)
	if m == nil {
		die("method (*%s).%s not found", recv, name)
	}
	if got := norm(fset, m.Type); got != sig {
		die("unexpected signature of %s.%s: %s", recv, name, got)
	}
	return m
}

func main() {
	repo := os.Getenv("VERIF_REPO")
	if repo == "" {
		repo = "/repo"
	}
	out := "coq/C19/Gen.v"
	if len(os.Args) > 1 {
		out = os.Args[1]
	}
	fset := token.NewFileSet()
	dir := filepath.Join(repo, "utils/collection/pagination")
	pf, err := parser.ParseFile(fset, filepath.Join(dir, "pagination.go"), nil, 0)
	if err != nil {
		die("%v", err)
	}
	sf, err := parser.ParseFile(fset, filepath.Join(dir, "stream.go"), nil, 0)
	if err != nil {
		die("%v", err)
	}
	notFound := `commonerrors.New(commonerrors.ErrNotFound,"thereisnotanynextitem")`

	hasNext := translate(fset, "AbstractPaginator.HasNext", method(fset, pf, "AbstractPaginator", "HasNext", "func()bool").Body.List, []shape{
		{"ifparallelisation.DetermineContextError(a.ctx)!=nil{returnfalse}", "HCtxCheck"},
		{"currentIt,err:=a.FetchCurrentPageIterator()", "HGetIter"},
		{"iferr!=nil{returnfalse}", "HRetFalseIfErr"},
		{"ifcurrentIt.HasNext(){returntrue}", "HIterHasNext"},
		{"currentPage,err:=a.FetchCurrentPage()", "HGetPage"},
		{"if!currentPage.HasNext(){returnfalse}", "HPageHasNext"},
		{"err=a.fetchNextPage()", "HFetchNext"},
		{"returna.HasNext()", "HRecurse"},
	})
	fetchNext := translate(fset, "AbstractPaginator.fetchNextPage", method(fset, pf, "AbstractPaginator", "fetchNextPage", "func()(errerror)").Body.List, []shape{
		{"currentPage,err:=a.FetchCurrentPage()", "FGetPage"},
		{"iferr!=nil{return}", "FRetIfErr"},
		{"if!currentPage.HasNext(){return}", "FPageHasNext"},
		{"newPage,err:=a.FetchNextPage(a.ctx,currentPage)", "FFetch"},
		{"err=a.setCurrentPage(newPage)", "FSetPage"},
		{"return", "FReturn"},
	})
	setPage := translate(fset, "AbstractPaginator.setCurrentPage", method(fset, pf, "AbstractPaginator", "setCurrentPage", "func(pageIStaticPage)(errerror)").Body.List, []shape{
		{"a.currentPage=page", "PSetPage"},
		{"a.currentPageIterator=nil", "PClearIter"},
		{"ifpage!=nil{a.currentPageIterator,err=page.GetItemIterator()}", "PGetIterIfPage"},
		{"return", "PReturn"},
	})
	setPageX := translate(fset, "AbstractPaginator.SetCurrentPage", method(fset, pf, "AbstractPaginator", "SetCurrentPage", "func(pageIStaticPage)(errerror)").Body.List, []shape{
		{"ifpage==nil{err=commonerrors.New(commonerrors.ErrUndefined,\"missingpage\")return}", "XRejectNil"},
		{"err=a.setCurrentPage(page)", "XSetPage"},
		{"return", "XReturn"},
	})
	getNext := translate(fset, "AbstractPaginator.GetNext", method(fset, pf, "AbstractPaginator", "GetNext", "func()(iteminterface{},errerror)").Body.List, []shape{
		{"err=parallelisation.DetermineContextError(a.ctx)", "GCtx"},
		{"iferr!=nil{return}", "GRetIfErr"},
		{"if!a.HasNext(){err=" + notFound + "return}", "GHasNextOrNotFound"},
		{"currentIt,err:=a.FetchCurrentPageIterator()", "GGetIter"},
		{"item,err=currentIt.GetNext()", "GIterGetNext"},
		{"return", "GReturn"},
	})
	// Stop hands out the store's Cancel; Close invokes it; the constructor derives the paginator's context from the caller's
	if m := method(fset, pf, "AbstractPaginator", "Stop", "func()context.CancelFunc"); norm(fset, m.Body) != "{returna.cancellationStore.Cancel}" {
		die("Stop is not `return a.cancellationStore.Cancel`")
	}
	if m := method(fset, pf, "AbstractPaginator", "Close", "func()error"); norm(fset, m.Body) != "{a.Stop()()returnnil}" {
		die("Close is not `a.Stop()(); return nil`: %s", norm(fset, m.Body))
	}
	ctorOK := false
	ast.Inspect(pf, func(n ast.Node) bool {
		if fd, ok := n.(*ast.FuncDecl); ok && fd.Name.Name == "NewAbstractPaginator" {
			b := norm(fset, fd.Body)
			ctorOK = strings.Contains(b, "context.WithCancel(ctx)") && strings.Contains(b, "RegisterCancelFunction(cancel")
		}
		return true
	})
	if !ctorOK {
		die("NewAbstractPaginator does not derive its context with context.WithCancel(ctx) and register the cancel function in its store")
	}

	// ---- stream paginator
	sh := method(fset, sf, "AbstractStreamPaginator", "HasNext", "func()bool")
	if len(sh.Body.List) != 1 {
		die("AbstractStreamPaginator.HasNext is not a single for-loop")
	}
	loop, ok := sh.Body.List[0].(*ast.ForStmt)
	if !ok || loop.Init != nil || loop.Cond != nil || loop.Post != nil {
		die("AbstractStreamPaginator.HasNext is not `for { … }`")
	}
	streamHasNext := translate(fset, "AbstractStreamPaginator.HasNext", loop.Body.List, []shape{
		{"ifs.AbstractPaginator.HasNext(){s.timeReachLast.Store(time.Now())returntrue}", "TAbsHasNext"},
		{"page,err:=s.AbstractPaginator.FetchCurrentPage()", "TGetPage"},
		{"iferr!=nil{returnfalse}", "TRetFalseIfErr"},
		{"stream,ok:=page.(IStaticPageStream)", "TCast"},
		{"if!ok{returnfalse}", "TRetFalseIfNotStream"},
		{"if!stream.HasFuture(){returnfalse}", "THasFuture"},
		{"ifs.IsRunningDry(){iftime.Since(s.timeReachLast.Load())>=s.timeOut{returnfalse}}else{s.timeReachLast.Store(time.Now())}", "TDryCheck"},
		{"future,err:=s.FetchFuturePage(s.GetContext(),stream)", "TFetchFuture"},
		{"err=s.AbstractPaginator.SetCurrentPage(future)", "TSetPage"},
		{"parallelisation.SleepWithContext(s.GetContext(),s.backoff)", "TSleep"},
	})
	sg := method(fset, sf, "AbstractStreamPaginator", "GetNext", "func()(interface{},error)")
	if len(sg.Body.List) != 1 {
		die("AbstractStreamPaginator.GetNext is not a single for-loop")
	}
	gloop, ok := sg.Body.List[0].(*ast.ForStmt)
	if !ok || gloop.Init != nil || gloop.Cond != nil || gloop.Post != nil {
		die("AbstractStreamPaginator.GetNext is not `for { … }`")
	}
	streamGetNext := translate(fset, "AbstractStreamPaginator.GetNext", gloop.Body.List, []shape{
		{"item,err:=s.AbstractPaginator.GetNext()", "UAbsGetNext"},
		{"ifcommonerrors.Any(err,nil,commonerrors.ErrCancelled,commonerrors.ErrTimeout){returnitem,err}", "URetIfItemOrContextError"},
		{"if!s.HasNext(){err=" + notFound + "returnnil,err}", "UHasNextOrNotFound"},
		{"parallelisation.SleepWithContext(s.GetContext(),s.backoff)", "USleep"},
	})
	if m := method(fset, sf, "AbstractStreamPaginator", "DryUp", "func()error"); norm(fset, m.Body) != "{s.runningOut.Store(true)returnnil}" {
		die("DryUp is not `s.runningOut.Store(true); return nil`")
	}
	if m := method(fset, sf, "AbstractStreamPaginator", "IsRunningDry", "func()bool"); norm(fset, m.Body) != "{returns.runningOut.Load()}" {
		die("IsRunningDry is not `return s.runningOut.Load()`")
	}
	if m := method(fset, sf, "AbstractStreamPaginator", "Close", "func()error"); norm(fset, m.Body) != "{returns.AbstractPaginator.Close()}" {
		die("stream Close does not delegate to AbstractPaginator.Close")
	}
	if m := method(fset, sf, "AbstractStreamPaginator", "Stop", "func()context.CancelFunc"); norm(fset, m.Body) != "{returns.AbstractPaginator.Stop()}" {
		die("stream Stop does not delegate to AbstractPaginator.Stop")
	}

	var b strings.Builder
	b.WriteString("(* GENERATED by translator-c19/cmd/pagination2coq from utils/collection/pagination/{pagination,stream}.go of the\n")
	b.WriteString("   repository's working tree — DO NOT EDIT; regenerated on every run of ./check C19. *)\n")
	b.WriteString("From Coq Require Import List.\nImport ListNotations.\nFrom GU Require Import C19.IR.\n\n")
	def := func(name, ty string, l []string) {
		b.WriteString("Definition " + name + " : list " + ty + " := [" + strings.Join(l, "; ") + "].\n")
	}
	def("has_next_body", "hstmt", hasNext)
	def("fetch_next_page_body", "fstmt", fetchNext)
	def("set_current_page_body", "pstmt", setPage)
	def("exported_set_current_page_body", "xstmt", setPageX)
	def("get_next_body", "gstmt", getNext)
	def("stream_has_next_loop_body", "tstmt", streamHasNext)
	def("stream_get_next_loop_body", "ustmt", streamGetNext)
	if err := os.WriteFile(out, []byte(b.String()), 0o644); err != nil {
		die("%v", err)
	}
}
