module verif/translator-c19

go 1.23
