module verif/translatorc02

go 1.24.1
