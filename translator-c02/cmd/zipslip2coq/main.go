// zipslip2coq extracts, with go/ast only, the FACTS about the zip-slip defence that the C02 model would otherwise
// hard-code, from utils/filesystem/zip.go (sanitiseZipExtractPath, hasParentDirectoryElement, (*VFS).unzip,
// (*VFS).unzipZippedFile, sanitiseConvertedZipExtractPath, (*VFS).unzipNestedZipFiles) and filepath.go (FilepathStem):
//
//   - sanitiseZipExtractPath statement by statement: argument order of filepath.Join, the equality shortcut, an early
//     accepting return for destination ".", the kind of parent-reference test (substring / element == ".." / element
//     HasPrefix "..") and what it is applied to (destPath or the entry name), every prefix test and whether it appends
//     a separator to the destination;
//   - unzip: destination cleaned before MkDir and the loop; the sanitiser call that defines filePath is unconditional
//     (or only made when the name contains "../"); filePath never reassigned; every MkDir after it and on filePath /
//     filepath.Dir(filePath); the arguments handed to unzipZippedFile / unzipNestedZipFiles; no other fs call;
//   - unzipZippedFile: re-sanitisation of the converted path present and before any fs call; fs calls are OpenFile /
//     Chtimes (MkDir tolerated) on destinationPath only — a Symlink / Link / anything else clears zf_regular_only;
//   - sanitiseConvertedZipExtractPath: CutPrefix + !found -> malicious + sanitiser on the remainder (or a bare HasPrefix);
//   - unzipNestedZipFiles: destination through the sanitiser (or a bare filepath.Join); unzip into it; Rm(nestedZipFile);
//   - FilepathStem = TrimSuffix(Base(fp), Ext(fp)).
//
// Output: coq/C02/Gen.v, `Definition generated : zfacts` plus a canonical trace of the sanitiser.  A statement of the
// sanitiser (or a call on the file system in the other functions) whose shape this program does not know is an ERROR
// (exit 1, stale Gen.v removed): the tie breaks instead of guessing.
package main

import (
	"bytes"
	"encoding/json"
	"fmt"
	"go/ast"
	"go/parser"
	"go/printer"
	"go/token"
	"os"
	"path/filepath"
	"strconv"
	"strings"
)

var fset = token.NewFileSet()
var outPath = "/verif/coq/C02/Gen.v"

func die(pos token.Pos, format string, a ...any) {
	where := ""
	if pos.IsValid() {
		p := fset.Position(pos)
		where = fmt.Sprintf("%s:%d: ", filepath.Base(p.Filename), p.Line)
	}
	fmt.Fprintf(os.Stderr, "zipslip2coq: %sunsupported shape: %s\n", where, fmt.Sprintf(format, a...))
	for _, ext := range []string{".v", ".vo", ".vos", ".vok", ".glob"} {
		_ = os.Remove(strings.TrimSuffix(outPath, ".v") + ext)
	}
	os.Exit(1)
}

// src: canonical text of a node (printer output without white space)
func src(n ast.Node) string {
	if n == nil {
		return ""
	}
	var b bytes.Buffer
	_ = printer.Fprint(&b, fset, n)
	return strings.Join(strings.Fields(b.String()), "")
}

func findFunc(f *ast.File, name string, method bool) *ast.FuncDecl {
	for _, d := range f.Decls {
		if fd, ok := d.(*ast.FuncDecl); ok && fd.Name.Name == name && (fd.Recv != nil) == method {
			return fd
		}
	}
	return nil
}

func paramNames(fd *ast.FuncDecl) []string {
	var out []string
	for _, p := range fd.Type.Params.List {
		for _, n := range p.Names {
			out = append(out, n.Name)
		}
	}
	return out
}

func isBareReturn(stmts []ast.Stmt) bool {
	if len(stmts) != 1 {
		return false
	}
	r, ok := stmts[0].(*ast.ReturnStmt)
	return ok && len(r.Results) == 0
}

// fsCalls lists the calls fs.<Method>(...) under n in source order
func fsCalls(n ast.Node) []*ast.CallExpr {
	var out []*ast.CallExpr
	ast.Inspect(n, func(m ast.Node) bool {
		if c, ok := m.(*ast.CallExpr); ok {
			if s, ok := c.Fun.(*ast.SelectorExpr); ok {
				if id, ok := s.X.(*ast.Ident); ok && id.Name == "fs" {
					out = append(out, c)
				}
			}
		}
		return true
	})
	return out
}

func method(c *ast.CallExpr) string { return c.Fun.(*ast.SelectorExpr).Sel.Name }

type facts struct {
	joinDestFirst, dotEarly, eqShortcut bool
	dd                                  string
	ddOnDestPath, prefixSep             bool
	cleanFirst, sanitiseAlways          bool
	pathUntouched, mkdirAfter           bool
	dirMkdirPath, fileMkdirDir          bool
	zfArgs, nestedArgPath               bool
	resanitise, resanitiseFirst         bool
	regularOnly, opsOnConverted         bool
	cutThenSanitise                     bool
	nestedSanitised, rmNested, stem     bool
	trace                               []string
}

var withSep = map[string]bool{
	`fmt.Sprintf("%v%v",destination,string(fs.PathSeparator()))`: true,
	`fmt.Sprintf("%v/",destination)`:                             true,
	`destination+"/"`:                                            true,
	`destination+string(fs.PathSeparator())`:                     true,
}
var bare = map[string]bool{`destination`: true, `fmt.Sprintf("%v",destination)`: true}

func (fa *facts) prefixIf(st ast.Stmt, prefixes *[]bool) bool {
	is, ok := st.(*ast.IfStmt)
	if !ok || is.Init != nil || is.Else != nil {
		return false
	}
	c := src(is.Cond)
	if !strings.HasPrefix(c, "strings.HasPrefix(destPath,") || !strings.HasSuffix(c, ")") {
		return false
	}
	if !isBareReturn(is.Body.List) {
		die(is.Pos(), "prefix test whose body is not a bare return")
	}
	p := c[len("strings.HasPrefix(destPath,") : len(c)-1]
	switch {
	case withSep[p]:
		*prefixes = append(*prefixes, true)
		fa.trace = append(fa.trace, "if HasPrefix(destPath, destination+SEP) { accept }")
	case bare[p]:
		*prefixes = append(*prefixes, false)
		fa.trace = append(fa.trace, "if HasPrefix(destPath, destination) { accept }")
	default:
		die(is.Pos(), "prefix operand %s", p)
	}
	return true
}

func (fa *facts) sanitiser(f *ast.File) {
	fd := findFunc(f, "sanitiseZipExtractPath", false)
	if fd == nil {
		die(token.NoPos, "sanitiseZipExtractPath not found")
	}
	if strings.Join(paramNames(fd), ",") != "fs,filePath,destination" {
		die(fd.Pos(), "parameters of sanitiseZipExtractPath: %v", paramNames(fd))
	}
	body := fd.Body.List
	if len(body) < 3 {
		die(fd.Pos(), "sanitiseZipExtractPath too short")
	}
	switch src(body[0]) {
	case "destPath=filepath.Join(destination,filePath)":
		fa.joinDestFirst = true
	case "destPath=filepath.Join(filePath,destination)":
		fa.joinDestFirst = false
	default:
		die(body[0].Pos(), "first statement %s", src(body[0]))
	}
	fa.trace = append(fa.trace, "destPath = Join("+map[bool]string{true: "destination, filePath", false: "filePath, destination"}[fa.joinDestFirst]+")")
	fa.dd = ""
	var prefixes []bool
	sawErr := false
	for i, st := range body[1:] {
		last := i == len(body)-2
		switch x := st.(type) {
		case *ast.IfStmt:
			if sawErr {
				die(x.Pos(), "test after the error was set")
			}
			if x.Init != nil || x.Else != nil {
				die(x.Pos(), "if with init/else")
			}
			c := src(x.Cond)
			switch {
			case c == "destPath==destination" || c == "destination==destPath":
				if !isBareReturn(x.Body.List) {
					die(x.Pos(), "equality shortcut body")
				}
				fa.eqShortcut = true
				fa.trace = append(fa.trace, "if destPath == destination { accept }")
			case c == `destination=="."` || c == `"."==destination`:
				if !isBareReturn(x.Body.List) {
					die(x.Pos(), "early return body")
				}
				fa.dotEarly = true
				fa.trace = append(fa.trace, `if destination == "." { accept }`)
			case strings.HasPrefix(c, "!hasParentDirectoryElement(") || strings.HasPrefix(c, `!strings.Contains(`):
				if fa.dd != "" {
					die(x.Pos(), "second parent-reference test")
				}
				var arg string
				if strings.HasPrefix(c, "!hasParentDirectoryElement(") {
					if !strings.HasSuffix(c, ",fs.PathSeparator())") {
						die(x.Pos(), "arguments of hasParentDirectoryElement: %s", c)
					}
					arg = c[len("!hasParentDirectoryElement(") : len(c)-len(",fs.PathSeparator())")]
					fa.dd = fa.elementTest(f)
				} else {
					if !strings.HasSuffix(c, `,"..")`) {
						die(x.Pos(), "substring test: %s", c)
					}
					arg = c[len("!strings.Contains(") : len(c)-len(`,"..")`)]
					fa.dd = "DDSubstring"
				}
				switch arg {
				case "destPath":
					fa.ddOnDestPath = true
				case "filePath", "filepath.Clean(filePath)":
					fa.ddOnDestPath = false
				default:
					die(x.Pos(), "parent-reference test applied to %s", arg)
				}
				fa.trace = append(fa.trace, fmt.Sprintf("if !%s(%s) {", fa.dd, arg))
				if len(x.Body.List) == 0 {
					die(x.Pos(), "empty guarded block")
				}
				for _, in := range x.Body.List {
					if !fa.prefixIf(in, &prefixes) {
						die(in.Pos(), "statement under the parent-reference test: %s", src(in))
					}
				}
				fa.trace = append(fa.trace, "}")
			default:
				if !fa.prefixIf(x, &prefixes) {
					die(x.Pos(), "test %s", c)
				}
			}
		case *ast.AssignStmt:
			if !strings.HasPrefix(src(x), "err=commonerrors.Newf(commonerrors.ErrMalicious,") {
				die(x.Pos(), "assignment %s", src(x))
			}
			sawErr = true
			fa.trace = append(fa.trace, "err = Malicious")
		case *ast.ReturnStmt:
			if len(x.Results) != 0 || !last || !sawErr {
				die(x.Pos(), "return")
			}
			fa.trace = append(fa.trace, "return")
		default:
			die(st.Pos(), "statement %s", src(st))
		}
	}
	if !sawErr {
		die(fd.Pos(), "no malicious error")
	}
	if fa.dd == "" {
		fa.dd = "DDNone"
		fa.ddOnDestPath = true
	}
	if len(prefixes) == 0 {
		die(fd.Pos(), "no prefix test")
	}
	fa.prefixSep = true
	for _, p := range prefixes {
		if !p {
			fa.prefixSep = false
		}
	}
}

// elementTest: shape of hasParentDirectoryElement
func (fa *facts) elementTest(f *ast.File) string {
	fd := findFunc(f, "hasParentDirectoryElement", false)
	if fd == nil {
		die(token.NoPos, "hasParentDirectoryElement not found")
	}
	b := fd.Body.List
	if len(b) != 3 || src(b[0]) != `elements:=strings.FieldsFunc(path,func(rrune)bool{returnr=='/'||r==pathSeparator})` || src(b[2]) != "returnfalse" {
		die(fd.Pos(), "hasParentDirectoryElement body")
	}
	rs, ok := b[1].(*ast.RangeStmt)
	if !ok || src(rs.X) != "elements" || len(rs.Body.List) != 1 {
		die(b[1].Pos(), "hasParentDirectoryElement loop")
	}
	is, ok := rs.Body.List[0].(*ast.IfStmt)
	if !ok || len(is.Body.List) != 1 || src(is.Body.List[0]) != "returntrue" {
		die(rs.Pos(), "hasParentDirectoryElement loop body")
	}
	switch src(is.Cond) {
	case `elements[i]==".."`:
		return "DDElemEq"
	case `strings.HasPrefix(elements[i],"..")`:
		return "DDElemPrefix"
	}
	die(is.Pos(), "element test %s", src(is.Cond))
	return ""
}

func assignsTo(n ast.Node, name string) []*ast.AssignStmt {
	var out []*ast.AssignStmt
	ast.Inspect(n, func(m ast.Node) bool {
		if a, ok := m.(*ast.AssignStmt); ok {
			for _, l := range a.Lhs {
				if id, ok := l.(*ast.Ident); ok && id.Name == name {
					out = append(out, a)
				}
			}
		}
		return true
	})
	return out
}

const sanitiseCall = "sanitiseZipExtractPath(fs,zippedFile.Name,destination)"

func (fa *facts) unzip(f *ast.File) {
	fd := findFunc(f, "unzip", true)
	if fd == nil {
		die(token.NoPos, "(*VFS).unzip not found")
	}
	cleanIdx, mkdirIdx, loopIdx := -1, -1, -1
	var loop *ast.RangeStmt
	for i, st := range fd.Body.List {
		s := src(st)
		switch {
		case s == "destination=filepath.Clean(destination)":
			cleanIdx = i
		case s == "err=fs.MkDir(destination)" && mkdirIdx < 0:
			mkdirIdx = i
		}
		if rs, ok := st.(*ast.RangeStmt); ok && src(rs.X) == "zipReader.File" {
			loopIdx, loop = i, rs
		}
	}
	if loop == nil || mkdirIdx < 0 {
		die(fd.Pos(), "unzip: loop over zipReader.File / MkDir(destination) not found")
	}
	das := assignsTo(fd.Body, "destination")
	for _, a := range das {
		if src(a) != "destination=filepath.Clean(destination)" {
			die(a.Pos(), "destination reassigned: %s", src(a))
		}
	}
	fa.cleanFirst = cleanIdx >= 0 && cleanIdx < mkdirIdx && cleanIdx < loopIdx
	// filePath
	as := assignsTo(loop.Body, "filePath")
	var san *ast.AssignStmt
	direct := false
	for _, a := range as {
		if len(a.Rhs) == 1 && src(a.Rhs[0]) == sanitiseCall && len(a.Lhs) == 2 && src(a.Lhs[0]) == "filePath" {
			san = a
		}
	}
	if san == nil {
		die(loop.Pos(), "no `filePath, _ := %s` in the loop of unzip", sanitiseCall)
	}
	for _, st := range loop.Body.List {
		if st == ast.Stmt(san) {
			direct = true
		}
	}
	switch {
	case len(as) == 1 && direct:
		fa.sanitiseAlways, fa.pathUntouched = true, true
	case len(as) == 2 && !direct:
		// filePath := filepath.Join(destination, zippedFile.Name) ; if strings.Contains(zippedFile.Name, "../") { filePath, subErr = sanitise... }
		other := as[0]
		if other == san {
			other = as[1]
		}
		guarded := false
		for _, st := range loop.Body.List {
			if is, ok := st.(*ast.IfStmt); ok && src(is.Cond) == `strings.Contains(zippedFile.Name,"../")` && is.Else == nil {
				for _, in := range is.Body.List {
					if in == ast.Stmt(san) {
						guarded = true
					}
				}
			}
		}
		if !guarded || len(other.Rhs) != 1 || src(other.Rhs[0]) != "filepath.Join(destination,zippedFile.Name)" || other.Pos() > san.Pos() {
			die(san.Pos(), "conditional sanitisation of an unknown shape")
		}
		fa.sanitiseAlways, fa.pathUntouched = false, true
	case direct:
		fa.sanitiseAlways, fa.pathUntouched = true, false
	default:
		die(san.Pos(), "sanitiser call nested in an unknown construct")
	}
	// fs calls of the loop
	fa.mkdirAfter = true
	var dirIf *ast.IfStmt
	for _, st := range loop.Body.List {
		if is, ok := st.(*ast.IfStmt); ok && src(is.Cond) == "zippedFile.FileInfo().IsDir()" {
			dirIf = is
		}
	}
	if dirIf == nil {
		die(loop.Pos(), "directory branch not found")
	}
	for _, c := range fsCalls(fd.Body) {
		switch method(c) {
		case "MkDir", "isZipWithContext", "unzipZippedFile", "unzipNestedZipFiles":
		default:
			die(c.Pos(), "file-system call in unzip: %s", src(c))
		}
	}
	fa.fileMkdirDir = false
	dirOK, dirSeen := true, false
	for _, c := range fsCalls(loop.Body) {
		switch method(c) {
		case "MkDir":
			if c.Pos() < san.Pos() {
				fa.mkdirAfter = false
			}
			inDir := c.Pos() > dirIf.Pos() && c.End() < dirIf.End()
			arg := src(c.Args[0])
			if inDir {
				dirSeen = true
				if arg != "filePath" {
					dirOK = false
				}
			} else {
				switch arg {
				case "filepath.Dir(filePath)":
					fa.fileMkdirDir = true
				case "directoryPath":
					da := assignsTo(loop.Body, "directoryPath")
					fa.fileMkdirDir = len(da) == 1 && src(da[0]) == "directoryPath:=filepath.Dir(filePath)"
				default:
					fa.fileMkdirDir = false
				}
			}
		case "unzipZippedFile":
			fa.zfArgs = src(c) == "fs.unzipZippedFile(ctx,destination,filePath,zippedFile,limits,fileDepth)"
		case "unzipNestedZipFiles":
			fa.nestedArgPath = src(c) == "fs.unzipNestedZipFiles(ctx,filePath,limits,fileDepth)"
		}
	}
	keyOK := false
	ast.Inspect(dirIf, func(m ast.Node) bool {
		if a, ok := m.(*ast.AssignStmt); ok && strings.HasPrefix(src(a), "directoryInfo[") {
			keyOK = strings.HasPrefix(src(a), "directoryInfo[filePath]=")
		}
		return true
	})
	fa.dirMkdirPath = dirSeen && dirOK && keyOK
}

func (fa *facts) zippedFile(f *ast.File) {
	fd := findFunc(f, "unzipZippedFile", true)
	if fd == nil {
		die(token.NoPos, "unzipZippedFile not found")
	}
	pn := strings.Join(paramNames(fd), ",")
	conv := token.NoPos
	var res *ast.IfStmt
	for _, st := range fd.Body.List {
		if src(st) == "destinationPath,err:=determineUnzippedFilepath(dest)" {
			conv = st.Pos()
		}
		if is, ok := st.(*ast.IfStmt); ok && src(is.Cond) == "destinationPath!=dest" && is.Else == nil && len(is.Body.List) == 2 &&
			src(is.Body.List[0]) == "destinationPath,err=sanitiseConvertedZipExtractPath(fs,destinationPath,destination)" &&
			src(is.Body.List[1]) == "iferr!=nil{return}" {
			res = is
		}
	}
	if !conv.IsValid() {
		die(fd.Pos(), "conversion `destinationPath, err := determineUnzippedFilepath(dest)` not found")
	}
	for _, a := range assignsTo(fd.Body, "destinationPath") {
		s := src(a)
		if s != "destinationPath,err:=determineUnzippedFilepath(dest)" && s != "destinationPath,err=sanitiseConvertedZipExtractPath(fs,destinationPath,destination)" {
			die(a.Pos(), "destinationPath assigned: %s", s)
		}
		if s != "destinationPath,err:=determineUnzippedFilepath(dest)" && res == nil {
			die(a.Pos(), "re-sanitisation of an unknown shape")
		}
	}
	fa.resanitise = res != nil && res.Pos() > conv && pn == "ctx,destination,dest,zippedFile,limits,currentDepth"
	fa.resanitiseFirst, fa.regularOnly, fa.opsOnConverted = fa.resanitise, true, true
	sawOpen := false
	for _, c := range fsCalls(fd.Body) {
		if res != nil && c.Pos() > res.Pos() && c.End() < res.End() {
			continue // the sanitiser's own fs argument
		}
		if res != nil && c.Pos() < res.Pos() {
			fa.resanitiseFirst = false
		}
		arg := ""
		if len(c.Args) > 0 {
			arg = src(c.Args[0])
		}
		switch method(c) {
		case "OpenFile":
			sawOpen = true
			if arg != "destinationPath" {
				fa.opsOnConverted = false
			}
		case "Chtimes":
			if arg != "destinationPath" {
				fa.opsOnConverted = false
			}
		case "MkDir", "MkDirAll":
			if arg != "filepath.Dir(destinationPath)" {
				fa.opsOnConverted = false
			}
		default:
			fa.regularOnly = false
		}
	}
	if !sawOpen {
		fa.opsOnConverted = false
	}
}

func (fa *facts) converted(f *ast.File) {
	fd := findFunc(f, "sanitiseConvertedZipExtractPath", false)
	if fd == nil {
		if fa.resanitise {
			die(token.NoPos, "sanitiseConvertedZipExtractPath not found")
		}
		return
	}
	b := fd.Body.List
	if len(b) == 4 && src(b[0]) == "relativePath,found:=strings.CutPrefix(convertedPath,destination)" &&
		strings.HasPrefix(src(b[1]), "if!found{err=commonerrors.Newf(commonerrors.ErrMalicious,") && strings.HasSuffix(src(b[1]), ";return}") == false &&
		src(b[2]) == "destPath,err=sanitiseZipExtractPath(fs,relativePath,destination)" && src(b[3]) == "return" {
		is := b[1].(*ast.IfStmt)
		if len(is.Body.List) == 2 && isBareReturn(is.Body.List[1:]) && is.Else == nil {
			fa.cutThenSanitise = true
			return
		}
	}
	// a bare prefix test that hands the converted path back as it is
	if len(b) >= 2 {
		if is, ok := b[0].(*ast.IfStmt); ok && strings.Contains(src(is.Cond), "strings.HasPrefix(convertedPath,") {
			for _, a := range assignsTo(fd.Body, "destPath") {
				if src(a) == "destPath=convertedPath" {
					fa.cutThenSanitise = false
					return
				}
			}
		}
	}
	die(fd.Pos(), "sanitiseConvertedZipExtractPath body")
}

func (fa *facts) nested(f *ast.File) {
	fd := findFunc(f, "unzipNestedZipFiles", true)
	if fd == nil {
		die(token.NoPos, "unzipNestedZipFiles not found")
	}
	b := fd.Body.List
	rest := b
	switch {
	case len(b) >= 2 && src(b[0]) == "destination,err:=sanitiseZipExtractPath(fs,FilepathStem(nestedZipFile),filepath.Dir(nestedZipFile))" && src(b[1]) == "iferr!=nil{return}":
		fa.nestedSanitised = true
		rest = b[2:]
	case len(b) >= 1 && src(b[0]) == "destination:=filepath.Join(filepath.Dir(nestedZipFile),FilepathStem(nestedZipFile))":
		fa.nestedSanitised = false
		rest = b[1:]
	default:
		die(fd.Pos(), "nested destination: %s", src(b[0]))
	}
	if len(assignsTo(fd.Body, "destination")) != 1 {
		die(fd.Pos(), "nested destination reassigned")
	}
	if len(rest) == 0 || !strings.Contains(src(rest[0]), ":=fs.unzip(ctx,nestedZipFile,destination,limits,currentDepth+1)") {
		die(fd.Pos(), "statement after the nested destination: %s", src(rest[0]))
	}
	calls := fsCalls(fd.Body)
	var names []string
	for _, c := range calls {
		if method(c) == "PathSeparator" {
			continue
		}
		names = append(names, src(c))
	}
	if len(names) == 0 || names[0] != "fs.unzip(ctx,nestedZipFile,destination,limits,currentDepth+1)" {
		die(fd.Pos(), "file-system calls of unzipNestedZipFiles: %v", names)
	}
	fa.rmNested = len(names) == 2 && names[1] == "fs.Rm(nestedZipFile)"
	if len(names) > 2 {
		die(fd.Pos(), "file-system calls of unzipNestedZipFiles: %v", names)
	}
}

// errorTexts collects, for the harness's name alphabet, the texts the error converters on unzip's error path match
// against error MESSAGES (string literals handed to CorrespondTo / strings.Contains in ConvertFileSystemError,
// isTimeoutError, convertZipError, platform.ConvertError, commonerrors.ConvertContextError) and the message of every
// commonerrors sentinel: an escaping entry whose name quotes one of them must still be refused with the malicious kind.
func errorTexts(repo string) (conv []string, kinds []string) {
	seen := map[string]bool{}
	grab := func(file string, funcs ...string) {
		f, err := parser.ParseFile(fset, filepath.Join(repo, "utils", file), nil, 0)
		if err != nil {
			die(token.NoPos, "parse %s: %v", file, err)
		}
		for _, d := range f.Decls {
			fd, ok := d.(*ast.FuncDecl)
			if !ok || fd.Body == nil {
				continue
			}
			want := false
			for _, n := range funcs {
				if fd.Name.Name == n {
					want = true
				}
			}
			if !want {
				continue
			}
			ast.Inspect(fd.Body, func(m ast.Node) bool {
				c, ok := m.(*ast.CallExpr)
				if !ok {
					return true
				}
				fn := src(c.Fun)
				if fn != "commonerrors.CorrespondTo" && fn != "CorrespondTo" && fn != "strings.Contains" && fn != "strings.HasPrefix" && fn != "strings.HasSuffix" && fn != "strings.EqualFold" {
					return true
				}
				for _, a := range c.Args {
					if l, ok := a.(*ast.BasicLit); ok && l.Kind == token.STRING {
						t, err := strconv.Unquote(l.Value)
						if err == nil && len(t) >= 3 && !strings.ContainsRune(t, 0) && !seen[t] {
							seen[t] = true
							conv = append(conv, t)
						}
					}
				}
				return true
			})
		}
	}
	grab("filesystem/filesystem.go", "ConvertFileSystemError", "isTimeoutError")
	grab("filesystem/zip.go", "convertZipError")
	grab("platform/os.go", "ConvertError")
	grab("commonerrors/errors.go", "ConvertContextError")
	// sentinel messages: X = errors.New("...") at package level of commonerrors/errors.go
	f, err := parser.ParseFile(fset, filepath.Join(repo, "utils", "commonerrors", "errors.go"), nil, 0)
	if err != nil {
		die(token.NoPos, "parse commonerrors/errors.go: %v", err)
	}
	for _, d := range f.Decls {
		gd, ok := d.(*ast.GenDecl)
		if !ok || gd.Tok != token.VAR {
			continue
		}
		for _, sp := range gd.Specs {
			vs, ok := sp.(*ast.ValueSpec)
			if !ok {
				continue
			}
			for _, v := range vs.Values {
				if c, ok := v.(*ast.CallExpr); ok && src(c.Fun) == "errors.New" && len(c.Args) == 1 {
					if l, ok := c.Args[0].(*ast.BasicLit); ok && l.Kind == token.STRING {
						if t, err := strconv.Unquote(l.Value); err == nil && len(t) >= 3 && !seen[t] {
							seen[t] = true
							kinds = append(kinds, t)
						}
					}
				}
			}
		}
	}
	return
}

func coqBool(b bool) string {
	if b {
		return "true"
	}
	return "false"
}

func main() {
	if len(os.Args) > 1 {
		outPath = os.Args[1]
	}
	repo := os.Getenv("VERIF_REPO")
	if repo == "" {
		repo = "/repo"
	}
	parse := func(name string) *ast.File {
		f, err := parser.ParseFile(fset, filepath.Join(repo, "utils", "filesystem", name), nil, 0)
		if err != nil {
			die(token.NoPos, "parse %s: %v", name, err)
		}
		return f
	}
	zf := parse("zip.go")
	pf := parse("filepath.go")
	fa := &facts{}
	fa.sanitiser(zf)
	fa.unzip(zf)
	fa.zippedFile(zf)
	fa.converted(zf)
	fa.nested(zf)
	if st := findFunc(pf, "FilepathStem", false); st != nil && len(st.Body.List) == 1 &&
		src(st.Body.List[0]) == "returnstrings.TrimSuffix(filepath.Base(fp),filepath.Ext(fp))" {
		fa.stem = true
	}
	var b strings.Builder
	b.WriteString("(* GENERATED by translator-c02/cmd/zipslip2coq from utils/filesystem/zip.go and filepath.go — do not edit. *)\n")
	b.WriteString("From Coq Require Import List Bool String.\nImport ListNotations.\nFrom GU Require Import C02.Path C02.Model.\nLocal Open Scope string_scope.\n\n")
	b.WriteString("Definition generated : zfacts := {|\n")
	fields := []struct {
		n string
		v string
	}{
		{"sa_join_dest_first", coqBool(fa.joinDestFirst)}, {"sa_dot_early", coqBool(fa.dotEarly)}, {"sa_eq_shortcut", coqBool(fa.eqShortcut)},
		{"sa_dd", fa.dd}, {"sa_dd_on_destpath", coqBool(fa.ddOnDestPath)}, {"sa_prefix_sep", coqBool(fa.prefixSep)},
		{"uz_clean_first", coqBool(fa.cleanFirst)}, {"uz_sanitise_always", coqBool(fa.sanitiseAlways)}, {"uz_path_untouched", coqBool(fa.pathUntouched)},
		{"uz_mkdir_after_sanitise", coqBool(fa.mkdirAfter)}, {"uz_dir_mkdir_path", coqBool(fa.dirMkdirPath)}, {"uz_file_mkdir_dir", coqBool(fa.fileMkdirDir)},
		{"uz_zf_args", coqBool(fa.zfArgs)}, {"uz_nested_arg_path", coqBool(fa.nestedArgPath)},
		{"zf_resanitise", coqBool(fa.resanitise)}, {"zf_resanitise_first", coqBool(fa.resanitiseFirst)}, {"zf_regular_only", coqBool(fa.regularOnly)},
		{"zf_ops_on_converted", coqBool(fa.opsOnConverted)}, {"sc_cut_then_sanitise", coqBool(fa.cutThenSanitise)},
		{"nz_dest_sanitised", coqBool(fa.nestedSanitised)}, {"nz_rm_nested", coqBool(fa.rmNested)}, {"fs_stem_base_ext", coqBool(fa.stem)},
	}
	for i, f := range fields {
		sep := ";"
		if i == len(fields)-1 {
			sep = ""
		}
		fmt.Fprintf(&b, "  %s := %s%s\n", f.n, f.v, sep)
	}
	b.WriteString("|}.\n\n(* the sanitiser, statement by statement *)\nDefinition generated_sanitiser_trace : list string := [\n")
	for i, t := range fa.trace {
		sep := ";"
		if i == len(fa.trace)-1 {
			sep = ""
		}
		fmt.Fprintf(&b, "  \"%s\"%s\n", strings.ReplaceAll(t, `"`, `""`), sep)
	}
	b.WriteString("].\n")
	old, _ := os.ReadFile(outPath)
	if string(old) != b.String() {
		if err := os.WriteFile(outPath, []byte(b.String()), 0o644); err != nil {
			die(token.NoPos, "write: %v", err)
		}
	}
	conv, kinds := errorTexts(repo)
	if len(conv) == 0 || len(kinds) == 0 {
		die(token.NoPos, "no converter texts (%d) / sentinel messages (%d) found", len(conv), len(kinds))
	}
	tj, _ := json.MarshalIndent(map[string][]string{"converter_texts": conv, "kind_messages": kinds}, "", " ")
	tpath := filepath.Join(filepath.Dir(outPath), "triggers.json")
	if oldt, _ := os.ReadFile(tpath); string(oldt) != string(tj) {
		_ = os.WriteFile(tpath, tj, 0o644)
	}
	fmt.Printf("zipslip2coq: %s written (%d facts)\n", outPath, len(fields))
}
