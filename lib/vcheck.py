#!/usr/bin/env python3
"""Generic pipeline of one check:  ./check <Cxx> <quick|thorough> | ./check <Cxx> --replay FILE

Steps (see DESIGN.md section 2):
  0. forbidden-construct grep over coq/ (fail closed)
  1. regenerate (translator / fact tables) from /repo's working tree        -> coq/<id>/Gen*.v
  2. prove: make <id>/Proofs.vo (full .vo), then coqc <id>/Props.v capturing Print Assumptions
  3. harness: go build (from /repo's working tree, -tags verif) and run       -> work/<id>/obs.json, cases_*.v
  4. correspondence: coqc every cases_*.v (model evaluated by vm_compute on the implementation's observations)
  5. classify: known findings / violations / broken proof or correspondence (deepened search)
  6. evidence/<id>.json
"""
import sys, os, json, subprocess, time, re, shutil, fcntl, glob, concurrent.futures, hashlib

ROOT = os.path.dirname(os.path.dirname(os.path.abspath(__file__)))
COQ = os.path.join(ROOT, "coq")
HARNESS = os.path.join(ROOT, "harness")
REPO = os.environ.get("VERIF_REPO", "/repo")

FORBIDDEN = re.compile(
    r"\b(Admitted|admit|Axiom|Axioms|Parameter|Parameters|Conjecture|Conjectures|Admit\s+Obligations|bypass_check|give_up)\b"
    r"|Unset\s+Guard\s+Checking|Unset\s+Positivity\s+Checking|Unset\s+Universe\s+Checking|type-in-type|impredicative-set"
    r"|native_compute")


def goenv():
    e = dict(os.environ)
    e["GOFLAGS"] = "-mod=mod"
    e["GOPROXY"] = "off"
    e.pop("GOSUMDB", None)
    e.pop("GOTOOLCHAIN", None)
    e.setdefault("GOCACHE", os.path.expanduser("~/.cache/go-build"))
    return e


_SANDBOX = None


def harness_sandbox_available():
    """True when `unshare -m` + bind/remount work here (they need CAP_SYS_ADMIN); VERIF_NO_SANDBOX=1 switches it off."""
    global _SANDBOX
    if _SANDBOX is None:
        if os.environ.get("VERIF_NO_SANDBOX") == "1":
            _SANDBOX = False
        else:
            try:
                p = subprocess.run(["unshare", "-m", "sh", "-c", "mount --make-rprivate / && mount --bind /tmp /tmp && mount -o remount,bind,ro / && ! touch /.verif-ro-probe 2>/dev/null && touch /tmp/.verif-rw-probe && rm -f /tmp/.verif-rw-probe"],
                                   stdout=subprocess.DEVNULL, stderr=subprocess.DEVNULL, timeout=20)
                _SANDBOX = p.returncode == 0
            except Exception:
                _SANDBOX = False
    return _SANDBOX


def sh(cmd, cwd=None, timeout=None, env=None):
    t0 = time.time()
    try:
        p = subprocess.run(cmd, cwd=cwd, env=env, timeout=timeout, stdout=subprocess.PIPE,
                           stderr=subprocess.STDOUT, text=True, errors="replace")
        return p.returncode, p.stdout, time.time() - t0
    except subprocess.TimeoutExpired as ex:
        out = ex.stdout or ""
        if isinstance(out, bytes):
            out = out.decode("utf8", "replace")
        return 124, out + "\n[timeout after %ss]" % timeout, time.time() - t0


def strip_coq_comments(src):
    out = []
    depth = 0
    i = 0
    n = len(src)
    instr = False
    while i < n:
        c = src[i]
        if depth == 0 and c == '"':
            instr = not instr
            out.append(c)
            i += 1
            continue
        if not instr and src.startswith("(*", i):
            depth += 1
            i += 2
            continue
        if not instr and depth > 0 and src.startswith("*)", i):
            depth -= 1
            i += 2
            continue
        if depth == 0:
            out.append(c)
        elif c == "\n":
            out.append(c)
        i += 1
    return "".join(out)


def scan_dirs(cd):
    """directories of the development a property depends on: its own, Lib, and every sibling directory named in a Require"""
    dirs = {cd.split("/")[0], "Lib"}
    todo = list(dirs)
    while todo:
        d = todo.pop()
        for path in glob.glob(os.path.join(COQ, d, "**", "*.v"), recursive=True):
            try:
                src = open(path, encoding="utf8", errors="replace").read()
            except OSError:
                continue
            for line in re.findall(r"^\s*(?:From\s+\S+\s+)?Require[^.]*(?:\.[^.\s][^.]*)*\.", src, re.M):
                for m in re.findall(r"\b([A-Z]\w*)\.\w+", line):
                    if m not in dirs and os.path.isdir(os.path.join(COQ, m)):
                        dirs.add(m)
                        todo.append(m)
    return sorted(dirs)


def forbidden_scan(cd=None):
    bad = []
    if cd is None or os.environ.get("VERIF_SCAN_ALL") == "1":
        paths = glob.glob(os.path.join(COQ, "**", "*.v"), recursive=True)
    else:
        paths = []
        for d in scan_dirs(cd):
            paths += glob.glob(os.path.join(COQ, d, "**", "*.v"), recursive=True)
    for path in paths:
        src = strip_coq_comments(open(path, encoding="utf8", errors="replace").read())
        # strings may contain words; remove string literals
        src = re.sub(r'"[^"]*"', '""', src)
        for ln, line in enumerate(src.split("\n"), 1):
            if FORBIDDEN.search(line):
                bad.append("%s:%d: %s" % (os.path.relpath(path, ROOT), ln, line.strip()))
            if re.match(r"\s*(Variable|Variables|Hypothesis|Hypotheses|Context)\b", line):
                # must be inside a Section: checked by a simple scan
                pre = src.split("\n")[:ln]
                depth = 0
                for l in pre:
                    if re.match(r"\s*Section\s+\w+", l):
                        depth += 1
                    if re.match(r"\s*End\s+\w+", l):
                        depth -= 1  # modules also End; conservative both ways is fine: Module Foo. increments below
                    if re.match(r"\s*Module\s+(Type\s+)?\w+\s*\.", l):
                        depth += 1
                if depth <= 0:
                    bad.append("%s:%d: section-less %s" % (os.path.relpath(path, ROOT), ln, line.strip()))
    return bad


class CoqLock:
    def __enter__(self):
        self.f = open(os.path.join(COQ, ".coq.lock"), "w")
        fcntl.flock(self.f, fcntl.LOCK_EX)
        return self

    def __exit__(self, *a):
        fcntl.flock(self.f, fcntl.LOCK_UN)
        self.f.close()


def write_if_changed(path, content):
    try:
        if open(path).read() == content:
            return False
    except FileNotFoundError:
        pass
    with open(path, "w") as f:
        f.write(content)
    return True


def coq_project():
    files = sorted(os.path.relpath(p, COQ) for p in glob.glob(os.path.join(COQ, "**", "*.v"), recursive=True)
                   if "/Corr/" not in p)
    content = "-Q . GU\n-arg -w -arg -deprecated-hint-without-locality,-deprecated-instance-without-locality,-notation-overridden,-ambiguous-paths,-deprecated-hint-rewrite-without-locality,-future-coercion-class-field\n" + "\n".join(files) + "\n"
    changed = write_if_changed(os.path.join(COQ, "_CoqProject"), content)
    if changed or not os.path.exists(os.path.join(COQ, "Makefile")):
        rc, out, _ = sh(["coq_makefile", "-f", "_CoqProject", "-o", "Makefile"], cwd=COQ, timeout=120)
        if rc != 0:
            raise RuntimeError("coq_makefile failed:\n" + out)


COQ_W = ["-w", "-deprecated-hint-without-locality,-deprecated-instance-without-locality,-notation-overridden,-ambiguous-paths,-deprecated-hint-rewrite-without-locality,-future-coercion-class-field"]


def enclosing_statement(vfile, line):
    try:
        lines = open(vfile, encoding="utf8", errors="replace").read().split("\n")
    except OSError:
        return None
    for i in range(min(line, len(lines)) - 1, -1, -1):
        m = re.match(r"\s*(?:Local\s+|Global\s+|#\[[^\]]*\]\s*)*(Theorem|Lemma|Corollary|Example|Fact|Remark|Proposition|Definition|Fixpoint|Instance|Program\s+\w+|Equations)\s+([A-Za-z_][\w']*)", lines[i])
        if m:
            return m.group(2)
    return None


def parse_coq_error(out):
    """returns (file, line, message) of the first error in a make/coqc log"""
    m = re.search(r'File "([^"]+)", line (\d+), characters [\d-]+:\s*\n(Error:.*?)(?:\n\n|\nmake|\Z)', out, re.S)
    if m:
        return m.group(1), int(m.group(2)), m.group(3).strip()[:2000]
    m = re.search(r"(Error:.*)", out, re.S)
    if m:
        return None, 0, m.group(1)[:2000]
    return None, 0, out[-2000:]


def props_theorems(props_file):
    src = strip_coq_comments(open(props_file, encoding="utf8").read())
    return re.findall(r"^\s*Theorem\s+([A-Za-z_][\w']*)", src, re.M)


def parse_assumptions(out, theorems):
    """Parse the output of `Print Assumptions thm.` commands, which appear in order."""
    res = {}
    chunks = re.split(r"(?=^(?:Closed under the global context|Axioms:))", out, flags=re.M)
    chunks = [c for c in chunks if c.startswith("Closed under") or c.startswith("Axioms:")]
    for i, t in enumerate(theorems):
        if i < len(chunks):
            c = chunks[i]
            if c.startswith("Closed under"):
                res[t] = []
            else:
                names = re.findall(r"^([A-Za-z_][\w'.]*)\s*:", c[len("Axioms:"):], re.M)
                res[t] = names
        else:
            res[t] = ["<Print Assumptions output missing>"]
    return res


def load_cfg(pid):
    p = os.path.join(ROOT, "manifest.d", pid + ".json")
    return json.load(open(p))


def load_known():
    p = os.path.join(ROOT, "known_findings.json")
    try:
        k = json.load(open(p))
    except FileNotFoundError:
        k = {"findings": [], "fixed": []}
    # per-property proposals under development (merged into known_findings.json at integration)
    for q in glob.glob(os.path.join(ROOT, "manifest.d", "*.findings.json")):
        try:
            d = json.load(open(q))
            k["findings"] += d.get("findings", []) if isinstance(d, dict) else d
        except Exception:
            pass
    return k


def run_cases(casefile, timeout):
    d = os.path.dirname(casefile)
    rc, out, wall = sh(["coqc"] + COQ_W + ["-Q", COQ, "GU", os.path.basename(casefile)], cwd=d, timeout=timeout)
    flat = " ".join(out.split())
    res = {"file": os.path.basename(casefile), "rc": rc, "wall_s": round(wall, 2)}
    m = re.search(r"\bM = (\[.*?\])\s*: list N", flat)
    if rc != 0 or not m:
        res["error"] = out[-1500:]
        res["mismatch_ids"] = None
        return res
    res["mismatch_ids"] = [int(x) for x in re.findall(r"(\d+)%N", m.group(1))] if m.group(1) != "[]" else []
    if m.group(1) != "[]" and not res["mismatch_ids"]:
        res["mismatch_ids"] = [int(x) for x in re.findall(r"\d+", m.group(1))]
    return res


def main():
    if len(sys.argv) < 3:
        print("usage: check <Cxx> <quick|thorough> | check <Cxx> --replay FILE", file=sys.stderr)
        sys.exit(2)
    pid = sys.argv[1]
    replay = None
    if sys.argv[2] == "--replay":
        replay = os.path.abspath(sys.argv[3])
        rj = json.load(open(replay))
        tier = rj.get("tier", "quick")
        seed = int(rj.get("seed", 1))
    else:
        tier = sys.argv[2]
        seed = int(os.environ.get("VERIF_SEED", "1") or 1)
    if tier not in ("quick", "thorough"):
        print("bad tier", file=sys.stderr)
        sys.exit(2)
    t_start = time.time()
    cfg = load_cfg(pid)
    cd = cfg.get("coq_dir", pid)
    hname = cfg.get("harness", pid.lower())
    work = os.path.join(ROOT, "work", pid)
    shutil.rmtree(work, ignore_errors=True)
    os.makedirs(work, exist_ok=True)
    os.makedirs(os.path.join(ROOT, "evidence"), exist_ok=True)
    os.makedirs(os.path.join(ROOT, "replays"), exist_ok=True)
    log = []
    broken = []  # list of dicts {kind: proof|translator|correspondence|harness-build, name, detail}

    def note(s):
        log.append(s)
        print("[%s %s] %s" % (pid, tier, s), flush=True)

    # ---- 0. forbidden constructs (fail closed: this is a defect of the development, not of the code)
    bad = forbidden_scan(cd)
    if bad:
        print("INTERNAL: forbidden constructs in the Coq development:\n  " + "\n  ".join(bad))
        sys.exit(2)

    # ---- 1. regenerate
    gen_info = []
    for g in cfg.get("gen", []):
        genv = goenv()
        genv["VERIF_REPO"] = REPO
        rc, out, wall = sh(g["cmd"], cwd=ROOT, timeout=g.get("timeout", 300), env=genv)
        gen_info.append({"cmd": " ".join(g["cmd"]), "rc": rc, "wall_s": round(wall, 1)})
        if rc != 0:
            note("translator failed: " + out[-800:])
            broken.append({"kind": "translator", "name": g.get("name", g["cmd"][-1]), "detail": out[-1500:]})

    # ---- 2. prove
    theorems = []
    assumptions = {}
    discharged = 0
    coq_wall = 0.0
    props_file = os.path.join(COQ, cd, "Props.v")
    with CoqLock():
        coq_project()
        theorems = props_theorems(props_file)
        targets = [cd + "/Model.vo"] + ([cd + "/Proofs.vo"] if os.path.exists(os.path.join(COQ, cd, "Proofs.v")) else [])
        for extra in cfg.get("coq_extra_targets", []):
            targets.append(extra)
        model_ok = True
        rc, out, wall = sh(["make", "-j16", cd + "/Model.vo"], cwd=COQ, timeout=cfg.get("coq_timeout", 1500))
        coq_wall += wall
        if rc != 0:
            model_ok = False
            f, ln, msg = parse_coq_error(out)
            note("model does not compile: %s:%s %s" % (f, ln, msg[:300]))
            broken.append({"kind": "proof", "name": "model:" + str(f), "detail": msg})
        proofs_ok = False
        if model_ok:
            rc, out, wall = sh(["make", "-j16"] + targets[1:], cwd=COQ, timeout=cfg.get("coq_timeout", 1500))
            coq_wall += wall
            if rc != 0:
                f, ln, msg = parse_coq_error(out)
                name = enclosing_statement(os.path.join(COQ, f), ln) if f else None
                note("proof obligation broken: %s line %s (%s): %s" % (f, ln, name, msg[:300]))
                broken.append({"kind": "proof", "name": name or str(f), "detail": "%s:%s %s" % (f, ln, msg)})
            else:
                proofs_ok = True
        if proofs_ok:
            rc, out, wall = sh(["coqc"] + COQ_W + ["-Q", ".", "GU", cd + "/Props.v"], cwd=COQ, timeout=600)
            coq_wall += wall
            if rc != 0:
                f, ln, msg = parse_coq_error(out)
                name = enclosing_statement(os.path.join(COQ, f) if f and not os.path.isabs(f) else f, ln) if f else None
                note("property theorem broken: %s line %s (%s): %s" % (f, ln, name, msg[:300]))
                broken.append({"kind": "proof", "name": name or "Props.v", "detail": "%s:%s %s" % (f, ln, msg)})
                # count those before the failing one as discharged
                if name in theorems:
                    discharged = theorems.index(name)
            else:
                discharged = len(theorems)
                assumptions = parse_assumptions(out, theorems)
    note("coq: %d/%d property theorems checked in %.1fs" % (discharged, len(theorems), coq_wall))
    coqchk_info = None
    if tier == "thorough" and discharged == len(theorems) and theorems and not replay and os.environ.get("VERIF_NO_COQCHK") != "1":
        with CoqLock():
            rc, out, wall = sh(["coqchk", "-silent", "-o", "-Q", ".", "GU", "GU.%s.Props" % cd.replace("/", ".")], cwd=COQ, timeout=3000)
        axioms = []
        m = re.search(r"\* Axioms:(.*?)(?:\n\s*\n|\* |\Z)", out, re.S)
        if m:
            axioms = [a.strip() for a in m.group(1).strip().split("\n") if a.strip() and a.strip() != "<none>"]
        coqchk_info = {"rc": rc, "wall_s": round(wall, 1), "axioms_of_loaded_libraries": axioms, "tail": out[-600:]}
        note("coqchk: rc=%d in %.1fs, axioms: %s" % (rc, wall, ", ".join(axioms) or "none"))
        if rc != 0:
            broken.append({"kind": "proof", "name": "coqchk", "detail": out[-1500:]})

    # ---- 3. harness
    hbin = os.path.join(HARNESS, "bin", hname)
    os.makedirs(os.path.dirname(hbin), exist_ok=True)
    modflags = []
    if REPO != "/repo":
        # scratch worktree of the repository (development / seeded-change runs): alternative go.mod with the replace redirected
        hbin = os.path.join(work, "bin_" + hname)
        alt = os.path.join(work, "alt.mod")
        open(alt, "w").write(open(os.path.join(HARNESS, "go.mod")).read().replace("/repo/utils", REPO + "/utils"))
        shutil.copy(os.path.join(HARNESS, "go.sum"), os.path.join(work, "alt.sum"))
        modflags = ["-modfile=" + alt]
    rc, out, wall = sh(["go", "build", "-tags", "verif"] + modflags + cfg.get("go_build_flags", []) + ["-o", hbin, "./cmd/" + hname],
                       cwd=HARNESS, timeout=900, env=goenv())
    obs = None
    if rc != 0:
        note("harness build failed:\n" + out[-1500:])
        broken.append({"kind": "harness-build", "name": "go build ./cmd/" + hname, "detail": out[-1500:]})
    else:
        note("harness built in %.1fs" % wall)

    def run_harness(tier_, outdir, extra=()):
        os.makedirs(outdir, exist_ok=True)
        cmd = [hbin, "-seed", str(seed), "-tier", tier_, "-out", outdir] + list(extra)
        if replay:
            cmd += ["-replay", replay]
        to = cfg.get("harness_timeout", {}).get(tier_, 900 if tier_ == "quick" else 3600)
        henv = goenv()
        henv["VERIF_REPO"] = REPO
        henv["VERIF_ROOT"] = ROOT
        # The harness runs the library's real OS back end on inputs that include empty and relative paths, and it is run
        # against changed trees: its working directory is a private, empty directory, never a directory of this development
        # (a changed Rm("") once removed the working directory's contents).
        hcwd = os.path.join(outdir, "cwd")
        htmp = os.path.join(outdir, "tmp")
        for d_ in (hcwd, htmp):
            shutil.rmtree(d_, ignore_errors=True)
            os.makedirs(d_, exist_ok=True)
        os.chmod(htmp, 0o1777)
        # ... and, where the sandbox allows mount namespaces, the harness sees the whole file system read-only except its
        # output directory and a private /tmp (same path prefix as outside, so temporary-file names look as usual).
        if harness_sandbox_available() and not os.path.realpath(outdir).startswith("/tmp/"):  # a development under /tmp would be hidden by the private /tmp
            script = ('mount --make-rprivate / && mount --bind "$0" "$0" && mount --bind "$1" /tmp && mount -o remount,bind,ro / '
                      '&& cd "$2" && shift 2 && exec "$@"')
            cmd = ["unshare", "-m", "sh", "-c", script, outdir, htmp, hcwd] + cmd
        rc_, out_, wall_ = sh(cmd, cwd=hcwd, timeout=to, env=henv)
        for d_ in (hcwd, htmp):
            shutil.rmtree(d_, ignore_errors=True)
        try:
            o = json.load(open(os.path.join(outdir, "obs.json")))
        except Exception:
            o = None
        return rc_, out_, wall_, o

    corr_results = []
    mismatches = []
    if rc == 0:
        deep = bool(broken)
        hrc, hout, hwall, obs = run_harness("thorough" if deep else tier, work, ["-deep"] if deep else [])
        if obs is None:
            note("harness produced no observations (rc=%s):\n%s" % (hrc, hout[-1500:]))
            broken.append({"kind": "harness-run", "name": hname, "detail": hout[-1500:]})
        else:
            note("harness: %d evaluations, %d failures, %.1fs%s" % (obs.get("evaluations", 0), len(obs.get("failures", [])), hwall,
                 " (run in a mount namespace: file system read-only except its output directory and a private /tmp)" if harness_sandbox_available() else ""))

    # ---- 4. correspondence
    if obs is not None and any(b["kind"] == "proof" and b["name"].startswith("model:") for b in broken) is False:
        files = sorted(glob.glob(os.path.join(work, "cases_*.v")))
        # no lock: the case files are compiled in the work directory and only read this property's (already built) .vo files
        with concurrent.futures.ThreadPoolExecutor(max_workers=8) as ex:
            corr_results = list(ex.map(lambda f: run_cases(f, cfg.get("cases_timeout", 900)), files))
        for r in corr_results:
            if r["mismatch_ids"] is None:
                broken.append({"kind": "correspondence", "name": "corr-eval:" + r["file"], "detail": r.get("error", "")})
                note("correspondence file failed to evaluate: %s: %s" % (r["file"], r.get("error", "")[-400:]))
            else:
                mismatches += r["mismatch_ids"]
        if files:
            note("correspondence: %d case files, %d mismatching cases" % (len(files), len(mismatches)))
        if mismatches:
            idx = {}
            try:
                idx = json.load(open(os.path.join(work, "case_index.json")))
            except Exception:
                pass
            for mid in mismatches[:20]:
                broken.append({"kind": "correspondence", "name": "model-vs-implementation case %d" % mid,
                               "detail": json.dumps(idx.get(str(mid), "?"))[:1500]})

    # ---- 5. classify
    known = load_known()
    known_sigs = {f["signature"]: f for f in known.get("findings", []) if f.get("property") == pid}
    failures = list(obs.get("failures", [])) if obs else []

    # deepen when a tie broke but the oracle saw nothing in this run
    if broken and not [f for f in failures if f["signature"] not in known_sigs] and obs is not None and not replay:
        if not any(b["kind"] in ("harness-build",) for b in broken):
            note("tie broken (%s) and no failing input yet: deepening the search" % broken[0]["name"])
            deepdir = os.path.join(work, "deep")
            hrc, hout, hwall, dobs = run_harness("thorough", deepdir, ["-deep", "-nocases"])
            if dobs is not None:
                failures += [f for f in dobs.get("failures", []) if f["signature"] not in {x["signature"] for x in failures}]
                note("deep search: %d evaluations, %d failures, %.1fs" % (dobs.get("evaluations", 0), len(dobs.get("failures", [])), hwall))

    violations = 0
    lines = []
    seen_known = set()
    seen_viol = set()
    for f in failures:
        sig = f["signature"]
        if sig in known_sigs:
            if sig not in seen_known:
                seen_known.add(sig)
                lines.append("KNOWN-FINDING: property=%s %s [%s]" % (pid, known_sigs[sig]["what"], sig))
            continue
        if sig in seen_viol:
            continue
        seen_viol.add(sig)
        violations += 1
        rp = os.path.join(ROOT, "replays" if REPO == "/repo" else os.path.join("work", pid), "%s_%s_seed%d.json" % (pid, re.sub(r"[^A-Za-z0-9_.-]+", "_", sig)[:80], seed))
        json.dump({"property": pid, "seed": seed, "tier": tier, "signature": sig, "what": f.get("what"),
                   "replay": f.get("replay"), "how_to_replay": "./check %s --replay %s" % (pid, rp)}, open(rp, "w"), indent=1)
        lines.append("VIOLATION property=%s replay=%s" % (pid, rp))
        note("violation: %s — %s" % (sig, f.get("what")))
    if broken and violations == 0:
        violations += 1
        rp = os.path.join(ROOT, "replays" if REPO == "/repo" else os.path.join("work", pid), "%s_tie_broken_seed%d.json" % (pid, seed))
        json.dump({"property": pid, "seed": seed, "tier": tier, "no_longer_checks": broken,
                   "explanation": "A proof obligation, the translator, or the model/implementation correspondence no longer checks; "
                                  "the search found no concrete input on which the property fails."}, open(rp, "w"), indent=1)
        lines.append("VIOLATION property=%s replay=%s no-failing-input-found" % (pid, rp))

    # ---- 6. evidence
    tb = list(cfg.get("trusted_base", []))
    ax_all = sorted({a for v in assumptions.values() for a in v})
    tb.insert(0, "Coq 8.16.1 kernel (coqc, full .vo, vm_compute used by the correspondence evaluation and by closed computations; no native_compute)")
    tb.insert(1, "axioms reported by Print Assumptions over the property theorems: " + (", ".join(ax_all) if ax_all else "none (every theorem is closed under the global context)"))
    cov = {
        "obligations": max(len(theorems), 1),
        "discharged": discharged,
        "checker_cmd": "make -C coq %s/Proofs.vo && coqc -Q coq GU coq/%s/Props.v  (via ./check %s %s)" % (cd, cd, pid, tier),
        "trusted_base": tb,
        "theorems": theorems,
        "assumptions_per_theorem": assumptions,
        "evaluations": (obs or {}).get("evaluations", 0),
        "distinct_nontrivial": (obs or {}).get("distinct_nontrivial", 0),
        "rule": (obs or {}).get("rule", ""),
        "samples": (obs or {}).get("samples", [])[:12],
        "traces_validated_against_impl": max(0, (obs or {}).get("cases_emitted", 0) - len(mismatches)) if corr_results and all(r["mismatch_ids"] is not None for r in corr_results) else 0,
        "correspondence_case_files": corr_results,
        "correspondence_mismatches": len(mismatches),
        "input_distribution": (obs or {}).get("distribution", {}),
        "known_findings_observed": sorted(seen_known),
        "broken_ties": broken,
        "generated": gen_info,
        "notes": (obs or {}).get("notes", []),
        "modelled_not_verified": cfg.get("modelled_not_verified", []),
        "coq_wall_s": round(coq_wall, 1),
    }
    if coqchk_info:
        cov["coqchk"] = coqchk_info
    if (obs or {}).get("exhaustive"):
        cov["exhaustive"] = True
    ev = {
        "property_id": pid, "tier": tier, "seed": seed, "level": "proof", "coverage": cov,
        "assumptions": cfg.get("assumptions", []),
        "wall_s": round(time.time() - t_start, 1),
        "violations": violations,
    }
    if REPO != "/repo":
        # development / seeded-change run against a scratch worktree: never overwrite the committed evidence
        ev["repo"] = REPO
        json.dump(ev, open(os.path.join(work, "evidence.json"), "w"), indent=1)
    elif not replay:
        json.dump(ev, open(os.path.join(ROOT, "evidence", pid + ".json"), "w"), indent=1)
    for l in lines:
        print(l, flush=True)
    note("done in %.1fs: %s" % (time.time() - t_start, "OK" if violations == 0 else "%d violation(s)" % violations))
    sys.exit(1 if violations else 0)


if __name__ == "__main__":
    main()
