#!/bin/sh
# usage: lib/seedtest.sh <Cxx> <patch.diff> [tier]   — applies a seeded change to a scratch worktree of /repo and runs the check on it
id="$1"; patch=$(readlink -f "$2"); tier="${3:-quick}"
wt=$(mktemp -d /tmp/seedrun-XXXXXX)
rmdir "$wt"
git -C /repo worktree add -q --detach "$wt" HEAD || exit 2
if ! git -C "$wt" apply "$patch"; then echo "PATCH DOES NOT APPLY"; git -C /repo worktree remove --force "$wt"; exit 3; fi
cd /verif && VERIF_REPO="$wt" ./check "$id" "$tier" 2>&1 | grep -E "VIOLATION|KNOWN-FINDING|violation:|done in|broken|mismatch" | cut -c1-400 | awk "NR<=60 || /done in|^VIOLATION/" | head -200
rc=$?
git -C /repo worktree remove --force "$wt"
cd /verif && python3 lib/regen.py "$id" >/dev/null 2>&1
