#!/bin/sh
# usage: lib/seedconfirm.sh <seed-dir> <package-dir-relative-to-utils> <demo-test-regex> [extra test packages...]
# Confirms a seeded change independently: applies to a scratch worktree, builds, runs the package's existing tests (must pass
# as on the unmodified tree), runs the demonstration (must FAIL with the change, PASS without). Writes <seed-dir>/confirmed.txt.
d=$(cd "$1" && pwd); pkg="$2"; rx="$3"; shift 3
export GOFLAGS=-mod=mod GOPROXY=off
wt=$(mktemp -d /tmp/seedconf-XXXXXX); rmdir "$wt"
git -C /repo worktree add -q --detach "$wt" HEAD || exit 2
out="$d/confirmed.txt"; : > "$out"
say() { echo "$*" | tee -a "$out"; }
demo=$(ls "$d"/*_test.go | head -1)
cp "$demo" "$wt/utils/$pkg/zz_seed_demo_test.go"
( cd "$wt/utils" && go test -count=1 -run "$rx" ./$pkg/ >/tmp/seedconf.$$ 2>&1 ); rc0=$?
say "demo on unmodified tree: rc=$rc0 (expected 0)"
[ $rc0 -ne 0 ] && tail -15 /tmp/seedconf.$$ | tee -a "$out"
rm "$wt/utils/$pkg/zz_seed_demo_test.go"
if ! git -C "$wt" apply "$d/patch.diff"; then say "PATCH DOES NOT APPLY"; git -C /repo worktree remove --force "$wt"; exit 3; fi
( cd "$wt/utils" && go build ./... ) >/tmp/seedconf.$$ 2>&1; say "go build ./... with change: rc=$?"
for p in $pkg "$@"; do
  ( cd "$wt/utils" && go test -count=1 -timeout 20m ./$p/... >/tmp/seedconf.$$ 2>&1 ); rc=$?
  say "existing tests ./$p/... with change: rc=$rc"
  [ $rc -ne 0 ] && grep -E "^(--- FAIL|FAIL|ok)" /tmp/seedconf.$$ | head -20 | tee -a "$out"
done
cp "$demo" "$wt/utils/$pkg/zz_seed_demo_test.go"
( cd "$wt/utils" && go test -count=1 -run "$rx" ./$pkg/ >/tmp/seedconf.$$ 2>&1 ); rc1=$?
say "demo with change: rc=$rc1 (expected non-zero)"
grep -E "^(--- FAIL|FAIL|ok)" /tmp/seedconf.$$ | head -5 | tee -a "$out"
git -C /repo worktree remove --force "$wt"
rm -f /tmp/seedconf.$$
[ $rc0 -eq 0 ] && [ $rc1 -ne 0 ] && say "CONFIRMED" || say "NOT CONFIRMED"
