#!/bin/sh
# Runs the repository's baseline test command (guard off) and compares with /root/.vp/BASELINE.json stable_pass.
export GOFLAGS=-mod=mod GOPROXY=off
out=${1:-/tmp/baseline.gotest.json}
( cd /repo/utils && go test -json -vet=off -count=1 -timeout 25m ./... > "$out" 2>/tmp/baseline.stderr )
python3 - "$out" <<'PY'
import json,sys
sp=set(json.load(open('/root/.vp/BASELINE.json'))['stable_pass'])
res={}
for l in open(sys.argv[1]):
    try: e=json.loads(l)
    except Exception: continue
    if e.get('Test') and e.get('Action') in ('pass','fail','skip'):
        res[e['Package']+'::'+e['Test']]=e['Action']
missing=[t for t in sp if res.get(t)!='pass']
print("stable_pass:",len(sp),"passing now:",len(sp)-len(missing))
for t in sorted(missing)[:60]: print("  NOT PASSING:",t,res.get(t))
PY
