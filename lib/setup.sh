#!/bin/sh
# MANIFEST.setup_cmd: build the framework from files on disk only (offline).
# Tolerant by design: every ./check rebuilds exactly what it needs (its Coq targets, its harness) and reports a
# failure there, so one file that does not build here must not take the other checks down with it.
cd "$(dirname "$0")/.."
export GOFLAGS=-mod=mod GOPROXY=off
unset GOSUMDB GOTOOLCHAIN
python3 lib/mkproject.py
( cd coq && timeout 1500 make -k -j16 ) || echo "setup: some Coq files did not build (the owning check will report it)"
( cd harness && { cp /repo/utils/go.sum go.sum 2>/dev/null || true; } && mkdir -p bin && for d in cmd/*/; do n=$(basename "$d"); go build -tags verif -o bin/$n ./cmd/$n || echo "setup: harness $n did not build"; done )
for t in translator*; do [ -d "$t/cmd" ] && ( cd "$t" && mkdir -p bin && for d in cmd/*/; do [ -d "$d" ] || continue; n=$(basename "$d"); go build -o bin/$n ./cmd/$n || echo "setup: translator $n did not build"; done ); done
echo setup done
exit 0
