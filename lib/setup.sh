#!/bin/sh
# MANIFEST.setup_cmd: build the framework from files on disk only (offline).
set -e
cd "$(dirname "$0")/.."
export GOFLAGS=-mod=mod GOPROXY=off
unset GOSUMDB GOTOOLCHAIN
python3 lib/mkproject.py
( cd coq && timeout 3000 make -j16 )
( cd harness && cp /repo/utils/go.sum go.sum 2>/dev/null || true; mkdir -p bin && for d in cmd/*/; do n=$(basename "$d"); go build -tags verif -o bin/$n ./cmd/$n; done )
[ -d translator ] && ( cd translator && mkdir -p bin && for d in cmd/*/; do [ -d "$d" ] || continue; n=$(basename "$d"); go build -o bin/$n ./cmd/$n; done ) || true
echo setup done
