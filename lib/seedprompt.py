#!/usr/bin/env python3
"""Print the prompt given to an independent 'seeding' sub-agent for one property (it receives ONLY the property text and a
scratch worktree; nothing from /verif)."""
import json, sys
pid = sys.argv[1]
n = int(sys.argv[2]) if len(sys.argv) > 2 else 3
tag = sys.argv[3] if len(sys.argv) > 3 else "a"
p = [json.loads(l) for l in open('/verif/properties.jsonl') if l.strip() and json.loads(l)['id'] == pid][0]
wt = "/tmp/seedwt-%s%s" % (pid, tag)
out = "/tmp/seed-%s%s" % (pid, tag)
print(f"""You are testing how robust a Go library's correctness property is against realistic regressions. Work ONLY inside your own scratch git worktree of the repository and your own output directory; do not read or write anything under /verif, and do not modify /repo itself.

Setup (run first):
  git -C /repo worktree add --detach {wt} HEAD
  mkdir -p {out}
  export GOFLAGS=-mod=mod GOPROXY=off     # exactly this; do NOT set GOSUMDB or GOTOOLCHAIN; there is no network
The Go module is {wt}/utils (module github.com/ARM-software/golang-utils/utils). Run package tests with e.g. `cd {wt}/utils && go test -count=1 ./<pkg>/...`.

The property (of ARM-software/golang-utils):
  id: {p['id']}
  title: {p['title']}
  statement: {p['statement']}
  quantified over: {p['quantifier']['text']}
  code anchors: files {', '.join(p['anchors']['files'])}; mechanisms: {'; '.join(m['name'] + ' (' + m['where'] + ')' for m in p['anchors']['mechanism'])}

Your job: produce {n} DIFFERENT source changes (mutations) to the library, each of which
  (1) BREAKS the property above (some clause of it) for some input / history / schedule / fault,
  (2) still COMPILES (`go build ./...` and `go vet` of the touched package) and still PASSES the repository's existing tests of the touched package(s) (run them; a test that already fails on the unmodified worktree does not count against you — check by running it on the unmodified tree),
  (3) is REALISTIC — the kind of slip or 'optimisation' a maintainer could plausibly commit (an off-by-one in a guard, a dropped or reordered check, a wrong variable, a removed reset/lock/flush, an early return, a changed default, two sites that each look fine alone) — not sabotage, and
  (4) needs something SPECIFIC to manifest: a particular interleaving, a fault at a particular point, a multi-step sequence of operations, an unusual input or boundary value, or two cooperating sites — NOT something that ordinary use or the existing tests would expose at once.
Make the {n} mutations exercise different clauses / code paths of the property, and keep each one small (a few lines). Touch only non-test .go files under {wt}/utils.

For each mutation i = 1..{n} write into {out}/m<i>/ :
  - patch.diff : `git -C {wt} diff` of that mutation alone relative to HEAD (it must apply to a clean checkout of HEAD with `git apply`),
  - a demonstration: a Go test file (say demo_test.go, with a comment saying into which package directory it must be copied, e.g. utils/hashing/) or a small main program that FAILS (or prints a wrong result) with the mutation and PASSES without it; make it deterministic (or, for race/timing issues, reliably reproducible, e.g. loops until a deadline, and say how often it triggers),
  - meta.json : {{"property": "{p['id']}", "clause_broken": "...", "what_changed": "...", "needs_to_manifest": "...", "demo": "how to run it", "tests_run": "which existing tests you ran and their result with the mutation"}}.
Verify each one yourself: apply patch to a clean tree, run existing tests of the package (must pass), run the demo (must fail); revert, run the demo (must pass). Reset the worktree between mutations (`git -C {wt} checkout -- . && git -C {wt} clean -fdq`).

When done: remove the worktree (`git -C /repo worktree remove --force {wt}`), leave {out} in place, and reply with a short list: for each mutation one line (what changed, what it needs to manifest, demo result with/without).""")
