#!/bin/sh
# usage: lib/runall.sh [quick|thorough]  — every check in sequence on /repo, one summary line each
tier=${1:-quick}
cd "$(dirname "$0")/.."
python3 lib/regen.py >/dev/null 2>&1
for i in 01 02 03 04 05 06 07 08 09 10 11 12 13 14 15 16 17 18 19 20; do
  ./check C$i $tier 2>&1 | grep -E "^VIOLATION|done in|theorems checked" | tr '\n' ' ' | cut -c1-230; echo
done
