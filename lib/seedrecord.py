#!/usr/bin/env python3
"""Write the outcome of lib/seedall.sh into each seeded/<id>/m*/meta.json (check_result, detected_by, confirmed, what_i_ran)."""
import json,glob,os,re,sys
pat = sys.argv[1] if len(sys.argv)>1 else 'C*'
for d in sorted(glob.glob('seeded/%s/m*'%pat)):
    mp=d+'/meta.json'
    if not os.path.exists(mp) or not os.path.exists(d+'/result.txt'): continue
    m=json.load(open(mp))
    res=open(d+'/result.txt').read()
    caught=('VIOLATION' in res or 'violation(s)' in res) and 'DOES NOT APPLY' not in res
    sigs=re.findall(r'violation: ([^ ]+) ',res)
    cb=d+'/caught_by.txt'
    if not caught and os.path.exists(cb):
        other=open(cb).read().strip()
        m['check_result']='caught'
        sigs=['(not by this property\'s check: reported by ./check %s, which owns the clause)'%other]
        caught=True
    elif not caught and os.path.exists(d+'/neutralised.txt'):
        # the change no longer breaks the property on the current tree (a later repair of the library made it harmless):
        # its demonstration passes with the change applied; the check is rightly silent
        m['check_result']='neutralised'
        m['neutralised']=open(d+'/neutralised.txt').read().strip()
    else:
        m['check_result']='caught' if caught else 'missed'
    m['detected_by']=('oracle signatures: '+', '.join(sorted(set(sigs)))[:400]) if sigs else ('correspondence / proof tie broken (no-failing-input-found)' if caught else ('— (no longer a violation, see history)' if m['check_result']=='neutralised' else 'not detected'))
    m['confirmed']=open(d+'/confirmed.txt').read().strip().split('\n')[-1] if os.path.exists(d+'/confirmed.txt') else 'unknown'
    m['what_i_ran']="lib/seedconfirm.sh (scratch worktree: demo passes unmodified; go build ./... and the package's existing tests with the change; demo fails with the change) and lib/seedtest.sh (./check %s quick with VERIF_REPO = scratch worktree carrying the change)"%d.split('/')[1]
    if os.path.exists(d+'/history.txt'): m['history']=open(d+'/history.txt').read().strip()
    if m['check_result']=='neutralised': m['history']=(m.get('history','')+' LATER: '+m['neutralised']).strip()
    json.dump(m,open(mp,'w'),indent=1)
    print(d,m['check_result'],m['confirmed'])
