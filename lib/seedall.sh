#!/bin/sh
# usage: lib/seedall.sh Cxx  — confirm and test every seeded/Cxx/m* that has no confirmed.txt / result.txt yet
p="$1"
for d in seeded/$p/m*; do
  [ -f "$d/patch.diff" ] || continue
  demo=$(ls $d/*_test.go 2>/dev/null | head -1)
  pkg=$(grep -o 'utils/[a-z/]*[a-z]' "$demo" | head -1 | sed 's|^utils/||')
  [ -n "$2" ] && pkg="$2"
  rx=$(grep -o '^func Test[A-Za-z0-9_]*' "$demo" | sed 's/func //' | paste -sd'|')
  if [ ! -f "$d/confirmed.txt" ]; then lib/seedconfirm.sh "$d" "$pkg" "^($rx)\$" > "$d/confirm.log" 2>&1; fi
  tail -1 "$d/confirmed.txt" | sed "s|^|$d confirm: |"
  if [ ! -f "$d/result.txt" ]; then sh lib/seedtest.sh $p "$d/patch.diff" quick > "$d/result.txt" 2>&1; fi
  if grep -qE "^VIOLATION|violation\(s\)" "$d/result.txt" && ! grep -q "DOES NOT APPLY" "$d/result.txt"; then echo "$d check: CAUGHT $(grep -c '^VIOLATION' $d/result.txt) ($(grep -m1 'violation:' $d/result.txt | cut -c1-150))"; else echo "$d check: MISSED"; fi
done
