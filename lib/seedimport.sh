#!/bin/sh
# usage: lib/seedimport.sh Cxx tag   — copy /tmp/seed-Cxx<tag>/m1..m9 into the next free seeded/Cxx/m<k> directories
p="$1"; tag="$2"
n=$(ls -d seeded/$p/m* 2>/dev/null | sed 's/.*m//' | sort -n | tail -1); n=${n:-0}
for d in /tmp/seed-${p}${tag}/m*; do
  [ -f "$d/patch.diff" ] || continue
  n=$((n+1)); mkdir -p seeded/$p/m$n; cp "$d"/* seeded/$p/m$n/ 2>/dev/null
  echo "round $tag" > seeded/$p/m$n/round.txt
  echo "$d -> seeded/$p/m$n"
done
