#!/bin/sh
# usage: coqgoal.sh <file.v relative to coq/> <line>  — shows the goals after <line> lines of the file
cd /verif/coq || exit 2
f="$1"; n="$2"
tmp=$(mktemp /tmp/coqgoalXXXX.v)
head -n "$n" "$f" > "$tmp"
printf '\nShow.\n' >> "$tmp"
timeout ${3:-120} coqtop -Q . GU -batch -l "$tmp" 2>&1 | tail -${4:-60}
rm -f "$tmp"
