#!/usr/bin/env python3
"""Integrate a builder's proposals for property Cxx: merge manifest.d/Cxx.findings.json into known_findings.json
(remapping worktree commit ids in 'fixed:' lines to the ids of the cherry-picked commits in /repo), record hook commits."""
import json, sys, os, re, subprocess
ROOT = os.path.dirname(os.path.dirname(os.path.abspath(__file__)))
def git(*a):
    return subprocess.run(["git", "-C", "/repo"] + list(a), stdout=subprocess.PIPE, stderr=subprocess.DEVNULL, text=True).stdout.strip()
main_log = [l.split(" ", 1) for l in git("log", "--format=%h %s", "-200").split("\n")]
def remap(sha):
    subj = git("log", "-1", "--format=%s", sha)
    if not subj:
        return None
    for h, s in main_log:
        if s == subj:
            return h
    return None
kf_path = os.path.join(ROOT, "known_findings.json")
kf = json.load(open(kf_path))
for pid in sys.argv[1:]:
    p = os.path.join(ROOT, "manifest.d", pid + ".findings.json")
    if not os.path.exists(p):
        continue
    d = json.load(open(p))
    for f in d.get("findings", []):
        if not any(x.get("property") == f.get("property") and x.get("signature") == f.get("signature") for x in kf["findings"]):
            kf["findings"].append(f)
    for line in d.get("fixed", []):
        m = re.search(r"\b([0-9a-f]{7,40})\b", line)
        if m:
            new = remap(m.group(1))
            if new is None:
                print("WARNING: cannot remap", m.group(1), "in:", line)
            else:
                line = line.replace(m.group(1), new)
        if line not in kf["fixed"]:
            kf["fixed"].append(line)
    os.remove(p)
    print("merged", pid)
json.dump(kf, open(kf_path, "w"), indent=1)
# hooks: every commit on main whose subject starts with "hook:"
hooks = [h for h, s in main_log if s.startswith("hook:")]
json.dump({"source_commits": sorted(hooks)}, open(os.path.join(ROOT, "manifest.d", "hooks.json"), "w"))
print("hooks:", hooks)
