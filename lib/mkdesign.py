#!/usr/bin/env python3
"""Regenerate the as-built parts of DESIGN.md (sections 5, 6 and 11) from the development itself:
   coq/Cxx/Props.v (theorem names + the comment in front of each), manifest.d/Cxx.json (level text, notes, assumptions,
   trusted base, modelled-not-verified), known_findings.json (findings + fixed), seeded/<id>/m*/meta.json.
   The text between the markers  <!-- GENERATED:<name> BEGIN --> / <!-- GENERATED:<name> END -->  is replaced."""
import json, os, re, glob, sys
ROOT = os.path.dirname(os.path.dirname(os.path.abspath(__file__)))
props = [json.loads(l) for l in open(os.path.join(ROOT, "properties.jsonl")) if l.strip()]
kf = json.load(open(os.path.join(ROOT, "known_findings.json")))


def theorems(pid):
    p = os.path.join(ROOT, "coq", pid, "Props.v")
    if not os.path.exists(p):
        return []
    src = open(p, encoding="utf8").read()
    out = []
    for m in re.finditer(r"^(Theorem|Example)\s+([A-Za-z_][\w']*)", src, re.M):
        kind, name = m.group(1), m.group(2)
        # the comment block that ends right before this statement
        pre = src[:m.start()].rstrip()
        doc = ""
        if pre.endswith("*)"):
            depth, i = 0, len(pre)
            while i > 0:
                if pre.startswith("*)", i - 2):
                    depth += 1
                    i -= 2
                    continue
                if pre.startswith("(*", i - 2):
                    depth -= 1
                    i -= 2
                    if depth == 0:
                        break
                    continue
                i -= 1
            doc = pre[i + 2:-2].strip()
            # a comment belongs to this statement only if nothing but blank space separates them (already ensured)
        doc = re.sub(r"\s+", " ", doc)
        out.append((kind, name, doc))
    return out


def wrap(s, width=112, indent=""):
    words, lines, cur = s.split(), [], ""
    for w in words:
        if len(cur) + len(w) + 1 > width and cur:
            lines.append(indent + cur)
            cur = w
        else:
            cur = (cur + " " + w).strip()
    if cur:
        lines.append(indent + cur)
    return "\n".join(lines)


def section5():
    out = []
    for p in props:
        pid = p["id"]
        cfgp = os.path.join(ROOT, "manifest.d", pid + ".json")
        if not os.path.exists(cfgp):
            continue
        cfg = json.load(open(cfgp))
        man = cfg["manifest"]
        out.append("### %s — %s\n" % (pid, p["title"]))
        out.append(wrap("*Property.* " + p["statement"]) + "\n")
        out.append(wrap("*What is claimed (MANIFEST level text).* " + man["level_text"]) + "\n")
        out.append(wrap("*Notes.* " + man["level_note"]) + "\n")
        ths = theorems(pid)
        out.append("*Theorems of `coq/%s/Props.v`* (each followed by `Print Assumptions`; `…_partial` = proved part of a fuller statement, `…_refuted` = the statement is false of the faithful model, witness replayed on the implementation):\n" % pid)
        for kind, name, doc in ths:
            if kind == "Theorem":
                d = (" — " + doc[:700] + ("…" if len(doc) > 700 else "")) if doc else ""
                out.append(wrap("* `%s`%s" % (name, d), indent="  ")[2:].replace("\n", "\n") )
        ex = [n for k, n, _ in ths if k == "Example"]
        if ex:
            out.append("\n" + wrap("*Non-vacuity / witnesses (`Example`s).* " + ", ".join("`%s`" % e for e in ex)))
        out.append("")
        if cfg.get("gen"):
            out.append(wrap("*Regenerated on every run.* " + "; ".join(" ".join(g["cmd"]) for g in cfg["gen"])) + "\n")
        if cfg.get("trusted_base"):
            out.append("*Tie and trusted parts.*\n" + "\n".join(wrap("* " + t, indent="  ")[2:] for t in cfg["trusted_base"]) + "\n")
        if cfg.get("assumptions"):
            out.append("*Assumptions.*\n" + "\n".join(wrap("* " + t, indent="  ")[2:] for t in cfg["assumptions"]) + "\n")
        if cfg.get("modelled_not_verified"):
            out.append(wrap("*Modelled, not verified.* " + "; ".join(cfg["modelled_not_verified"])) + "\n")
        fnd = [f for f in kf["findings"] if f.get("property") == pid]
        if fnd:
            out.append("*Known findings (KNOWN-FINDING lines on the unchanged tree).*\n" + "\n".join(wrap("* `%s` — %s" % (f["signature"], f["what"]), indent="  ")[2:] for f in fnd) + "\n")
        fx = [l for l in kf["fixed"] if ("property=%s " % pid) in l]
        if fx:
            out.append("*Repaired defects (`fix:` commits in /repo).*\n" + "\n".join(wrap("* " + l, indent="  ")[2:] for l in fx) + "\n")
        out.append("")
    return "\n".join(out)


def section0():
    import subprocess
    nlines = 0
    for f in glob.glob(os.path.join(ROOT, "coq", "C*", "*.v")) + glob.glob(os.path.join(ROOT, "coq", "Lib", "*.v")):
        nlines += sum(1 for _ in open(f, encoding="utf8", errors="replace"))
    nth = sum(len([1 for k, _, _ in theorems(p["id"]) if k == "Theorem"]) for p in props)
    nfix = len([l for l in kf["fixed"] if l.startswith("fixed:")])
    nfind = len(kf["findings"])
    metas = glob.glob(os.path.join(ROOT, "seeded", "C*", "m*", "meta.json"))
    ncaught = sum(1 for m in metas if json.load(open(m)).get("check_result") == "caught")
    nhist = sum(1 for m in metas if json.load(open(m)).get("history"))
    nneut = sum(1 for m in metas if json.load(open(m)).get("check_result") == "neutralised")
    ntr = len(glob.glob(os.path.join(ROOT, "translator*")))
    return ("* **Numbers (generated).** %d lines of Coq in `coq/`, %d property theorems in the twenty `Props.v` files; %d translators; "
            "%d genuine defects of the library repaired by `fix:` commits in `/repo`, %d recorded as known findings; "
            "%d independently written breaking changes confirmed and kept under `seeded/`, %d of them reported as VIOLATION by the current "
            "checks (%d of those only after the check had been strengthened because it first missed the change); %d no longer break the "
            "property since a later repair of the library (their own demonstration passes with the change applied)."
            % (nlines, nth, ntr, nfix, nfind, len(metas), ncaught, nhist, nneut))


def section31():
    out = ["| id | translator run on every check (`gen` entries of manifest.d) | what is regenerated and what is re-proved over it (the check's `technique`) |", "|---|---|---|"]
    for pr in props:
        pid = pr["id"]
        cfgp = os.path.join(ROOT, "manifest.d", pid + ".json")
        if not os.path.exists(cfgp):
            continue
        cfg = json.load(open(cfgp))
        gens = cfg.get("gen", [])
        if not gens:
            out.append("| %s | — (hand-written model, correspondence only) | %s |" % (pid, cfg["manifest"].get("technique", "").replace("|", "\\|")))
            continue
        names = []
        for g in gens:
            cmd = " ".join(g["cmd"])
            m = re.search(r"(translator[\w-]*)[ /].*?cmd/(\w+)", cmd) or re.search(r"(translator[\w-]*)", cmd)
            names.append("`%s`" % ("/".join(x for x in m.groups() if x) if m else cmd[:60]))
        out.append("| %s | %s | %s |" % (pid, ", ".join(names), cfg["manifest"].get("technique", "").replace("|", "\\|")))
    return "\n".join(out)


def section6():
    out = ["| # | property | `fix:` commit | what failed |", "|---|---|---|---|"]
    n = 0
    for l in kf["fixed"]:
        m = re.match(r"fixed: property=(C\d\d) ([0-9a-f]{7,12}) (.*)", l)
        if not m:
            continue
        n += 1
        out.append("| F%d | %s | `%s` | %s |" % (n, m.group(1), m.group(2), m.group(3).replace("|", "\\|")))
    out.append("")
    out.append("| # | property | signature | what fails (known finding, not repaired) | replay |")
    out.append("|---|---|---|---|---|")
    k = 0
    for f in kf["findings"]:
        k += 1
        out.append("| K%d | %s | `%s` | %s | %s |" % (k, f["property"], f["signature"], f["what"].replace("|", "\\|"), str(f.get("replay", "")).replace("|", "\\|")))
    out.append("")
    out.append("Totals: %d defects repaired by `fix:` commits, %d recorded as known findings." % (n, k))
    return "\n".join(out)


def section11():
    out = ["| seed | clause broken / what changed | needs to manifest | result | detected by | history |", "|---|---|---|---|---|---|"]
    tot = caught = 0
    for mp in sorted(glob.glob(os.path.join(ROOT, "seeded", "C*", "m*", "meta.json")), key=lambda x: (x.split("/")[-3], int(re.sub(r"\D", "", x.split("/")[-2]) or 0))):
        m = json.load(open(mp))
        sid = "/".join(mp.split("/")[-3:-1])
        tot += 1
        if m.get("check_result") == "caught":
            caught += 1
        cell = lambda s, n: str(s or "").replace("|", "\\|").replace("\n", " ")[:n]
        out.append("| %s | %s | %s | %s | %s | %s |" % (sid, cell(m.get("what_changed") or m.get("clause_broken"), 260), cell(m.get("needs_to_manifest"), 200),
                                                      m.get("check_result", "?"), cell(m.get("detected_by"), 200), cell(m.get("history", ""), 300)))
    out.append("")
    out.append("Totals: %d seeded changes confirmed (each compiles, passes the package's existing tests, demo fails with it and passes without), %d reported as VIOLATION by the current checks." % (tot, caught))
    return "\n".join(out)


def main():
    p = os.path.join(ROOT, "DESIGN.md")
    s = open(p, encoding="utf8").read()
    for name, fn in (("SECTION0", section0), ("SECTION31", section31), ("SECTION5", section5), ("SECTION6", section6), ("SECTION11", section11)):
        b, e = "<!-- GENERATED:%s BEGIN -->" % name, "<!-- GENERATED:%s END -->" % name
        if b not in s or e not in s:
            print("marker missing:", name)
            continue
        i, j = s.index(b) + len(b), s.index(e)
        s = s[:i] + "\n" + fn() + "\n" + s[j:]
    open(p, "w", encoding="utf8").write(s)
    print("DESIGN.md regenerated")


if __name__ == "__main__":
    main()
