#!/usr/bin/env python3
"""Assemble MANIFEST.json from manifest.d/<id>.json fragments; properties without a fragment go to not_applicable
with the reason recorded in manifest.d/not_applicable.json."""
import json, os, glob
ROOT = os.path.dirname(os.path.dirname(os.path.abspath(__file__)))
props = [json.loads(l)["id"] for l in open(os.path.join(ROOT, "properties.jsonl")) if l.strip()]
na_reasons = json.load(open(os.path.join(ROOT, "manifest.d", "not_applicable.json")))
integrated = set(json.load(open(os.path.join(ROOT, "manifest.d", "integrated.json"))))
checks, na = [], []
for pid in props:
    p = os.path.join(ROOT, "manifest.d", pid + ".json")
    if not os.path.exists(p) or pid not in integrated:
        na.append({"property_id": pid, "reason": na_reasons.get(pid, "check not built yet (see DESIGN.md section 5 for the planned model and theorems)")})
        continue
    c = json.load(open(p))
    m = c["manifest"]
    checks.append({
        "property_id": pid,
        "quick_cmd": "./check %s quick" % pid,
        "thorough_cmd": "./check %s thorough" % pid,
        "evidence_file": "/verif/evidence/%s.json" % pid,
        "replay_cmd_template": "./check %s --replay {path}" % pid,
        "engine": "coq-proof+correspondence",
        "level_claimed": {"category": "proof", "text": m["level_text"], "design_ref": m.get("design_ref", "DESIGN.md section 5, " + pid)},
        "level_note": m["level_note"],
        "technique": m.get("technique", "machine-checked proof in Coq 8.16.1 of theorems about an executable Gallina model; model tied to the code by a correspondence check (model evaluated by vm_compute on the implementation's observed behaviour)"),
    })
man = {
    "version": 1,
    "setup_cmd": "sh lib/setup.sh",
    "hooks": {
        "guard": "verif",
        "enable": "go build -tags verif (add-only //go:build verif export files; see MANIFEST.hooks)",
        "baseline_off_cmd": "cd /repo/utils && GOFLAGS=-mod=mod GOPROXY=off go test -json -vet=off -count=1 -timeout 25m ./...",
        "source_commits": json.load(open(os.path.join(ROOT, "manifest.d", "hooks.json"))).get("source_commits", []),
        "add_only": True,
    },
    "engines": [{
        "name": "coq-proof+correspondence", "path": "/verif/check",
        "serves_properties": [c["property_id"] for c in checks],
        "kind_free_text": "Coq 8.16.1 proofs over executable Gallina models (coq/<id>/Model.v, Proofs.v, Props.v); Go harness (harness/cmd/<id>) runs the real library from /repo's working tree, evaluates the property's oracle, and writes the observations as Coq case files that the model re-evaluates with vm_compute (lib/vcheck.py orchestrates).",
    }],
    "checks": checks,
    "notes": "See DESIGN.md. known_findings.json lists recorded findings and fixed defects. Every check rebuilds the harness from /repo's working tree and re-checks the Coq theorems (incremental make + coqc of Props.v).",
    "not_applicable": na,
}
json.dump(man, open(os.path.join(ROOT, "MANIFEST.json"), "w"), indent=1)
print("MANIFEST.json: %d checks, %d not_applicable" % (len(checks), len(na)))
