#!/usr/bin/env python3
"""Re-run the translators of the given properties (default: all) against /repo, so that coq/Cxx/Gen*.v on disk
correspond to the unchanged tree (a seeded-change run leaves them generated from its scratch worktree)."""
import json, os, sys, glob, subprocess
ROOT = os.path.dirname(os.path.dirname(os.path.abspath(__file__)))
sys.path.insert(0, os.path.join(ROOT, "lib"))
import vcheck
pids = sys.argv[1:] or sorted(os.path.basename(p)[:-5] for p in glob.glob(os.path.join(ROOT, "manifest.d", "C??.json")))
env = vcheck.goenv(); env["VERIF_REPO"] = "/repo"
for pid in pids:
    cfg = json.load(open(os.path.join(ROOT, "manifest.d", pid + ".json")))
    for g in cfg.get("gen", []):
        rc = subprocess.run(g["cmd"], cwd=ROOT, env=env, stdout=subprocess.PIPE, stderr=subprocess.STDOUT, text=True)
        print(pid, " ".join(g["cmd"])[:80], "rc=%d" % rc.returncode)
