#!/usr/bin/env python3
"""usage: lib/seedround.py <tag> [n]  — writes /tmp/seedprompt-Cxx<tag>.txt for all twenty properties: the seeder prompt
(property text only) followed by one-line descriptions of the changes earlier seeders already produced (so that a new round
looks elsewhere). Nothing from /verif's checks goes into the prompt."""
import json, sys, glob, os, subprocess
tag = sys.argv[1]
n = sys.argv[2] if len(sys.argv) > 2 else "3"
ROOT = os.path.dirname(os.path.dirname(os.path.abspath(__file__)))
for l in open(os.path.join(ROOT, "properties.jsonl")):
    if not l.strip():
        continue
    pid = json.loads(l)["id"]
    base = subprocess.run([sys.executable, os.path.join(ROOT, "lib", "seedprompt.py"), pid, n, tag], capture_output=True, text=True).stdout
    tried = []
    for m in sorted(glob.glob(os.path.join(ROOT, "seeded", pid, "m*", "meta.json"))):
        d = json.load(open(m))
        t = (d.get("what_changed") or d.get("clause_broken") or "").replace("\n", " ")
        if t:
            tried.append("- " + t[:260])
    extra = ("\n\nOther people have ALREADY tried the following changes for this property; do NOT repeat them or close variants. Look for DIFFERENT "
             "code paths, clauses of the statement, fault kinds, interleavings, boundary inputs and histories — in particular: clauses of the statement "
             "that none of the earlier changes touches; helper functions in OTHER packages or files that the anchored code relies on; less-travelled "
             "entry points (convenience wrappers, option variants, deprecated aliases) that reach the same mechanism; error paths and clean-up paths; "
             "platform or configuration variants; changes whose effect shows only after several operations or only under a fault.\n" + "\n".join(tried) + "\n")
    open("/tmp/seedprompt-%s%s.txt" % (pid, tag), "w").write(base + extra)
    print(pid, len(tried), "earlier changes listed")
