#!/usr/bin/env python3
import json, sys, glob
import jsonschema
jsonschema.validate(json.load(open('/verif/MANIFEST.json')), json.load(open('/root/.vp/MANIFEST.schema.json')))
print("MANIFEST ok")
sch = json.load(open('/root/.vp/EVIDENCE.schema.json'))
for f in sorted(glob.glob('/verif/evidence/*.json')):
    jsonschema.validate(json.load(open(f)), sch)
    e = json.load(open(f))
    print(f, "ok", e["tier"], e["coverage"]["discharged"], "/", e["coverage"]["obligations"], "evals", e["coverage"]["evaluations"], "violations", e.get("violations"))
