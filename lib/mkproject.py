#!/usr/bin/env python3
import sys, os
sys.path.insert(0, os.path.dirname(os.path.abspath(__file__)))
import vcheck
vcheck.coq_project()
print("coq/_CoqProject + Makefile ready")
