module verif/translator-c08

go 1.23
