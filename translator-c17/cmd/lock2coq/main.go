// lock2coq extracts from utils/filesystem/{lockfile.go,filetimes.go} and
// utils/parallelisation/parallelisation.go (go/ast only) the FACTS that the C17 model is parameterised by and writes
// them as the record `gen_facts` of coq/C17/Gen.v:
//   - NewGenericRemoteLockFile: the heartbeat period and the time between lock tries;
//   - isStale: the nil guard's answer, WHICH time of the file is aged, the unit of the age, the comparison operator,
//     the factor and the unit of the period;
//   - IsStale: the ordered guards (Ls error; empty listing -> StatTimes of the directory, its error, which period
//     FIELD; files -> areHeartBeatFilesAllStale with which period field);
//   - areHeartBeatFilesAllStale: default per-file answer, the stat-error guard, collection.All / Any;
//   - filetimes.go: which branch serves info.Sys()==nil, what the default ModTime() is;
//   - heartBeat: context check first, `now` per iteration, what happens on a WriteFile / Chtimes error, the time given
//     to Chtimes, the sleep (with the context? period minus what?);
//   - TryLock: Mkdir, the stale / override tests and what each branch returns, Chtimes(dir, now), how the heartbeat
//     context is derived, whether its cancel function is registered in the lock's store, which period field is passed;
//   - ReleaseIfStale's shape, Unlock's first statement, LockWithTimeout's store argument;
//   - RunActionWithTimeoutAndCancelStore: which cancel functions each select branch calls.
// Every statement is matched against a closed list of shapes; anything else is an error (exit 1): the tie must
// break rather than guess.
//
// usage: lock2coq <out.v>      (reads $VERIF_REPO, default /repo)
package main

import (
	"bytes"
	"fmt"
	"go/ast"
	"go/parser"
	"go/printer"
	"go/token"
	"os"
	"path/filepath"
	"regexp"
	"strconv"
	"strings"
)

var fset = token.NewFileSet()

func die(pos token.Pos, format string, a ...any) {
	where := ""
	if pos.IsValid() {
		where = fset.Position(pos).String() + ": "
	}
	fmt.Fprintf(os.Stderr, "lock2coq: %sunknown shape: %s\n", where, fmt.Sprintf(format, a...))
	os.Exit(1)
}

func src(n ast.Node) string {
	var b bytes.Buffer
	_ = printer.Fprint(&b, fset, n)
	return strings.Join(strings.Fields(b.String()), " ")
}

func parse(path string) *ast.File {
	f, err := parser.ParseFile(fset, path, nil, 0)
	if err != nil {
		fmt.Fprintln(os.Stderr, "lock2coq:", err)
		os.Exit(1)
	}
	return f
}

func findFunc(f *ast.File, recv, name string) *ast.FuncDecl {
	for _, d := range f.Decls {
		fd, ok := d.(*ast.FuncDecl)
		if !ok || fd.Name.Name != name {
			continue
		}
		if recv == "" && fd.Recv == nil {
			return fd
		}
		if recv != "" && fd.Recv != nil && len(fd.Recv.List) == 1 && strings.TrimPrefix(src(fd.Recv.List[0].Type), "*") == recv {
			return fd
		}
	}
	return nil
}

func mustFunc(f *ast.File, recv, name string) *ast.FuncDecl {
	fd := findFunc(f, recv, name)
	if fd == nil || fd.Body == nil {
		die(token.NoPos, "function %s.%s not found", recv, name)
	}
	return fd
}

// match the whole normalised source of a node against a regular expression; dies with `what` otherwise
func match(n ast.Node, re string, what string) []string {
	m := regexp.MustCompile("^" + re + "$").FindStringSubmatch(src(n))
	if m == nil {
		die(n.Pos(), "%s: expected /%s/, found `%s`", what, re, src(n))
	}
	return m
}

func is(n ast.Node, re string) []string {
	return regexp.MustCompile("^" + re + "$").FindStringSubmatch(src(n))
}

func b(x bool) string {
	if x {
		return "true"
	}
	return "false"
}

func boolLit(s string, pos token.Pos) bool {
	switch s {
	case "true":
		return true
	case "false":
		return false
	}
	die(pos, "not a boolean literal: %s", s)
	return false
}

var unitNs = map[string]int64{"Nanosecond": 1, "Microsecond": 1000, "Millisecond": 1000000, "Second": 1000000000}

// N * time.Unit | time.Unit
func durationNs(e string, pos token.Pos) int64 {
	m := regexp.MustCompile(`^(?:(\d+) ?\* ?)?time\.(\w+)$`).FindStringSubmatch(e)
	if m == nil {
		die(pos, "not a literal duration: `%s`", e)
	}
	u, ok := unitNs[m[2]]
	if !ok {
		die(pos, "unknown time unit in `%s`", e)
	}
	n := int64(1)
	if m[1] != "" {
		n, _ = strconv.ParseInt(m[1], 10, 64)
	}
	return n * u
}

func dunit(method string, pos token.Pos) string {
	switch method {
	case "", "Nanoseconds":
		return "UNanos"
	case "Microseconds":
		return "UMicros"
	case "Milliseconds":
		return "UMillis"
	case "Seconds":
		return "USeconds"
	}
	die(pos, "unknown duration accessor .%s()", method)
	return ""
}

func tsrc(method string, pos token.Pos) string {
	switch method {
	case "ModTime":
		return "TModTime"
	case "AccessTime":
		return "TAccessTime"
	case "ChangeTime":
		return "TChangeTime"
	case "BirthTime":
		return "TBirthTime"
	}
	die(pos, "unknown time accessor .%s()", method)
	return ""
}

func pfield(name string, pos token.Pos) string {
	switch name {
	case "lockHeartBeatPeriod":
		return "PHeartBeat"
	case "timeBetweenLockTries":
		return "PBetweenTries"
	}
	die(pos, "unknown period field l.%s", name)
	return ""
}

func cmpop(op string) string {
	return map[string]string{">": "CGt", ">=": "CGe", "<": "CLt", "<=": "CLe", "==": "CEq", "!=": "CNe"}[op]
}

type facts struct {
	kv    []string
	order []string
}

func (f *facts) set(k, v string) { f.kv = append(f.kv, fmt.Sprintf("  %s := %s", k, v)) }

func zlit(n int64) string {
	if n < 0 {
		return fmt.Sprintf("(%d)", n)
	}
	return fmt.Sprint(n)
}

// the single `return X` of a block
func onlyReturn(bl *ast.BlockStmt, what string) string {
	if len(bl.List) != 1 {
		die(bl.Pos(), "%s: expected a single return, found `%s`", what, src(bl))
	}
	r, ok := bl.List[0].(*ast.ReturnStmt)
	if !ok {
		die(bl.Pos(), "%s: expected a return, found `%s`", what, src(bl.List[0]))
	}
	parts := make([]string, len(r.Results))
	for i, e := range r.Results {
		parts[i] = src(e)
	}
	return strings.Join(parts, ", ")
}

func ifStmt(s ast.Stmt, what string) *ast.IfStmt {
	i, ok := s.(*ast.IfStmt)
	if !ok {
		die(s.Pos(), "%s: expected an if statement, found `%s`", what, src(s))
	}
	return i
}

// `_ = CALL` -> (CALL, EIgnore);  `if err := CALL; err != nil { return }` -> (CALL, EReturn)
func ignoredOrReturning(s ast.Stmt, what string) (*ast.CallExpr, string) {
	if as, ok := s.(*ast.AssignStmt); ok && len(as.Lhs) == 1 && src(as.Lhs[0]) == "_" && len(as.Rhs) == 1 && as.Tok == token.ASSIGN {
		if c, ok := as.Rhs[0].(*ast.CallExpr); ok {
			return c, "EIgnore"
		}
	}
	if i, ok := s.(*ast.IfStmt); ok && i.Init != nil && i.Else == nil && src(i.Cond) == "err != nil" {
		if as, ok := i.Init.(*ast.AssignStmt); ok && len(as.Lhs) == 1 && src(as.Lhs[0]) == "err" && len(as.Rhs) == 1 {
			if c, ok := as.Rhs[0].(*ast.CallExpr); ok {
				if len(i.Body.List) == 1 {
					if r, ok := i.Body.List[0].(*ast.ReturnStmt); ok && len(r.Results) == 0 {
						return c, "EReturn"
					}
				}
			}
		}
	}
	die(s.Pos(), "%s: expected `_ = f(...)` or `if err := f(...); err != nil { return }`, found `%s`", what, src(s))
	return nil, ""
}

func cancelCalls(list []ast.Stmt, where string) string {
	var out []string
	for _, s := range list {
		switch t := src(s); {
		case t == "actionCancel()":
			out = append(out, "XAction")
		case t == "timeoutCancel()":
			out = append(out, "XTimeout")
		case t == "store.Cancel()":
			out = append(out, "XStore")
		case t == "<-cancelCtx.Done()", t == "<-channel":
		case is(s, `return .*`) != nil:
		case is(s, `err2 := DetermineContextError\(timeoutContext\)`) != nil:
		case is(s, `if err2 != nil \{ return err2 \}`) != nil:
		default:
			die(s.Pos(), "%s: unexpected statement `%s`", where, t)
		}
	}
	return "[" + strings.Join(out, "; ") + "]"
}

func main() {
	if len(os.Args) != 2 {
		fmt.Fprintln(os.Stderr, "usage: lock2coq <out.v>")
		os.Exit(2)
	}
	repo := os.Getenv("VERIF_REPO")
	if repo == "" {
		repo = "/repo"
	}
	lf := parse(filepath.Join(repo, "utils/filesystem/lockfile.go"))
	ft := parse(filepath.Join(repo, "utils/filesystem/filetimes.go"))
	pf := parse(filepath.Join(repo, "utils/parallelisation/parallelisation.go"))
	ff := parse(filepath.Join(repo, "utils/filesystem/files.go"))
	F := &facts{}

	// ---- NewGenericRemoteLockFile
	{
		fd := mustFunc(lf, "", "NewGenericRemoteLockFile")
		found := map[string]int64{}
		ast.Inspect(fd.Body, func(n ast.Node) bool {
			if kv, ok := n.(*ast.KeyValueExpr); ok {
				k := src(kv.Key)
				if k == "lockHeartBeatPeriod" || k == "timeBetweenLockTries" {
					found[k] = durationNs(src(kv.Value), kv.Pos())
				}
			}
			return true
		})
		if len(found) != 2 {
			die(fd.Pos(), "NewGenericRemoteLockFile: lockHeartBeatPeriod / timeBetweenLockTries not both set by literals")
		}
		F.set("f_period_ns", zlit(found["lockHeartBeatPeriod"]))
		F.set("f_tries_ns", zlit(found["timeBetweenLockTries"]))
	}

	// ---- isStale
	{
		fd := mustFunc(lf, "", "isStale")
		if len(fd.Body.List) != 2 {
			die(fd.Pos(), "isStale: expected 2 statements, found %d", len(fd.Body.List))
		}
		g := ifStmt(fd.Body.List[0], "isStale nil guard")
		if src(g.Cond) != "filetime == nil" || g.Else != nil || g.Init != nil {
			die(g.Pos(), "isStale: expected `if filetime == nil {`, found `%s`", src(g))
		}
		F.set("f_nil_time_stale", b(boolLit(onlyReturn(g.Body, "isStale nil guard"), g.Pos())))
		m := match(fd.Body.List[1], `return time\.Since\(filetime\.(\w+)\(\)\)(?:\.(\w+)\(\))? ?(>=|<=|==|!=|>|<) ?(?:(\d+) ?\* ?)?beatPeriod(?:\.(\w+)\(\))?`, "isStale comparison")
		F.set("f_time_source", tsrc(m[1], fd.Body.List[1].Pos()))
		F.set("f_age_unit", dunit(m[2], fd.Body.List[1].Pos()))
		F.set("f_cmp", cmpop(m[3]))
		k := int64(1)
		if m[4] != "" {
			k, _ = strconv.ParseInt(m[4], 10, 64)
		}
		F.set("f_factor", zlit(k))
		F.set("f_period_unit", dunit(m[5], fd.Body.List[1].Pos()))
	}

	// ---- IsStale
	{
		fd := mustFunc(lf, "RemoteLockFile", "IsStale")
		l := fd.Body.List
		if len(l) != 4 && len(l) != 5 {
			die(fd.Pos(), "IsStale: expected 4 or 5 statements, found %d", len(l))
		}
		match(l[0], `lockPath := l\.lockPath\(\)`, "IsStale[0]")
		match(l[1], `heartBeatFiles, err := l\.fs\.Ls\(lockPath\)`, "IsStale[1]")
		g := ifStmt(l[2], "IsStale Ls guard")
		if src(g.Cond) != "err != nil" || g.Else != nil || g.Init != nil {
			die(g.Pos(), "IsStale: expected `if err != nil {` after Ls, found `%s`", src(g))
		}
		F.set("f_ls_err_stale", b(boolLit(onlyReturn(g.Body, "IsStale Ls guard"), g.Pos())))
		last := l[len(l)-1]
		if len(l) == 5 {
			e := ifStmt(l[3], "IsStale empty-listing branch")
			if src(e.Cond) != "len(heartBeatFiles) == 0" || e.Else != nil || e.Init != nil {
				die(e.Pos(), "IsStale: expected `if len(heartBeatFiles) == 0 {`, found `%s`", src(e.Cond))
			}
			bl := e.Body.List
			if len(bl) != 3 {
				die(e.Pos(), "IsStale empty branch: expected 3 statements")
			}
			match(bl[0], `dirInfo, err := l\.fs\.StatTimes\(lockPath\)`, "IsStale empty branch[0]")
			dg := ifStmt(bl[1], "IsStale directory stat guard")
			if src(dg.Cond) != "err != nil" || dg.Else != nil {
				die(dg.Pos(), "IsStale: expected `if err != nil {` after StatTimes(lockPath), found `%s`", src(dg))
			}
			m := match(bl[2], `return isStale\(dirInfo, l\.(\w+)\)`, "IsStale empty branch[2]")
			F.set("f_empty_uses_dir", "true")
			F.set("f_dir_stat_err_stale", b(boolLit(onlyReturn(dg.Body, "IsStale directory stat guard"), dg.Pos())))
			F.set("f_empty_period", pfield(m[1], bl[2].Pos()))
		} else {
			F.set("f_empty_uses_dir", "false")
			F.set("f_dir_stat_err_stale", "false")
			F.set("f_empty_period", "PHeartBeat")
		}
		m := match(last, `return areHeartBeatFilesAllStale\(l\.fs, lockPath, heartBeatFiles, l\.(\w+)\)`, "IsStale files branch")
		F.set("f_files_period", pfield(m[1], last.Pos()))
	}

	// ---- areHeartBeatFilesAllStale
	{
		fd := mustFunc(lf, "", "areHeartBeatFilesAllStale")
		l := fd.Body.List
		if len(l) != 3 {
			die(fd.Pos(), "areHeartBeatFilesAllStale: expected 3 statements, found %d", len(l))
		}
		match(l[0], `staleFiles := \[\]bool\{\}`, "areHeartBeatFilesAllStale[0]")
		rg, ok := l[1].(*ast.RangeStmt)
		if !ok || src(rg.X) != "heartBeatFiles" || src(rg.Key) != "i" || rg.Value != nil {
			die(l[1].Pos(), "areHeartBeatFilesAllStale: expected `for i := range heartBeatFiles`, found `%s`", src(l[1]))
		}
		bl := rg.Body.List
		if len(bl) != 5 {
			die(rg.Pos(), "areHeartBeatFilesAllStale loop: expected 5 statements, found %d", len(bl))
		}
		match(bl[0], `heartBeat := filepath\.Join\(lockPath, heartBeatFiles\[i\]\)`, "loop[0]")
		match(bl[1], `info, err := fs\.StatTimes\(heartBeat\)`, "loop[1]")
		m := match(bl[2], `isStaleB := (true|false)`, "loop[2]")
		F.set("f_file_default_stale", m[1])
		g := ifStmt(bl[3], "loop stat guard")
		if g.Else != nil || g.Init != nil || len(g.Body.List) != 1 {
			die(g.Pos(), "areHeartBeatFilesAllStale: unexpected guard `%s`", src(g))
		}
		match(g.Body.List[0], `isStaleB = isStale\(info, lockHeartBeatPeriod\)`, "loop guard body")
		switch src(g.Cond) {
		case "err == nil":
			F.set("f_file_judged_when_stat_ok", "true")
		case "err != nil":
			F.set("f_file_judged_when_stat_ok", "false")
		default:
			die(g.Pos(), "areHeartBeatFilesAllStale: unexpected condition `%s`", src(g.Cond))
		}
		match(bl[4], `staleFiles = append\(staleFiles, isStaleB\)`, "loop[4]")
		m = match(l[2], `return collection\.(All|Any)\(staleFiles\)`, "areHeartBeatFilesAllStale[2]")
		F.set("f_combine", "Comb"+m[1])
	}

	// ---- filetimes.go
	{
		fd := mustFunc(ft, "", "DetermineFileTimes")
		var branch *ast.IfStmt
		for _, s := range fd.Body.List {
			if i, ok := s.(*ast.IfStmt); ok && strings.HasPrefix(src(i.Cond), "info.Sys()") {
				branch = i
			}
		}
		if branch == nil || branch.Else == nil {
			die(fd.Pos(), "DetermineFileTimes: no `if info.Sys() ... else` found")
		}
		thenS, elseS := src(branch.Body), src(branch.Else)
		isDef := func(s string) bool { return s == "{ times = newDefaultTimeInfo(info) }" }
		isGen := func(s string) bool { return s == "{ times = &genericTimeInfo{fileTimes.Get(info)} }" }
		switch {
		case src(branch.Cond) == "info.Sys() == nil" && isDef(thenS) && isGen(elseS),
			src(branch.Cond) == "info.Sys() != nil" && isGen(thenS) && isDef(elseS):
			F.set("f_ft_default_when_sys_nil", "true")
		case src(branch.Cond) == "info.Sys() != nil" && isDef(thenS) && isGen(elseS),
			src(branch.Cond) == "info.Sys() == nil" && isGen(thenS) && isDef(elseS):
			F.set("f_ft_default_when_sys_nil", "false")
		default:
			die(branch.Pos(), "DetermineFileTimes: unexpected branch `%s`", src(branch))
		}
		nd := mustFunc(ft, "", "newDefaultTimeInfo")
		var srcm []string
		ast.Inspect(nd.Body, func(n ast.Node) bool {
			if as, ok := n.(*ast.AssignStmt); ok && len(as.Lhs) == 1 && src(as.Lhs[0]) == "info.modTime" {
				srcm = match(as, `info\.modTime = f\.(\w+)\(\)`, "newDefaultTimeInfo")
			}
			return true
		})
		if srcm == nil {
			die(nd.Pos(), "newDefaultTimeInfo: info.modTime is not assigned")
		}
		mt := mustFunc(ft, "defaultTimeInfo", "ModTime")
		if src(mt.Body) != "{ return i.modTime }" {
			die(mt.Pos(), "defaultTimeInfo.ModTime: expected `return i.modTime`, found `%s`", src(mt.Body))
		}
		if findFunc(ft, "genericTimeInfo", "ModTime") != nil {
			die(token.NoPos, "genericTimeInfo overrides ModTime() of the embedded Timespec")
		}
		F.set("f_ft_default_modtime", tsrc(srcm[1], nd.Pos()))
	}

	// ---- heartBeat
	{
		fd := mustFunc(lf, "", "heartBeat")
		l := fd.Body.List
		nowInLoop := true
		if len(l) == 2 && is(l[0], `now := time\.Now\(\)`) != nil {
			nowInLoop = false
			l = l[1:]
		}
		if len(l) != 1 {
			die(fd.Pos(), "heartBeat: expected a single `for { }`")
		}
		loop, ok := l[0].(*ast.ForStmt)
		if !ok || loop.Init != nil || loop.Cond != nil || loop.Post != nil {
			die(l[0].Pos(), "heartBeat: expected an unconditional `for { }`, found `%s`", src(l[0]))
		}
		bl := loop.Body.List
		i := 0
		if i < len(bl) && is(bl[i], `if err := parallelisation\.DetermineContextError\(ctx\); err != nil \{ return \}`) != nil {
			F.set("f_hb_ctx_check_first", "true")
			i++
		} else {
			F.set("f_hb_ctx_check_first", "false")
		}
		if nowInLoop {
			if i >= len(bl) {
				die(loop.Pos(), "heartBeat: loop body too short")
			}
			match(bl[i], `now := time\.Now\(\)`, "heartBeat now")
			i++
		}
		F.set("f_hb_now_in_loop", b(nowInLoop))
		if i+3 != len(bl) {
			die(loop.Pos(), "heartBeat: expected write, Chtimes, sleep after `now`; found %d statements", len(bl)-i)
		}
		wc, wh := ignoredOrReturning(bl[i], "heartBeat write")
		match(wc, `fs\.WriteFile\(filepath, \[\]byte\(fmt\.Sprintf\("alive @ %v", now\)\), 0775\)`, "heartBeat write call")
		F.set("f_hb_write_err", wh)
		cc, ch := ignoredOrReturning(bl[i+1], "heartBeat Chtimes")
		m := match(cc, `fs\.Chtimes\(filepath, (.+), (.+)\)`, "heartBeat Chtimes call")
		F.set("f_hb_chtimes_err", ch)
		if m[1] == "now" && m[2] == "now" {
			F.set("f_hb_chtimes_arg", "ANow")
		} else {
			F.set("f_hb_chtimes_arg", "AOther")
		}
		sl := bl[i+2]
		if m := is(sl, `parallelisation\.SleepWithContext\(ctx, period ?(?:- ?(.+))?\)`); m != nil {
			F.set("f_hb_sleep_with_ctx", "true")
			slack := int64(0)
			if m[1] != "" {
				slack = durationNs(m[1], sl.Pos())
			}
			F.set("f_hb_sleep_slack_ns", zlit(slack))
		} else if m := is(sl, `time\.Sleep\(period ?(?:- ?(.+))?\)`); m != nil {
			F.set("f_hb_sleep_with_ctx", "false")
			slack := int64(0)
			if m[1] != "" {
				slack = durationNs(m[1], sl.Pos())
			}
			F.set("f_hb_sleep_slack_ns", zlit(slack))
		} else {
			die(sl.Pos(), "heartBeat sleep: expected SleepWithContext(ctx, period[-d]) or time.Sleep(period[-d]), found `%s`", src(sl))
		}
	}

	// ---- (*VFS).WriteFile -> WriteFileWithContext -> WriteToFile: the backend operations behind a heartbeat write
	{
		wf := mustFunc(ff, "VFS", "WriteFile")
		if src(wf.Body) != "{ return fs.WriteFileWithContext(context.Background(), filename, data, perm) }" {
			die(wf.Pos(), "VFS.WriteFile: unexpected body `%s`", src(wf.Body))
		}
		wc := mustFunc(ff, "VFS", "WriteFileWithContext")
		calls := 0
		for _, st := range wc.Body.List {
			t := src(st)
			switch {
			case t == "err = fs.checkWhetherUnderlyingResourceIsClosed()", t == "if err != nil { return }",
				t == "reader := bytes.NewReader(data)", t == "if int(n) < len(data) { err = io.ErrShortWrite }", t == "return":
			case t == "n, err := fs.WriteToFile(ctx, filename, reader, perm)":
				calls++
			default:
				die(st.Pos(), "VFS.WriteFileWithContext: unexpected statement `%s`", t)
			}
		}
		if calls != 1 {
			die(wc.Pos(), "VFS.WriteFileWithContext: expected exactly one call of fs.WriteToFile")
		}
		wt := mustFunc(ff, "VFS", "WriteToFile")
		var ops []string
		for _, st := range wt.Body.List {
			t := src(st)
			switch {
			case t == "err = fs.checkWhetherUnderlyingResourceIsClosed()", t == "err = parallelisation.DetermineContextError(ctx)",
				t == "if err != nil { return }", t == "return",
				t == `if written == 0 { err = fmt.Errorf("%w: no bytes were written", commonerrors.ErrEmpty) return }`:
			case t == "f, err := fs.OpenFile(filename, os.O_WRONLY|os.O_CREATE|os.O_TRUNC, perm)":
				ops = append(ops, "WOpen")
			case t == "defer func() { _ = f.Close() }()", t == "defer f.Close()":
				ops = append(ops, "WDeferClose")
			case t == "written, err = safeio.CopyDataWithContext(ctx, reader, f)":
				ops = append(ops, "WCopy")
			case t == "err = f.Close()", t == "_ = f.Close()":
				ops = append(ops, "WClose")
			case is(st, `(err = |_ = )?f\.Sync\(\)`) != nil, is(st, `if err = f\.Sync\(\); err != nil \{ return \}`) != nil,
				is(st, `if err := f\.Sync\(\); err != nil \{ return .*\}`) != nil:
				ops = append(ops, "WSync")
			default:
				die(st.Pos(), "VFS.WriteToFile: unexpected statement `%s`", t)
			}
		}
		F.set("f_wtf_ops", "["+strings.Join(ops, "; ")+"]")
	}

	// ---- TryLock
	{
		fd := mustFunc(lf, "RemoteLockFile", "TryLock")
		l := fd.Body.List
		i := 0
		next := func(what string) ast.Stmt {
			if i >= len(l) {
				die(fd.Pos(), "TryLock: statement missing: %s", what)
			}
			s := l[i]
			i++
			return s
		}
		match(next("context check"), `if err := parallelisation\.DetermineContextError\(ctx\); err != nil \{ return err \}`, "TryLock[0]")
		match(next("lockPath"), `lockPath := l\.lockPath\(\)`, "TryLock[1]")
		m := match(next("Mkdir"), `err = l\.fs\.vfs\.(Mkdir|MkdirAll)\(lockPath, 0755\)`, "TryLock mkdir")
		F.set("f_tl_mkdir", b(m[1] == "Mkdir"))
		ex := ifStmt(next("exists branch"), "TryLock exists branch")
		if src(ex.Cond) != "commonerrors.Any(ConvertFileSystemError(err), commonerrors.ErrExists)" || ex.Else != nil || len(ex.Body.List) != 2 {
			die(ex.Pos(), "TryLock: unexpected exists branch `%s`", src(ex.Cond))
		}
		st := ifStmt(ex.Body.List[0], "TryLock stale test")
		switch src(st.Cond) {
		case "l.IsStale()":
			F.set("f_tl_stale_test", "true")
		case "!l.IsStale()":
			F.set("f_tl_stale_test", "false")
		default:
			die(st.Pos(), "TryLock: unexpected stale test `%s`", src(st.Cond))
		}
		if st.Else != nil || len(st.Body.List) != 2 {
			die(st.Pos(), "TryLock: unexpected stale branch")
		}
		ov := ifStmt(st.Body.List[0], "TryLock override test")
		switch src(ov.Cond) {
		case "l.overrideStaleLock":
			F.set("f_tl_override_test", "true")
		case "!l.overrideStaleLock":
			F.set("f_tl_override_test", "false")
		default:
			die(ov.Pos(), "TryLock: unexpected override test `%s`", src(ov.Cond))
		}
		F.set("f_tl_override_releases", b(src(ov.Body) == "{ _ = l.ReleaseIfStale(ctx) err = l.TryLock(ctx) return err }"))
		if src(ov.Body) != "{ _ = l.ReleaseIfStale(ctx) err = l.TryLock(ctx) return err }" && src(ov.Body) != "{ err = l.TryLock(ctx) return err }" {
			die(ov.Pos(), "TryLock: unexpected override branch `%s`", src(ov.Body))
		}
		tlerr := func(s ast.Stmt) string {
			m := match(s, `return commonerrors\.(ErrLocked|ErrStaleLock)`, "TryLock error return")
			if m[1] == "ErrLocked" {
				return "TLLocked"
			}
			return "TLStaleLock"
		}
		F.set("f_tl_stale_err", tlerr(st.Body.List[1]))
		F.set("f_tl_live_err", tlerr(ex.Body.List[1]))
		match(next("error return"), `if err != nil \{ return \}`, "TryLock[4]")
		s := next("now / heartbeat path")
		if is(s, `now := time\.Now\(\)`) != nil {
			match(next("Chtimes(dir)"), `_ = l\.fs\.Chtimes\(lockPath, now, now\)`, "TryLock Chtimes(dir)")
			F.set("f_tl_chtimes_dir_now", "true")
			s = next("heartbeat path")
		} else {
			F.set("f_tl_chtimes_dir_now", "false")
		}
		match(s, `heartBeatFilePath := l\.heartBeatFile\(lockPath\)`, "TryLock heartbeat path")
		m = match(next("heartbeat context"), `subctx, cancelFunc := context\.WithCancel\((.+)\)`, "TryLock heartbeat context")
		switch m[1] {
		case "ctx":
			F.set("f_hb_ctx", "DCancelOfCtx")
		case "context.WithoutCancel(ctx)":
			F.set("f_hb_ctx", "DCancelOfWithoutCancel")
		case "context.Background()", "context.TODO()":
			F.set("f_hb_ctx", "DCancelOfBackground")
		default:
			die(l[i-1].Pos(), "TryLock: unexpected parent of the heartbeat context `%s`", m[1])
		}
		s = next("register / go")
		if is(s, `l\.cancelStore\.RegisterCancelFunction\(cancelFunc\)`) != nil {
			F.set("f_hb_cancel_registered", "true")
			s = next("go heartBeat")
		} else {
			F.set("f_hb_cancel_registered", "false")
		}
		m = match(s, `go heartBeat\(subctx, l\.fs, l\.(\w+), heartBeatFilePath\)`, "TryLock go heartBeat")
		F.set("f_hb_spawn_period", pfield(m[1], s.Pos()))
		match(next("return nil"), `return nil`, "TryLock last")
		if i != len(l) {
			die(l[i].Pos(), "TryLock: unexpected trailing statement `%s`", src(l[i]))
		}
	}

	// ---- ReleaseIfStale, Unlock, LockWithTimeout
	{
		fd := mustFunc(lf, "RemoteLockFile", "ReleaseIfStale")
		body := src(fd.Body)
		switch body {
		case "{ if l.IsStale() { return l.Unlock(ctx) } return nil }":
			F.set("f_release", "RIfStaleUnlock")
		case "{ if !l.IsStale() { return l.Unlock(ctx) } return nil }":
			F.set("f_release", "RIfNotStaleUnlock")
		case "{ return l.Unlock(ctx) }":
			F.set("f_release", "RAlwaysUnlock")
		case "{ return nil }":
			F.set("f_release", "RNeverUnlock")
		default:
			die(fd.Pos(), "ReleaseIfStale: unexpected body `%s`", body)
		}
		ul := mustFunc(lf, "RemoteLockFile", "Unlock")
		if len(ul.Body.List) < 2 {
			die(ul.Pos(), "Unlock: too short")
		}
		first := src(ul.Body.List[0]) == "l.cancelStore.Cancel()"
		F.set("f_unlock_cancels_first", b(first))
		lastS := ul.Body.List[len(ul.Body.List)-1]
		if !strings.HasPrefix(src(lastS), "return retry.Do(") {
			die(lastS.Pos(), "Unlock: expected `return retry.Do(...)` last, found `%s`", src(lastS))
		}
		if !first {
			// anything before the removal that is not the cancellation must at least be a recognisable guard
			for _, s := range ul.Body.List[:len(ul.Body.List)-1] {
				if _, ok := s.(*ast.IfStmt); !ok && src(s) != "l.cancelStore.Cancel()" {
					die(s.Pos(), "Unlock: unexpected statement `%s`", src(s))
				}
			}
		} else if len(ul.Body.List) != 2 {
			die(ul.Pos(), "Unlock: unexpected statements between the cancellation and the removal")
		}
		lw := mustFunc(lf, "RemoteLockFile", "LockWithTimeout")
		lastS = lw.Body.List[len(lw.Body.List)-1]
		m := match(lastS, `return parallelisation\.RunActionWithTimeoutAndCancelStore\(ctx, timeout, (.+), l\.Lock\)`, "LockWithTimeout")
		F.set("f_lwt_own_store", b(m[1] == "l.cancelStore"))
	}

	// ---- RunActionWithTimeoutAndCancelStore
	{
		fd := mustFunc(pf, "", "RunActionWithTimeoutAndCancelStore")
		var sel *ast.SelectStmt
		for _, s := range fd.Body.List {
			if x, ok := s.(*ast.SelectStmt); ok {
				sel = x
			}
		}
		if sel == nil || len(sel.Body.List) != 2 {
			die(fd.Pos(), "RunActionWithTimeoutAndCancelStore: expected one select with two cases")
		}
		seen := 0
		for _, c := range sel.Body.List {
			cc := c.(*ast.CommClause)
			if cc.Comm == nil {
				die(cc.Pos(), "select with a default case")
			}
			switch src(cc.Comm) {
			case "err = <-channel":
				if len(cc.Body) < 1 {
					die(cc.Pos(), "result case: empty")
				}
				e := ifStmt(cc.Body[0], "result case error branch")
				if src(e.Cond) != "err != nil" || e.Else != nil {
					die(e.Pos(), "result case: expected `if err != nil {`, found `%s`", src(e.Cond))
				}
				F.set("f_x_err_branch", cancelCalls(e.Body.List, "result case, error branch"))
				F.set("f_x_ok_tail", cancelCalls(cc.Body[1:], "result case, tail"))
				seen++
			case "<-timeoutContext.Done()":
				F.set("f_x_timeout_branch", cancelCalls(cc.Body, "timeout case"))
				seen++
			default:
				die(cc.Pos(), "unexpected select case `%s`", src(cc.Comm))
			}
		}
		if seen != 2 {
			die(sel.Pos(), "select: both cases expected")
		}
	}

	var out bytes.Buffer
	out.WriteString("(* GENERATED by translator-c17/cmd/lock2coq from utils/filesystem/{lockfile.go,filetimes.go} and\n   utils/parallelisation/parallelisation.go of the repository's working tree — DO NOT EDIT; regenerated on every run of ./check C17. *)\n")
	out.WriteString("From Coq Require Import List ZArith.\nImport ListNotations.\nFrom GU Require Import C17.Facts.\nLocal Open Scope Z_scope.\n\n")
	out.WriteString("Definition gen_facts : facts := {|\n")
	out.WriteString(strings.Join(F.kv, ";\n"))
	out.WriteString("\n|}.\n")
	old, _ := os.ReadFile(os.Args[1])
	if !bytes.Equal(old, out.Bytes()) {
		if err := os.WriteFile(os.Args[1], out.Bytes(), 0o644); err != nil {
			fmt.Fprintln(os.Stderr, "lock2coq:", err)
			os.Exit(1)
		}
	}
}
