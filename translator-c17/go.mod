module verif/translatorc17

go 1.24.1
