// cfgfacts2coq reads utils/config/{service_configuration.go,validation.go,error.go} of $VERIF_REPO (default /repo) with
// go/parser and extracts the FACTS the Coq model of property C15 is parameterised by (coq/C15/Facts.v): it walks the
// anchored functions statement by statement and matches every statement (printed back from the AST, so comments and
// layout do not matter) against a CLOSED list of shapes; a statement that is none of them is an error (exit 1) — the tie
// between model and source must break rather than guess.  Output: coq/C15/Gen.v (Definition gen_facts : facts), written
// only when the content changes.
//
//	LoadFromEnvironment          the ORDER of its steps (defaults decoded, merged unconditionally, .env, setEnvOptions, file
//	                             merged, linkFlagKeysToStructureKeys, Unmarshal, Validate)
//	setEnvOptions                AllowEmptyEnv's argument, AutomaticEnv, the pairs of the env key replacer
//	generateEnvVarConfigKeys     which (lowered or not) variables HasPrefix / TrimPrefix work on, the separator trimmed,
//	                             the else branch
//	generateEnvVarConfigKey      flagKeyPrefix, separator, replacer pair
//	cleanseEnvVar                separator, replacer pair, ToUpper, empty-prefix handling
//	linkFlagKeysToStructureKeys  !isFlagKey guard, how flagKey is derived (prefix stripping or not), the two emptiness guards
//	flattenDefaultsMap, DetermineConfigurationEnvironmentVariables   ToUpper, separators, prefix joined as is, empty prefix
//	ValidateEmbedded             Kind()==Struct only, `continue` vs `return nil` without Validate, first error returned
//	RecordField, GetMapStructurePath, newValidationErrorFromOzzoValidationErrors
package main

import (
	"bytes"
	"fmt"
	"go/ast"
	"go/parser"
	"go/printer"
	"go/token"
	"os"
	"path/filepath"
	"regexp"
	"strconv"
	"strings"
)

var fset = token.NewFileSet()

func die(format string, a ...any) {
	fmt.Fprintf(os.Stderr, "cfgfacts2coq: unsupported shape: %s\n", fmt.Sprintf(format, a...))
	os.Exit(1)
}

func src(n ast.Node) string {
	var b bytes.Buffer
	_ = printer.Fprint(&b, fset, n)
	return strings.Join(strings.Fields(b.String()), " ")
}

var funcs = map[string]*ast.FuncDecl{}
var consts = map[string]string{}

func load(path string) {
	f, err := parser.ParseFile(fset, path, nil, 0)
	if err != nil {
		fmt.Fprintln(os.Stderr, "cfgfacts2coq:", err)
		os.Exit(1)
	}
	for _, d := range f.Decls {
		switch x := d.(type) {
		case *ast.FuncDecl:
			if x.Body == nil {
				continue
			}
			name := x.Name.Name
			if x.Recv != nil && len(x.Recv.List) == 1 {
				t := x.Recv.List[0].Type
				if st, ok := t.(*ast.StarExpr); ok {
					t = st.X
				}
				if id, ok := t.(*ast.Ident); ok {
					name = id.Name + "." + name
				}
			}
			funcs[name] = x
		case *ast.GenDecl:
			if x.Tok != token.CONST {
				continue
			}
			for _, sp := range x.Specs {
				vs := sp.(*ast.ValueSpec)
				for i, n := range vs.Names {
					if i < len(vs.Values) {
						if bl, ok := vs.Values[i].(*ast.BasicLit); ok && bl.Kind == token.STRING {
							if s, err := strconv.Unquote(bl.Value); err == nil {
								consts[n.Name] = s
							}
						}
					}
				}
			}
		}
	}
}

func body(name string) []ast.Stmt {
	fd, ok := funcs[name]
	if !ok {
		die("function %s not found", name)
	}
	return fd.Body.List
}

func bodyText(name string) string {
	var parts []string
	for _, s := range body(name) {
		parts = append(parts, src(s))
	}
	return strings.Join(parts, " ; ")
}

// str resolves a string literal or a package constant
func str(e string) string {
	e = strings.TrimSpace(e)
	if strings.HasPrefix(e, "\"") {
		s, err := strconv.Unquote(e)
		if err != nil {
			die("string literal %s", e)
		}
		return s
	}
	if v, ok := consts[e]; ok {
		return v
	}
	die("%s is neither a string literal nor a string constant of the package", e)
	return ""
}

func byteOf(e string) int {
	s := str(e)
	if len(s) != 1 {
		die("%s = %q is not a single byte", e, s)
	}
	return int(s[0])
}

func match(re, text, what string) []string {
	m := regexp.MustCompile("^" + re + "$").FindStringSubmatch(text)
	if m == nil {
		die("%s: %s", what, text)
	}
	return m
}

func b(v bool) string {
	if v {
		return "true"
	}
	return "false"
}

func zlist(s string) string {
	ts := make([]string, len(s))
	for i := 0; i < len(s); i++ {
		ts[i] = strconv.Itoa(int(s[i]))
	}
	return "[" + strings.Join(ts, "; ") + "]"
}

const arg = `([A-Za-z_][A-Za-z0-9_]*|"(?:[^"\\]|\\.)*")`

func main() {
	repo := os.Getenv("VERIF_REPO")
	if repo == "" {
		repo = "/repo"
	}
	if len(os.Args) != 2 {
		fmt.Fprintln(os.Stderr, "usage: cfgfacts2coq <out Gen.v>")
		os.Exit(2)
	}
	dir := filepath.Join(repo, "utils", "config")
	for _, f := range []string{"service_configuration.go", "validation.go", "error.go"} {
		load(filepath.Join(dir, f))
	}
	q := regexp.QuoteMeta

	// ---- LoadFromEnvironment: the order of the steps ----
	var steps []string
	{
		st := body("LoadFromEnvironment")
		ifRet := "if err != nil { return }"
		for i := 0; i < len(st); i++ {
			t := src(st[i])
			next := ""
			if i+1 < len(st) {
				next = src(st[i+1])
			}
			switch {
			case t == "var defaults map[string]interface{}" || t == "var defaults map[string]any":
			case t == "err = mapstructure.Decode(defaultConfiguration, &defaults)" && next == ifRet:
				steps = append(steps, "StDecodeDefaults")
				i++
			case t == "err = viperSession.MergeConfigMap(defaults)" && next == ifRet:
				steps = append(steps, "StMergeDefaults")
				i++
			case t == "_ = godotenv.Load(DotEnvFile)":
				steps = append(steps, "StDotEnv")
			case t == "setEnvOptions(viperSession, envVarPrefix)":
				steps = append(steps, "StEnvOptions")
			case t == `if configFile != "" { err = LoadFromConfigurationFile(viperSession, configFile) if err != nil { return } }`:
				steps = append(steps, "StMergeFile")
			case t == "linkFlagKeysToStructureKeys(viperSession)" || t == "linkFlagKeysToStructureKeys(viperSession, envVarPrefix)":
				steps = append(steps, "StLink")
			case t == "err = viperSession.Unmarshal(configurationToSet)" &&
				regexp.MustCompile(`^if err != nil \{ err = commonerrors\.WrapError\(commonerrors\.ErrMarshalling, err, "[^"]*"\) return \}$`).MatchString(next):
				steps = append(steps, "StUnmarshal")
				i++
			case t == "err = WrapValidationError(field.ToOptionalString(envVarPrefix), configurationToSet.Validate())" && next == "return" && i+2 == len(st):
				steps = append(steps, "StValidate")
				i++
			default:
				die("LoadFromEnvironment statement %d: %s", i, t)
			}
		}
		seen := map[string]bool{}
		for _, s := range steps {
			if seen[s] {
				die("LoadFromEnvironment: step %s occurs twice", s)
			}
			seen[s] = true
		}
	}

	// ---- setEnvOptions ----
	allowEmpty, automatic := false, false
	var envRepl [][2]int
	{
		seenAllow, seenRepl, seenPrefix := false, false, false
		for _, s := range body("setEnvOptions") {
			t := src(s)
			switch {
			case t == "viperSession.SetEnvPrefix(envVarPrefix)":
				seenPrefix = true
			case t == "viperSession.AllowEmptyEnv(false)":
				seenAllow = true
			case t == "viperSession.AllowEmptyEnv(true)":
				seenAllow, allowEmpty = true, true
			case t == "viperSession.AutomaticEnv()":
				automatic = true
			case strings.HasPrefix(t, "viperSession.SetEnvKeyReplacer(strings.NewReplacer(") && strings.HasSuffix(t, "))"):
				seenRepl = true
				args := strings.Split(strings.TrimSuffix(strings.TrimPrefix(t, "viperSession.SetEnvKeyReplacer(strings.NewReplacer("), "))"), ",")
				if len(args)%2 != 0 || len(args) == 0 {
					die("setEnvOptions: replacer arguments: %s", t)
				}
				for i := 0; i < len(args); i += 2 {
					envRepl = append(envRepl, [2]int{byteOf(args[i]), byteOf(args[i+1])})
				}
			default:
				die("setEnvOptions: %s", t)
			}
		}
		if !seenAllow || !seenRepl || !seenPrefix {
			die("setEnvOptions: SetEnvPrefix / AllowEmptyEnv / SetEnvKeyReplacer missing")
		}
	}

	// ---- generateEnvVarConfigKeys ----
	lowered := func(v, plain, low string) bool {
		switch v {
		case low:
			return true
		case plain:
			return false
		}
		die("generateEnvVarConfigKeys: unexpected operand %s", v)
		return false
	}
	m := match(`envVarLower := strings\.ToLower\(envVar\) ; envVarPrefixLower := strings\.ToLower\(envVarPrefix\) ; hasPrefix := strings\.HasPrefix\((\w+), (\w+)\) ; var short string ; if hasPrefix \{ short = (.*) \} else \{ short = (.*) \} ; shortKey = generateEnvVarConfigKey\(short\) ; cleansedEnvVar = cleanseEnvVar\(envVarPrefix, short\) ; return`,
		bodyText("generateEnvVarConfigKeys"), "generateEnvVarConfigKeys")
	cmpEnv, cmpPre := lowered(m[1], "envVar", "envVarLower"), lowered(m[2], "envVarPrefix", "envVarPrefixLower")
	var trimEnv, trimPre bool
	trimSep := "None"
	if mm := regexp.MustCompile(`^strings\.TrimPrefix\(strings\.TrimPrefix\((\w+), (\w+)\), ` + arg + `\)$`).FindStringSubmatch(m[3]); mm != nil {
		trimEnv, trimPre = lowered(mm[1], "envVar", "envVarLower"), lowered(mm[2], "envVarPrefix", "envVarPrefixLower")
		trimSep = fmt.Sprintf("(Some %d)", byteOf(mm[3]))
	} else if mm := regexp.MustCompile(`^strings\.TrimPrefix\((\w+), (\w+)\)$`).FindStringSubmatch(m[3]); mm != nil {
		trimEnv, trimPre = lowered(mm[1], "envVar", "envVarLower"), lowered(mm[2], "envVarPrefix", "envVarPrefixLower")
	} else {
		die("generateEnvVarConfigKeys: then-branch %s", m[3])
	}
	var elseLow bool
	switch m[4] {
	case "strings.ToLower(envVar)", "envVarLower":
		elseLow = true
	case "envVar":
		elseLow = false
	default:
		die("generateEnvVarConfigKeys: else-branch %s", m[4])
	}

	// ---- generateEnvVarConfigKey ----
	m = match(`key = fmt\.Sprintf\("%v%v%v", `+arg+`, `+arg+`, strings\.NewReplacer\(`+arg+`, `+arg+`\)\.Replace\(shortEnvVar\)\) ; return`,
		bodyText("generateEnvVarConfigKey"), "generateEnvVarConfigKey")
	flagPrefix, keySep, keyRepl := str(m[1]), byteOf(m[2]), [2]int{byteOf(m[3]), byteOf(m[4])}
	if m[1] != "flagKeyPrefix" {
		die("generateEnvVarConfigKey: the prefix is %s, not flagKeyPrefix", m[1])
	}
	if t := bodyText("isFlagKey"); t != "return strings.HasPrefix(key, flagKeyPrefix)" {
		die("isFlagKey: %s", t)
	}

	// ---- cleanseEnvVar ----
	var clSep int
	var clRepl [2]int
	var clUpper, clBare bool
	{
		t := bodyText("cleanseEnvVar")
		wrap := func(inner string) {
			if mm := regexp.MustCompile(`^strings\.ToUpper\(strings\.NewReplacer\(` + arg + `, ` + arg + `\)\.Replace\((.*)\)\)$`).FindStringSubmatch(inner); mm != nil {
				clUpper, clRepl = true, [2]int{byteOf(mm[1]), byteOf(mm[2])}
			} else if mm := regexp.MustCompile(`^strings\.NewReplacer\(` + arg + `, ` + arg + `\)\.Replace\((.*)\)$`).FindStringSubmatch(inner); mm != nil {
				clUpper, clRepl = false, [2]int{byteOf(mm[1]), byteOf(mm[2])}
			} else {
				die("cleanseEnvVar: %s", inner)
			}
		}
		if mm := regexp.MustCompile(`^envVar := shortEnvVar ; if envVarPrefix != "" \{ envVar = fmt\.Sprintf\("%v%v%v", envVarPrefix, ` + arg + `, shortEnvVar\) \} ; cleansedEnvVar = (.*\(envVar\)\)?) ; return$`).FindStringSubmatch(t); mm != nil {
			clBare, clSep = true, byteOf(mm[1])
			wrap(mm[2])
		} else if mm := regexp.MustCompile(`^cleansedEnvVar = (.*)\(fmt\.Sprintf\("%v%v%v", envVarPrefix, ` + arg + `, shortEnvVar\)\)(\)?) ; return$`).FindStringSubmatch(t); mm != nil {
			clBare, clSep = false, byteOf(mm[2])
			wrap(mm[1] + "(x)" + mm[3])
		} else {
			die("cleanseEnvVar: %s", t)
		}
	}

	// ---- linkFlagKeysToStructureKeys ----
	var skipsFlagKeys, strips, guardNonEmpty, guardCurrentEmpty bool
	{
		t := bodyText("linkFlagKeysToStructureKeys")
		m = match(`keys := viperSession\.AllKeys\(\) ; for i := range keys \{ key := keys\[i\] (.*) \}`, t, "linkFlagKeysToStructureKeys")
		inner := m[1]
		if mm := regexp.MustCompile(`^if !isFlagKey\(key\) \{ (.*) \}$`).FindStringSubmatch(inner); mm != nil {
			skipsFlagKeys, inner = true, mm[1]
		}
		mm := regexp.MustCompile(`^(flagKey := generateEnvVarConfigKey\(key\)|flagKey, _ := generateEnvVarConfigKeys\(key, envVarPrefix\)) if viperSession\.IsSet\(flagKey\) \{ viperSession\.Set\(key, viperSession\.Get\(flagKey\)\) \} else \{ value := viperSession\.Get\(flagKey\) (.*) \} viperSession\.RegisterAlias\(flagKey, key\)$`).FindStringSubmatch(inner)
		if mm == nil {
			die("linkFlagKeysToStructureKeys loop body: %s", inner)
		}
		strips = strings.HasPrefix(mm[1], "flagKey, _")
		els := mm[2]
		if g := regexp.MustCompile(`^if !reflection\.IsEmpty\(value\) \{ (.*) \}$`).FindStringSubmatch(els); g != nil {
			guardNonEmpty, els = true, g[1]
		}
		switch els {
		case "viperSession.SetDefault(key, value) if reflection.IsEmpty(viperSession.Get(key)) { viperSession.Set(key, value) }":
			guardCurrentEmpty = true
		case "viperSession.SetDefault(key, value) viperSession.Set(key, value)":
			guardCurrentEmpty = false
		default:
			die("linkFlagKeysToStructureKeys else-branch: %s", els)
		}
	}

	// ---- multiFlags (BindFlagsToEnv): what the scans do at a nil member ----
	changedNil, valueNil := "NilSkip", "NilSkip"
	{
		t := bodyText("multiFlags.HasChanged")
		switch {
		case t == `for i := range m.flags { flag := m.flags[i] if flag != nil && flag.Changed { return true } } ; return false`:
		case regexp.MustCompile(`^for i := range m\.flags \{ flag := m\.flags\[i\] if flag == nil \{ continue \} if flag\.Changed \{ return true \} \} ; return false$`).MatchString(t):
		case regexp.MustCompile(`^for i := range m\.flags \{ flag := m\.flags\[i\] if flag == nil \{ (break|return false) \} if flag\.Changed \{ return true \} \} ; return false$`).MatchString(t):
			changedNil = "NilStop"
		default:
			die("multiFlags.HasChanged: %s", t)
		}
		t = bodyText("multiFlags.ValueString")
		head, tail := `var values []string ; var firstValue string ; for i := range m.flags { flag := m.flags[i] `, ` } ; values = collection.UniqueEntries(values) ; if len(values) >= 1 { return values[0] } else { return firstValue }`
		switch t {
		case head + `if flag != nil { firstValue = flag.Value.String() if flag.Changed { values = append(values, flag.Value.String()) } }` + tail,
			head + `if flag == nil { continue } firstValue = flag.Value.String() if flag.Changed { values = append(values, flag.Value.String()) }` + tail:
		case head + `if flag == nil { break } firstValue = flag.Value.String() if flag.Changed { values = append(values, flag.Value.String()) }` + tail:
			valueNil = "NilStop"
		default:
			die("multiFlags.ValueString: %s", t)
		}
		if t := bodyText("multiFlags.ValueType"); t != `for i := range m.flags { flag := m.flags[i] if flag != nil { vType := flag.Value.Type() if vType != "" { return vType } } } ; return ""` {
			die("multiFlags.ValueType: %s", t)
		}
		if t := bodyText("BindFlagsToEnv"); t != `setEnvOptions(viperSession, envVarPrefix) ; shortKey, cleansedEnvVar := generateEnvVarConfigKeys(envVar, envVarPrefix) ; flagset, err := newMultiFlags(shortKey, flags...) ; if err != nil { return } ; err = viperSession.BindFlagValue(shortKey, flagset) ; if err != nil { return } ; err = viperSession.BindEnv(shortKey, cleansedEnvVar) ; return` {
			die("BindFlagsToEnv: %s", t)
		}
		if t := bodyText("BindFlagToEnv"); t != `setEnvOptions(viperSession, envVarPrefix) ; shortKey, cleansedEnvVar := generateEnvVarConfigKeys(envVar, envVarPrefix) ; err = viperSession.BindPFlag(shortKey, flag) ; if err != nil { return } ; err = viperSession.BindEnv(shortKey, cleansedEnvVar) ; return` {
			die("BindFlagToEnv: %s", t)
		}
	}

	// ---- flattenDefaultsMap ----
	m = match(`output := make\(map\[string\]interface\{\}\) ; for key, value := range m \{ switch child := value\.\(type\) \{ case map\[string\]interface\{\}: next := flattenDefaultsMap\(child\) for nextKey, nextValue := range next \{ output\[(strings\.ToUpper\()?fmt\.Sprintf\("%s(.)%s", key, nextKey\)\)?\] = nextValue \} default: output\[(strings\.ToUpper\(key\)|key)\] = value \} \} ; return output`,
		bodyText("flattenDefaultsMap"), "flattenDefaultsMap")
	flatUpperNested, flatSep, flatUpperLeaf := m[1] != "", int(m[2][0]), m[3] != "key"

	// ---- DetermineConfigurationEnvironmentVariables ----
	var detUpper, detBare bool
	var detSep int
	{
		t := bodyText("DetermineConfigurationEnvironmentVariables")
		head := `withoutPrefix := make\(map\[string\]interface\{\}\) ; if reflection\.IsEmpty\(configurationToDecode\) \{ err = commonerrors\.UndefinedVariable\("[^"]*"\) return \} ; err = mapstructure\.Decode\(configurationToDecode, &withoutPrefix\) ; if err != nil \{ return \} ; withoutPrefix = flattenDefaultsMap\(withoutPrefix\) ; defaults = make\(map\[string\]interface\{\}\) ; for key, value := range withoutPrefix \{ `
		join := `fmt\.Sprintf\("%s(.)%s", (strings\.ToUpper\(appName\)|appName), key\)`
		tail := ` defaults\[newKey\] = value \} ; return`
		if mm := regexp.MustCompile("^" + head + `newKey := key if appName != "" \{ newKey = ` + join + ` \}` + tail + "$").FindStringSubmatch(t); mm != nil {
			detBare, detSep, detUpper = true, int(mm[1][0]), mm[2] != "appName"
		} else if mm := regexp.MustCompile("^" + head + `newKey := ` + join + tail + "$").FindStringSubmatch(t); mm != nil {
			detBare, detSep, detUpper = false, int(mm[1][0]), mm[2] != "appName"
		} else {
			die("DetermineConfigurationEnvironmentVariables: %s", t)
		}
	}

	// ---- ValidateEmbedded / wrapFieldValidationError ----
	m = match(`r := reflect\.ValueOf\(cfg\)\.Elem\(\) ; for i := 0; i < r\.NumField\(\); i\+\+ \{ f := r\.Field\(i\) if f\.Kind\(\) == reflect\.Struct \{ validator, ok := f\.Addr\(\)\.Interface\(\)\.\(Validator\) if !ok \{ (continue|return nil) \} err := validator\.Validate\(\) field := r\.Type\(\)\.Field\(i\) err = wrapFieldValidationError\(field, err\)( if err != nil \{ return err \})? \} \} ; return nil`,
		bodyText("ValidateEmbedded"), "ValidateEmbedded")
	skip, firstErr := "SkipContinue", m[2] != ""
	if m[1] != "continue" {
		skip = "SkipReturnNil"
	}
	if t := bodyText("wrapFieldValidationError"); t != `mapStructureStr, hasTag := field.Tag.Lookup("mapstructure") ; mapStructure := &mapStructureStr ; if !hasTag { mapStructure = nil } ; err = WrapFieldValidationError(field.Name, mapStructure, nil, err) ; return err` {
		die("wrapFieldValidationError: %s", t)
	}
	if t := bodyText("WrapFieldValidationError"); t != `vErr := newValidationError(err) ; if vErr == nil { return nil } ; vErr.RecordField(fieldName, mapStructure, prefix) ; return vErr` {
		die("WrapFieldValidationError: %s", t)
	}

	// ---- validationError.RecordField ----
	var treePrepend, msPrepend, msUpper bool
	{
		t := bodyText("validationError.RecordField")
		own, rest := `tree = append\(tree, strings\.TrimSpace\(fieldName\)\)`, `tree = append\(tree, v\.tree\.\.\.\)`
		mown, mrest := `treeMap = append\(treeMap, (strings\.ToUpper\()?strings\.TrimSpace\(\*mapStructureFieldName\)\)?\)`, `treeMap = append\(treeMap, v\.mapStructureTree\.\.\.\)`
		mm := regexp.MustCompile(`^tree := make\(\[\]string, 0, len\(v\.tree\)\+1\) ; (` + own + ` ; ` + rest + `|` + rest + ` ; ` + own + `) ; v\.tree = tree ; if mapStructureFieldName != nil \{ treeMap := make\(\[\]string, 0, len\(v\.mapStructureTree\)\+1\) (` + mown + ` ` + mrest + `|` + mrest + ` ` + mown + `) v\.mapStructureTree = treeMap \} ; v\.mapStructurePrefix = mapStructurePrefix$`).FindStringSubmatch(t)
		if mm == nil {
			die("validationError.RecordField: %s", t)
		}
		treePrepend = strings.HasPrefix(mm[1], "tree = append(tree, strings.TrimSpace")
		msPrepend = strings.HasPrefix(mm[2], "treeMap = append(treeMap, strings.")
		msUpper = strings.Contains(mm[2], "strings.ToUpper(")
	}

	// ---- validationError.GetMapStructurePath ----
	m = match(`mapstructureStr := "" ; if len\(v\.mapStructureTree\) > 0 \{ mapstructureStr = strings\.Join\(v\.mapStructureTree, `+arg+`\) mapstructureStr = strings\.ReplaceAll\(mapstructureStr, `+arg+`, `+arg+`\) if v\.mapStructurePrefix != nil \{ mapstructureStr = fmt\.Sprintf\("%v_%v", (strings\.ToUpper\()?strings\.TrimSpace\(\*v\.mapStructurePrefix\)\)?, mapstructureStr\) \} \} ; return mapstructureStr`,
		bodyText("validationError.GetMapStructurePath"), "validationError.GetMapStructurePath")
	msJoin, msRepl, msPrefixUpper := byteOf(m[1]), [2]int{byteOf(m[2]), byteOf(m[3])}, m[4] != ""

	// ---- newValidationErrorFromOzzoValidationErrors ----
	match(`if len\(oes\) == 0 \{ return &validationError\{ ?reason: oes\.Error\(\),? ?\} \} ; params := maps\.Keys\(oes\) ; slices\.Sort\(params\) ; param := params\[0\] ; veo := &validationError\{ ?reason: oes\[param\]\.Error\(\),? ?\} ; veo\.RecordField\(param, nil, nil\) ; return veo`,
		bodyText("newValidationErrorFromOzzoValidationErrors"), "newValidationErrorFromOzzoValidationErrors")
	// newValidationError: the fallback for errors that are neither validation errors nor ozzo errors keeps the whole text of
	// a plain error (GetCommonErrorReason, not GetErrorReason which cuts at the first colon)
	if t := bodyText("newValidationError"); !strings.HasSuffix(t, `; reason, subErr := commonerrors.GetCommonErrorReason(err) ; if subErr != nil { reason = err.Error() } ; return &validationError{ reason: reason, }`) ||
		!strings.HasPrefix(t, `if err == nil { return nil } ; var vErr *validationError ; if errors.As(err, &vErr) { return vErr } ; var ve IValidationError ; if errors.As(err, &ve) { return newValidationErrorFromIValidationError(ve) } ; var oe validation.Error ; if errors.As(err, &oe) { return newValidationErrorFromOzzoValidation(oe) } ; var oes validation.Errors ; if errors.As(err, &oes) { return newValidationErrorFromOzzoValidationErrors(oes) } ;`) {
		die("newValidationError: %s", t)
	}
	if t := bodyText("validationError.Unwrap"); t != "return commonerrors.ErrInvalid" {
		die("validationError.Unwrap: %s", t)
	}

	// ---- output ----
	pair := func(p [2]int) string { return fmt.Sprintf("(%d, %d)", p[0], p[1]) }
	var er []string
	for _, p := range envRepl {
		er = append(er, pair(p))
	}
	var o strings.Builder
	o.WriteString("(* GENERATED by translator-c15/cmd/cfgfacts2coq from utils/config/{service_configuration,validation,error}.go of the\n   repository's working tree — DO NOT EDIT; regenerated on every run of ./check C15. *)\n")
	o.WriteString("From Coq Require Import List ZArith.\nImport ListNotations.\nFrom GU Require Import C15.Facts.\nLocal Open Scope Z_scope.\n\n")
	o.WriteString("Definition gen_facts : facts := {|\n")
	fmt.Fprintf(&o, "  lf := {| l_steps := [%s];\n           l_allow_empty_env := %s; l_automatic_env := %s; l_link_skips_flagkeys := %s; l_link_strips_prefix := %s;\n           l_set_when_isset := true; l_guard_default_nonempty := %s; l_guard_current_empty := %s;\n           l_multi_changed_nil := %s; l_multi_value_nil := %s |};\n",
		strings.Join(steps, "; "), b(allowEmpty), b(automatic), b(skipsFlagKeys), b(strips), b(guardNonEmpty), b(guardCurrentEmpty), changedNil, valueNil)
	fmt.Fprintf(&o, "  kf := {| k_env_replacer := [%s];\n           k_cmp_envvar_lowered := %s; k_cmp_prefix_lowered := %s; k_trim_envvar_lowered := %s; k_trim_prefix_lowered := %s;\n           k_trim_sep := %s; k_else_lowered := %s;\n           k_flagprefix := %s;\n           k_key_sep := %d; k_key_repl := %s; k_cl_sep := %d; k_cl_repl := %s; k_cl_upper := %s; k_cl_empty_prefix_bare := %s |};\n",
		strings.Join(er, "; "), b(cmpEnv), b(cmpPre), b(trimEnv), b(trimPre), trimSep, b(elseLow), zlist(flagPrefix), keySep, pair(keyRepl), clSep, pair(clRepl), b(clUpper), b(clBare))
	fmt.Fprintf(&o, "  nf := {| n_flat_upper_leaf := %s; n_flat_upper_nested := %s; n_flat_sep := %d;\n           n_det_prefix_upper := %s; n_det_sep := %d; n_det_empty_prefix_bare := %s |};\n",
		b(flatUpperLeaf), b(flatUpperNested), flatSep, b(detUpper), detSep, b(detBare))
	fmt.Fprintf(&o, "  vf := {| v_struct_kind_only := true; v_skip_no_validator := %s; v_first_error_returned := %s;\n           v_tree_prepend := %s; v_ms_prepend := %s; v_ms_upper := %s; v_ms_join := %d; v_ms_repl := %s;\n           v_ms_prefix_upper := %s; v_ozzo_sorted_first := true |}\n|}.\n",
		skip, b(firstErr), b(treePrepend), b(msPrepend), b(msUpper), msJoin, pair(msRepl), b(msPrefixUpper))
	out := o.String()
	if old, err := os.ReadFile(os.Args[1]); err == nil && string(old) == out {
		return
	}
	if err := os.WriteFile(os.Args[1], []byte(out), 0o644); err != nil {
		fmt.Fprintln(os.Stderr, "cfgfacts2coq:", err)
		os.Exit(1)
	}
	_ = q
}
