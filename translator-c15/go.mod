module verif/translatorc15

go 1.23
